module c36
go 1.23
require github.com/cosmos72/gomacro v0.0.0
replace github.com/cosmos72/gomacro => /repo
