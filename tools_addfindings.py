#!/usr/bin/env python3
"""Dev helper: append the violations of replay/<prop>-<tier>.json to known_findings.json as 'known'
entries after they have been triaged as genuine defects. usage: tools_addfindings.py C01 quick F2 'what' [rule-filter]"""
import json,sys
prop,tier,fid,what=sys.argv[1:5]
flt=sys.argv[5] if len(sys.argv)>5 else ''
r=json.load(open(f'/verif/replay/{prop}-{tier}.json'))
k=json.load(open('/verif/known_findings.json'))
have={(f['property'],f['rule'],f['construct']) for f in k['findings']}
n=0
for v in r['violations']:
    if flt and flt not in v['rule']: continue
    key=(prop,v['rule'],v['construct'])
    if key in have: continue
    k['findings'].append({"id":fid,"property":prop,"rule":v['rule'],"construct":v['construct'],"status":"known","what":what})
    n+=1
json.dump(k,open('/verif/known_findings.json','w'),indent=1)
print('added',n)
