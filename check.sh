#!/bin/sh
# usage: /verif/check.sh <property> [quick|thorough]
# Rebuilds the checker if needed and analyses /repo's current working tree.
export GOFLAGS=-mod=mod GOPROXY=off GOSUMDB=off GOTOOLCHAIN=local GOWORK=off
unset GOOS GOARCH
D=$(cd "$(dirname "$0")" && pwd)
(cd "$D/checker" && go build -o "$D/bin/gmcheck" .) || { echo "ERROR: cannot build checker"; exit 2; }
exec "$D/bin/gmcheck" -verif "$D" -property "$1" -tier "${2:-${VERIF_TIER:-quick}}"
