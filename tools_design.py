#!/usr/bin/env python3
"""Assembles /verif/DESIGN.md from design/*.md, `bin/gmcheck -doc`, known_findings.json, exceptions.json, MANIFEST.json and
seeded/*/meta.json. Run after the evidence files are up to date (the per-property section quotes the last run)."""
import json, os, re, subprocess, glob
V = '/verif'
def rd(p): return open(os.path.join(V, p)).read()

FOUNDBY = {
 'F1': 'reading', 'F2': 'reading, then rule A7 (identity table)', 'F3': 'reading', 'F4': 'reading', 'F5a': 'reading', 'F5b': 'reading', 'F5c': 'reading',
 'F6': 'reading (sibling of DeclFunc without roll-back)', 'F7': 'reading', 'F8': 'reading', 'F9a': 'reading / design spike; rule T5', 'F9b': 'design spike; rule T3 in the 32-bit configuration of the thorough tier (listed late: the thorough tier of C31 had not been re-run after the configurations were added)', 'F9c': 'design spike; rule T3', 'F9d': 'rule T5 (table agreement)',
 'F10': 'reading', 'F11': 'reading', 'F12': 'reading (sibling arms)', 'F13': 'reading (sibling arms)', 'F14': 'reading (dead code); rule A5-complete reports it',
 'F15': 'rule A4b (Ints guard)', 'F16': 'rule A4 (storage)', 'F17': 'rule (mirror/identity use)', 'F18': 'reading while writing rule B1; rule B1-signature reports it',
 'F19': 'sub-agent (C03)', 'F21': 'sub-agent (C03)', 'F22': 'reading while writing the C36 rules', 'F23': 'reading while writing the C36 rules',
 'F24': 'rule N3 (written after seed C18-3)', 'F25': 'sub-agent (C19)', 'F26': 'sub-agent (C39)', 'F27': 'analysis of seed C39-2 + sub-agent (C39)', 'F28': 'sub-agent (C27)', 'F29': 'sub-agent (C05, round 2); rule G1 written with the fix', 'F33': 'reading fast/range.go after F29; rule G1 written with the fix', 'F34': 'reading fast/range.go; rule A4-ints-guard extended to local places with the fix', 'F30': 'sub-agent (C05, round 2); rule S2 written with the fix', 'F31': 'sub-agent (C05, round 2); rule J2 corrected with the fix (it had encoded the defective loop shape as the expected one)', 'F35': 'sub-agent (C01, round 2); the identity table of rule A7 had the same mistake and was corrected', 'F36': 'sub-agent (C01, round 2); rule A7 extended to compile-time rejections', 'F37': 'sub-agent (C06, round 2); rule E3 written with the fix', 'F38': 'sub-agent (C06 and C07, round 2); rule R2 written with the fix', 'F39': 'sub-agents (C06, C14, round 2); rule V2 written with the fix', 'F40': 'sub-agent (C02, round 2); rule M1 written with the fix', 'F41': 'sub-agent (C02, round 2); rule A7s written with the fix', 'F42': 'sub-agent (C08, round 2); rule B2 written with the fix', 'F43': 'sub-agent (C08, round 2); rule B3 written with the fix', 'F44': 'sub-agent (C14, round 2); NB1 corrected (it had encoded the one-slot test) and PE2 written with the fix', 'F45': 'sub-agent (C10, round 2, with the race detector); rule H2 written afterwards reports exactly these five functions', 'F46': 'sub-agent (C26, round 2); the transition table of rule R6 lacked the same self-loop and was completed', 'F47': 'sub-agent (C26, round 2); rule R9 written with the fix', 'F48': 'sub-agents (C18, C37, C39, round 2); rule X8b written with the fix', 'F49': 'sub-agents (C37, C39, round 2); rule L5c written with the fix', 'F59': 'sub-agents (C08, rounds 2 and 3); rule I2 written with the fix', 'F58': 'sub-agents (C03, C04, rounds 2 and 3); rule A2u written first, it reports exactly this site among 122', 'F57': 'sub-agents (C04, rounds 2 and 3); rule K7 written with the fix', 'F55': 'sub-agent (C10, round 3); rules S5 and N7 written with the fix', 'F56': 'rule N7 (written for F55) on the unchanged tree; reproduced, then fixed', 'F54': 'sub-agent (C10, round 3); direct-invocation clause of rule E5 written with the fix', 'F53': 'sub-agents (C08, rounds 2 and 3); rule B4 written with the fix', 'F52': 'sub-agent (C05, round 3); rule Y8 written with the fix', 'F51': 'sub-agent (C02, round 3); rule P5 written with the fix', 'F50': 'sub-agent (C29, round 2); generic rule Z1 written with the fix reports exactly these two sites in the repository', 'F32': 'reading fast/range.go while confirming a sub-agent report (C05); rule A3-depth-loop written with the fix',
}

def findings_table():
    d = json.load(open(f'{V}/known_findings.json'))['findings']
    groups = {}
    for f in d:
        groups.setdefault((f['id'], f['property'], f['status'], f.get('commit', '')), []).append(f)
    def keyf(k):
        m = re.match(r'F(\d+)(.*)', k[0]); return (int(m.group(1)), m.group(2), k[1])
    out = ['| id | property | status | rule → construct(s) | first seen by | what fails (reproduced) |', '|---|---|---|---|---|---|']
    for k in sorted(groups, key=keyf):
        fs = groups[k]
        cons = sorted({f"{f['rule']} → `{f['construct']}`" for f in fs})
        c = '; '.join(cons[:3]) + (f' … ({len(cons)} constructs)' if len(cons) > 3 else '')
        st = k[2] + (f" `{k[3]}`" if k[3] else '')
        what = fs[0]['what'].replace('|', '\\|').replace('\n', ' ')
        out.append(f"| {k[0]} | {k[1]} | {st} | {c} | {FOUNDBY.get(k[0], '')} | {what} |")
    ids = {f['id'] for f in d}
    nfixed = len({f['id'] for f in d if f['status'] == 'fixed'})
    nknown_constructs = len([f for f in d if f['status'] == 'known'])
    return '\n'.join(out), len(ids), nfixed, nknown_constructs

def seeds_tables():
    rows, misses, after = [], [], []
    n = det = neutral = noapply = 0
    for p in sorted(glob.glob(f'{V}/seeded/C*-*/meta.json')):
        m = json.load(open(p))
        n += 1
        s = m['seed']
        summ = re.sub(r'\s+', ' ', m.get('summary', ''))[:230].replace('|', '\\|')
        if m.get('detected'):
            det += 1
            res = 'yes: ' + ', '.join(m['detected_by_rules'])
        elif m.get('detected') is None:
            noapply += 1
            res = 'patch no longer applies'
        else:
            res = 'no'
            note = m.get('note', '')
            if note.startswith('neutralised'):
                neutral += 1
            misses.append(f"* **{s}** — {summ[:160]}… — {note}")
        hist = m.get('rule_history', '')
        rows.append(f"| {s} | {summ} | {res} | {hist} |")
        if hist:
            after.append(s)
    t = ['| seed | change (agent\'s summary, abridged) | detected by | rule history |', '|---|---|---|---|'] + rows
    totals = (f"{n} confirmed seeded changes; {det} reported by the checks as committed; {n - det - noapply} not reported"
              + (f" ({neutral} of them no longer breaks the property after a fix commit)" if neutral else '')
              + (f"; {noapply} no longer apply to the repaired tree" if noapply else '')
              + f". For {len(after)} of the {det} detected seeds the detecting rule (or the clause that detects it) was added or strengthened after the seed was seen; "
              f"{det - len([s for s in after])} were reported by rules that existed before the seed was produced.")
    return '\n'.join(t), totals, '\n'.join(misses), n, det

def main():
    doc = subprocess.run([f'{V}/bin/gmcheck', '-verif', V, '-doc'], capture_output=True, text=True).stdout
    ft, nd, nf, nk = findings_table()
    st, totals, misses, ns, ndet = seeds_tables()
    ex = json.load(open(f'{V}/exceptions.json'))['exceptions']
    extab = '\n'.join(['| rule | construct | reason |', '|---|---|---|'] + [f"| {e['rule']} | `{e['construct']}` | {e['reason']} |" for e in ex])
    man = json.load(open(f'{V}/MANIFEST.json'))
    na = '\n'.join(f"* **{x['property_id']}** — {x['reason']}" for x in man.get('not_applicable', []))
    nob = 0
    for p in glob.glob(f'{V}/evidence/C*.json'):
        try:
            nob += json.load(open(p))['coverage'].get('obligations', 0)
        except Exception:
            pass
    nmut = len(re.findall(r'\{Name: "', ''.join(open(f).read() for f in glob.glob(f'{V}/checker/*.go'))))
    parts = [rd('design/00_head.md'), rd('design/10_why.md'), rd('design/20_arch.md'), rd('design/30_engines.md'),
             '## 4. Per-property decisions (generated from the checker\'s registry: this is the text each check carries)\n\n'
             'Every entry: what is decided (the structural clauses, rule names in capitals), what is not, what is trusted, the obligation and '
             'rule-instance counts of the last run on the unchanged tree, and the catalogue of in-memory mutants the rules must report.\n\n' + doc,
             rd('design/50_findings.md'), rd('design/60_seeds.md'), rd('design/70_discipline.md'), rd('design/80_trusted.md')]
    s = '\n'.join(parts)
    rep = {'{{FINDINGS_TABLE}}': ft, '{{SEEDS_TABLE}}': st, '{{SEEDS_TOTALS}}': totals, '{{SEEDS_MISSES}}': misses, '{{EXCEPTIONS}}': extab,
           '{{NOTAPPLICABLE}}': na, '{{NDEFECTS}}': str(nd), '{{NFIXED}}': str(nf), '{{NKNOWN}}': str(nk), '{{NSEEDS}}': str(ns),
           '{{NDETECTED}}': str(ndet), '{{NOBLIG}}': f'{nob:,}'.replace(',', ' '), '{{NMUTANTS}}': str(nmut)}
    for k, v in rep.items():
        s = s.replace(k, v)
    open(f'{V}/DESIGN.md', 'w').write(s)
    print('DESIGN.md written:', len(s.splitlines()), 'lines;', nd, 'defects,', ns, 'seeds,', ndet, 'detected,', nob, 'obligations,', nmut, 'mutants')
main()
