package main

// C03 (conversions) and C04 (untyped constants): gates, pass-through tables, exactness.

import (
	"fmt"
	"go/ast"
	"go/constant"
	"go/token"
	"go/types"
	"sort"
	"strings"
)

func ruleConversionGate(c *Ctx, rule string) {
	pk := c.P.Pkg("fast")
	info := pk.TypesInfo
	fd := c.P.Func("fast.Comp.convert")
	if fd == nil {
		c.Ob(rule, "fast.Comp.convert", nil, false, "anchor function not found")
		return
	}
	// the if / else-if chain that admits a conversion; its final else rejects
	var chain *ast.IfStmt
	for _, st := range fd.Body.List {
		if ifs, ok := st.(*ast.IfStmt); ok {
			hasConv := false
			cur := ifs
			for cur != nil {
				inspectCalls(cur.Cond, func(call *ast.CallExpr) {
					if fn := calleeOf(info, call); fn != nil && fn.Name() == "ConvertibleTo" {
						hasConv = true
					}
				})
				next, _ := cur.Else.(*ast.IfStmt)
				cur = next
			}
			if hasConv {
				chain = ifs
			}
		}
	}
	if chain == nil {
		c.Ob(rule, "fast.Comp.convert/gate", fd, false, "the admission chain (IdenticalTo / same reflect type / nil to nillable / ConvertibleTo / else error) was not found")
		return
	}
	var conds []string
	var lastElse *ast.BlockStmt
	cur := chain
	for cur != nil {
		conds = append(conds, exprString(cur.Cond))
		switch e := cur.Else.(type) {
		case *ast.IfStmt:
			cur = e
		case *ast.BlockStmt:
			lastElse = e
			cur = nil
		default:
			cur = nil
		}
	}
	rejects := false
	if lastElse != nil && terminates(lastElse) {
		inspectCalls(lastElse, func(call *ast.CallExpr) {
			if fn := calleeOf(info, call); fn != nil && isErrorHelper(fn) {
				rejects = true
			}
		})
	}
	c.Ob(rule, "fast.Comp.convert/gate", chain, rejects, fmt.Sprintf("a conversion is compiled only if one of [%s] holds; otherwise it is rejected before execution (final else: Errorf + return)", strings.Join(conds, " | ")))
	// every conversion closure is created after the chain
	after := true
	ast.Inspect(fd.Body, func(n ast.Node) bool {
		if fl, ok := n.(*ast.FuncLit); ok && fl.Pos() < chain.End() {
			after = false
		}
		return true
	})
	c.Ob(rule, "fast.Comp.convert/order", chain, after, "no conversion closure is created before the admission chain has been passed")
	// Converter rejects first
	cv := c.P.Func("fast.Comp.Converter")
	okCv := false
	if cv != nil && len(cv.Body.List) > 0 {
		if ifs, ok := cv.Body.List[0].(*ast.IfStmt); ok {
			if u, ok := unparen(ifs.Cond).(*ast.UnaryExpr); ok && u.Op == token.NOT {
				if call, ok := unparen(u.X).(*ast.CallExpr); ok {
					if fn := calleeOf(info, call); fn != nil && fn.Name() == "ConvertibleTo" {
						inspectCalls(ifs.Body, func(c2 *ast.CallExpr) {
							if f2 := calleeOf(info, c2); f2 != nil && isErrorHelper(f2) {
								okCv = true
							}
						})
					}
				}
			}
		}
	}
	c.Ob(rule, "fast.Comp.Converter", cv, okCv, "Converter starts by rejecting type pairs that are not ConvertibleTo")
}

func ruleUntypedConvert(c *Ctx, rule string) {
	pk := c.P.Pkg("base/untyped")
	info := pk.TypesInfo
	fd := c.P.Func("base/untyped.Lit.Convert")
	if fd == nil {
		c.Ob(rule, "base/untyped.Lit.Convert", nil, false, "anchor function not found")
		return
	}
	have := map[string]bool{}
	ast.Inspect(fd.Body, func(n ast.Node) bool {
		sw, ok := n.(*ast.SwitchStmt)
		if !ok || sw.Tag == nil || !isReflectKind(info.TypeOf(sw.Tag)) {
			return true
		}
		for _, cc := range sw.Body.List {
			for _, e := range cc.(*ast.CaseClause).List {
				have[kindLabel(info, e)] = true
			}
		}
		return false
	})
	want := []string{"Bool", "Int", "Int8", "Int16", "Int32", "Int64", "Uint", "Uint8", "Uint16", "Uint32", "Uint64", "Uintptr", "Float32", "Float64", "Complex64", "Complex128", "String", "Interface", "Slice"}
	for _, k := range want {
		c.Ob(rule, "base/untyped.Lit.Convert/kind:"+k, fd, have[k], "an untyped constant can be converted to kind "+k+" (the kind has an arm; everything else falls to the error)")
	}
	// fall-through is an error, and the value is converted to the exact reflect type
	errOK, convOK := false, false
	for _, st := range fd.Body.List {
		if ifs, ok := st.(*ast.IfStmt); ok {
			if b, ok := unparen(ifs.Cond).(*ast.BinaryExpr); ok && b.Op == token.EQL && identOf(b.Y) != nil && identOf(b.Y).Name == "nil" {
				inspectCalls(ifs.Body, func(call *ast.CallExpr) {
					if fn := calleeOf(info, call); fn != nil && isErrorHelper(fn) {
						errOK = true
					}
				})
			}
			if b, ok := unparen(ifs.Cond).(*ast.BinaryExpr); ok && b.Op == token.NEQ {
				inspectCalls(ifs.Body, func(call *ast.CallExpr) {
					if fn := calleeOf(info, call); fn != nil && fn.Name() == "Convert" {
						convOK = true
					}
				})
			}
		}
	}
	c.Ob(rule, "base/untyped.Lit.Convert/reject", fd, errOK, "a constant that no arm converted is rejected with an error")
	c.Ob(rule, "base/untyped.Lit.Convert/exact-type", fd, convOK, "the result is converted to exactly the requested reflect type when the arm produced a different one")
}

// ruleConstantExactness (EX1): an integer-category result must not be extracted through constant.Float64Val.
func ruleConstantExactness(c *Ctx, rule string) {
	pk := c.P.Pkg("base/untyped")
	info := pk.TypesInfo
	fd := c.P.Func("base/untyped.Lit.extractNumber")
	if fd == nil {
		c.Ob(rule, "base/untyped.Lit.extractNumber", nil, false, "anchor function not found")
		return
	}
	n := 0
	ast.Inspect(fd.Body, func(nd ast.Node) bool {
		cl, ok := nd.(*ast.CaseClause)
		if !ok {
			return true
		}
		var label string
		for _, e := range cl.List {
			label = objQName(usedObj(info, e))
		}
		if !strings.HasPrefix(label, "go/constant.") {
			return true
		}
		lossy := false
		for _, st := range cl.Body {
			if _, isSw := st.(*ast.SwitchStmt); isSw {
				continue
			}
			inspectCalls(st, func(call *ast.CallExpr) {
				if fn := calleeOf(info, call); fn != nil && (fn.Name() == "Float64Val" || fn.Name() == "Float32Val") {
					lossy = true
				}
			})
		}
		if label == "go/constant.Int" || label == "go/constant.Float" {
			n++
			// the arm must dispatch on the target category when it can lose integer precision
			dispatches := false
			for _, st := range cl.Body {
				if sw, isSw := st.(*ast.SwitchStmt); isSw && sw.Tag != nil && isReflectKind(info.TypeOf(sw.Tag)) {
					dispatches = true
				}
				// or an `if cat == Int || cat == Uint { exact path; return }` before the lossy extraction
				if ifs, isIf := st.(*ast.IfStmt); isIf {
					// the guard must admit both integer categories: the function distinguishes signed from unsigned
					// targets only where it picks Int64Val or Uint64Val
					catsSeen := map[string]bool{}
					for _, a := range orAtoms(ifs.Cond) {
						if b, ok := a.(*ast.BinaryExpr); ok && b.Op == token.EQL && isReflectKind(info.TypeOf(b.X)) {
							if o := usedObj(info, b.Y); o != nil {
								catsSeen[o.Name()] = true
							}
						}
					}
					onCat := catsSeen["Int"] && catsSeen["Uint"]
					exactPath := false
					inspectCalls(ifs.Body, func(call *ast.CallExpr) {
						if fn := calleeOf(info, call); fn != nil && (fn.Name() == "ToInt" || fn.Name() == "Int64Val" || fn.Name() == "Uint64Val") {
							exactPath = true
						}
					})
					if onCat && exactPath {
						dispatches = true
					}
				}
			}
			c.Ob(rule, "base/untyped.Lit.extractNumber/"+strings.TrimPrefix(label, "go/constant."), cl, !lossy || dispatches,
				"a constant of this kind reaches integer targets only through exact extraction (Int64Val / Uint64Val / ToInt), never through Float64Val: an exact float constant such as 9007199254740993.0 must convert to int64")
		}
		return true
	})
	if n < 2 {
		c.Ob(rule, "base/untyped.Lit.extractNumber", fd, false, "Int and Float arms not found: anchor missing")
	}
	// inside an arm of the switch on the target category, the 64-bit extractor has the arm's signedness: Int64Val of a
	// negative constant is "exact" and would be accepted for an unsigned target, Uint64Val of one beyond int64 for a
	// signed target
	narm := 0
	ast.Inspect(fd.Body, func(nd ast.Node) bool {
		sw, ok := nd.(*ast.SwitchStmt)
		if !ok || sw.Tag == nil || !isReflectKind(info.TypeOf(sw.Tag)) {
			return true
		}
		for _, cc := range sw.Body.List {
			cl := cc.(*ast.CaseClause)
			if len(cl.List) != 1 {
				continue
			}
			o := usedObj(info, cl.List[0])
			if o == nil || (o.Name() != "Int" && o.Name() != "Uint") {
				continue
			}
			want := map[string]string{"Int": "Int64Val", "Uint": "Uint64Val"}[o.Name()]
			narm++
			bad := ""
			for _, st := range cl.Body {
				inspectCalls(st, func(call *ast.CallExpr) {
					if fn := calleeOf(info, call); fn != nil && fn.Pkg() != nil && fn.Pkg().Path() == "go/constant" && strings.HasSuffix(fn.Name(), "Val") && fn.Name() != want {
						bad = fn.Name()
					}
				})
			}
			c.Ob(rule, "base/untyped.Lit.extractNumber/target:"+o.Name(), cl, bad == "", "an integer constant converted to a target of category "+o.Name()+" is extracted with constant."+want+" only"+sep(map[bool]string{true: "", false: "also calls constant." + bad}[bad == ""]))
		}
		return true
	})
	if narm < 2 {
		c.Ob(rule, "base/untyped.Lit.extractNumber/target", fd, false, "arms for signed and unsigned targets not found: anchor missing")
	}
	// overflow check dominates integer results
	ov := c.P.Func("base/untyped.ConvertLiteralCheckOverflow")
	okOv := false
	if ov != nil && len(ov.Type.Params.List) > 0 && len(ov.Type.Params.List[0].Names) > 0 {
		srcObj := info.Defs[ov.Type.Params.List[0].Names[0]]
		ast.Inspect(ov.Body, func(nd ast.Node) bool {
			ifs, ok := nd.(*ast.IfStmt)
			if !ok {
				return true
			}
			// guard: X == r.Int || X == r.Uint
			cats := map[string]bool{}
			for _, a := range orAtoms(ifs.Cond) {
				if b, ok := unparen(a).(*ast.BinaryExpr); ok && b.Op == token.EQL {
					if o := usedObj(info, b.Y); o != nil && o.Pkg() != nil && o.Pkg().Path() == "reflect" {
						cats[o.Name()] = true
					}
				}
			}
			if !(cats["Int"] && cats["Uint"] && len(cats) == 2) {
				return true
			}
			// every innermost branch below the guard checks `src != back` as the whole condition of an if that reports an error
			nchk := 0
			ast.Inspect(ifs.Body, func(m ast.Node) bool {
				inner, ok := m.(*ast.IfStmt)
				if !ok {
					return true
				}
				b, ok := unparen(inner.Cond).(*ast.BinaryExpr)
				if !ok || b.Op != token.NEQ || identOf(b.X) == nil || info.Uses[identOf(b.X)] != srcObj {
					return true
				}
				errs := false
				inspectCalls(inner.Body, func(call *ast.CallExpr) {
					if fn := calleeOf(info, call); fn != nil && isErrorHelper(fn) {
						errs = true
					}
				})
				if errs {
					nchk++
				}
				return true
			})
			// the guard's body is an if/else over the source category: both branches must check
			nbranch := 0
			for _, st := range ifs.Body.List {
				if br, ok := st.(*ast.IfStmt); ok {
					nbranch = 1
					if br.Else != nil {
						nbranch = 2
					}
				}
			}
			if nchk >= 2 && nchk >= nbranch {
				okOv = true
			}
			return true
		})
	}
	c.Ob(rule, "base/untyped.ConvertLiteralCheckOverflow", ov, okOv, "a conversion to an integer kind converts the result back and compares it with the source, reporting overflow / truncation, in both the float and the integer branch")
}

// ruleUntypedOperators (E6): the operator handed to go/constant is the node's operator.
func ruleUntypedOperators(c *Ctx, rule string) {
	pk := c.P.Pkg("fast")
	info := pk.TypesInfo
	bu := c.P.Func("fast.Comp.BinaryExprUntyped")
	if bu == nil {
		c.Ob(rule, "fast.Comp.BinaryExprUntyped", nil, false, "anchor function not found")
		return
	}
	di := buildDefIndex(info, bu)
	var params []types.Object
	for _, f := range bu.Type.Params.List {
		for _, nm := range f.Names {
			params = append(params, info.Defs[nm])
		}
	}
	nodeObj, xObj, yObj := params[0], params[1], params[2]
	derivesFromNodeOp := func(e ast.Expr) (bool, string) {
		// follow definitions: op := node.Op ; op2 := tokenWithoutAssign(op) ; op2 = token.QUO_ASSIGN
		id := identOf(e)
		if id == nil {
			return false, exprString(e)
		}
		o := info.Uses[id]
		var defs []ast.Expr
		ast.Inspect(bu.Body, func(n ast.Node) bool {
			if as, ok := n.(*ast.AssignStmt); ok && len(as.Lhs) == len(as.Rhs) {
				for i, l := range as.Lhs {
					if lid := identOf(l); lid != nil && (info.Defs[lid] == o || info.Uses[lid] == o) {
						defs = append(defs, as.Rhs[i])
					}
				}
			}
			return true
		})
		okAll := len(defs) > 0
		var how []string
		for _, d := range defs {
			d = unparen(d)
			if sel, ok := d.(*ast.SelectorExpr); ok && sel.Sel.Name == "Op" && identOf(sel.X) != nil && info.Uses[identOf(sel.X)] == nodeObj {
				how = append(how, "node.Op")
				continue
			}
			if call, ok := d.(*ast.CallExpr); ok && funcFullName(calleeOf(info, call)) == "fast.tokenWithoutAssign" && len(call.Args) == 1 {
				if r := di.rootOf(info, call.Args[0], 0); r == nodeObj {
					how = append(how, "tokenWithoutAssign(node.Op)")
					continue
				}
			}
			if objQName(usedObj(info, d)) == "go/token.QUO_ASSIGN" {
				how = append(how, "QUO_ASSIGN")
				continue
			}
			okAll = false
			how = append(how, exprString(d))
		}
		return okAll, strings.Join(how, " | ")
	}
	isVal := func(e ast.Expr, o types.Object) bool {
		sel, ok := unparen(e).(*ast.SelectorExpr)
		return ok && sel.Sel.Name == "Val" && identOf(sel.X) != nil && info.Uses[identOf(sel.X)] == o
	}
	n := 0
	inspectCalls(bu.Body, func(call *ast.CallExpr) {
		switch funcFullName(calleeOf(info, call)) {
		case "go/constant.Compare", "go/constant.BinaryOp":
			if len(call.Args) != 3 {
				return
			}
			n++
			okOp, how := derivesFromNodeOp(call.Args[1])
			c.Ob(rule, "fast.Comp.BinaryExprUntyped/"+calleeOf(info, call).Name(), call, okOp && isVal(call.Args[0], xObj) && isVal(call.Args[2], yObj),
				"go/constant is called with (x.Val, operator, y.Val) where the operator is "+how)
		}
	})
	if n < 2 {
		c.Ob(rule, "fast.Comp.BinaryExprUntyped", bu, false, "constant.Compare / constant.BinaryOp calls not found: anchor missing")
	}
	// integer division: QUO becomes QUO_ASSIGN exactly when both operands are Int or Rune
	okQuo := false
	ast.Inspect(bu.Body, func(nd ast.Node) bool {
		ifs, ok := nd.(*ast.IfStmt)
		if !ok {
			return true
		}
		sets := false
		for _, st := range ifs.Body.List {
			if as, ok := st.(*ast.AssignStmt); ok && len(as.Rhs) == 1 && objQName(usedObj(info, as.Rhs[0])) == "go/token.QUO_ASSIGN" {
				sets = true
			}
		}
		if !sets {
			return true
		}
		atoms := andAtoms(ifs.Cond)
		isQuo, intFlags := false, 0
		for _, a := range atoms {
			if b, ok := a.(*ast.BinaryExpr); ok && b.Op == token.EQL && objQName(usedObj(info, b.Y)) == "go/token.QUO" {
				isQuo = true
			}
			if id := identOf(a); id != nil {
				if d := di.single(info.Uses[id]); d != nil {
					s := exprString(d)
					if strings.Contains(s, "untyped.Int") && strings.Contains(s, "untyped.Rune") && strings.Contains(s, "||") {
						intFlags++
					}
				}
			}
		}
		okQuo = isQuo && intFlags == 2 && len(atoms) == 3
		return true
	})
	c.Ob(rule, "fast.Comp.BinaryExprUntyped/integer-division", bu, okQuo, "untyped division truncates (QUO_ASSIGN) exactly when both operands are of Int or Rune kind")
	// && and ||
	okLog := false
	ast.Inspect(bu.Body, func(nd ast.Node) bool {
		ifs, ok := nd.(*ast.IfStmt)
		if !ok {
			return true
		}
		b, ok := unparen(ifs.Cond).(*ast.BinaryExpr)
		if !ok || b.Op != token.EQL || objQName(usedObj(info, b.Y)) != "go/token.LAND" {
			return true
		}
		thenOp, elseOp := token.ILLEGAL, token.ILLEGAL
		ast.Inspect(ifs.Body, func(m ast.Node) bool {
			if be, ok := m.(*ast.BinaryExpr); ok && (be.Op == token.LAND || be.Op == token.LOR) {
				thenOp = be.Op
			}
			return true
		})
		if ifs.Else != nil {
			ast.Inspect(ifs.Else, func(m ast.Node) bool {
				if be, ok := m.(*ast.BinaryExpr); ok && (be.Op == token.LAND || be.Op == token.LOR) {
					elseOp = be.Op
				}
				return true
			})
		}
		okLog = thenOp == token.LAND && elseOp == token.LOR
		return true
	})
	c.Ob(rule, "fast.Comp.BinaryExprUntyped/logical", bu, okLog, "untyped && computes xb && yb and || computes xb || yb")
	// shifts dispatch with the matching token
	for _, a := range dispatchArms(pk) {
		if a.fd != bu {
			continue
		}
		for i, t := range a.targets {
			if t.Name() == "ShiftUntyped" && len(a.calls[i].Args) >= 2 {
				want := plainToken(a.tokens[0])
				got := objQName(usedObj(info, a.calls[i].Args[1]))
				c.Ob(rule, "fast.Comp.BinaryExprUntyped/shift/"+strings.Join(a.tokens, ","), a.clause, got == "go/token."+want, "arm "+strings.Join(a.tokens, ",")+" calls ShiftUntyped with "+got)
			}
		}
	}
	// ShiftUntyped passes its operator to constant.Shift
	su := c.P.Func("fast.Comp.ShiftUntyped")
	okSh := false
	if su != nil {
		var opObj types.Object
		k := 0
		for _, f := range su.Type.Params.List {
			for _, nm := range f.Names {
				if k == 1 {
					opObj = info.Defs[nm]
				}
				k++
			}
		}
		inspectCalls(su.Body, func(call *ast.CallExpr) {
			if funcFullName(calleeOf(info, call)) == "go/constant.Shift" && len(call.Args) == 3 && identOf(call.Args[1]) != nil && info.Uses[identOf(call.Args[1])] == opObj {
				okSh = true
			}
		})
	}
	c.Ob(rule, "fast.Comp.ShiftUntyped", su, okSh, "constant.Shift receives the operator ShiftUntyped was called with")
	// unary
	uu := c.P.Func("fast.Comp.UnaryExprUntyped")
	okUn := false
	if uu != nil {
		du := buildDefIndex(info, uu)
		inspectCalls(uu.Body, func(call *ast.CallExpr) {
			if funcFullName(calleeOf(info, call)) == "go/constant.UnaryOp" && len(call.Args) == 3 {
				if d := du.single(info.Uses[identOf(call.Args[0])]); d != nil {
					if sel, ok := unparen(d).(*ast.SelectorExpr); ok && sel.Sel.Name == "Op" {
						okUn = true
					}
				}
			}
		})
	}
	c.Ob(rule, "fast.Comp.UnaryExprUntyped", uu, okUn, "constant.UnaryOp receives node.Op")
	// the X_ASSIGN -> X table
	n2 := 0
	for _, f := range pk.Syntax {
		ast.Inspect(f, func(nd ast.Node) bool {
			vs, ok := nd.(*ast.ValueSpec)
			if !ok || len(vs.Names) != 1 || (vs.Names[0].Name != "tokenRemoveAssign" && vs.Names[0].Name != "tokenAddAssign") || len(vs.Values) != 1 {
				return true
			}
			cl, ok := vs.Values[0].(*ast.CompositeLit)
			if !ok {
				return true
			}
			var bad []string
			for _, el := range cl.Elts {
				kv := el.(*ast.KeyValueExpr)
				k, v := usedObj(info, kv.Key).Name(), usedObj(info, kv.Value).Name()
				n2++
				if vs.Names[0].Name == "tokenRemoveAssign" && k != v+"_ASSIGN" || vs.Names[0].Name == "tokenAddAssign" && v != k+"_ASSIGN" {
					bad = append(bad, k+"->"+v)
				}
			}
			sort.Strings(bad)
			c.Ob(rule, "fast."+vs.Names[0].Name, vs, len(bad) == 0 && len(cl.Elts) == 11, fmt.Sprintf("the table pairs each of the 11 compound-assignment tokens with its own operator (mismatches: %v)", bad))
			return true
		})
	}
	if n2 < 22 {
		c.Ob(rule, "fast.tokenRemoveAssign", nil, false, "operator tables not found: anchor missing")
	}
	_ = constant.Int
}

// ruleInexactUndefined (K1): constant.Int64Val and constant.Uint64Val document their first result as
// undefined when the second is false. Every path of every function of base/untyped is enumerated
// (flag and category variables concretely, other conditions forked); a value obtained with a false
// flag must not flow into a result of the function.
func ruleInexactUndefined(c *Ctx, rule string) {
	pk := c.P.Pkg("base/untyped")
	info := pk.TypesInfo
	n := 0
	for _, fd := range c.P.FuncsOf("base/untyped") {
		has := false
		ast.Inspect(fd.Body, func(nd ast.Node) bool {
			if as, ok := nd.(*ast.AssignStmt); ok && len(as.Lhs) == 2 && len(as.Rhs) == 1 {
				if call, ok := unparen(as.Rhs[0]).(*ast.CallExpr); ok {
					if fn := calleeOf(info, call); fn != nil && fn.Pkg() != nil && fn.Pkg().Path() == "go/constant" && (fn.Name() == "Int64Val" || fn.Name() == "Uint64Val") {
						has = true
					}
				}
			}
			return true
		})
		if !has {
			continue
		}
		n++
		x := &pxExec{info: info, undefinedWhenInexact: map[string]bool{"Int64Val": true, "Uint64Val": true}, maxPaths: 200000,
			terminates: func(call *ast.CallExpr) bool {
				fn := calleeOf(info, call)
				return fn != nil && fn.Pkg() != nil && strings.HasSuffix(fn.Pkg().Path(), "/output") && fn.Name() == "Errorf"
			}}
		x.runFunc(fd)
		key := funcKey(pk, fd)
		ok := len(x.violations) == 0 && len(x.unsupported) == 0 && x.paths <= x.maxPaths
		detail := fmt.Sprintf("%d paths enumerated; the first result of Int64Val/Uint64Val is used only where its exact flag is true", x.paths)
		if len(x.violations) > 0 {
			detail = x.violations[0] + fmt.Sprintf(" (%d violating paths of %d)", len(x.violations), x.paths)
		} else if len(x.unsupported) > 0 {
			detail = "undecided: unsupported statement " + x.unsupported[0]
		} else if x.paths > x.maxPaths {
			detail = "undecided: too many paths"
		}
		c.Ob(rule, key, fd, ok, detail)
	}
	if n < 3 {
		c.Ob(rule, "base/untyped", nil, false, "fewer than 3 functions use Int64Val/Uint64Val: anchor missing")
	}
}

// ruleSliceConversionNotFolded (S1): in Go a conversion to []byte / []rune is not a constant expression: each
// execution allocates a new slice. In Comp.convert every compile-time folding site (EvalConst, ConstTo(t) with
// the target type, a compile-time call of convert()) is therefore guarded by `t.Kind() != Slice`.
func ruleSliceConversionNotFolded(c *Ctx, rule string) {
	pk := c.P.Pkg("fast")
	info := pk.TypesInfo
	fd := c.P.Func("fast.Comp.convert")
	if fd == nil {
		c.Ob(rule, "fast.Comp.convert", nil, false, "anchor function not found")
		return
	}
	// the target type parameter
	var target types.Object
	for _, f := range fd.Type.Params.List {
		for _, nm := range f.Names {
			if o := info.Defs[nm]; o != nil && isNamedType(o.Type(), "xreflect", "Type") && target == nil {
				target = o
			}
		}
	}
	if target == nil {
		c.Ob(rule, "fast.Comp.convert/target", fd, false, "target type parameter not found")
		return
	}
	// atom: target.Kind() OP xr.Slice
	isAtom := func(e ast.Expr, op token.Token) bool {
		b, ok := unparen(e).(*ast.BinaryExpr)
		if !ok || b.Op != op {
			return false
		}
		call, ok := unparen(b.X).(*ast.CallExpr)
		if !ok {
			return false
		}
		s, ok := unparen(call.Fun).(*ast.SelectorExpr)
		if !ok || s.Sel.Name != "Kind" || identOf(s.X) == nil || info.Uses[identOf(s.X)] != target {
			return false
		}
		o := usedObj(info, b.Y)
		return o != nil && o.Name() == "Slice"
	}
	// path of enclosing statements for each site
	var stack []ast.Node
	type site struct {
		n     ast.Node
		what  string
		stack []ast.Node
	}
	var sites []site
	ast.Inspect(fd.Body, func(n ast.Node) bool {
		if n == nil {
			stack = stack[:len(stack)-1]
			return true
		}
		stack = append(stack, n)
		if _, isLit := n.(*ast.FuncLit); isLit {
			stack = stack[:len(stack)-1]
			return false // run-time code
		}
		if call, ok := n.(*ast.CallExpr); ok {
			fn := calleeOf(info, call)
			what := ""
			switch {
			case fn != nil && fn.Name() == "EvalConst":
				what = "EvalConst"
			case fn != nil && fn.Name() == "ConstTo" && len(call.Args) == 1 && identOf(call.Args[0]) != nil && info.Uses[identOf(call.Args[0])] == target:
				what = "ConstTo(target)"
			case fn != nil && funcFullName(fn) == "fast.convert":
				what = "convert()"
			}
			if what != "" {
				sites = append(sites, site{call, what, append([]ast.Node{}, stack...)})
			}
		}
		return true
	})
	// function-level early exit: a top-level `if target.Kind() == Slice { ... return }` before the site
	earlyExit := token.NoPos
	for _, st := range fd.Body.List {
		if ifs, ok := st.(*ast.IfStmt); ok && ifs.Else == nil && isAtom(ifs.Cond, token.EQL) && len(ifs.Body.List) > 0 {
			if _, isRet := ifs.Body.List[len(ifs.Body.List)-1].(*ast.ReturnStmt); isRet {
				earlyExit = ifs.End()
				break
			}
		}
	}
	for _, s := range sites {
		guarded := earlyExit != token.NoPos && s.n.Pos() > earlyExit
		for i, anc := range s.stack {
			ifs, ok := anc.(*ast.IfStmt)
			if !ok || i+1 >= len(s.stack) {
				continue
			}
			next := s.stack[i+1]
			if next == ast.Node(ifs.Body) {
				for _, a := range andAtoms(ifs.Cond) {
					if isAtom(a, token.NEQ) {
						guarded = true
					}
				}
			} else if ifs.Else != nil && next == ast.Node(ifs.Else) {
				for _, a := range orAtoms(ifs.Cond) {
					if isAtom(a, token.EQL) {
						guarded = true
					}
				}
			}
		}
		c.Ob(rule, "fast.Comp.convert/"+s.what, s.n, guarded, "compile-time folding site "+s.what+" is reached only when the target type is not a slice: []byte(\"abc\") must allocate a new slice at each execution")
	}
	if len(sites) < 3 {
		c.Ob(rule, "fast.Comp.convert/sites", fd, false, fmt.Sprintf("only %d folding sites found: anchor missing", len(sites)))
	}
}

// ---------------------------------------------------------------- V3: two-sided admission rules

// dnf of a condition over literals (atoms or negated atoms); each term is a list of atom expressions.
func condDNF(e ast.Expr) [][]ast.Expr {
	switch x := unparen(e).(type) {
	case *ast.BinaryExpr:
		if x.Op == token.LOR {
			return append(condDNF(x.X), condDNF(x.Y)...)
		}
		if x.Op == token.LAND {
			var out [][]ast.Expr
			for _, a := range condDNF(x.X) {
				for _, b := range condDNF(x.Y) {
					t := append(append([]ast.Expr{}, a...), b...)
					out = append(out, t)
				}
			}
			return out
		}
	}
	return [][]ast.Expr{{e}}
}

// ruleTwoSidedAdmission: in the type checker's convertibleTo every clause that admits a conversion
// constrains both the operand's type and the target type in each of its alternatives: an alternative
// that looks at one side only would admit conversions from (or to) arbitrary types.
func ruleTwoSidedAdmission(c *Ctx, rule string) {
	pk := c.P.Pkg("go/types")
	fd := c.P.Func("go/types.operand.convertibleTo")
	if pk == nil || fd == nil {
		c.Ob(rule, "go/types.operand.convertibleTo", nil, false, "anchor function not found")
		return
	}
	info := pk.TypesInfo
	side := map[types.Object]int{} // 1 = source, 2 = target, 3 = both
	if fd.Recv != nil && len(fd.Recv.List) == 1 && len(fd.Recv.List[0].Names) == 1 {
		side[info.Defs[fd.Recv.List[0].Names[0]]] = 1
	}
	// the target: the parameter of type Type
	for _, f := range fd.Type.Params.List {
		for _, nm := range f.Names {
			if o := info.Defs[nm]; o != nil && isNamedType(o.Type(), "go/types", "Type") {
				side[o] = 2
			}
		}
	}
	sideOf := func(e ast.Node) int {
		s := 0
		ast.Inspect(e, func(n ast.Node) bool {
			if id, ok := n.(*ast.Ident); ok {
				if o := info.Uses[id]; o != nil {
					s |= side[o]
				}
			}
			return true
		})
		return s
	}
	// locals (in source order): side of the defining expression
	ast.Inspect(fd.Body, func(n ast.Node) bool {
		if as, ok := n.(*ast.AssignStmt); ok && as.Tok == token.DEFINE {
			s := 0
			for _, r := range as.Rhs {
				s |= sideOf(r)
			}
			for _, l := range as.Lhs {
				if id := identOf(l); id != nil && id.Name != "_" {
					if o := info.Defs[id]; o != nil {
						if b, isB := o.Type().Underlying().(*types.Basic); isB && b.Kind() == types.Bool {
							continue // `ok` flags
						}
						side[o] = s
					}
				}
			}
		}
		return true
	})
	n := 0
	var walk func(list []ast.Stmt, outer [][]ast.Node)
	walk = func(list []ast.Stmt, outer [][]ast.Node) {
		for _, st := range list {
			ifs, ok := st.(*ast.IfStmt)
			if !ok {
				continue
			}
			// terms of this if: DNF of the condition, each conjoined with the init (type assertion) and the outer terms
			var terms [][]ast.Node
			for _, t := range condDNF(ifs.Cond) {
				var tt []ast.Node
				for _, a := range t {
					tt = append(tt, a)
				}
				if ifs.Init != nil {
					tt = append(tt, ifs.Init)
				}
				terms = append(terms, tt)
			}
			var full [][]ast.Node
			if len(outer) == 0 {
				full = terms
			} else {
				for _, o := range outer {
					for _, t := range terms {
						full = append(full, append(append([]ast.Node{}, o...), t...))
					}
				}
			}
			admits := false
			for _, s2 := range ifs.Body.List {
				if r, ok := s2.(*ast.ReturnStmt); ok && len(r.Results) == 1 && exprString(r.Results[0]) == "true" {
					admits = true
				}
			}
			if admits {
				for _, t := range full {
					s := 0
					var strs []string
					for _, a := range t {
						s |= sideOf(a)
						if e, ok := a.(ast.Expr); ok {
							strs = append(strs, exprString(e))
						} else {
							strs = append(strs, "init")
						}
					}
					n++
					c.Ob(rule, "go/types.operand.convertibleTo/"+strings.Join(strs, " && "), ifs, s == 3, "each alternative of an admitting clause constrains both the operand's type and the target type")
				}
			}
			walk(ifs.Body.List, full)
		}
	}
	walk(fd.Body.List, nil)
	if n < 8 {
		c.Ob(rule, "go/types.operand.convertibleTo/clauses", fd, false, fmt.Sprintf("only %d admitting alternatives found: anchor missing", n))
	}
}

// ruleNoNarrowing (K2): the 64-bit result of constant.Int64Val / Uint64Val is never converted to a narrower
// integer type (int, int32, rune ...) unless the conversion is inside an if that bounds the value on both sides.
func ruleNoNarrowing(c *Ctx, rule string) {
	pk := c.P.Pkg("base/untyped")
	info := pk.TypesInfo
	n := 0
	for _, fd := range c.P.FuncsOf("base/untyped") {
		vals := map[types.Object]bool{}
		ast.Inspect(fd.Body, func(nd ast.Node) bool {
			if as, ok := nd.(*ast.AssignStmt); ok && len(as.Lhs) == 2 && len(as.Rhs) == 1 {
				if call, ok := unparen(as.Rhs[0]).(*ast.CallExpr); ok {
					if fn := calleeOf(info, call); fn != nil && fn.Pkg() != nil && ((fn.Pkg().Path() == "go/constant" && (fn.Name() == "Int64Val" || fn.Name() == "Uint64Val")) ||
						(fn.Pkg() == pk.Types && (fn.Name() == "Int64" || fn.Name() == "Uint64") && fn.Type().(*types.Signature).Results().Len() == 2)) {
						if id := identOf(as.Lhs[0]); id != nil {
							o := info.Defs[id]
							if o == nil {
								o = info.Uses[id]
							}
							if b, ok := o.Type().Underlying().(*types.Basic); ok && b.Info()&types.IsInteger != 0 {
								vals[o] = true
							}
						}
					}
				}
			}
			return true
		})
		if len(vals) == 0 {
			continue
		}
		n++
		bad := 0
		ast.Inspect(fd.Body, func(nd ast.Node) bool {
			call, ok := nd.(*ast.CallExpr)
			if !ok || len(call.Args) != 1 {
				return true
			}
			tv, ok := info.Types[call.Fun]
			if !ok || !tv.IsType() {
				return true
			}
			id := identOf(call.Args[0])
			if id == nil || !vals[info.Uses[id]] {
				return true
			}
			b, ok := tv.Type.Underlying().(*types.Basic)
			if !ok || b.Info()&types.IsInteger == 0 {
				return true
			}
			signChange := false
			switch b.Kind() {
			case types.Int64, types.Uint64:
				sb, _ := info.TypeOf(id).Underlying().(*types.Basic)
				if sb == nil || (sb.Info()&types.IsUnsigned != 0) == (b.Info()&types.IsUnsigned != 0) {
					return true
				}
				// int64 <-> uint64: same width, half of the range changes its meaning
				signChange = true
			}
			// narrowing: must be range-guarded
			o := info.Uses[id]
			lower, upper := false, false
			stack := enclosingStack(fd.Body, call)
			for i, anc := range stack {
				ifs, isIf := anc.(*ast.IfStmt)
				if !isIf || i+1 >= len(stack) || stack[i+1] != ast.Node(ifs.Body) {
					continue
				}
				for _, a := range andAtoms(ifs.Cond) {
					if be, ok := unparen(a).(*ast.BinaryExpr); ok && identOf(be.X) != nil && info.Uses[identOf(be.X)] == o {
						switch be.Op {
						case token.GEQ, token.GTR:
							lower = true
						case token.LEQ, token.LSS:
							upper = true
						}
					}
				}
			}
			if b.Info()&types.IsUnsigned != 0 && info.TypeOf(id) != nil {
				if sb, ok := info.TypeOf(id).Underlying().(*types.Basic); ok && sb.Info()&types.IsUnsigned != 0 {
					lower = true
				}
			}
			okN := lower && upper
			if signChange {
				okN = lower || upper
			}
			if !okN {
				bad++
			}
			c.Ob(rule, funcKey(pk, fd)+"/"+exprString(call), call, okN, "a 64-bit constant value is narrowed to "+b.Name()+" only inside a two-sided range check; otherwise high bits are silently dropped (string(rune(1<<32+65)) would be \"A\")")
			return true
		})
		if bad == 0 {
			c.ObTrivial(rule, funcKey(pk, fd), fd, true, "no unguarded narrowing of an Int64Val/Uint64Val result")
		}
	}
	if n < 3 {
		c.Ob(rule, "base/untyped", nil, false, "fewer than 3 functions use Int64Val/Uint64Val: anchor missing")
	}
}

// ruleFreshBigValues (F1): a constant converted to *big.Int / *big.Rat / *big.Float is handed out as a fresh
// copy at each execution: the run-time closure reads the captured compile-time value only as the argument of
// Set on a local, and returns the address of that local.
func ruleFreshBigValues(c *Ctx, rule string) {
	pk := c.P.Pkg("fast")
	info := pk.TypesInfo
	fd := c.P.Func("fast.makeMathBigFun")
	if fd == nil {
		c.Ob(rule, "fast.makeMathBigFun", nil, false, "anchor function not found")
		return
	}
	n := 0
	ast.Inspect(fd.Body, func(nd ast.Node) bool {
		cl, ok := nd.(*ast.CaseClause)
		if !ok || cl.List == nil {
			return true
		}
		captured := info.Implicits[cl]
		if captured == nil {
			return true
		}
		for _, st := range cl.Body {
			ast.Inspect(st, func(m ast.Node) bool {
				lit, ok := m.(*ast.FuncLit)
				if !ok {
					return true
				}
				n++
				locals := map[types.Object]bool{}
				ast.Inspect(lit.Body, func(k ast.Node) bool {
					if vs, ok := k.(*ast.ValueSpec); ok {
						for _, nm := range vs.Names {
							locals[info.Defs[nm]] = true
						}
					}
					return true
				})
				// uses of the captured value
				okUses, copied := true, map[types.Object]bool{}
				ast.Inspect(lit.Body, func(k ast.Node) bool {
					call, isCall := k.(*ast.CallExpr)
					if isCall && len(call.Args) == 1 && identOf(call.Args[0]) != nil && info.Uses[identOf(call.Args[0])] == captured {
						if s, ok := unparen(call.Fun).(*ast.SelectorExpr); ok && s.Sel.Name == "Set" && identOf(s.X) != nil && locals[info.Uses[identOf(s.X)]] {
							copied[info.Uses[identOf(s.X)]] = true
							return false
						}
					}
					if id, isId := k.(*ast.Ident); isId && info.Uses[id] == captured {
						okUses = false
					}
					return true
				})
				okRet := false
				ast.Inspect(lit.Body, func(k ast.Node) bool {
					if r, ok := k.(*ast.ReturnStmt); ok && len(r.Results) == 1 {
						if call, ok := unparen(r.Results[0]).(*ast.CallExpr); ok && len(call.Args) == 1 {
							if u, ok := unparen(call.Args[0]).(*ast.UnaryExpr); ok && u.Op == token.AND && identOf(u.X) != nil && copied[info.Uses[identOf(u.X)]] {
								okRet = true
							}
						}
					}
					return true
				})
				var ls []string
				for _, e := range cl.List {
					ls = append(ls, exprString(e))
				}
				c.Ob(rule, "fast.makeMathBigFun/"+strings.Join(ls, ","), lit, okUses && okRet, "the closure copies the compile-time value into a local (local.Set(captured)) and returns the address of that local; the captured value itself never escapes")
				return false
			})
		}
		return true
	})
	if n < 3 {
		c.Ob(rule, "fast.makeMathBigFun/arms", fd, false, fmt.Sprintf("%d closures found, 3 expected: anchor missing", n))
	}
}

// ruleRealPartNeedsZeroImag (K4): a complex value is narrowed to a real one only when its imaginary part is zero.
// Go rejects float64(2+1i) and int(2+1i); a conversion helper that takes real(z) of a complex operand without a test
// on imag(z) silently drops the imaginary part. Decided in base/reflect and base/untyped: every call of the builtin
// real() on a reflect accessor result (v.Complex()) lies under a condition that mentions imag() of the same value, or
// is unreachable because the enclosing category tests on one variable exclude each other.
func ruleRealPartNeedsZeroImag(c *Ctx, rule string) {
	n := 0
	for _, short := range []string{"base/reflect", "base/untyped"} {
		pk := c.P.Pkg(short)
		if pk == nil {
			continue
		}
		info := pk.TypesInfo
		for _, fd := range c.P.FuncsOf(short) {
			if fd.Body == nil {
				continue
			}
			var stack []ast.Node
			ast.Inspect(fd.Body, func(nd ast.Node) bool {
				if nd == nil {
					stack = stack[:len(stack)-1]
					return true
				}
				stack = append(stack, nd)
				call, ok := nd.(*ast.CallExpr)
				if !ok || identOf(call.Fun) == nil || identOf(call.Fun).Name != "real" || len(call.Args) != 1 {
					return true
				}
				if _, isB := info.Uses[identOf(call.Fun)].(*types.Builtin); !isB {
					return true
				}
				acc, ok := unparen(call.Args[0]).(*ast.CallExpr)
				if !ok {
					return true
				}
				sel, ok := unparen(acc.Fun).(*ast.SelectorExpr)
				if !ok || sel.Sel.Name != "Complex" || !isReflectValue(info.TypeOf(sel.X)) {
					return true
				}
				n++
				// enclosing conditions
				guarded := false
				cats := map[types.Object]map[string]bool{}
				dead := false
				for i := len(stack) - 2; i >= 0; i-- {
					ifs, ok := stack[i].(*ast.IfStmt)
					if !ok || !containsNode(ifs.Body, call) {
						continue
					}
					ast.Inspect(ifs.Cond, func(m ast.Node) bool {
						if cc, ok := m.(*ast.CallExpr); ok && identOf(cc.Fun) != nil && identOf(cc.Fun).Name == "imag" {
							guarded = true
						}
						return true
					})
					for _, a := range andAtoms(ifs.Cond) {
						cc, ok := unparen(a).(*ast.CallExpr)
						if !ok {
							continue
						}
						if fn := calleeOf(info, cc); fn == nil || fn.Name() != "IsCategory" || len(cc.Args) < 2 {
							continue
						}
						o := usedObj(info, cc.Args[0])
						if o == nil {
							continue
						}
						set := map[string]bool{}
						for _, k := range cc.Args[1:] {
							if ko := usedObj(info, k); ko != nil {
								set[kindCategory(ko.Name())] = true
							}
						}
						if prev, ok := cats[o]; ok {
							inter := false
							for k := range set {
								if prev[k] {
									inter = true
								}
							}
							if !inter {
								dead = true
							}
						} else {
							cats[o] = set
						}
					}
				}
				key := fmt.Sprintf("%s/real#%d", funcKey(pk, fd), n)
				switch {
				case dead:
					c.ObTrivial(rule, key, call, true, "unreachable: the enclosing category tests on one variable exclude each other")
				default:
					c.Ob(rule, key, call, guarded, "the real part of a complex operand is taken only under a test on its imaginary part (Go rejects the conversion of a constant with a non-zero imaginary part to a real type)")
				}
				return true
			})
		}
	}
	if n == 0 {
		c.ObTrivial(rule, "base/reflect", nil, true, "no narrowing of a complex value to its real part in the conversion helpers")
	}
}

// ruleUnaryKeepsKind (K5): a unary operator applied to an untyped constant yields an untyped constant of the same
// kind ('-'a” is an untyped rune, not an untyped int). go/constant has no rune kind, so the kind cannot be
// recovered from the result: the Kind handed to exprUntypedLit in UnaryExprUntyped must be the Kind field of the
// operand's literal.
func ruleUnaryKeepsKind(c *Ctx, rule string) {
	pk := c.P.Pkg("fast")
	info := pk.TypesInfo
	fd := c.P.Func("fast.Comp.UnaryExprUntyped")
	if fd == nil || fd.Body == nil {
		c.Ob(rule, "fast.Comp.UnaryExprUntyped", nil, false, "anchor function not found")
		return
	}
	var params []types.Object
	for _, f := range fd.Type.Params.List {
		for _, nm := range f.Names {
			params = append(params, info.Defs[nm])
		}
	}
	operand := params[len(params)-1]
	di := buildDefIndex(info, fd)
	n := 0
	inspectCalls(fd.Body, func(call *ast.CallExpr) {
		if fn := calleeOf(info, call); fn == nil || fn.Name() != "exprUntypedLit" || len(call.Args) != 2 {
			return
		}
		n++
		good := false
		if sel, ok := unparen(call.Args[0]).(*ast.SelectorExpr); ok && sel.Sel.Name == "Kind" {
			if s := info.Selections[sel]; s != nil && s.Kind() == types.FieldVal && di.rootOf(info, sel.X, 0) == operand {
				good = true
			}
		}
		c.Ob(rule, fmt.Sprintf("fast.Comp.UnaryExprUntyped/result#%d", n), call, good, "the untyped kind of the result is the Kind field of the operand (argument "+exprString(call.Args[0])+")")
	})
	if n == 0 {
		c.Ob(rule, "fast.Comp.UnaryExprUntyped", fd, false, "no exprUntypedLit call: anchor missing")
	}
}

// ruleConstRepetitionPairing (K6): in a constant group, a spec without expressions repeats the type and the
// expression list of the last spec that had expressions — both, together: `const (a uint8 = iota; b; c = iota * 100;
// d)` makes d an untyped repetition of `iota * 100`, not a uint8. Decided in GenDecl: the remembered type and the
// remembered expression list are assigned from the same spec in the same block, under the same condition.
func ruleConstRepetitionPairing(c *Ctx, rule string) {
	pk := c.P.Pkg("fast")
	info := pk.TypesInfo
	fd := c.P.Func("fast.Comp.GenDecl")
	if fd == nil || fd.Body == nil {
		c.Ob(rule, "fast.Comp.GenDecl", nil, false, "anchor function not found")
		return
	}
	type site struct {
		blk  *ast.BlockStmt
		spec types.Object
		as   *ast.AssignStmt
	}
	var tys, vals []site
	var blocks []*ast.BlockStmt
	ast.Inspect(fd.Body, func(n ast.Node) bool {
		if b, ok := n.(*ast.BlockStmt); ok {
			blocks = append(blocks, b)
		}
		return true
	})
	for _, b := range blocks {
		for _, st := range b.List {
			as, ok := st.(*ast.AssignStmt)
			if !ok || len(as.Lhs) != 1 || len(as.Rhs) != 1 || as.Tok != token.ASSIGN {
				continue
			}
			sel, ok := unparen(as.Rhs[0]).(*ast.SelectorExpr)
			if !ok || !isNamedType(typeOrInvalid(info, sel.X), "go/ast", "ValueSpec") {
				continue
			}
			switch sel.Sel.Name {
			case "Type":
				tys = append(tys, site{b, usedObj(info, sel.X), as})
			case "Values":
				vals = append(vals, site{b, usedObj(info, sel.X), as})
			}
		}
	}
	good := len(tys) == 1 && len(vals) == 1 && tys[0].blk == vals[0].blk && tys[0].spec == vals[0].spec
	var at ast.Node = fd
	if len(vals) > 0 {
		at = vals[0].as
	}
	c.Ob(rule, "fast.Comp.GenDecl/const-repetition", at, good, fmt.Sprintf("the type and the expression list repeated by later specs of a constant group are remembered together, from the same spec and under the same condition (%d type / %d expression-list assignments found)", len(tys), len(vals)))
}
