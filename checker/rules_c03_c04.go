package main

// C03 (conversions) and C04 (untyped constants): gates, pass-through tables, exactness.

import (
	"fmt"
	"go/ast"
	"go/constant"
	"go/token"
	"go/types"
	"sort"
	"strings"
)

func ruleConversionGate(c *Ctx, rule string) {
	pk := c.P.Pkg("fast")
	info := pk.TypesInfo
	fd := c.P.Func("fast.Comp.convert")
	if fd == nil {
		c.Ob(rule, "fast.Comp.convert", nil, false, "anchor function not found")
		return
	}
	// the if / else-if chain that admits a conversion; its final else rejects
	var chain *ast.IfStmt
	for _, st := range fd.Body.List {
		if ifs, ok := st.(*ast.IfStmt); ok {
			hasConv := false
			cur := ifs
			for cur != nil {
				inspectCalls(cur.Cond, func(call *ast.CallExpr) {
					if fn := calleeOf(info, call); fn != nil && fn.Name() == "ConvertibleTo" {
						hasConv = true
					}
				})
				next, _ := cur.Else.(*ast.IfStmt)
				cur = next
			}
			if hasConv {
				chain = ifs
			}
		}
	}
	if chain == nil {
		c.Ob(rule, "fast.Comp.convert/gate", fd, false, "the admission chain (IdenticalTo / same reflect type / nil to nillable / ConvertibleTo / else error) was not found")
		return
	}
	var conds []string
	var lastElse *ast.BlockStmt
	cur := chain
	for cur != nil {
		conds = append(conds, exprString(cur.Cond))
		switch e := cur.Else.(type) {
		case *ast.IfStmt:
			cur = e
		case *ast.BlockStmt:
			lastElse = e
			cur = nil
		default:
			cur = nil
		}
	}
	rejects := false
	if lastElse != nil && terminates(lastElse) {
		inspectCalls(lastElse, func(call *ast.CallExpr) {
			if fn := calleeOf(info, call); fn != nil && isErrorHelper(fn) {
				rejects = true
			}
		})
	}
	c.Ob(rule, "fast.Comp.convert/gate", chain, rejects, fmt.Sprintf("a conversion is compiled only if one of [%s] holds; otherwise it is rejected before execution (final else: Errorf + return)", strings.Join(conds, " | ")))
	// every conversion closure is created after the chain
	after := true
	ast.Inspect(fd.Body, func(n ast.Node) bool {
		if fl, ok := n.(*ast.FuncLit); ok && fl.Pos() < chain.End() {
			after = false
		}
		return true
	})
	c.Ob(rule, "fast.Comp.convert/order", chain, after, "no conversion closure is created before the admission chain has been passed")
	// Converter rejects first
	cv := c.P.Func("fast.Comp.Converter")
	okCv := false
	if cv != nil && len(cv.Body.List) > 0 {
		if ifs, ok := cv.Body.List[0].(*ast.IfStmt); ok {
			if u, ok := unparen(ifs.Cond).(*ast.UnaryExpr); ok && u.Op == token.NOT {
				if call, ok := unparen(u.X).(*ast.CallExpr); ok {
					if fn := calleeOf(info, call); fn != nil && fn.Name() == "ConvertibleTo" {
						inspectCalls(ifs.Body, func(c2 *ast.CallExpr) {
							if f2 := calleeOf(info, c2); f2 != nil && isErrorHelper(f2) {
								okCv = true
							}
						})
					}
				}
			}
		}
	}
	c.Ob(rule, "fast.Comp.Converter", cv, okCv, "Converter starts by rejecting type pairs that are not ConvertibleTo")
}

func ruleUntypedConvert(c *Ctx, rule string) {
	pk := c.P.Pkg("base/untyped")
	info := pk.TypesInfo
	fd := c.P.Func("base/untyped.Lit.Convert")
	if fd == nil {
		c.Ob(rule, "base/untyped.Lit.Convert", nil, false, "anchor function not found")
		return
	}
	have := map[string]bool{}
	ast.Inspect(fd.Body, func(n ast.Node) bool {
		sw, ok := n.(*ast.SwitchStmt)
		if !ok || sw.Tag == nil || !isReflectKind(info.TypeOf(sw.Tag)) {
			return true
		}
		for _, cc := range sw.Body.List {
			for _, e := range cc.(*ast.CaseClause).List {
				have[kindLabel(info, e)] = true
			}
		}
		return false
	})
	want := []string{"Bool", "Int", "Int8", "Int16", "Int32", "Int64", "Uint", "Uint8", "Uint16", "Uint32", "Uint64", "Uintptr", "Float32", "Float64", "Complex64", "Complex128", "String", "Interface", "Slice"}
	for _, k := range want {
		c.Ob(rule, "base/untyped.Lit.Convert/kind:"+k, fd, have[k], "an untyped constant can be converted to kind "+k+" (the kind has an arm; everything else falls to the error)")
	}
	// fall-through is an error, and the value is converted to the exact reflect type
	errOK, convOK := false, false
	for _, st := range fd.Body.List {
		if ifs, ok := st.(*ast.IfStmt); ok {
			if b, ok := unparen(ifs.Cond).(*ast.BinaryExpr); ok && b.Op == token.EQL && identOf(b.Y) != nil && identOf(b.Y).Name == "nil" {
				inspectCalls(ifs.Body, func(call *ast.CallExpr) {
					if fn := calleeOf(info, call); fn != nil && isErrorHelper(fn) {
						errOK = true
					}
				})
			}
			if b, ok := unparen(ifs.Cond).(*ast.BinaryExpr); ok && b.Op == token.NEQ {
				inspectCalls(ifs.Body, func(call *ast.CallExpr) {
					if fn := calleeOf(info, call); fn != nil && fn.Name() == "Convert" {
						convOK = true
					}
				})
			}
		}
	}
	c.Ob(rule, "base/untyped.Lit.Convert/reject", fd, errOK, "a constant that no arm converted is rejected with an error")
	c.Ob(rule, "base/untyped.Lit.Convert/exact-type", fd, convOK, "the result is converted to exactly the requested reflect type when the arm produced a different one")
}

// ruleConstantExactness (EX1): an integer-category result must not be extracted through constant.Float64Val.
func ruleConstantExactness(c *Ctx, rule string) {
	pk := c.P.Pkg("base/untyped")
	info := pk.TypesInfo
	fd := c.P.Func("base/untyped.Lit.extractNumber")
	if fd == nil {
		c.Ob(rule, "base/untyped.Lit.extractNumber", nil, false, "anchor function not found")
		return
	}
	n := 0
	ast.Inspect(fd.Body, func(nd ast.Node) bool {
		cl, ok := nd.(*ast.CaseClause)
		if !ok {
			return true
		}
		var label string
		for _, e := range cl.List {
			label = objQName(usedObj(info, e))
		}
		if !strings.HasPrefix(label, "go/constant.") {
			return true
		}
		lossy := false
		for _, st := range cl.Body {
			if _, isSw := st.(*ast.SwitchStmt); isSw {
				continue
			}
			inspectCalls(st, func(call *ast.CallExpr) {
				if fn := calleeOf(info, call); fn != nil && (fn.Name() == "Float64Val" || fn.Name() == "Float32Val") {
					lossy = true
				}
			})
		}
		if label == "go/constant.Int" || label == "go/constant.Float" {
			n++
			// the arm must dispatch on the target category when it can lose integer precision
			dispatches := false
			for _, st := range cl.Body {
				if sw, isSw := st.(*ast.SwitchStmt); isSw && sw.Tag != nil && isReflectKind(info.TypeOf(sw.Tag)) {
					dispatches = true
				}
				// or an `if cat == Int || cat == Uint { exact path; return }` before the lossy extraction
				if ifs, isIf := st.(*ast.IfStmt); isIf {
					onCat := false
					for _, a := range orAtoms(ifs.Cond) {
						if b, ok := a.(*ast.BinaryExpr); ok && b.Op == token.EQL && isReflectKind(info.TypeOf(b.X)) {
							onCat = true
						}
					}
					exactPath := false
					inspectCalls(ifs.Body, func(call *ast.CallExpr) {
						if fn := calleeOf(info, call); fn != nil && (fn.Name() == "ToInt" || fn.Name() == "Int64Val" || fn.Name() == "Uint64Val") {
							exactPath = true
						}
					})
					if onCat && exactPath {
						dispatches = true
					}
				}
			}
			c.Ob(rule, "base/untyped.Lit.extractNumber/"+strings.TrimPrefix(label, "go/constant."), cl, !lossy || dispatches,
				"a constant of this kind reaches integer targets only through exact extraction (Int64Val / Uint64Val / ToInt), never through Float64Val: an exact float constant such as 9007199254740993.0 must convert to int64")
		}
		return true
	})
	if n < 2 {
		c.Ob(rule, "base/untyped.Lit.extractNumber", fd, false, "Int and Float arms not found: anchor missing")
	}
	// overflow check dominates integer results
	ov := c.P.Func("base/untyped.ConvertLiteralCheckOverflow")
	okOv := false
	if ov != nil {
		ast.Inspect(ov.Body, func(nd ast.Node) bool {
			ifs, ok := nd.(*ast.IfStmt)
			if !ok {
				return true
			}
			s := exprString(ifs.Cond)
			if !(strings.Contains(s, "Int") && strings.Contains(s, "Uint") && strings.Contains(s, "||")) {
				return true
			}
			ncmp, nerr := 0, 0
			ast.Inspect(ifs, func(m ast.Node) bool {
				if b, ok := m.(*ast.BinaryExpr); ok && b.Op == token.NEQ && identOf(b.X) != nil && identOf(b.X).Name == "src" {
					ncmp++
				}
				return true
			})
			inspectCalls(ifs, func(call *ast.CallExpr) {
				if fn := calleeOf(info, call); fn != nil && isErrorHelper(fn) {
					nerr++
				}
			})
			if ncmp >= 2 && nerr >= 2 {
				okOv = true
			}
			return true
		})
	}
	c.Ob(rule, "base/untyped.ConvertLiteralCheckOverflow", ov, okOv, "a conversion to an integer kind converts the result back and compares it with the source, reporting overflow / truncation, in both the float and the integer branch")
}

// ruleUntypedOperators (E6): the operator handed to go/constant is the node's operator.
func ruleUntypedOperators(c *Ctx, rule string) {
	pk := c.P.Pkg("fast")
	info := pk.TypesInfo
	bu := c.P.Func("fast.Comp.BinaryExprUntyped")
	if bu == nil {
		c.Ob(rule, "fast.Comp.BinaryExprUntyped", nil, false, "anchor function not found")
		return
	}
	di := buildDefIndex(info, bu)
	var params []types.Object
	for _, f := range bu.Type.Params.List {
		for _, nm := range f.Names {
			params = append(params, info.Defs[nm])
		}
	}
	nodeObj, xObj, yObj := params[0], params[1], params[2]
	derivesFromNodeOp := func(e ast.Expr) (bool, string) {
		// follow definitions: op := node.Op ; op2 := tokenWithoutAssign(op) ; op2 = token.QUO_ASSIGN
		id := identOf(e)
		if id == nil {
			return false, exprString(e)
		}
		o := info.Uses[id]
		var defs []ast.Expr
		ast.Inspect(bu.Body, func(n ast.Node) bool {
			if as, ok := n.(*ast.AssignStmt); ok && len(as.Lhs) == len(as.Rhs) {
				for i, l := range as.Lhs {
					if lid := identOf(l); lid != nil && (info.Defs[lid] == o || info.Uses[lid] == o) {
						defs = append(defs, as.Rhs[i])
					}
				}
			}
			return true
		})
		okAll := len(defs) > 0
		var how []string
		for _, d := range defs {
			d = unparen(d)
			if sel, ok := d.(*ast.SelectorExpr); ok && sel.Sel.Name == "Op" && identOf(sel.X) != nil && info.Uses[identOf(sel.X)] == nodeObj {
				how = append(how, "node.Op")
				continue
			}
			if call, ok := d.(*ast.CallExpr); ok && funcFullName(calleeOf(info, call)) == "fast.tokenWithoutAssign" && len(call.Args) == 1 {
				if r := di.rootOf(info, call.Args[0], 0); r == nodeObj {
					how = append(how, "tokenWithoutAssign(node.Op)")
					continue
				}
			}
			if objQName(usedObj(info, d)) == "go/token.QUO_ASSIGN" {
				how = append(how, "QUO_ASSIGN")
				continue
			}
			okAll = false
			how = append(how, exprString(d))
		}
		return okAll, strings.Join(how, " | ")
	}
	isVal := func(e ast.Expr, o types.Object) bool {
		sel, ok := unparen(e).(*ast.SelectorExpr)
		return ok && sel.Sel.Name == "Val" && identOf(sel.X) != nil && info.Uses[identOf(sel.X)] == o
	}
	n := 0
	inspectCalls(bu.Body, func(call *ast.CallExpr) {
		switch funcFullName(calleeOf(info, call)) {
		case "go/constant.Compare", "go/constant.BinaryOp":
			if len(call.Args) != 3 {
				return
			}
			n++
			okOp, how := derivesFromNodeOp(call.Args[1])
			c.Ob(rule, "fast.Comp.BinaryExprUntyped/"+calleeOf(info, call).Name(), call, okOp && isVal(call.Args[0], xObj) && isVal(call.Args[2], yObj),
				"go/constant is called with (x.Val, operator, y.Val) where the operator is "+how)
		}
	})
	if n < 2 {
		c.Ob(rule, "fast.Comp.BinaryExprUntyped", bu, false, "constant.Compare / constant.BinaryOp calls not found: anchor missing")
	}
	// integer division: QUO becomes QUO_ASSIGN exactly when both operands are Int or Rune
	okQuo := false
	ast.Inspect(bu.Body, func(nd ast.Node) bool {
		ifs, ok := nd.(*ast.IfStmt)
		if !ok {
			return true
		}
		sets := false
		for _, st := range ifs.Body.List {
			if as, ok := st.(*ast.AssignStmt); ok && len(as.Rhs) == 1 && objQName(usedObj(info, as.Rhs[0])) == "go/token.QUO_ASSIGN" {
				sets = true
			}
		}
		if !sets {
			return true
		}
		atoms := andAtoms(ifs.Cond)
		isQuo, intFlags := false, 0
		for _, a := range atoms {
			if b, ok := a.(*ast.BinaryExpr); ok && b.Op == token.EQL && objQName(usedObj(info, b.Y)) == "go/token.QUO" {
				isQuo = true
			}
			if id := identOf(a); id != nil {
				if d := di.single(info.Uses[id]); d != nil {
					s := exprString(d)
					if strings.Contains(s, "untyped.Int") && strings.Contains(s, "untyped.Rune") && strings.Contains(s, "||") {
						intFlags++
					}
				}
			}
		}
		okQuo = isQuo && intFlags == 2 && len(atoms) == 3
		return true
	})
	c.Ob(rule, "fast.Comp.BinaryExprUntyped/integer-division", bu, okQuo, "untyped division truncates (QUO_ASSIGN) exactly when both operands are of Int or Rune kind")
	// && and ||
	okLog := false
	ast.Inspect(bu.Body, func(nd ast.Node) bool {
		ifs, ok := nd.(*ast.IfStmt)
		if !ok {
			return true
		}
		b, ok := unparen(ifs.Cond).(*ast.BinaryExpr)
		if !ok || b.Op != token.EQL || objQName(usedObj(info, b.Y)) != "go/token.LAND" {
			return true
		}
		thenOp, elseOp := token.ILLEGAL, token.ILLEGAL
		ast.Inspect(ifs.Body, func(m ast.Node) bool {
			if be, ok := m.(*ast.BinaryExpr); ok && (be.Op == token.LAND || be.Op == token.LOR) {
				thenOp = be.Op
			}
			return true
		})
		if ifs.Else != nil {
			ast.Inspect(ifs.Else, func(m ast.Node) bool {
				if be, ok := m.(*ast.BinaryExpr); ok && (be.Op == token.LAND || be.Op == token.LOR) {
					elseOp = be.Op
				}
				return true
			})
		}
		okLog = thenOp == token.LAND && elseOp == token.LOR
		return true
	})
	c.Ob(rule, "fast.Comp.BinaryExprUntyped/logical", bu, okLog, "untyped && computes xb && yb and || computes xb || yb")
	// shifts dispatch with the matching token
	for _, a := range dispatchArms(pk) {
		if a.fd != bu {
			continue
		}
		for i, t := range a.targets {
			if t.Name() == "ShiftUntyped" && len(a.calls[i].Args) >= 2 {
				want := plainToken(a.tokens[0])
				got := objQName(usedObj(info, a.calls[i].Args[1]))
				c.Ob(rule, "fast.Comp.BinaryExprUntyped/shift/"+strings.Join(a.tokens, ","), a.clause, got == "go/token."+want, "arm "+strings.Join(a.tokens, ",")+" calls ShiftUntyped with "+got)
			}
		}
	}
	// ShiftUntyped passes its operator to constant.Shift
	su := c.P.Func("fast.Comp.ShiftUntyped")
	okSh := false
	if su != nil {
		var opObj types.Object
		k := 0
		for _, f := range su.Type.Params.List {
			for _, nm := range f.Names {
				if k == 1 {
					opObj = info.Defs[nm]
				}
				k++
			}
		}
		inspectCalls(su.Body, func(call *ast.CallExpr) {
			if funcFullName(calleeOf(info, call)) == "go/constant.Shift" && len(call.Args) == 3 && identOf(call.Args[1]) != nil && info.Uses[identOf(call.Args[1])] == opObj {
				okSh = true
			}
		})
	}
	c.Ob(rule, "fast.Comp.ShiftUntyped", su, okSh, "constant.Shift receives the operator ShiftUntyped was called with")
	// unary
	uu := c.P.Func("fast.Comp.UnaryExprUntyped")
	okUn := false
	if uu != nil {
		du := buildDefIndex(info, uu)
		inspectCalls(uu.Body, func(call *ast.CallExpr) {
			if funcFullName(calleeOf(info, call)) == "go/constant.UnaryOp" && len(call.Args) == 3 {
				if d := du.single(info.Uses[identOf(call.Args[0])]); d != nil {
					if sel, ok := unparen(d).(*ast.SelectorExpr); ok && sel.Sel.Name == "Op" {
						okUn = true
					}
				}
			}
		})
	}
	c.Ob(rule, "fast.Comp.UnaryExprUntyped", uu, okUn, "constant.UnaryOp receives node.Op")
	// the X_ASSIGN -> X table
	n2 := 0
	for _, f := range pk.Syntax {
		ast.Inspect(f, func(nd ast.Node) bool {
			vs, ok := nd.(*ast.ValueSpec)
			if !ok || len(vs.Names) != 1 || (vs.Names[0].Name != "tokenRemoveAssign" && vs.Names[0].Name != "tokenAddAssign") || len(vs.Values) != 1 {
				return true
			}
			cl, ok := vs.Values[0].(*ast.CompositeLit)
			if !ok {
				return true
			}
			var bad []string
			for _, el := range cl.Elts {
				kv := el.(*ast.KeyValueExpr)
				k, v := usedObj(info, kv.Key).Name(), usedObj(info, kv.Value).Name()
				n2++
				if vs.Names[0].Name == "tokenRemoveAssign" && k != v+"_ASSIGN" || vs.Names[0].Name == "tokenAddAssign" && v != k+"_ASSIGN" {
					bad = append(bad, k+"->"+v)
				}
			}
			sort.Strings(bad)
			c.Ob(rule, "fast."+vs.Names[0].Name, vs, len(bad) == 0 && len(cl.Elts) == 11, fmt.Sprintf("the table pairs each of the 11 compound-assignment tokens with its own operator (mismatches: %v)", bad))
			return true
		})
	}
	if n2 < 22 {
		c.Ob(rule, "fast.tokenRemoveAssign", nil, false, "operator tables not found: anchor missing")
	}
	_ = constant.Int
}
