package main

func init() {
	register(&PropDef{
		ID:    "C31",
		Title: "Precompiled import tables bind each name to exactly that exported symbol",
		Explanation: "Decided (exhaustively over every Packages[path] table in imports/, imports/syscall, imports/thirdparty, per configuration): " +
			"T1 every Binds entry K resolves through go/types to the exported package-level object named K of the registered package (functions by value, variables through &v then Elem so that interpreted code aliases the variable, constants by value with at most a value-preserving conversion); " +
			"T2 every Types entry K is TypeOf((*P.K)(nil)).Elem() of the named type K; T3 every Untypeds string decodes (checker's own reader) to exactly types.Const.Val() of P.K with the same untyped kind, and every bound untyped constant has such an entry; " +
			"T4 every Proxies entry is a struct {Object interface{}; M_ func(interface{}, params...) results} that implements the interface and whose methods forward receiver.Object then every parameter in order; " +
			"T5 every Wrappers name is a promoted method (selection path > 1) of the named type in Go's method set; T6 Name equals the package name. " +
			"Not decided: behaviour of the bound functions, completeness of a table with respect to newer toolchains, generated-file freshness.",
		Assumptions: []string{"go/types view of the installed standard library (export data) is the oracle", "go/constant arithmetic", "reflect.ValueOf / TypeOf / Elem behave as documented"},
		Rules:       []func(*Ctx){ruleImportTables, ruleImportTablesFloors},
		ThoroughConfigs: []string{"linux/386", "darwin/amd64", "linux/arm64", "freebsd/amd64", "windows/386"},
		Mutants: []Mutant{
			{Name: "bind-swapped-func", File: "imports/strings.go", Old: `"ToUpper":	ValueOf(strings.ToUpper)`, New: `"ToUpper":	ValueOf(strings.ToTitle)`, Canary: true},
			{Name: "var-by-value", File: "imports/os.go", Old: `ValueOf(&os.Args).Elem()`, New: `ValueOf(os.Args)`},
			{Name: "untyped-off-by-one", File: "imports/math.go", Old: `"MaxInt8":	"int:127"`, New: `"MaxInt8":	"int:128"`, Canary: true},
			{Name: "type-swapped", File: "imports/bufio.go", Old: `"Reader":	TypeOf((*bufio.Reader)(nil)).Elem()`, New: `"Reader":	TypeOf((*bufio.Writer)(nil)).Elem()`},
			{Name: "proxy-args-swapped", File: "imports/io.go", Old: `return P.WriteAt_(P.Object, p, off)`, New: `return P.WriteAt_(P.Object, p, off+1)`, Nth: 1},
			{Name: "wrapper-not-promoted", File: "imports/bufio.go", Old: `"Available","AvailableBuffer",`, New: `"Available","AvailableBuffer","Bogus",`},
		},
	})
}

func ruleImportTablesFloors(c *Ctx) {
	c.Floor("T1-bind", 2600)
	c.Floor("T2-type", 580)
	c.Floor("T3-untyped", 220)
	c.Floor("T4-proxy", 90)
	c.Floor("T5-wrapper", 100)
}
