package main

import (
	"go/ast"
	"go/constant"
)

func init() {
	register(&PropDef{
		ID:    "C31",
		Title: "Precompiled import tables bind each name to exactly that exported symbol",
		Explanation: "Decided (exhaustively over every Packages[path] table in imports/, imports/syscall, imports/thirdparty, per configuration): " +
			"T1 every Binds entry K resolves through go/types to the exported package-level object named K of the registered package (functions by value, variables through &v then Elem so that interpreted code aliases the variable, constants by value with at most a value-preserving conversion); " +
			"T2 every Types entry K is TypeOf((*P.K)(nil)).Elem() of the named type K; T3 every Untypeds string decodes (checker's own reader) to exactly types.Const.Val() of P.K with the same untyped kind, and every bound untyped constant has such an entry; " +
			"T4 every Proxies entry is a struct {Object interface{}; M_ func(interface{}, params...) results} that implements the interface and whose methods forward receiver.Object then every parameter in order; " +
			"T5 every Wrappers name is a promoted method (selection path > 1) of the named type in Go's method set; T6 Name equals the package name; U/A2 the per-kind readers and places of imported variables in fast/import.go are uniform across kinds (each reads the live variable with the accessor of its kind). " +
			"T6o loadBinds classifies a table entry as a variable (addressable and settable) before it considers it a constant. " +
			"Counted, no verdict: untyped constants bound in a table that has no Untypeds entry for them (the darwin syscall tables have none at all): they are imported as typed constants of their default type; the property speaks of the entries the tables have. " +
			"Not decided: behaviour of the bound functions, completeness of a table with respect to newer toolchains, generated-file freshness.",
		Assumptions: []string{"go/types view of the installed standard library (export data) is the oracle", "go/constant arithmetic", "reflect.ValueOf / TypeOf / Elem behave as documented"},
		Rules: []func(*Ctx){ruleImportTables, ruleImportTablesFloors, func(c *Ctx) {
			ruleLoadBindsClassOrder(c, "T6o-loadbinds-class-order")
			// loader side: the per-kind readers/places of imported variables in fast/import.go
			ruleUniformity(c, "fast", []string{"import.go"}, "U-uniform")
			ruleAccessorFiles(c, "fast", []string{"import.go"}, "A2-accessor")
			c.Floor("U-uniform", 30)
		}},
		ThoroughConfigs: []string{"linux/386", "darwin/amd64", "linux/arm64", "freebsd/amd64", "windows/386"},
		Mutants: []Mutant{
			{Name: "bind-swapped-func", File: "imports/strings.go", Old: `"ToUpper":	ValueOf(strings.ToUpper)`, New: `"ToUpper":	ValueOf(strings.ToTitle)`, Canary: true},
			{Name: "var-by-value", File: "imports/os.go", Old: `ValueOf(&os.Args).Elem()`, New: `ValueOf(os.Args)`},
			{Name: "untyped-off-by-one", File: "imports/math.go", Old: `"MaxInt8":	"int:127"`, New: `"MaxInt8":	"int:128"`, Canary: true},
			{Name: "type-swapped", File: "imports/bufio.go", Old: `"Reader":	TypeOf((*bufio.Reader)(nil)).Elem()`, New: `"Reader":	TypeOf((*bufio.Writer)(nil)).Elem()`},
			{Name: "proxy-args-swapped", File: "imports/io.go", Old: `return P.WriteAt_(P.Object, p, off)`, New: `return P.WriteAt_(P.Object, p, off+1)`, Nth: 1},
			{Name: "wrapper-not-promoted", File: "imports/bufio.go", Old: `"Available","AvailableBuffer",`, New: `"Available","AvailableBuffer","Bogus",`},
		},
	})
}

func ruleImportTablesFloors(c *Ctx) {
	c.Floor("T1-bind", 2600)
	c.Floor("T2-type", 580)
	c.Floor("T3-untyped", 220)
	c.Floor("T4-proxy", 90)
	c.Floor("T5-wrapper", 100)
}

func init() {
	register(&PropDef{
		ID:    "C32",
		Title: "Untyped constant serialization round-trips exactly",
		Explanation: "Decided: M2 the tags written by Marshal (one per Kind arm) and the tags read by Unmarshal are in bijection and map back to the same Kind; M3 the number of payload fields written per tag equals the number the reader splits; " +
			"M4 the tag is cut at the FIRST ':' and the payload is everything after it; M5 every numeric field is produced by constant.Value.ExactString (never the lossy String) and consumed by MakeFromLiteral(token.INT) for int/rune or by unmarshalFloat for float/complex; " +
			"M6 unmarshalFloat splits on '/' and divides numerator by denominator; T3 (shared with C31) every one of the marshalled literals present in the import tables decodes, with the checker's own reader, to exactly the constant it names. " +
			"M7u the marshalled text of the table reaches untyped.Unmarshal unmodified. " +
			"Not decided: that go/constant's ExactString and MakeFromLiteral are mutually inverse (trusted).",
		Assumptions: []string{"go/constant ExactString/MakeFromLiteral are inverse on exact values", "fmt.Sprintf %s is verbatim"},
		Rules:       []func(*Ctx){ruleMarshalTables, ruleUntypedLiteralsOnly, func(c *Ctx) { ruleUnmarshalArgUnmodified(c, "M7u-unmarshal-arg-unmodified") }},
		Mutants: []Mutant{
			{Name: "table-text-trimmed-before-decoding", File: "fast/import.go", Old: "kind, value := untyped.Unmarshal(untypedstr)", New: "kind, value := untyped.Unmarshal(strings.TrimSpace(untypedstr))"},
			{Name: "lossy-string", File: "base/untyped/val.go", Old: `s = fmt.Sprintf("float:%s", val.ExactString())`, New: `s = fmt.Sprintf("float:%s", val.String())`, Canary: true},
			{Name: "tag-kind-swapped", File: "base/untyped/val.go", Old: "case \"rune\":\n\t\tkind = Rune", New: "case \"rune\":\n\t\tkind = Int"},
			{Name: "last-colon", File: "base/untyped/val.go", Old: `strings.IndexByte(marshalled, ':')`, New: `strings.LastIndexByte(marshalled, ':')`, Canary: true},
			{Name: "fraction-inverted", File: "base/untyped/val.go", Old: `return constant.BinaryOp(x, token.QUO, y)`, New: `return constant.BinaryOp(y, token.QUO, x)`},
			{Name: "complex-imag-as-int", File: "base/untyped/val.go", Old: `im := unmarshalFloat(str[sep+1:])`, New: `im := constant.MakeFromLiteral(str[sep+1:], token.INT, 0)`},
			{Name: "int-as-float-literal", File: "base/untyped/val.go", Old: "kind = Int\n\t\tval = constant.MakeFromLiteral(str, token.INT, 0)", New: "kind = Int\n\t\tval = constant.MakeFromLiteral(str, token.FLOAT, 0)"},
		},
	})
}

// ruleUntypedLiteralsOnly: every marshalled literal in the import tables is in the
// canonical form Marshal writes: decoding it (checker's own reader) and re-encoding
// the value with ExactString gives the same string back.
func ruleUntypedLiteralsOnly(c *Ctx) {
	for _, t := range findImportTables(c.P) {
		cl := t.field["Untypeds"]
		if cl == nil {
			continue
		}
		for _, e := range cl.Elts {
			kv := e.(*ast.KeyValueExpr)
			k, ok := strKey(t.pk.TypesInfo, kv.Key)
			s, ok2 := strKey(t.pk.TypesInfo, kv.Value)
			if !ok || !ok2 {
				continue
			}
			key := "imports[" + t.path + "]." + k
			kind, val, err := decodeUntyped(s)
			if err != nil {
				c.Ob("U1-literal-roundtrip", key, kv, false, err.Error())
				continue
			}
			back := encodeUntyped(kind, val)
			c.Ob("U1-literal-roundtrip", key, kv, back == s, "decode then encode: "+short(s)+" -> "+short(back))
		}
	}
	c.Floor("U1-literal-roundtrip", 220)
}

func encodeUntyped(kind string, v constant.Value) string {
	switch kind {
	case "bool":
		if constant.BoolVal(v) {
			return "bool:true"
		}
		return "bool:false"
	case "int", "rune":
		return kind + ":" + constant.ToInt(v).ExactString()
	case "float":
		return "float:" + v.ExactString()
	case "complex":
		return "complex:" + constant.Real(v).ExactString() + ":" + constant.Imag(v).ExactString()
	case "string":
		return "string:" + constant.StringVal(v)
	}
	return "nil"
}
