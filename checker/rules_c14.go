package main

import (
	"go/ast"
	"go/token"
	"go/types"
)

func selField(info *types.Info, e ast.Expr, field string) bool {
	sel, ok := unparen(e).(*ast.SelectorExpr)
	if !ok || sel.Sel.Name != field {
		return false
	}
	s := info.Selections[sel]
	return s != nil && s.Kind() == types.FieldVal
}

// ruleFreeEnvStructure: freeEnv never recycles a frame used by a closure and drops the
// integer slots of a frame whose address was taken before putting it in the pool.
func ruleFreeEnvStructure(c *Ctx) {
	pk := c.P.Pkg("fast")
	info := pk.TypesInfo
	fd := c.P.Func("fast.Env.freeEnv")
	if fd == nil {
		c.Ob("FE1-freeenv", "fast.Env.freeEnv", nil, false, "anchor function not found")
		return
	}
	var poolWrite token.Pos
	ast.Inspect(fd.Body, func(n ast.Node) bool {
		if as, ok := n.(*ast.AssignStmt); ok {
			for _, l := range as.Lhs {
				if ix, ok := unparen(l).(*ast.IndexExpr); ok && selField(info, ix.X, "Pool") && poolWrite == 0 {
					poolWrite = as.Pos()
				}
			}
		}
		return true
	})
	if poolWrite == 0 {
		c.Ob("FE1-freeenv", "fast.Env.freeEnv/pool-write", fd, false, "no store into Run.Pool found")
		return
	}
	closureGuard, intsDrop := false, false
	for _, st := range fd.Body.List {
		ifs, ok := st.(*ast.IfStmt)
		if !ok || ifs.Pos() > poolWrite {
			continue
		}
		if selField(info, ifs.Cond, "UsedByClosure") && terminates(ifs.Body) {
			closureGuard = true
		}
		if selField(info, ifs.Cond, "IntAddressTaken") {
			for _, b := range ifs.Body.List {
				if as, ok := b.(*ast.AssignStmt); ok && len(as.Lhs) == 1 && len(as.Rhs) == 1 && selField(info, as.Lhs[0], "Ints") {
					if id := identOf(as.Rhs[0]); id != nil && id.Name == "nil" {
						intsDrop = true
					}
				}
			}
		}
	}
	c.Ob("FE1-freeenv", "fast.Env.freeEnv/used-by-closure", fd, closureGuard, "`if env.UsedByClosure { return }` precedes the store into the pool")
	c.Ob("FE1-freeenv", "fast.Env.freeEnv/int-address-taken", fd, intsDrop, "`if env.IntAddressTaken { env.Ints = nil }` precedes the store into the pool")
}

// rulePrepareEnv: the REPL environment never reallocates its integer slots after an
// address into them was taken, and publishes the cap as IntBindMax.
func rulePrepareEnv(c *Ctx) {
	pk := c.P.Pkg("fast")
	info := pk.TypesInfo
	fd := c.P.Func("fast.Interp.prepareEnv")
	if fd == nil {
		c.Ob("PE1-prepareenv", "fast.Interp.prepareEnv", nil, false, "anchor function not found")
		return
	}
	n := 0
	ast.Inspect(fd.Body, func(nd ast.Node) bool {
		blk, ok := nd.(*ast.BlockStmt)
		if !ok {
			return true
		}
		for i, st := range blk.List {
			as, ok := st.(*ast.AssignStmt)
			if !ok || len(as.Lhs) != 1 || len(as.Rhs) != 1 || !selField(info, as.Lhs[0], "Ints") {
				continue
			}
			// a re-slice of the same array does not move the slots
			if sl, ok := unparen(as.Rhs[0]).(*ast.SliceExpr); ok && selField(info, sl.X, "Ints") {
				continue
			}
			n++
			guarded := false
			for j := 0; j < i; j++ {
				if ifs, ok := blk.List[j].(*ast.IfStmt); ok && selField(info, ifs.Cond, "IntAddressTaken") {
					inspectCalls(ifs.Body, func(call *ast.CallExpr) {
						if fn := calleeOf(info, call); fn != nil && isErrorHelper(fn) {
							guarded = true
						}
					})
				}
			}
			c.Ob("PE1-prepareenv", "fast.Interp.prepareEnv/realloc", as, guarded, "a new slot array is installed only after `if env.IntAddressTaken { Errorf }` in the same block")
		}
		return true
	})
	if n == 0 {
		c.Ob("PE1-prepareenv", "fast.Interp.prepareEnv/realloc", fd, false, "no reallocation of Env.Ints found: anchor missing")
	}
	pub := false
	for _, st := range fd.Body.List {
		if ifs, ok := st.(*ast.IfStmt); ok && selField(info, ifs.Cond, "IntAddressTaken") {
			for _, b := range ifs.Body.List {
				if as, ok := b.(*ast.AssignStmt); ok && len(as.Lhs) == 1 && selField(info, as.Lhs[0], "IntBindMax") {
					if call, ok := unparen(as.Rhs[0]).(*ast.CallExpr); ok && identOf(call.Fun) != nil && identOf(call.Fun).Name == "cap" && len(call.Args) == 1 && selField(info, call.Args[0], "Ints") {
						pub = true
					}
				}
			}
		}
	}
	c.Ob("PE1-prepareenv", "fast.Interp.prepareEnv/publish-max", fd, pub, "`if env.IntAddressTaken { c.IntBindMax = cap(env.Ints) }` at function level")
}

// ruleNewBindMax: a variable becomes an unboxed IntBind only while IntBindMax allows it.
func ruleNewBindMax(c *Ctx) {
	pk := c.P.Pkg("fast")
	info := pk.TypesInfo
	fd := c.P.Func("fast.Comp.NewBind")
	if fd == nil {
		c.Ob("NB1-intbindmax", "fast.Comp.NewBind", nil, false, "anchor function not found")
		return
	}
	n := 0
	slotsWhy := ""
	var stack []ast.Node
	ast.Inspect(fd.Body, func(nd ast.Node) bool {
		if nd == nil {
			stack = stack[:len(stack)-1]
			return true
		}
		stack = append(stack, nd)
		as, ok := nd.(*ast.AssignStmt)
		if !ok || len(as.Rhs) != 1 || objQName(usedObj(info, as.Rhs[0])) != "fast.IntBind" {
			return true
		}
		n++
		ok2 := false
		for i := len(stack) - 2; i >= 0; i-- {
			ifs, isIf := stack[i].(*ast.IfStmt)
			if !isIf || !containsNode(ifs.Body, as) {
				continue
			}
			for _, a := range andAtoms(ifs.Cond) {
				ors := orAtoms(a)
				zero, below := false, false
				for _, o := range ors {
					b, isB := o.(*ast.BinaryExpr)
					if !isB {
						continue
					}
					if b.Op == token.EQL && selField(info, b.X, "IntBindMax") {
						if v, isC := constInt(info, b.Y); isC && v == 0 {
							zero = true
						}
					}
					if b.Op == token.LSS && selField(info, b.X, "IntBindNum") && selField(info, b.Y, "IntBindMax") {
						// one free slot is enough only if no admitted kind needs two
						if !mentionsObjNamed(info, ifs.Cond, "Complex128") {
							below = true
						} else {
							slotsWhy = "IntBindNum < IntBindMax leaves one free slot, but complex128 (admitted by the same condition) occupies two"
						}
					}
					if b.Op == token.LEQ && selField(info, b.Y, "IntBindMax") {
						// IntBindNum + slots <= IntBindMax with slots == 2 exactly for complex128
						if add, isAdd := unparen(b.X).(*ast.BinaryExpr); isAdd && add.Op == token.ADD {
							var sid *ast.Ident
							if selField(info, add.X, "IntBindNum") {
								sid = identOf(add.Y)
							} else if selField(info, add.Y, "IntBindNum") {
								sid = identOf(add.X)
							}
							if sid != nil && slotsVarOK(info, fd, info.Uses[sid]) {
								below = true
							} else {
								slotsWhy = "the number of slots added to IntBindNum is not 1, raised to 2 under a Complex128 test"
							}
						}
					}
				}
				if zero && below && len(ors) == 2 {
					ok2 = true
				}
			}
		}
		c.Ob("NB1-intbindmax", "fast.Comp.NewBind/class=IntBind", as, ok2, "class IntBind is chosen only under (IntBindMax == 0 || the slots the variable needs still fit below IntBindMax)"+sep(slotsWhy))
		return true
	})
	if n == 0 {
		c.Ob("NB1-intbindmax", "fast.Comp.NewBind", fd, false, "no `class = IntBind` found: anchor missing")
	}
}

// ruleNoValsAddress: no &E.Vals[i] anywhere (boxed cells are addressed through reflect, the
// slice may be reallocated freely). Expected count zero; the positive example is Q1's census.
func ruleNoValsAddress(c *Ctx, short, rule string) {
	pk := c.P.Pkg(short)
	info := pk.TypesInfo
	n := 0
	for _, f := range pk.Syntax {
		ast.Inspect(f, func(nd ast.Node) bool {
			if u, ok := nd.(*ast.UnaryExpr); ok && u.Op == token.AND {
				if _, _, ok := valsAccess(info, u.X); ok {
					n++
					c.Ob(rule, short+"/&Vals", u, false, "address of an element of Env.Vals taken: the slice is reallocated by prepareEnv")
				}
			}
			return true
		})
	}
	if n == 0 {
		c.Ob(rule, short+"/&Vals", nil, true, "no expression takes the address of an Env.Vals element")
	}
}

// ruleNoCellReplacement: assignment statements store INTO a variable's boxed cell
// (E.Vals[i].Set...), they never replace the cell (E.Vals[i] = v): replacing it would
// break every pointer and closure that aliases the variable. Declarations and
// parameter binding (other files) legitimately create cells; they are counted as the
// positive example that keeps the detector honest.
func ruleNoCellReplacement(c *Ctx, files []string, rule string) {
	pk := c.P.Pkg("fast")
	info := pk.TypesInfo
	fileSet := map[string]bool{}
	for _, f := range files {
		fileSet[f] = true
	}
	elsewhere, checked := 0, 0
	for _, f := range pk.Syntax {
		in := fileSet[baseName(c.P.Fset, f)]
		for _, d := range f.Decls {
			fd, ok := d.(*ast.FuncDecl)
			if !ok || fd.Body == nil {
				continue
			}
			n := 0
			ast.Inspect(fd.Body, func(nd ast.Node) bool {
				as, ok := nd.(*ast.AssignStmt)
				if !ok {
					return true
				}
				for _, l := range as.Lhs {
					if _, _, ok := valsAccess(info, l); ok {
						if in {
							n++
							c.Ob(rule, funcKey(pk, fd), as, false, "assignment code replaces the boxed cell "+exprString(l)+" instead of storing into it: pointers and closures over the variable stop aliasing it")
						} else {
							elsewhere++
						}
					}
				}
				return true
			})
			if in {
				checked++
				if n == 0 {
					c.ObTrivial(rule, funcKey(pk, fd), fd, true, "no cell replacement")
				}
			}
		}
	}
	c.Ob(rule+"-detector", "fast/cell-creation-sites", nil, elsewhere >= 10, "the detector sees the legitimate cell creations of declarations and parameter binding (positive example)")
	c.Extra(rule+"_census", map[string]int{"functions_checked": checked, "cell_creations_elsewhere": elsewhere})
}

func mentionsObjNamed(info *types.Info, n ast.Node, name string) bool {
	f := false
	ast.Inspect(n, func(x ast.Node) bool {
		if e, ok := x.(ast.Expr); ok {
			if o := usedObj(info, e); o != nil && o.Name() == name {
				f = true
			}
		}
		return !f
	})
	return f
}

// slotsVarOK: o is a local defined as the constant 1 and assigned the constant 2 only inside an if whose
// condition mentions Complex128.
func slotsVarOK(info *types.Info, fd *ast.FuncDecl, o types.Object) bool {
	if o == nil {
		return false
	}
	one, two, other := false, false, false
	var stack []ast.Node
	ast.Inspect(fd.Body, func(n ast.Node) bool {
		if n == nil {
			stack = stack[:len(stack)-1]
			return true
		}
		stack = append(stack, n)
		as, ok := n.(*ast.AssignStmt)
		if !ok || len(as.Lhs) != 1 || len(as.Rhs) != 1 || identOf(as.Lhs[0]) == nil {
			return true
		}
		lo := info.Defs[identOf(as.Lhs[0])]
		if lo == nil {
			lo = info.Uses[identOf(as.Lhs[0])]
		}
		if lo != o {
			return true
		}
		v, isC := constInt(info, as.Rhs[0])
		switch {
		case isC && v == 1 && as.Tok == token.DEFINE:
			one = true
		case isC && v == 2 && as.Tok == token.ASSIGN:
			guarded := false
			for _, a := range stack {
				if ifs, ok := a.(*ast.IfStmt); ok && containsNode(ifs.Body, as) && mentionsObjNamed(info, ifs.Cond, "Complex128") {
					guarded = true
				}
			}
			if guarded {
				two = true
			} else {
				other = true
			}
		default:
			other = true
		}
		return true
	})
	return one && two && !other
}

// rulePrepareBeforeCompile (PE2): the limit on unboxed slots is published before compiling, not only after: the
// address of a slot is taken at run time, so the first compilation that follows must already see IntBindMax.
func rulePrepareBeforeCompile(c *Ctx) {
	pk := c.P.Pkg("fast")
	info := pk.TypesInfo
	fd := c.P.Func("fast.Interp.CompileAst")
	if fd == nil || fd.Body == nil {
		c.Ob("PE2-publish-before-compile", "fast.Interp.CompileAst", nil, false, "anchor function not found")
		return
	}
	var compilePos, pubPos token.Pos
	inspectCalls(fd.Body, func(call *ast.CallExpr) {
		if funcFullName(calleeOf(info, call)) == "fast.Comp.Compile" {
			compilePos = call.Pos()
		}
	})
	for _, st := range fd.Body.List {
		ifs, ok := st.(*ast.IfStmt)
		if !ok {
			continue
		}
		taken := false
		ast.Inspect(ifs.Cond, func(n ast.Node) bool {
			if e, ok := n.(ast.Expr); ok {
				if _, is := fieldSel(info, e, "IntAddressTaken"); is {
					taken = true
				}
			}
			return true
		})
		if !taken {
			continue
		}
		for _, bs := range ifs.Body.List {
			if as, ok := bs.(*ast.AssignStmt); ok && len(as.Lhs) == 1 && len(as.Rhs) == 1 && selField(info, as.Lhs[0], "IntBindMax") {
				if call, ok := unparen(as.Rhs[0]).(*ast.CallExpr); ok && identOf(call.Fun) != nil && identOf(call.Fun).Name == "cap" && len(call.Args) == 1 {
					if _, is := fieldSel(info, call.Args[0], "Ints"); is {
						pubPos = ifs.Pos()
					}
				}
			}
		}
	}
	c.Ob("PE2-publish-before-compile", "fast.Interp.CompileAst", fd, compilePos != token.NoPos && pubPos != token.NoPos && pubPos < compilePos, "`if env.IntAddressTaken { c.IntBindMax = cap(env.Ints) }` precedes Comp.Compile: the statement compiled right after an address was taken already respects the limit")
}
