// gmcheck: repository-specific static checker for cosmos72/gomacro.
//
// Every rule parses and type-checks /repo's current working tree and discharges
// obligations keyed by rule + construct (never by line). Nothing under /repo is
// executed. See /verif/DESIGN.md.
package main

import (
	"encoding/json"
	"flag"
	"fmt"
	"go/ast"
	"go/token"
	"go/types"
	"os"
	"path/filepath"
	"reflect"
	"regexp"
	"sort"
	"strconv"
	"strings"
	"time"

	"golang.org/x/tools/go/packages"
)

const modPath = "github.com/cosmos72/gomacro"

// Obligation is one decided instance of a rule.
type Obligation struct {
	Rule   string `json:"rule"`
	Key    string `json:"construct"`
	Pos    string `json:"pos,omitempty"`
	OK     bool   `json:"ok"`
	Detail string `json:"detail,omitempty"`
	// Nontrivial marks obligations that needed more than an anchor lookup.
	Nontrivial bool `json:"-"`
}

// Prog is one loaded configuration of the repository.
type Prog struct {
	Config string // e.g. linux/amd64
	Pkgs   map[string]*packages.Package
	Fset   *token.FileSet
	All    []*packages.Package
	funcs  map[string]*ast.FuncDecl
	encl   map[*ast.File]*packages.Package
}

// Ctx carries one property run.
type Ctx struct {
	Prop string
	Tier string
	Seed int64
	P    *Prog

	obs      []Obligation
	keyCount map[string]int
	counts   map[string]int // instances per rule
	floors   map[string]int
	extra    map[string]interface{}
	samples  []interface{}
	notes    []string
	fatal    []string // checker cannot do its job -> exit 2
	mutating bool
}

func (c *Ctx) pos(n ast.Node) string {
	if n == nil {
		return ""
	}
	// a nil *ast.FuncDecl (anchor not found) stored in the interface is not == nil
	if rv := reflect.ValueOf(n); rv.Kind() == reflect.Ptr && rv.IsNil() {
		return ""
	}
	p := c.P.Fset.Position(n.Pos())
	f := p.Filename
	if rel, err := filepath.Rel(repoDir, f); err == nil && !strings.HasPrefix(rel, "..") {
		f = rel
	}
	return f + ":" + strconv.Itoa(p.Line)
}

// Ob records an obligation. Duplicate (rule,key) pairs get an ordinal suffix in
// source order so that identity does not depend on line numbers.
func (c *Ctx) Ob(rule, key string, n ast.Node, ok bool, detail string) {
	c.ob(rule, key, n, ok, detail, true)
}

// ObTrivial records an obligation that is a plain anchor lookup.
func (c *Ctx) ObTrivial(rule, key string, n ast.Node, ok bool, detail string) {
	c.ob(rule, key, n, ok, detail, false)
}

func (c *Ctx) ob(rule, key string, n ast.Node, ok bool, detail string, nontrivial bool) {
	if c.P != nil && c.P.Config != "" && c.P.Config != hostConfig {
		key = key + "@" + c.P.Config
	}
	k := rule + "\x00" + key
	c.keyCount[k]++
	if c.keyCount[k] > 1 {
		key = key + "#" + strconv.Itoa(c.keyCount[k])
	}
	c.counts[rule]++
	if d := os.Getenv("VERIF_DUMP"); d != "" && strings.HasPrefix(rule, d) && !c.mutating {
		fmt.Fprintf(os.Stderr, "  DUMP %v %s %s: %s\n", ok, rule, key, detail)
	}
	c.obs = append(c.obs, Obligation{Rule: rule, Key: key, Pos: c.pos(n), OK: ok, Detail: detail, Nontrivial: nontrivial})
}

// Floor declares the minimum number of instances a rule must have found.
func (c *Ctx) Floor(rule string, n int) { c.floors[rule] = n }

// Fatal reports that the checker could not do its job (exit 2, never a VIOLATION).
func (c *Ctx) Fatal(format string, args ...interface{}) {
	c.fatal = append(c.fatal, fmt.Sprintf(format, args...))
}

func (c *Ctx) Note(format string, args ...interface{}) {
	c.notes = append(c.notes, fmt.Sprintf(format, args...))
}

func (c *Ctx) Sample(v interface{}) {
	if len(c.samples) < 12 {
		c.samples = append(c.samples, v)
	}
}

func (c *Ctx) Extra(k string, v interface{}) { c.extra[k] = v }

func newCtx(prop, tier string, seed int64, p *Prog) *Ctx {
	return &Ctx{Prop: prop, Tier: tier, Seed: seed, P: p,
		keyCount: map[string]int{}, counts: map[string]int{}, floors: map[string]int{},
		extra: map[string]interface{}{}}
}

// ---------------------------------------------------------------- loading

var (
	repoDir    = "/repo"
	verifDir   = "/verif"
	hostConfig = "linux/amd64"
)

func loadEnv(goos, goarch string) []string {
	env := os.Environ()
	out := env[:0:0]
	for _, e := range env {
		if strings.HasPrefix(e, "GOWORK=") || strings.HasPrefix(e, "GOOS=") || strings.HasPrefix(e, "GOARCH=") ||
			strings.HasPrefix(e, "GOFLAGS=") || strings.HasPrefix(e, "CGO_ENABLED=") {
			continue
		}
		out = append(out, e)
	}
	out = append(out, "GOWORK=off", "GOFLAGS=-mod=mod", "GOPROXY=off", "GOSUMDB=off", "GOTOOLCHAIN=local")
	if goos != "" {
		out = append(out, "GOOS="+goos, "GOARCH="+goarch, "CGO_ENABLED=0")
	}
	return out
}

// loadRepo loads packages of the repository for one configuration. overlay maps
// absolute file names to replacement contents (mutation self-test only).
func loadRepo(goos, goarch string, overlay map[string][]byte, patterns ...string) (*Prog, error) {
	if len(patterns) == 0 {
		patterns = []string{"./..."}
	}
	fset := token.NewFileSet()
	cfg := &packages.Config{
		Mode:      packages.LoadSyntax,
		Dir:       repoDir,
		Fset:      fset,
		Env:       loadEnv(goos, goarch),
		Overlay:   overlay,
		ParseFile: nil,
	}
	pkgs, err := packages.Load(cfg, patterns...)
	if err != nil {
		return nil, err
	}
	p := &Prog{Pkgs: map[string]*packages.Package{}, Fset: fset, funcs: map[string]*ast.FuncDecl{}, encl: map[*ast.File]*packages.Package{}}
	p.Config = hostConfig
	if goos != "" {
		p.Config = goos + "/" + goarch
	}
	var errs []string
	for _, pk := range pkgs {
		for _, e := range pk.Errors {
			errs = append(errs, pk.PkgPath+": "+e.Error())
		}
		if pk.Types == nil || pk.TypesInfo == nil {
			errs = append(errs, pk.PkgPath+": no type information")
			continue
		}
		p.Pkgs[pk.PkgPath] = pk
		p.All = append(p.All, pk)
	}
	sort.Slice(p.All, func(i, j int) bool { return p.All[i].PkgPath < p.All[j].PkgPath })
	if len(errs) > 0 {
		if len(errs) > 8 {
			errs = append(errs[:8], fmt.Sprintf("... and %d more", len(errs)-8))
		}
		return p, fmt.Errorf("load/type errors: %s", strings.Join(errs, "; "))
	}
	for _, pk := range p.All {
		for _, f := range pk.Syntax {
			p.encl[f] = pk
			for _, d := range f.Decls {
				if fd, ok := d.(*ast.FuncDecl); ok {
					p.funcs[funcKey(pk, fd)] = fd
				}
			}
		}
	}
	return p, nil
}

// shortPkg turns github.com/cosmos72/gomacro/fast into fast.
func shortPkg(path string) string {
	if path == modPath {
		return "main"
	}
	return strings.TrimPrefix(path, modPath+"/")
}

func recvTypeName(fd *ast.FuncDecl) string {
	if fd.Recv == nil || len(fd.Recv.List) == 0 {
		return ""
	}
	t := fd.Recv.List[0].Type
	for {
		switch x := t.(type) {
		case *ast.StarExpr:
			t = x.X
			continue
		case *ast.ParenExpr:
			t = x.X
			continue
		case *ast.IndexExpr:
			t = x.X
			continue
		case *ast.Ident:
			return x.Name
		}
		return ""
	}
}

// funcKey is pkg.Recv.Name or pkg.Name.
func funcKey(pk *packages.Package, fd *ast.FuncDecl) string {
	r := recvTypeName(fd)
	if r != "" {
		return shortPkg(pk.PkgPath) + "." + r + "." + fd.Name.Name
	}
	return shortPkg(pk.PkgPath) + "." + fd.Name.Name
}

// Func finds a function declaration by key ("fast.Comp.Add").
func (p *Prog) Func(key string) *ast.FuncDecl { return p.funcs[key] }

func (p *Prog) Pkg(short string) *packages.Package {
	if short == "main" {
		return p.Pkgs[modPath]
	}
	return p.Pkgs[modPath+"/"+short]
}

// PkgOfFunc returns the package that declares key.
func (p *Prog) PkgOfFunc(key string) *packages.Package {
	i := strings.Index(key, ".")
	// package short names may contain '/', never '.'
	return p.Pkg(key[:i])
}

// FuncsOf returns all function declarations of a package, sorted by key.
func (p *Prog) FuncsOf(short string) []*ast.FuncDecl {
	pk := p.Pkg(short)
	if pk == nil {
		return nil
	}
	var out []*ast.FuncDecl
	for _, f := range pk.Syntax {
		for _, d := range f.Decls {
			if fd, ok := d.(*ast.FuncDecl); ok {
				out = append(out, fd)
			}
		}
	}
	return out
}

func (p *Prog) stats() (pkgs, files, funcs, closures int) {
	for _, pk := range p.All {
		pkgs++
		for _, f := range pk.Syntax {
			files++
			ast.Inspect(f, func(n ast.Node) bool {
				switch n.(type) {
				case *ast.FuncDecl:
					funcs++
				case *ast.FuncLit:
					closures++
				}
				return true
			})
		}
	}
	return
}

// ---------------------------------------------------------------- findings

type Finding struct {
	Property string `json:"property"`
	Rule     string `json:"rule"`
	Key      string `json:"construct"`
	What     string `json:"what"`
	Status   string `json:"status"` // "known" or "fixed"
	Commit   string `json:"commit,omitempty"`
	ID       string `json:"id,omitempty"`
}

type Exception struct {
	Rule   string `json:"rule"`
	Key    string `json:"construct"`
	Reason string `json:"reason"`
}

func loadFindings() ([]Finding, []Exception, error) {
	var fs struct {
		Findings []Finding `json:"findings"`
	}
	var es struct {
		Exceptions []Exception `json:"exceptions"`
	}
	if b, err := os.ReadFile(filepath.Join(verifDir, "known_findings.json")); err == nil {
		if err := json.Unmarshal(b, &fs); err != nil {
			return nil, nil, fmt.Errorf("known_findings.json: %v", err)
		}
	}
	if b, err := os.ReadFile(filepath.Join(verifDir, "exceptions.json")); err == nil {
		if err := json.Unmarshal(b, &es); err != nil {
			return nil, nil, fmt.Errorf("exceptions.json: %v", err)
		}
	}
	return fs.Findings, es.Exceptions, nil
}

// ---------------------------------------------------------------- registry

type PropDef struct {
	ID          string
	Title       string
	Explanation string   // clauses decided / not decided
	Assumptions []string // trusted base
	Rules       []func(*Ctx)
	// Thorough-only rules (whole-program variants etc.).
	ThoroughRules []func(*Ctx)
	// Configs to analyse additionally in the thorough tier ("goos/goarch").
	ThoroughConfigs []string
	// Patterns restricts loading (default ./...).
	Patterns  []string
	Mutants   []Mutant
	Technique string
}

var registry = map[string]*PropDef{}

func register(p *PropDef) { registry[p.ID] = p }

// ---------------------------------------------------------------- running

type result struct {
	violations []Obligation
	known      []string
	excepted   []Obligation
	floorFail  []Obligation
}

func classify(c *Ctx, findings []Finding, exceptions []Exception) result {
	var r result
	fk := map[string]Finding{}
	for _, f := range findings {
		if f.Status == "known" && f.Property == c.Prop {
			fk[f.Rule+"\x00"+f.Key] = f
		}
	}
	ek := map[string]Exception{}
	for _, e := range exceptions {
		ek[e.Rule+"\x00"+e.Key] = e
	}
	for rule, floor := range c.floors {
		if c.counts[rule] < floor {
			c.obs = append(c.obs, Obligation{Rule: rule + "/anchor-missing", Key: rule, OK: false,
				Detail: fmt.Sprintf("rule found %d instances, floor is %d: the mechanism the property is anchored in is no longer recognisable", c.counts[rule], floor)})
		}
	}
	sort.SliceStable(c.obs, func(i, j int) bool {
		if c.obs[i].Rule != c.obs[j].Rule {
			return c.obs[i].Rule < c.obs[j].Rule
		}
		return c.obs[i].Key < c.obs[j].Key
	})
	for _, o := range c.obs {
		if o.OK {
			continue
		}
		k := o.Rule + "\x00" + stripConfig(o.Key)
		if f, ok := fk[k]; ok {
			r.known = append(r.known, fmt.Sprintf("KNOWN-FINDING: property=%s %s rule=%s construct=%s (%s): %s", c.Prop, f.ID, o.Rule, o.Key, o.Pos, f.What))
			continue
		}
		if _, ok := ek[k]; ok {
			r.excepted = append(r.excepted, o)
			continue
		}
		r.violations = append(r.violations, o)
	}
	return r
}

func writeJSON(path string, v interface{}) error {
	b, err := json.MarshalIndent(v, "", " ")
	if err != nil {
		return err
	}
	os.MkdirAll(filepath.Dir(path), 0o755)
	return os.WriteFile(path, append(b, '\n'), 0o644)
}

func runProperty(def *PropDef, tier string, seed int64, noMutants bool) int {
	start := time.Now()
	findings, exceptions, err := loadFindings()
	if err != nil {
		fmt.Println("ERROR:", err)
		return 2
	}
	prog, err := loadRepo("", "", nil, def.Patterns...)
	if err != nil {
		fmt.Printf("ERROR: cannot analyse %s: %v\n", repoDir, err)
		writeEvidenceError(def, tier, seed, err.Error(), start)
		return 2
	}
	if len(def.Patterns) == 0 && len(prog.All) < 25 {
		fmt.Printf("ERROR: only %d packages loaded\n", len(prog.All))
		return 2
	}
	c := newCtx(def.ID, tier, seed, prog)
	configs := []string{hostConfig}
	skipped := []string{}
	func() {
		defer func() {
			if r := recover(); r != nil {
				c.Fatal("internal panic: %v\n%s", r, stack())
			}
		}()
		for _, r := range def.Rules {
			r(c)
		}
		if tier == "thorough" {
			for _, r := range def.ThoroughRules {
				r(c)
			}
			for _, cf := range def.ThoroughConfigs {
				parts := strings.Split(cf, "/")
				p2, err := loadRepo(parts[0], parts[1], nil, def.Patterns...)
				if err != nil {
					skipped = append(skipped, cf+": "+firstLine(err.Error()))
					continue
				}
				configs = append(configs, cf)
				saved := c.P
				savedFloors := c.floors
				c.P = p2
				c.floors = map[string]int{}
				for _, r := range def.Rules {
					r(c)
				}
				c.P = saved
				c.floors = savedFloors
			}
		}
	}()
	if len(c.fatal) > 0 {
		for _, f := range c.fatal {
			fmt.Println("ERROR:", f)
		}
		writeEvidenceError(def, tier, seed, strings.Join(c.fatal, "; "), start)
		return 2
	}
	res := classify(c, findings, exceptions)

	// mutation self-test: canaries in quick, catalogue in thorough. Never a verdict
	// about /repo; an undetected canary means the checker is broken (exit 2).
	var mrep *mutantReport
	if !noMutants && len(def.Mutants) > 0 {
		mrep = runMutants(def, c, tier, seed, findings, exceptions)
	}

	total, discharged, nontriv := 0, 0, 0
	distinct := map[string]bool{}
	perRule := map[string]int{}
	for _, o := range c.obs {
		total++
		if o.OK {
			discharged++
		}
		perRule[o.Rule]++
		if o.Nontrivial {
			distinct[o.Rule+"\x00"+o.Key] = true
		}
	}
	nontriv = len(distinct)
	for _, o := range c.obs {
		if len(c.samples) >= 8 {
			break
		}
		if o.Nontrivial && o.OK && (len(c.samples) == 0 || o.Rule != lastRule(c.samples)) {
			c.samples = append(c.samples, map[string]string{"rule": o.Rule, "construct": o.Key, "pos": o.Pos, "detail": o.Detail})
		}
	}
	if len(c.samples) == 0 {
		for _, o := range c.obs {
			c.samples = append(c.samples, map[string]string{"rule": o.Rule, "construct": o.Key, "pos": o.Pos, "detail": o.Detail})
			if len(c.samples) >= 4 {
				break
			}
		}
	}
	npk, nfi, nfu, ncl := prog.stats()
	cov := map[string]interface{}{
		"explanation":         def.Explanation,
		"obligations":         total,
		"discharged":          discharged,
		"evaluations":         total,
		"distinct_nontrivial": nontriv,
		"rule":                "obligations are enumerated from the type-checked source of /repo (every member of every anchored specialisation family, call site, table entry or CFG path named by the rule); distinct = distinct (rule, construct) keys; non-trivial = the obligation required comparing terms, paths or types, not only finding the anchor",
		"samples":             c.samples,
		"exhaustive":          true,
		"checker_cmd":         fmt.Sprintf("/verif/check.sh %s %s", def.ID, tier),
		"trusted_base":        nonNil(def.Assumptions),
		"packages":            npk,
		"files":               nfi,
		"functions":           nfu,
		"closures":            ncl,
		"configs":             configs,
		"configs_skipped":     skipped,
		"instances_per_rule":  perRule,
		"floors":              c.floors,
		"exceptions_applied":  obKeys(res.excepted),
		"known_findings":      res.known,
		"notes":               c.notes,
	}
	for k, v := range c.extra {
		cov[k] = v
	}
	if mrep != nil {
		cov["mutation_selftest"] = mrep
	}
	var vio []map[string]string
	for _, o := range res.violations {
		vio = append(vio, map[string]string{"rule": o.Rule, "construct": o.Key, "pos": o.Pos, "detail": o.Detail})
	}
	if len(vio) > 0 {
		cov["violations_detail"] = vio
	}
	ev := map[string]interface{}{
		"property_id": def.ID,
		"tier":        tier,
		"seed":        seed,
		"level":       "other",
		"coverage":    cov,
		"assumptions": nonNil(def.Assumptions),
		"wall_s":      time.Since(start).Seconds(),
		"violations":  len(res.violations),
	}
	if err := writeJSON(filepath.Join(verifDir, "evidence", def.ID+".json"), ev); err != nil {
		fmt.Println("ERROR: writing evidence:", err)
		return 2
	}
	fmt.Printf("%s tier=%s config=%s packages=%d files=%d functions=%d closures=%d\n", def.ID, tier, strings.Join(configs, ","), npk, nfi, nfu, ncl)
	var rules []string
	for r := range perRule {
		rules = append(rules, r)
	}
	sort.Strings(rules)
	for _, r := range rules {
		fmt.Printf("  rule %-34s instances=%d\n", r, perRule[r])
	}
	for _, s := range skipped {
		fmt.Println("  skipped configuration", s)
	}
	for _, o := range res.excepted {
		fmt.Printf("  exception applied: rule=%s construct=%s\n", o.Rule, o.Key)
	}
	for _, k := range res.known {
		fmt.Println(k)
	}
	if mrep != nil {
		fmt.Printf("  mutation self-test: applied=%d reported=%d skipped=%d survivors=%v\n", mrep.Applied, mrep.Reported, mrep.Skipped, mrep.Survivors)
		if mrep.CanaryFailed {
			fmt.Println("ERROR: a canary mutant was applied but not reported: the checker is not sensitive; refusing to give a verdict")
			return 2
		}
	}
	if len(res.violations) > 0 {
		replay := filepath.Join(verifDir, "replay", fmt.Sprintf("%s-%s.json", def.ID, tier))
		writeJSON(replay, map[string]interface{}{"property": def.ID, "tier": tier, "violations": vio,
			"how_to_replay": fmt.Sprintf("/verif/check.sh %s %s  (re-analyses /repo; each entry names rule, construct and position)", def.ID, tier)})
		for _, o := range res.violations {
			fmt.Printf("  FAIL rule=%s construct=%s at %s: %s\n", o.Rule, o.Key, o.Pos, o.Detail)
		}
		fmt.Printf("VIOLATION property=%s replay=%s\n", def.ID, replay)
		return 1
	}
	fmt.Printf("OK property=%s obligations=%d discharged=%d known_findings=%d wall=%.1fs\n", def.ID, total, discharged, len(res.known), time.Since(start).Seconds())
	return 0
}

func lastRule(s []interface{}) string {
	if m, ok := s[len(s)-1].(map[string]string); ok {
		return m["rule"]
	}
	return ""
}

func obKeys(os []Obligation) []string {
	out := []string{}
	for _, o := range os {
		out = append(out, o.Rule+" "+o.Key)
	}
	return out
}

func firstLine(s string) string {
	if i := strings.IndexByte(s, '\n'); i >= 0 {
		s = s[:i]
	}
	if len(s) > 300 {
		s = s[:300]
	}
	return s
}

func writeEvidenceError(def *PropDef, tier string, seed int64, msg string, start time.Time) {
	ev := map[string]interface{}{
		"property_id": def.ID, "tier": tier, "seed": seed, "level": "other",
		"coverage": map[string]interface{}{"explanation": "checker error, no verdict: " + msg, "obligations": 0, "discharged": 0},
		"wall_s":   time.Since(start).Seconds(), "violations": 0,
	}
	writeJSON(filepath.Join(verifDir, "evidence", def.ID+".json"), ev)
}

func main() {
	prop := flag.String("property", "", "property id (C01..C39) or 'all'")
	tier := flag.String("tier", "quick", "quick|thorough")
	noMut := flag.Bool("nomutants", false, "skip the mutation self-test")
	list := flag.Bool("list", false, "list registered properties")
	manifest := flag.Bool("manifest", false, "rewrite MANIFEST.json from the registry")
	lintMut := flag.Bool("lintmutants", false, "check that the pattern of every registered mutant occurs in /repo (no analysis)")
	doc := flag.Bool("doc", false, "print the per-property section of DESIGN.md (markdown) from the registry and the last evidence files")
	flag.StringVar(&repoDir, "repo", "/repo", "repository to analyse")
	flag.StringVar(&verifDir, "verif", "/verif", "verif directory (findings, evidence, replay)")
	flag.Parse()
	if t := os.Getenv("VERIF_TIER"); t != "" && !flagSet("tier") {
		*tier = t
	}
	var seed int64
	if s := os.Getenv("VERIF_SEED"); s != "" {
		seed, _ = strconv.ParseInt(s, 10, 64)
	}
	if *manifest {
		if err := writeManifest(); err != nil {
			fmt.Println("ERROR:", err)
			os.Exit(2)
		}
		return
	}
	if *doc {
		writeDoc()
		return
	}
	if *lintMut {
		bad := 0
		var ids []string
		for id := range registry {
			ids = append(ids, id)
		}
		sort.Strings(ids)
		for _, id := range ids {
			for _, m := range registry[id].Mutants {
				b, err := os.ReadFile(filepath.Join(repoDir, m.File))
				n := 0
				if err == nil {
					n = strings.Count(string(b), m.Old)
				}
				ok := n == 1 && m.Nth == 0 || m.Nth > 0 && n >= m.Nth
				if !ok {
					bad++
					fmt.Printf("%s %s: pattern occurs %d times (Nth=%d) in %s\n", id, m.Name, n, m.Nth, m.File)
				}
			}
		}
		fmt.Printf("%d mutant patterns do not apply\n", bad)
		if bad > 0 {
			os.Exit(1)
		}
		return
	}
	if *list {
		var ids []string
		for id := range registry {
			ids = append(ids, id)
		}
		sort.Strings(ids)
		for _, id := range ids {
			fmt.Println(id, registry[id].Title)
		}
		return
	}
	if *tier != "quick" && *tier != "thorough" {
		fmt.Println("bad tier")
		os.Exit(2)
	}
	if *prop == "all" {
		var ids []string
		for id := range registry {
			ids = append(ids, id)
		}
		sort.Strings(ids)
		worst := 0
		for _, id := range ids {
			rc := runProperty(registry[id], *tier, seed, *noMut)
			if rc > worst {
				worst = rc
			}
		}
		os.Exit(worst)
	}
	def := registry[*prop]
	if def == nil {
		fmt.Printf("ERROR: property %q is not claimed by this checker\n", *prop)
		os.Exit(2)
	}
	os.Exit(runProperty(def, *tier, seed, *noMut))
}

func flagSet(name string) bool {
	found := false
	flag.Visit(func(f *flag.Flag) {
		if f.Name == name {
			found = true
		}
	})
	return found
}

// ---------------------------------------------------------------- small helpers

func exprString(e ast.Expr) string { return types.ExprString(e) }

func unparen(e ast.Expr) ast.Expr {
	for {
		p, ok := e.(*ast.ParenExpr)
		if !ok {
			return e
		}
		e = p.X
	}
}

func nonNil(s []string) []string {
	if s == nil {
		return []string{}
	}
	return s
}

var configSuffix = regexp.MustCompile(`@[a-z0-9]+/[a-z0-9]+`)

// stripConfig removes the @goos/goarch marker of non-host configurations: a reviewed
// exception or known finding applies to the construct in every configuration.
func stripConfig(key string) string { return configSuffix.ReplaceAllString(key, "") }

// writeDoc prints, for every claimed property, what its check decides (the registry's own text), the rule instance
// counts of the last evidence file and the mutation catalogue.
func writeDoc() {
	var ids []string
	for id := range registry {
		ids = append(ids, id)
	}
	sort.Strings(ids)
	for _, id := range ids {
		d := registry[id]
		fmt.Printf("### %s — %s\n\n", d.ID, d.Title)
		tech := d.Technique
		if tech == "" {
			tech = "static analysis: repository-specific rules over the type-checked AST (go/packages, go/types)"
		}
		fmt.Printf("*Level:* other (structural necessary conditions). *Technique:* %s.\n\n", tech)
		fmt.Printf("%s\n\n", d.Explanation)
		if len(d.Assumptions) > 0 {
			fmt.Printf("*Trusted:* %s.\n\n", strings.Join(d.Assumptions, "; "))
		}
		// last evidence
		if b, err := os.ReadFile(filepath.Join(verifDir, "evidence", d.ID+".json")); err == nil {
			var ev map[string]interface{}
			if json.Unmarshal(b, &ev) == nil {
				if cov, ok := ev["coverage"].(map[string]interface{}); ok {
					fmt.Printf("*Last run (%v tier):* %v obligations, %v discharged", ev["tier"], cov["obligations"], cov["discharged"])
					if rc, ok := cov["instances_per_rule"].(map[string]interface{}); ok {
						var rs []string
						for k, v := range rc {
							rs = append(rs, fmt.Sprintf("%s %v", k, v))
						}
						sort.Strings(rs)
						fmt.Printf("; rule instances: %s", strings.Join(rs, ", "))
					}
					fmt.Printf(".\n\n")
				}
			}
		}
		if len(d.Mutants) > 0 {
			var ms []string
			for _, m := range d.Mutants {
				n := m.Name
				if m.Canary {
					n += "*"
				}
				ms = append(ms, n)
			}
			fmt.Printf("*Self-test mutants (applied in memory, `*` = also in the quick tier):* %s.\n\n", strings.Join(ms, ", "))
		}
	}
}
