package main

// C20 / C21: macro expansion code walk and quasi-quotation depth tables.

import (
	"fmt"
	"go/ast"
	"go/token"
	"go/types"
	"sort"
	"strings"
)

type depthTable map[string]string // extension token -> effect on the quasiquote depth

// quoteDepthTable extracts, from the switch over the operator of a unary quote node, the
// effect of each extension token on the depth variable.
func quoteDepthTable(info *types.Info, fd *ast.FuncDecl, depthObj types.Object) (depthTable, *ast.SwitchStmt) {
	var found *ast.SwitchStmt
	tab := depthTable{}
	ast.Inspect(fd.Body, func(n ast.Node) bool {
		sw, ok := n.(*ast.SwitchStmt)
		if !ok || sw.Tag == nil || found != nil {
			return true
		}
		isQuoteSwitch := false
		for _, cc := range sw.Body.List {
			for _, e := range cc.(*ast.CaseClause).List {
				if strings.HasSuffix(objQName(usedObj(info, e)), "etoken.QUASIQUOTE") {
					isQuoteSwitch = true
				}
			}
		}
		if !isQuoteSwitch {
			return true
		}
		found = sw
		for _, cc := range sw.Body.List {
			cl := cc.(*ast.CaseClause)
			eff := "none"
			for _, st := range cl.Body {
				switch x := st.(type) {
				case *ast.IncDecStmt:
					if identOf(x.X) != nil && info.Uses[identOf(x.X)] == depthObj {
						if x.Tok == token.INC {
							eff = "+1"
						} else {
							eff = "-1"
						}
					}
				case *ast.IfStmt:
					if b, ok := unparen(x.Cond).(*ast.BinaryExpr); ok && b.Op == token.EQL && identOf(b.X) != nil && info.Uses[identOf(b.X)] == depthObj {
						if v, isC := constInt(info, b.Y); isC && v == 0 && terminates(x.Body) {
							eff = "return-unexpanded-at-depth-0"
						}
					}
				case *ast.BranchStmt:
					if x.Tok == token.GOTO {
						eff = "recurse"
					}
				}
			}
			if cl.List == nil {
				tab["default"] = eff
			}
			for _, e := range cl.List {
				q := objQName(usedObj(info, e))
				tab[q[strings.LastIndex(q, ".")+1:]] = eff
			}
		}
		return true
	})
	return tab, found
}

func ruleMacroCodewalk(c *Ctx, rule string) {
	type site struct{ walk, fix, once string }
	sites := []site{
		{"fast.Comp.macroExpandCodewalk", "fast.Comp.MacroExpand", "fast.Comp.MacroExpand1"},
		{"classic.Env.macroExpandAstCodewalk", "classic.Env.macroExpandAst", "classic.Env.macroExpandAstOnce"},
	}
	tables := map[string]depthTable{}
	for _, s := range sites {
		pk := c.P.PkgOfFunc(s.walk)
		fd := c.P.Func(s.walk)
		if fd == nil || pk == nil {
			c.Ob(rule, s.walk, nil, false, "anchor function not found")
			continue
		}
		info := pk.TypesInfo
		var params []types.Object
		for _, f := range fd.Type.Params.List {
			for _, nm := range f.Names {
				params = append(params, info.Defs[nm])
			}
		}
		if len(params) != 2 {
			c.Ob(rule, s.walk, fd, false, "expected parameters (in Ast, depth int)")
			continue
		}
		inObj, depthObj := params[0], params[1]
		// (a) macro calls are expanded only at depth <= 0
		expandGuard := false
		ast.Inspect(fd.Body, func(n ast.Node) bool {
			ifs, ok := n.(*ast.IfStmt)
			if !ok {
				return true
			}
			b, ok := unparen(ifs.Cond).(*ast.BinaryExpr)
			if !ok || b.Op != token.LEQ || identOf(b.X) == nil || info.Uses[identOf(b.X)] != depthObj {
				return true
			}
			if v, isC := constInt(info, b.Y); !isC || v != 0 {
				return true
			}
			inspectCalls(ifs.Body, func(call *ast.CallExpr) {
				if funcFullName(calleeOf(info, call)) == s.fix {
					expandGuard = true
				}
			})
			return true
		})
		// and nowhere else
		unguarded := false
		inspectCalls(fd.Body, func(call *ast.CallExpr) {
			if funcFullName(calleeOf(info, call)) != s.fix {
				return
			}
			ok := false
			ast.Inspect(fd.Body, func(m ast.Node) bool {
				if ifs, isIf := m.(*ast.IfStmt); isIf && containsNode(ifs.Body, call) {
					if b, isB := unparen(ifs.Cond).(*ast.BinaryExpr); isB && b.Op == token.LEQ && identOf(b.X) != nil && info.Uses[identOf(b.X)] == depthObj {
						ok = true
					}
				}
				return true
			})
			if !ok {
				unguarded = true
			}
		})
		c.Ob(rule, s.walk+"/expand-at-depth0", fd, expandGuard && !unguarded, "macro calls are expanded only when the quasiquote depth is <= 0 (code inside a quasiquote is data until it is unquoted)")
		// (b) depth table
		tab, sw := quoteDepthTable(info, fd, depthObj)
		tables[s.walk] = tab
		want := map[string]string{"QUASIQUOTE": "+1", "UNQUOTE": "-1", "UNQUOTE_SPLICE": "-1", "QUOTE": "return-unexpanded-at-depth-0"}
		var ks []string
		for k := range want {
			ks = append(ks, k)
		}
		sort.Strings(ks)
		for _, k := range ks {
			c.Ob(rule, s.walk+"/depth/"+k, sw, tab[k] == want[k], fmt.Sprintf("token %s: effect on the quasiquote depth is %q (documented: %q)", k, tab[k], want[k]))
		}
		// (c) the rebuild: out = in.New(); for i < in.Size(): out.Set(i, f(in.Get(i)))
		var outObj types.Object
		newOK := false
		ast.Inspect(fd.Body, func(n ast.Node) bool {
			as, ok := n.(*ast.AssignStmt)
			if !ok || len(as.Lhs) != 1 || len(as.Rhs) != 1 {
				return true
			}
			if call, ok := unparen(as.Rhs[0]).(*ast.CallExpr); ok {
				if sel, ok := unparen(call.Fun).(*ast.SelectorExpr); ok && sel.Sel.Name == "New" && identOf(sel.X) != nil && info.Uses[identOf(sel.X)] == inObj && identOf(as.Lhs[0]) != nil {
					newOK = true
					outObj = info.Uses[identOf(as.Lhs[0])]
					if outObj == nil {
						outObj = info.Defs[identOf(as.Lhs[0])]
					}
				}
			}
			return true
		})
		loopOK, resizeOK := false, false
		di := buildDefIndex(info, fd)
		ast.Inspect(fd.Body, func(n ast.Node) bool {
			fs, ok := n.(*ast.ForStmt)
			if !ok || fs.Cond == nil {
				return true
			}
			// resize loop: body appends nil to a slice view of out
			appendsNil := false
			inspectCalls(fs.Body, func(call *ast.CallExpr) {
				if sel, ok := unparen(call.Fun).(*ast.SelectorExpr); ok && sel.Sel.Name == "Append" && len(call.Args) == 1 && identOf(call.Args[0]) != nil && identOf(call.Args[0]).Name == "nil" {
					appendsNil = true
				}
			})
			if appendsNil {
				if b, ok := unparen(fs.Cond).(*ast.BinaryExpr); ok && b.Op == token.LSS && boundIsSizeOf(info, di, b.Y, inObj) {
					resizeOK = true
				}
				return true
			}
			// rebuild loop: i from 0 to in.Size(); in.Get(i); out.Set(i, ...)
			as, ok := fs.Init.(*ast.AssignStmt)
			if !ok || len(as.Lhs) != 1 {
				return true
			}
			iobj := info.Defs[identOf(as.Lhs[0])]
			if v, isC := constInt(info, as.Rhs[0]); !isC || v != 0 {
				return true
			}
			b, ok := unparen(fs.Cond).(*ast.BinaryExpr)
			if !ok || b.Op != token.LSS || !boundIsSizeOf(info, di, b.Y, inObj) {
				return true
			}
			getOK, setOK := false, false
			inspectCalls(fs.Body, func(call *ast.CallExpr) {
				sel, ok := unparen(call.Fun).(*ast.SelectorExpr)
				if !ok || identOf(sel.X) == nil {
					return
				}
				if sel.Sel.Name == "Get" && info.Uses[identOf(sel.X)] == inObj && len(call.Args) == 1 && identOf(call.Args[0]) != nil && info.Uses[identOf(call.Args[0])] == iobj {
					getOK = true
				}
				if sel.Sel.Name == "Set" && info.Uses[identOf(sel.X)] == outObj && len(call.Args) == 2 && identOf(call.Args[0]) != nil && info.Uses[identOf(call.Args[0])] == iobj {
					// directly in the loop body, not under a condition
					for _, st := range fs.Body.List {
						if es, ok := st.(*ast.ExprStmt); ok && es.X == ast.Expr(call) {
							setOK = true
						}
					}
				}
			})
			if getOK && setOK {
				loopOK = true
			}
			return true
		})
		c.Ob(rule, s.walk+"/rebuild", fd, newOK && loopOK && resizeOK, "a node that is not a macro call is rebuilt as in.New() with child i of the output set, unconditionally, from child i of the input for every i < in.Size() (slice wrappers resized to in.Size() first)")
		// fixpoint
		fx := c.P.Func(s.fix)
		okFix := false
		if fx != nil {
			ast.Inspect(fx.Body, func(n ast.Node) bool {
				fs, ok := n.(*ast.ForStmt)
				if !ok || fs.Cond != nil {
					return true
				}
				calls, exits := false, false
				inspectCalls(fs.Body, func(call *ast.CallExpr) {
					if funcFullName(calleeOf(info, call)) == s.once {
						calls = true
					}
				})
				for _, st := range fs.Body.List {
					if ifs, ok := st.(*ast.IfStmt); ok {
						if u, ok := unparen(ifs.Cond).(*ast.UnaryExpr); ok && u.Op == token.NOT && terminates(ifs.Body) {
							exits = true
						}
					}
				}
				okFix = calls && exits
				return true
			})
		}
		c.Ob(rule, s.fix, fx, okFix, "expansion is repeated until a pass reports that nothing was expanded")
		// expand once
		on := c.P.Func(s.once)
		if on == nil {
			c.Ob(rule, s.once, nil, false, "anchor function not found")
			continue
		}
		checkExpandOnce(c, rule, s.once, on, info)
	}
	// (d) both interpreters agree
	if a, b := tables[sites[0].walk], tables[sites[1].walk]; a != nil && b != nil {
		same := len(a) == len(b)
		for k, v := range a {
			if b[k] != v {
				same = false
			}
		}
		c.Ob(rule, "fast~classic/depth-table", nil, same, fmt.Sprintf("the depth tables of the two interpreters agree (fast %v, classic %v)", a, b))
	}
}

func boundIsSizeOf(info *types.Info, di *defIndex, e ast.Expr, inObj types.Object) bool {
	e = unparen(e)
	if id := identOf(e); id != nil {
		if d := di.single(info.Uses[id]); d != nil {
			e = unparen(d)
		}
	}
	call, ok := e.(*ast.CallExpr)
	if !ok {
		return false
	}
	sel, ok := unparen(call.Fun).(*ast.SelectorExpr)
	return ok && sel.Sel.Name == "Size" && identOf(sel.X) != nil && info.Uses[identOf(sel.X)] == inObj
}

func checkExpandOnce(c *Ctx, rule, fkey string, fd *ast.FuncDecl, info *types.Info) {
	di := buildDefIndex(info, fd)
	// main loop: for i := 0; i < n; i++ over ins
	var main *ast.ForStmt
	var iobj types.Object
	ast.Inspect(fd.Body, func(n ast.Node) bool {
		fs, ok := n.(*ast.ForStmt)
		if !ok || main != nil || fs.Init == nil {
			return true
		}
		hasExtract := false
		inspectCalls(fs.Body, func(call *ast.CallExpr) {
			if fn := calleeOf(info, call); fn != nil && fn.Name() == "extractMacroCall" {
				hasExtract = true
			}
		})
		if hasExtract {
			main = fs
			if as, ok := fs.Init.(*ast.AssignStmt); ok {
				iobj = info.Defs[identOf(as.Lhs[0])]
			}
		}
		return true
	})
	if main == nil || iobj == nil {
		c.Ob(rule, fkey+"/scan", fd, false, "scan loop over the statement list not found")
		return
	}
	// the bound of the scan is the size of the input list and stays fixed during the scan
	boundOK := false
	if b, ok := unparen(main.Cond).(*ast.BinaryExpr); ok && b.Op == token.LSS && identOf(b.Y) != nil {
		nobj := info.Uses[identOf(b.Y)]
		if d := di.single(nobj); d != nil {
			if call, ok := unparen(d).(*ast.CallExpr); ok {
				if sel, ok := unparen(call.Fun).(*ast.SelectorExpr); ok && sel.Sel.Name == "Size" {
					boundOK = true
				}
			}
		}
	}
	c.Ob(rule, fkey+"/scan-bound", main, boundOK, "the scan runs over the whole input list: its bound is ins.Size(), assigned once and never modified while scanning")
	// non-macro elements are appended unchanged
	keep := false
	var eltObj types.Object
	for _, st := range main.Body.List {
		if as, ok := st.(*ast.AssignStmt); ok && len(as.Rhs) == 1 {
			if call, ok := unparen(as.Rhs[0]).(*ast.CallExpr); ok {
				if sel, ok := unparen(call.Fun).(*ast.SelectorExpr); ok && sel.Sel.Name == "Get" && len(call.Args) == 1 && identOf(call.Args[0]) != nil && info.Uses[identOf(call.Args[0])] == iobj {
					eltObj = info.Defs[identOf(as.Lhs[0])]
				}
			}
		}
		if ifs, ok := st.(*ast.IfStmt); ok && len(ifs.Body.List) == 2 {
			if b, ok := unparen(ifs.Cond).(*ast.BinaryExpr); ok && b.Op == token.EQL && identOf(b.Y) != nil && identOf(b.Y).Name == "nil" {
				as, ok1 := ifs.Body.List[0].(*ast.AssignStmt)
				br, ok2 := ifs.Body.List[1].(*ast.BranchStmt)
				if ok1 && ok2 && br.Tok == token.CONTINUE && len(as.Rhs) == 1 {
					if call, ok := unparen(as.Rhs[0]).(*ast.CallExpr); ok {
						if sel, ok := unparen(call.Fun).(*ast.SelectorExpr); ok && sel.Sel.Name == "Append" && len(call.Args) == 1 && identOf(call.Args[0]) != nil && eltObj != nil && info.Uses[identOf(call.Args[0])] == eltObj {
							keep = true
						}
					}
				}
			}
		}
	}
	c.Ob(rule, fkey+"/keep-other-code", main, keep, "an element that is not a macro call is appended to the output unchanged")
	// arguments: args[j] = ... ins.Get(i + j + 1) for j < argn ; i += argn
	argsOK, advOK := false, false
	var argnObj types.Object
	ast.Inspect(main.Body, func(n ast.Node) bool {
		switch x := n.(type) {
		case *ast.ForStmt:
			as, ok := x.Init.(*ast.AssignStmt)
			if !ok || identOf(as.Lhs[0]) == nil {
				return true
			}
			jobj := info.Defs[identOf(as.Lhs[0])]
			cond, ok := unparen(x.Cond).(*ast.BinaryExpr)
			if !ok || cond.Op != token.LSS || identOf(cond.Y) == nil {
				return true
			}
			bound := info.Uses[identOf(cond.Y)]
			inspectCalls(x.Body, func(call *ast.CallExpr) {
				sel, ok := unparen(call.Fun).(*ast.SelectorExpr)
				if !ok || sel.Sel.Name != "Get" || len(call.Args) != 1 {
					return
				}
				// i + j + 1
				idx := exprString(call.Args[0])
				uses := map[types.Object]bool{}
				ast.Inspect(call.Args[0], func(m ast.Node) bool {
					if id, ok := m.(*ast.Ident); ok {
						uses[info.Uses[id]] = true
					}
					return true
				})
				if uses[iobj] && uses[jobj] && strings.HasSuffix(strings.ReplaceAll(idx, " ", ""), "+1") && len(uses) == 2 {
					if d := di.single(bound); d != nil {
						if _, isF := fieldSel(info, d, "argNum"); isF {
							argsOK = true
							argnObj = bound
						}
					}
				}
			})
		}
		return true
	})
	for _, st := range main.Body.List {
		if as, ok := st.(*ast.AssignStmt); ok && as.Tok == token.ADD_ASSIGN && identOf(as.Lhs[0]) != nil && info.Uses[identOf(as.Lhs[0])] == iobj && identOf(as.Rhs[0]) != nil && argnObj != nil && info.Uses[identOf(as.Rhs[0])] == argnObj {
			advOK = true
		}
	}
	// no other write to the scan index inside the loop body (a nested loop that reuses it would skip or rescan elements)
	otherWrites := 0
	ast.Inspect(main.Body, func(n ast.Node) bool {
		switch x := n.(type) {
		case *ast.AssignStmt:
			for _, l := range x.Lhs {
				if id := identOf(l); id != nil && info.Uses[id] == iobj {
					otherWrites++
				}
			}
		case *ast.IncDecStmt:
			if id := identOf(x.X); id != nil && info.Uses[id] == iobj {
				otherWrites++
			}
		}
		return true
	})
	if advOK && otherWrites != 1 {
		advOK = false
	}
	c.Ob(rule, fkey+"/arguments", main, argsOK, "a macro with argNum arguments receives the argNum elements that follow it, in order (element i+j+1 for j < argNum)")
	c.Ob(rule, fkey+"/consume", main, advOK, fmt.Sprintf("exactly those argNum elements are consumed (i += argNum is the only write to the scan index in the loop body: %d found), everything after them is scanned again as ordinary code", otherWrites))
	// results appended in order
	resOK := false
	ast.Inspect(main.Body, func(n ast.Node) bool {
		if rs, ok := n.(*ast.RangeStmt); ok {
			app := false
			inspectCalls(rs.Body, func(call *ast.CallExpr) {
				if sel, ok := unparen(call.Fun).(*ast.SelectorExpr); ok && sel.Sel.Name == "Append" {
					app = true
				}
			})
			if app {
				resOK = true
			}
		}
		return true
	})
	c.Ob(rule, fkey+"/results", main, resOK, "the values returned by the macro are appended to the output in order")
}

// ruleUnwrapTrivial: UnwrapTrivialAst removes only ParenExpr, ExprStmt, DeclStmt wrappers and one-element
// blocks that declare nothing.
func ruleUnwrapTrivial(c *Ctx, rule string) {
	pk := c.P.Pkg("base")
	fd := c.P.Func("base.unwrapTrivialAst2")
	if fd == nil || pk == nil {
		c.Ob(rule, "base.unwrapTrivialAst2", nil, false, "anchor function not found")
		return
	}
	info := pk.TypesInfo
	var unwrapped []string
	blockGuard := false
	ast.Inspect(fd.Body, func(n ast.Node) bool {
		ts, ok := n.(*ast.TypeSwitchStmt)
		if !ok {
			return true
		}
		for _, cc := range ts.Body.List {
			cl := cc.(*ast.CaseClause)
			reassigns := false
			ast.Inspect(cl, func(m ast.Node) bool {
				if as, ok := m.(*ast.AssignStmt); ok && as.Tok == token.ASSIGN && len(as.Lhs) == 1 && identOf(as.Lhs[0]) != nil && identOf(as.Lhs[0]).Name == "in" {
					reassigns = true
				}
				return true
			})
			if !reassigns {
				continue
			}
			for _, e := range cl.List {
				t := types.TypeString(info.TypeOf(e), func(p *types.Package) string { return p.Name() })
				unwrapped = append(unwrapped, t)
				if strings.HasSuffix(t, "BlockStmt") {
					// guarded by Size() != 1 -> return
					ast.Inspect(cl, func(m ast.Node) bool {
						if ifs, ok := m.(*ast.IfStmt); ok && strings.Contains(exprString(ifs.Cond), "Size() != 1") && terminates(ifs.Body) {
							blockGuard = true
						}
						return true
					})
				}
			}
		}
		return false
	})
	sort.Strings(unwrapped)
	want := "ast2.BlockStmt ast2.DeclStmt ast2.ExprStmt ast2.ParenExpr"
	c.Ob(rule, "base.unwrapTrivialAst2/wrappers", fd, strings.Join(unwrapped, " ") == want, "only "+want+" are ever unwrapped (found "+strings.Join(unwrapped, " ")+")")
	c.Ob(rule, "base.unwrapTrivialAst2/block", fd, blockGuard, "a block is unwrapped only when it has exactly one element")
}

// K3 — the "something was expanded" flag is an accumulator. Callers rebuild a quoted form only when the walk
// of its body reports an expansion, so the flag returned by a walk over several children must be the OR of
// the children's flags: inside a loop, the named boolean result of the walk functions is only ever set to
// true (or or-ed with itself), never overwritten with the flag of the last child.
func ruleMonotoneFlag(c *Ctx, rule string, funcs ...string) {
	n := 0
	for _, fk := range funcs {
		pk := c.P.PkgOfFunc(fk)
		fd := c.P.Func(fk)
		if fd == nil || pk == nil || fd.Type.Results == nil {
			c.Ob(rule, fk, nil, false, "anchor function not found")
			continue
		}
		info := pk.TypesInfo
		flags := map[types.Object]bool{}
		for _, f := range fd.Type.Results.List {
			for _, nm := range f.Names {
				if o := info.Defs[nm]; o != nil {
					if b, ok := o.Type().Underlying().(*types.Basic); ok && b.Kind() == types.Bool {
						flags[o] = true
					}
				}
			}
		}
		if len(flags) == 0 {
			c.Ob(rule, fk, fd, false, "no named boolean result")
			continue
		}
		seq := 0
		var loops []ast.Node
		var visit func(nd ast.Node) bool
		visit = func(nd ast.Node) bool {
			switch x := nd.(type) {
			case *ast.ForStmt, *ast.RangeStmt:
				loops = append(loops, x)
				var body *ast.BlockStmt
				if f, ok := x.(*ast.ForStmt); ok {
					body = f.Body
				} else {
					body = x.(*ast.RangeStmt).Body
				}
				ast.Inspect(body, visit)
				loops = loops[:len(loops)-1]
				return false
			case *ast.FuncLit:
				return false
			case *ast.AssignStmt:
				if len(loops) == 0 {
					return true
				}
				for i, l := range x.Lhs {
					id := identOf(l)
					if id == nil || !flags[info.Uses[id]] {
						continue
					}
					o := info.Uses[id]
					good := false
					if len(x.Rhs) == len(x.Lhs) {
						r := unparen(x.Rhs[i])
						if tv, ok := info.Types[r]; ok && tv.Value != nil && tv.Value.String() == "true" {
							good = true
						}
						for _, d := range orAtoms(r) {
							if di := identOf(d); di != nil && info.Uses[di] == o && len(orAtoms(r)) > 1 {
								good = true
							}
						}
					}
					n++
					seq++
					c.Ob(rule, fmt.Sprintf("%s/%s#%d", fk, id.Name, seq), x, good, "inside a loop over children the flag "+id.Name+" is only set to true or or-ed with itself (the walk reports an expansion in any child, not in the last one)")
				}
			}
			return true
		}
		ast.Inspect(fd.Body, visit)
	}
	if n < len(funcs) {
		c.Ob(rule, strings.Join(funcs, ","), nil, false, fmt.Sprintf("%d accumulating assignments found in %d walk functions", n, len(funcs)))
	}
}
