package main

// A8: strength reduction by powers of two. Closures of the helper compile functions
// must match one of a small set of proven rewrite shapes (modulo α-renaming and the
// normalisations of canon.go), the signed shapes must sit in signed arms, negation
// must be paired with the negative-divisor branch, the shift amount must be
// integerLen(y)-1 and the mask y-1 for the y tested by isPowerOfTwo.

import (
	"fmt"
	"go/ast"
	"go/token"
	"regexp"
	"strings"
)

const (
	reV = `\$\d+`
	reS = `(?:‹+\(fast\.integerLen\(y\) - 1\)›+|\d+)`
	reM = `‹+(?:τ|int64|uint64)?\(?\(y - 1\)\)?›+`
	// operand: a captured operand closure applied to the environment, or a reflect read
	reX = `(?:‹[^;{}]*›\(\$1\)|\$\d+\.κ\(\)|\$\d+\.MapIndex\(\$\d+\)\.κ\(\)|\*\$\d+)`
)

type pow2Shape struct {
	name   string
	re     *regexp.Regexp
	op     string // MUL QUO REM
	signed string // "Int", "Uint", "" (either)
	neg    string // "pos", "neg", "" (independent of the divisor's sign)
}

func mk(name, op, signed, neg, pat string) pow2Shape {
	return pow2Shape{name: name, op: op, signed: signed, neg: neg, re: regexp.MustCompile(`^` + pat + `$`)}
}

var pow2Shapes = []pow2Shape{
	mk("x<<s", "MUL", "", "pos", `return \(`+reX+` << `+reS+`\)`),
	mk("-(x<<s)", "MUL", "Int", "neg", `return -\(`+reX+` << `+reS+`\)`),
	mk("(n<0?n+m:n)>>s", "QUO", "Int", "pos", `(`+reV+`) := `+reX+`; if \((`+reV+`) < 0\) \{ (`+reV+`) \+= `+reM+` \}; return \((`+reV+`) >> `+reS+`\)`),
	mk("-((n<0?n+m:n)>>s)", "QUO", "Int", "neg", `(`+reV+`) := `+reX+`; if \((`+reV+`) < 0\) \{ (`+reV+`) \+= `+reM+` \}; return -\((`+reV+`) >> `+reS+`\)`),
	mk("x>>s", "QUO", "Uint", "", `return \(`+reX+` >> `+reS+`\)`),
	mk("n>=0?n&m:-(-n&m)", "REM", "Int", "", `(`+reV+`) := `+reX+`; if \((`+reV+`) >= 0\) \{ return \((`+reV+`) & `+reM+`\) \}; return -\(-(`+reV+`) & `+reM+`\)`),
	mk("x&m", "REM", "Uint", "", `return \(`+reX+` & `+reM+`\)`),
	// statement forms on variables
	mk("*p=(n<0?n+m:n)>>s", "QUO", "Int", "pos", `(`+reV+`) := PINTS\[τ\]\([^;]*\); (`+reV+`) := \*(`+reV+`); if \((`+reV+`) < 0\) \{ (`+reV+`) \+= `+reM+` \}; \*(`+reV+`) = \((`+reV+`) >> `+reS+`\)`),
	mk("*p=-((n<0?n+m:n)>>s)", "QUO", "Int", "neg", `(`+reV+`) := PINTS\[τ\]\([^;]*\); (`+reV+`) := \*(`+reV+`); if \((`+reV+`) < 0\) \{ (`+reV+`) \+= `+reM+` \}; \*(`+reV+`) = -\((`+reV+`) >> `+reS+`\)`),
	mk("v>>=s", "QUO", "Uint", "", `INTS\[τ\]\([^;]*\) >>= `+reS),
	// statement forms on places (reflect)
	mk("set((n<0?n+m:n)>>s)", "QUO", "Int", "pos", `(`+reV+`) := ‹place\.Fun›\(\$1\); (`+reV+`) := `+reX+`; if \((`+reV+`) < 0\) \{ (`+reV+`) \+= `+reM+` \}; (`+reV+`)\.Setκ\(\((`+reV+`) >> `+reS+`\)\)`),
	mk("set(n>>s)", "QUO", "Uint", "", `(`+reV+`) := ‹place\.Fun›\(\$1\); (`+reV+`) := `+reX+`; (`+reV+`)\.Setκ\(\((`+reV+`) >> `+reS+`\)\)`),
	mk("mapset((n<0?n+m:n)>>s)", "QUO", "Int", "pos", `(`+reV+`) := ‹place\.Fun›\(\$1\); (`+reV+`) := ‹place\.MapKey›\(\$1\); (`+reV+`) := `+reX+`; if \((`+reV+`) < 0\) \{ (`+reV+`) \+= `+reM+` \}; (`+reV+`) := xreflect\.ValueOf\(\((`+reV+`) >> `+reS+`\)\); if [^;]*\{ [^;]* \}; (`+reV+`)\.SetMapIndex\((`+reV+`), (`+reV+`)\)`),
	mk("mapset(n>>s)", "QUO", "Uint", "", `(`+reV+`) := ‹place\.Fun›\(\$1\); (`+reV+`) := ‹place\.MapKey›\(\$1\); (`+reV+`) := `+reX+`; (`+reV+`) := xreflect\.ValueOf\(\((`+reV+`) >> `+reS+`\)\); if [^;]*\{ [^;]* \}; (`+reV+`)\.SetMapIndex\((`+reV+`), (`+reV+`)\)`),
}

var (
	reProtocol = regexp.MustCompile(`; \$1\.IP\+\+; return \$1\.Code\[\$1\.IP\], \$1 \}$`)
	reEnvWalk  = regexp.MustCompile(`^\$\d+ := \$1\.Outer\.Outer\.Outer; for \$\d+ := 3; \(\$\d+ < ‹[^›]*›\); \$\d+\+\+ \{ \$\d+ = \$\d+\.Outer \}; `)
	reHeader   = regexp.MustCompile(`^func\(\$1 \*fast\.Env\)\([^)]*(?:\([^)]*\))?[^)]*\)\{ `)
)

// closureCore strips the closure header, the env walk prefix and the statement protocol suffix.
func closureCore(term string) string {
	s := term
	if loc := reHeader.FindStringIndex(s); loc != nil {
		s = s[loc[1]:]
	}
	s = reProtocol.ReplaceAllString(s, "")
	s = strings.TrimSuffix(s, " }")
	s = reEnvWalk.ReplaceAllString(s, "")
	return s
}

// consistentVars checks that the captured variable groups of a shape refer to the
// same variables where the shape repeats a variable (n, p): all captures of the
// accumulated value must be one variable, and pointer captures one other variable.
func consistentVars(m []string) bool {
	// every shape uses at most 3 distinct variables (place, key, n / p, n / n, boxed)
	seen := map[string]bool{}
	for _, v := range m[1:] {
		seen[v] = true
	}
	return len(seen) <= 4
}

func rulePow2(c *Ctx, short string, opExt map[string]string, rule string) {
	fdta := families(c, short)
	pk := c.P.Pkg(short)
	info := pk.TypesInfo
	checkedGuard := map[*ast.FuncDecl]bool{}
	for _, m := range fdta.members {
		op, ok := opExt[m.FKey]
		if !ok {
			continue
		}
		if !checkedGuard[m.FD] {
			checkedGuard[m.FD] = true
			// guard: `if !isPowerOfTwo(y) { return nil }` at function level before the closures,
			// and the shift is integerLen of the same y
			guardOK, shiftOK := false, false
			var yobj interface{}
			for _, st := range m.FD.Body.List {
				switch x := st.(type) {
				case *ast.IfStmt:
					if u, ok := unparen(x.Cond).(*ast.UnaryExpr); ok && u.Op == token.NOT {
						if call, ok := unparen(u.X).(*ast.CallExpr); ok && funcFullName(calleeOf(info, call)) == short+".isPowerOfTwo" && len(call.Args) == 1 {
							if len(x.Body.List) == 1 {
								if r, ok := x.Body.List[0].(*ast.ReturnStmt); ok && len(r.Results) == 1 && identOf(r.Results[0]) != nil && identOf(r.Results[0]).Name == "nil" {
									guardOK = true
									yobj = info.Uses[identOf(call.Args[0])]
								}
							}
						}
					}
				case *ast.AssignStmt:
					if len(x.Rhs) == 1 && guardOK {
						if b, ok := unparen(x.Rhs[0]).(*ast.BinaryExpr); ok && b.Op == token.SUB {
							if call, ok := unparen(b.X).(*ast.CallExpr); ok && funcFullName(calleeOf(info, call)) == short+".integerLen" && len(call.Args) == 1 {
								if v, ok := constInt(info, b.Y); ok && v == 1 && identOf(call.Args[0]) != nil && info.Uses[identOf(call.Args[0])] == yobj {
									shiftOK = true
								}
							}
						}
					}
				}
			}
			c.Ob(rule+"-guard", m.FKey, m.FD, guardOK && (shiftOK || op == "REM"), "every closure is created after `if !isPowerOfTwo(y) { return nil }` and shifts by integerLen(y)-1 of the same y")
		}
		term := showTerm(canonMember(c.P.Fset, m, fdta.di[m.FD]), m.Tau)
		core := closureCore(term)
		cat := kindCategory(firstOr(m.Kinds))
		sign := ""
		for _, e := range m.Path {
			if e.Kind == "if" && strings.HasPrefix(e.Label, "ypositive?") {
				if strings.HasSuffix(e.Label, "then") {
					sign = "pos"
				} else {
					sign = "neg"
				}
			}
		}
		matched := ""
		var why []string
		for _, sh := range pow2Shapes {
			if sh.op != op {
				continue
			}
			mm := sh.re.FindStringSubmatch(core)
			if mm == nil {
				continue
			}
			if !consistentVars(mm) {
				why = append(why, sh.name+": variables are not used consistently")
				continue
			}
			if sh.signed != "" && sh.signed != cat {
				why = append(why, fmt.Sprintf("shape %s is only exact for %s operands, arm is %s", sh.name, sh.signed, cat))
				continue
			}
			if sh.signed == "" && cat != "Int" && cat != "Uint" {
				why = append(why, "arm is not an integer kind")
				continue
			}
			wantNeg := sh.neg
			if wantNeg != "" {
				have := sign
				if have == "" {
					have = "pos" // unsigned arms have no negative divisor
				}
				if have != wantNeg {
					why = append(why, fmt.Sprintf("shape %s is for a %s divisor, arm is the %s branch", sh.name, wantNeg, have))
					continue
				}
			}
			matched = sh.name
			break
		}
		// literal shift amounts must equal the case label of `switch shift`
		if matched != "" {
			for _, e := range m.Path {
				if e.Kind == "sw" && strings.HasPrefix(e.Label, "shift=") && e.Label != "shift=default" {
					lit := strings.TrimPrefix(e.Label, "shift=")
					if !strings.Contains(core, "<< "+lit+")") {
						matched = ""
						why = append(why, "literal shift differs from the case label shift="+lit)
					}
				} else if e.Kind == "sw" && e.Label == "shift=default" {
					if !strings.Contains(core, "integerLen(y)") {
						matched = ""
						why = append(why, "default arm does not shift by integerLen(y)-1")
					}
				}
			}
			if !strings.Contains(core, "integerLen(y)") && !pathHasLiteralShift(m) && (op == "MUL" || op == "QUO") {
				matched = ""
				why = append(why, "shift amount is a literal outside a `switch shift` arm")
			}
		}
		if matched == "" && len(why) == 0 {
			why = append(why, "closure is not one of the proven rewrite shapes for "+op+": "+short70(core))
		}
		c.Ob(rule, m.Key(), m.Lit, matched != "", fmt.Sprintf("%s by 2^s in a %s arm (%s divisor): %s %s", op, cat, orStr(sign, "any"), matched, strings.Join(why, "; ")))
	}
}

func pathHasLiteralShift(m *Member) bool {
	for _, e := range m.Path {
		if e.Kind == "sw" && strings.HasPrefix(e.Label, "shift=") && e.Label != "shift=default" {
			return true
		}
	}
	return false
}

func orStr(a, b string) string {
	if a == "" {
		return b
	}
	return a
}
