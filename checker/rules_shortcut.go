package main

// A7: shortcut identities. An early return that replaces `x op c` by x, 0 or -x under
// a test on the constant must be an identity of Go semantics for every operand
// category that can reach it.

import (
	"fmt"
	"go/ast"
	"go/token"
	"go/types"
	"sort"
	"strings"
)

// identityTable[op][side][n][result] = categories for which the rewrite is exact.
// Justification (IEEE-754, two's complement): x+0 is not an identity for floats
// (-0 + 0 = +0); x*0 is not 0 for floats (NaN, Inf, sign of zero); complex
// multiplication/division by 1 or -1 mixes components (Inf*0 = NaN); x-0, x*1, x/1,
// x*-1, x/-1 are exact for floats; everything listed for integers holds modulo 2^n.
var identityTable = map[string][]string{
	// boolean comparisons with a constant: x == true and x != false are x (exact: no evaluation is skipped)
	"EQL/R/true/same":  {"Bool"},
	"EQL/L/true/same":  {"Bool"},
	"NEQ/R/false/same": {"Bool"},
	"NEQ/L/false/same": {"Bool"},
	"ADD/R/0/same":     {"Int", "Uint"},
	"ADD/L/0/same":     {"Int", "Uint"},
	"ADD/R/\"\"/same":  {"String"},
	"ADD/L/\"\"/same":  {"String"},
	"SUB/R/0/same":     {"Int", "Uint", "Float", "Complex"},
	"MUL/R/1/same":     {"Int", "Uint", "Float"},
	"MUL/L/1/same":     {"Int", "Uint", "Float"},
	"MUL/R/0/zero":     {"Int", "Uint"},
	"MUL/L/0/zero":     {"Int", "Uint"},
	"MUL/R/-1/neg":     {"Int", "Uint", "Float"},
	"MUL/L/-1/neg":     {"Int", "Uint", "Float"},
	"QUO/R/1/same":     {"Int", "Uint", "Float"},
	// isLiteralNumber(c, -1) holds for an unsigned constant equal to 2^64-1 (all bits set): that is -1 modulo 2^64
	// for +, -, *, &, |, ^, &^ — but division and remainder are not modular: x / (2^64-1) is 0 or 1, not -x
	"QUO/R/-1/neg":          {"Int", "Float"},
	"QUO/R/-1/delegate:MUL": {"Int", "Float"},
	// Go rejects x / 0 and x % 0 for integer x only: a float or complex variable divided by a constant zero is Inf or NaN
	"QUO/R/0/error":     {"Int", "Uint"},
	"REM/R/0/error":     {"Int", "Uint"},
	"REM/R/1/zero":      {"Int", "Uint"},
	"REM/R/-1/zero":     {"Int"},
	"AND/R/0/zero":      {"Int", "Uint"},
	"AND/L/0/zero":      {"Int", "Uint"},
	"AND/R/-1/same":     {"Int", "Uint"},
	"AND/L/-1/same":     {"Int", "Uint"},
	"OR/R/0/same":       {"Int", "Uint"},
	"OR/L/0/same":       {"Int", "Uint"},
	"XOR/R/0/same":      {"Int", "Uint"},
	"XOR/L/0/same":      {"Int", "Uint"},
	"AND_NOT/R/0/same":  {"Int", "Uint"},
	"AND_NOT/R/-1/zero": {"Int", "Uint"},
	"AND_NOT/L/0/zero":  {"Int", "Uint"},
	"SHL/R/0/same":      {"Int", "Uint"},
	"SHR/R/0/same":      {"Int", "Uint"},
	"SHL/L/0/zero":      {"Int", "Uint"},
	"SHR/L/0/zero":      {"Int", "Uint"},
}

// extendOps propagates the operator of a dispatched compile function to the helper
// compile functions it calls (mulPow2, varQuoPow2, ...) when the helper has a single caller operator.
func extendOps(c *Ctx, short string, opOf map[*types.Func]string) map[*types.Func]string {
	pk := c.P.Pkg(short)
	info := pk.TypesInfo
	ext := map[*types.Func]string{}
	for k, v := range opOf {
		ext[k] = v
	}
	conflict := map[*types.Func]bool{}
	for round := 0; round < 3; round++ {
		var fns []*types.Func
		for fn := range ext {
			fns = append(fns, fn)
		}
		for _, fn := range fns {
			fd := c.P.Func(funcFullName(fn))
			if fd == nil || fd.Body == nil {
				continue
			}
			inspectCalls(fd.Body, func(call *ast.CallExpr) {
				callee := calleeOf(info, call)
				if callee == nil || callee.Pkg() != pk.Types || isErrorHelper(callee) || !returnsCode(callee) {
					return
				}
				if _, isDispatched := opOf[callee]; isDispatched {
					return
				}
				// same parameter shape as the caller: a helper of the same family
				if types.TypeString(callee.Type(), nil) != types.TypeString(fn.Type(), nil) {
					return
				}
				if old, ok := ext[callee]; ok && old != ext[fn] {
					conflict[callee] = true
				}
				ext[callee] = ext[fn]
			})
		}
	}
	for fn := range conflict {
		delete(ext, fn)
	}
	return ext
}

func functionCategories(c *Ctx, short string, fd *ast.FuncDecl, callers map[*ast.FuncDecl][]*ast.FuncDecl) map[string]bool {
	pk := c.P.Pkg(short)
	info := pk.TypesInfo
	cats := map[string]bool{}
	collect := func(f *ast.FuncDecl) {
		ast.Inspect(f.Body, func(n ast.Node) bool {
			switch s := n.(type) {
			case *ast.SwitchStmt:
				if s.Tag != nil && isReflectKind(info.TypeOf(s.Tag)) {
					for _, cc := range s.Body.List {
						for _, e := range cc.(*ast.CaseClause).List {
							if cat := kindCategory(kindLabel(info, e)); cat == "Int" || cat == "Uint" || cat == "Float" || cat == "Complex" || cat == "String" || cat == "Bool" {
								cats[cat] = true
							}
						}
					}
				}
			case *ast.TypeSwitchStmt:
				for _, cc := range s.Body.List {
					if t := tswTau(info, cc.(*ast.CaseClause)); t != nil {
						cats[basicCategory(t)] = true
					}
				}
			}
			return true
		})
	}
	collect(fd)
	for _, cf := range callers[fd] {
		collect(cf)
	}
	return cats
}

func ruleShortcuts(c *Ctx, short string, opExt map[*types.Func]string, rule string, only func(fkey string) bool) {
	pk := c.P.Pkg(short)
	info := pk.TypesInfo
	// callers among the op functions
	callers := map[*ast.FuncDecl][]*ast.FuncDecl{}
	var fns []*types.Func
	for fn := range opExt {
		fns = append(fns, fn)
	}
	sort.Slice(fns, func(i, j int) bool { return fns[i].Name() < fns[j].Name() })
	for _, fn := range fns {
		fd := c.P.Func(funcFullName(fn))
		if fd == nil || fd.Body == nil {
			continue
		}
		inspectCalls(fd.Body, func(call *ast.CallExpr) {
			if callee := calleeOf(info, call); callee != nil {
				if _, ok := opExt[callee]; ok {
					if cfd := c.P.Func(funcFullName(callee)); cfd != nil && cfd != fd {
						callers[cfd] = append(callers[cfd], fd)
					}
				}
			}
		})
	}
	unclassified := 0
	closedN := 0
	for _, fn := range fns {
		fkey := funcFullName(fn)
		if only != nil && !only(fkey) {
			continue
		}
		fd := c.P.Func(fkey)
		if fd == nil || fd.Body == nil {
			continue
		}
		op := opExt[fn]
		params := fd.Type.Params.List
		if len(params) < 2 {
			continue
		}
		lastP := info.Defs[params[len(params)-1].Names[0]]
		prevP := info.Defs[params[len(params)-2].Names[0]]
		di := buildDefIndex(info, fd)
		cats := functionCategories(c, short, fd, callers)
		var visit func(n ast.Node)
		visit = func(n ast.Node) {
			ast.Inspect(n, func(n ast.Node) bool {
				if _, ok := n.(*ast.FuncLit); ok {
					return false
				}
				ifs, ok := n.(*ast.IfStmt)
				if !ok {
					return true
				}
				for _, disj := range orAtoms(ifs.Cond) {
					// a disjunct may be a conjunction: the test on the constant and guards on the operand's category
					var atom, cexpr ast.Expr
					nval := ""
					var guards []ast.Expr
					for _, a := range andAtoms(disj) {
						if ce, nv, ok := literalTest(info, a); ok && atom == nil {
							atom, cexpr, nval = a, ce, nv
						} else {
							guards = append(guards, a)
						}
					}
					if atom == nil {
						continue
					}
					excluded, onlyCats := categoryGuards(info, guards)
					res, resNode := classifyShortcutBody(info, di, ifs.Body, lastP, prevP)
					if strings.HasPrefix(res, "delegate:") {
						// return c.otherOp(same operands): an identity only where `x op c` == `x otherOp c`
						res = "delegate:" + opExt[delegateCallee(info, ifs.Body)]
					}
					if res == "error" {
						// a compile-time rejection is judged like a rewrite: it is exact only for the categories
						// for which Go rejects the same expression (division by a constant zero: integers only)
						if _, listed := identityTable[fmt.Sprintf("%s/R/%s/error", op, nval)]; !listed || di.rootOf(info, cexpr, 0) != lastP {
							continue
						}
					}
					root := di.rootOf(info, cexpr, 0)
					side := ""
					switch root {
					case lastP:
						side = "R"
					case prevP:
						side = "L"
					}
					key := fmt.Sprintf("%s/if %s", fkey, exprString(atom))
					if res == "" || side == "" {
						unclassified++
						c.ObTrivial(rule+"-unclassified", key, ifs, true, "early exit under a constant test that is not an operand/zero/negation replacement (delegation or error)")
						continue
					}
					// `return xe` when the constant is on the right is "same"; returning the constant side itself is not an identity
					tkey := fmt.Sprintf("%s/%s/%s/%s", op, side, nval, res)
					valid := identityTable[tkey]
					var reach []string
					// categories that reach the rewrite: those named by an explicit guard of the condition if there is
					// one (k == xr.Bool, IsCategory(...)), otherwise those of the kind switches of the function
					base := cats
					if len(onlyCats) > 0 {
						base = onlyCats
					}
					if nval == `""` {
						reach = []string{"String"}
					} else {
						for _, k := range []string{"Bool", "Int", "Uint", "Float", "Complex", "String"} {
							if (k == "Bool" || k == "String") && nval != "true" && nval != "false" && len(onlyCats) == 0 {
								continue // numeric tests never hold for a boolean or string constant
							}
							if (nval == "true" || nval == "false") && k != "Bool" && len(onlyCats) == 0 {
								continue // .Bool() tests are reached by boolean constants only (reflect panics otherwise)
							}
							if base[k] && !excluded[k] {
								reach = append(reach, k)
							}
						}
					}
					var bad []string
					for _, k := range reach {
						found := false
						for _, v := range valid {
							if v == k {
								found = true
							}
						}
						if !found {
							bad = append(bad, k)
						}
					}
					for _, k := range reach {
						isBad := false
						for _, b := range bad {
							if b == k {
								isBad = true
							}
						}
						c.Ob(rule, key+"/"+k, resNode, !isBad, fmt.Sprintf("rewrite %s (constant %s on the %s, result %q) reached by category %s; exact for %v", tkey, nval, side, res, k, valid))
					}
				}
				return true
			})
		}
		visit(fd.Body)
		// closed world: an explicit replacement of the operation by an operand, a zero or a negation that is not
		// under a recognised test on the constant operand is a shortcut nobody justified
		var stack []ast.Node
		ast.Inspect(fd.Body, func(n ast.Node) bool {
			if n == nil {
				stack = stack[:len(stack)-1]
				return true
			}
			stack = append(stack, n)
			if _, ok := n.(*ast.FuncLit); ok {
				return true
			}
			ret, ok := n.(*ast.ReturnStmt)
			if !ok || len(ret.Results) != 1 {
				return true
			}
			for _, a := range stack {
				if _, inLit := a.(*ast.FuncLit); inLit {
					return true
				}
			}
			res := ""
			e := unparen(ret.Results[0])
			if id := identOf(e); id != nil && id.Name != "nil" {
				if o := info.Uses[id]; o == lastP || o == prevP {
					res = "same"
				}
			} else if call, ok := e.(*ast.CallExpr); ok {
				if fn := calleeOf(info, call); fn != nil {
					switch {
					case strings.Contains(fn.Name(), "Zero") && fn.Pkg() == pk.Types:
						res = "zero"
					case fn.Name() == "UnaryMinus":
						res = "neg"
					case strings.HasSuffix(fn.Name(), "ForSideEffects"):
						res = "same"
					}
				}
			}
			if res == "" {
				return true
			}
			// +x is x for every numeric kind: the unary plus compiler returns its operand unconditionally
			if res == "same" && op == "ADD" && len(params) == 2 && fn.Name() == "UnaryPlus" {
				closedN++
				return true
			}
			// && and || are judged path by path by A7b
			if op == "LAND" || op == "LOR" {
				return true
			}
			recognised := false
			for i := len(stack) - 2; i >= 0 && !recognised; i-- {
				ifs, ok := stack[i].(*ast.IfStmt)
				if !ok || !containsNode(ifs.Body, ret) {
					continue
				}
				for _, disj := range orAtoms(ifs.Cond) {
					for _, a := range andAtoms(disj) {
						if _, _, ok := literalTest(info, a); ok {
							recognised = true
						}
					}
				}
			}
			closedN++
			if !recognised {
				c.Ob(rule+"-closed", fmt.Sprintf("%s/return@%s", fkey, exprString(e)), ret, false, fmt.Sprintf("the %s operation is replaced by %q under a condition that is not a recognised test on the constant operand: an unreviewed shortcut", op, res))
			}
			return true
		})
	}
	c.Ob(rule+"-closed", short+"/all-rewrites-recognised", nil, closedN > 0, fmt.Sprintf("%d explicit replacements of an operation by an operand, zero or negation: each is under a recognised test on the constant operand, or reported separately", closedN))
	c.Extra(rule+"_unclassified", unclassified)
}

func orAtoms(e ast.Expr) []ast.Expr {
	if b, ok := unparen(e).(*ast.BinaryExpr); ok && b.Op == token.LOR {
		return append(orAtoms(b.X), orAtoms(b.Y)...)
	}
	return []ast.Expr{unparen(e)}
}

// literalTest recognises isLiteralNumber(C, n), C == "" and C == 0.
func literalTest(info *types.Info, atom ast.Expr) (ast.Expr, string, bool) {
	switch x := atom.(type) {
	case *ast.CallExpr:
		if fn := calleeOf(info, x); fn != nil && fn.Name() == "isLiteralNumber" && len(x.Args) == 2 {
			if v, ok := constInt(info, x.Args[1]); ok {
				return x.Args[0], fmt.Sprint(v), true
			}
		}
		if sel, ok := unparen(x.Fun).(*ast.SelectorExpr); ok && sel.Sel.Name == "Bool" && len(x.Args) == 0 && isReflectValue(info.TypeOf(sel.X)) {
			return sel.X, "true", true
		}
	case *ast.UnaryExpr:
		if x.Op == token.NOT {
			if call, ok := unparen(x.X).(*ast.CallExpr); ok {
				if sel, ok := unparen(call.Fun).(*ast.SelectorExpr); ok && sel.Sel.Name == "Bool" && len(call.Args) == 0 && isReflectValue(info.TypeOf(sel.X)) {
					return sel.X, "false", true
				}
			}
		}
	case *ast.BinaryExpr:
		if x.Op == token.EQL {
			if s, ok := constString(info, x.Y); ok && s == "" {
				return x.X, `""`, true
			}
			if v, ok := constInt(info, x.Y); ok && v == 0 {
				if _, isConstX := constInt(info, x.X); !isConstX {
					return x.X, "0", true
				}
			}
		}
	}
	return nil, "", false
}

func classifyShortcutBody(info *types.Info, di *defIndex, body *ast.BlockStmt, lastP, prevP types.Object) (string, ast.Node) {
	hasErr := false
	inspectCalls(body, func(call *ast.CallExpr) {
		if fn := calleeOf(info, call); fn != nil && isErrorHelper(fn) {
			hasErr = true
		}
	})
	if hasErr {
		return "error", body
	}
	if len(body.List) == 0 {
		return "", body
	}
	ret, ok := body.List[len(body.List)-1].(*ast.ReturnStmt)
	if !ok || len(ret.Results) != 1 {
		return "", body
	}
	e := unparen(ret.Results[0])
	if id := identOf(e); id != nil {
		if id.Name == "nil" {
			return "same", ret // statement compilers: no statement = place unchanged
		}
		o := info.Uses[id]
		if o == lastP || o == prevP {
			return "same", ret
		}
		return "", ret
	}
	if call, ok := e.(*ast.CallExpr); ok {
		if fn := calleeOf(info, call); fn != nil {
			n := fn.Name()
			switch {
			case strings.Contains(n, "Zero"):
				return "zero", ret
			case n == "UnaryMinus":
				return "neg", ret
			case strings.HasSuffix(n, "ForSideEffects"):
				return "same", ret
			}
			// delegation to another compile function with the same operands
			if len(call.Args) == 2 && identOf(call.Args[0]) != nil && identOf(call.Args[1]) != nil &&
				info.Uses[identOf(call.Args[0])] == prevP && info.Uses[identOf(call.Args[1])] == lastP {
				return "delegate:", ret
			}
		}
	}
	return "", ret
}

// delegateCallee returns the function called by `return c.f(a, b)` at the end of body.
func delegateCallee(info *types.Info, body *ast.BlockStmt) *types.Func {
	if len(body.List) == 0 {
		return nil
	}
	ret, ok := body.List[len(body.List)-1].(*ast.ReturnStmt)
	if !ok || len(ret.Results) != 1 {
		return nil
	}
	if call, ok := unparen(ret.Results[0]).(*ast.CallExpr); ok {
		return calleeOf(info, call)
	}
	return nil
}

// categoryGuards reads conjuncts of the forms reflect.Category(K) != xr.Uint, reflect.Category(K) == xr.Int and
// reflect.IsCategory(K, xr.Int, ...): they restrict the operand categories that reach the shortcut. Conjuncts of
// any other form restrict nothing (the obligation is then judged for every category of the function).
func categoryGuards(info *types.Info, guards []ast.Expr) (excluded, only map[string]bool) {
	excluded, only = map[string]bool{}, map[string]bool{}
	catOf := func(e ast.Expr) string {
		if o := usedObj(info, e); o != nil {
			return kindCategory(o.Name())
		}
		return ""
	}
	for _, g := range guards {
		switch x := unparen(g).(type) {
		case *ast.BinaryExpr:
			// k == xr.Bool with k a reflect.Kind
			if (x.Op == token.EQL || x.Op == token.NEQ) && isReflectKind(typeOrInvalid(info, x.X)) {
				if k := catOf(x.Y); k != "" {
					if x.Op == token.EQL {
						only[k] = true
					} else {
						excluded[k] = true
					}
				}
				continue
			}
			call, ok := unparen(x.X).(*ast.CallExpr)
			if !ok {
				continue
			}
			if fn := calleeOf(info, call); fn == nil || fn.Name() != "Category" {
				continue
			}
			k := catOf(x.Y)
			if k == "" {
				continue
			}
			if x.Op == token.NEQ {
				excluded[k] = true
			} else if x.Op == token.EQL {
				only[k] = true
			}
		case *ast.CallExpr:
			if fn := calleeOf(info, x); fn != nil && fn.Name() == "IsCategory" && len(x.Args) >= 2 {
				for _, a := range x.Args[1:] {
					if k := catOf(a); k != "" {
						only[k] = true
					}
				}
			}
		}
	}
	return
}

// A7b — && and || with a constant operand. The compile functions of the short-circuit operators fold constant
// operands. Go's semantics fix both the value and which operand is evaluated: the left operand is always evaluated;
// the right one only if the left does not decide. Decided by enumerating the sixteen combinations of (x constant?,
// its value, y constant?, its value) through the if-structure of Land and Lor (the flags come from the three results
// of Expr.TryAsPred: value, closure — nil for a constant —, error) and comparing what is returned with the table:
//
//	x constant:               x && y = y if x else false        x || y = true if x else y      (y never evaluated early)
//	x not constant, y constant: x && true = x, x && false must still evaluate x; x || false = x, x || true must still evaluate x
//	neither constant:         a closure computing x(env) op y(env) with Go's own short-circuit operator.
func ruleBoolShortcuts(c *Ctx, rule string) {
	pk := c.P.Pkg("fast")
	info := pk.TypesInfo
	for _, spec := range []struct {
		fk string
		op token.Token
	}{{"fast.Comp.Land", token.LAND}, {"fast.Comp.Lor", token.LOR}} {
		fd := c.P.Func(spec.fk)
		if fd == nil || fd.Body == nil || len(fd.Type.Params.List) < 2 {
			c.Ob(rule, spec.fk, nil, false, "anchor function not found")
			continue
		}
		var params []types.Object
		for _, f := range fd.Type.Params.List {
			for _, nm := range f.Names {
				params = append(params, info.Defs[nm])
			}
		}
		xP, yP := params[len(params)-2], params[len(params)-1]
		// flags: results of X.TryAsPred()
		type flagT struct {
			side string // "x" or "y"
			kind string // "val", "fun", "err"
		}
		flags := map[types.Object]flagT{}
		ast.Inspect(fd.Body, func(n ast.Node) bool {
			as, ok := n.(*ast.AssignStmt)
			if !ok || len(as.Rhs) != 1 || len(as.Lhs) != 3 {
				return true
			}
			call, ok := unparen(as.Rhs[0]).(*ast.CallExpr)
			if !ok {
				return true
			}
			sel, ok := unparen(call.Fun).(*ast.SelectorExpr)
			if !ok || sel.Sel.Name != "TryAsPred" {
				return true
			}
			side := ""
			switch usedObj(info, sel.X) {
			case xP:
				side = "x"
			case yP:
				side = "y"
			}
			if side == "" {
				return true
			}
			for i, k := range []string{"val", "fun", "err"} {
				if id := identOf(as.Lhs[i]); id != nil && id.Name != "_" {
					flags[info.Defs[id]] = flagT{side, k}
				}
			}
			return true
		})
		if len(flags) < 4 {
			c.Ob(rule, spec.fk, fd, false, "the flags of Expr.TryAsPred for both operands were not found")
			continue
		}
		type asg struct{ xc, xv, yc, yv bool }
		var evalCond func(e ast.Expr, a asg) (bool, bool)
		evalCond = func(e ast.Expr, a asg) (bool, bool) {
			switch x := unparen(e).(type) {
			case *ast.Ident:
				if f, ok := flags[info.Uses[x]]; ok {
					switch f.kind {
					case "val":
						if f.side == "x" {
							return a.xv, true
						}
						return a.yv, true
					case "err":
						return false, true
					}
				}
			case *ast.UnaryExpr:
				if x.Op == token.NOT {
					v, ok := evalCond(x.X, a)
					return !v, ok
				}
			case *ast.BinaryExpr:
				switch x.Op {
				case token.LAND, token.LOR:
					l, ok1 := evalCond(x.X, a)
					r, ok2 := evalCond(x.Y, a)
					if !ok1 || !ok2 {
						return false, false
					}
					if x.Op == token.LAND {
						return l && r, true
					}
					return l || r, true
				case token.EQL, token.NEQ:
					if id := identOf(x.X); id != nil && identOf(x.Y) != nil && identOf(x.Y).Name == "nil" {
						if f, ok := flags[info.Uses[id]]; ok && f.kind == "fun" {
							isConst := a.xc
							if f.side == "y" {
								isConst = a.yc
							}
							if x.Op == token.EQL {
								return isConst, true
							}
							return !isConst, true
						}
					}
				}
			}
			return false, false
		}
		// term of a closure body: X, Y, T, F, (a && b), (a || b)
		var term func(e ast.Expr) string
		term = func(e ast.Expr) string {
			switch x := unparen(e).(type) {
			case *ast.Ident:
				if x.Name == "true" {
					return "T"
				}
				if x.Name == "false" {
					return "F"
				}
			case *ast.CallExpr:
				if id := identOf(x.Fun); id != nil {
					if f, ok := flags[info.Uses[id]]; ok && f.kind == "fun" {
						return strings.ToUpper(f.side)
					}
				}
			case *ast.BinaryExpr:
				if x.Op == token.LAND || x.Op == token.LOR {
					return "(" + term(x.X) + " " + x.Op.String() + " " + term(x.Y) + ")"
				}
			}
			return "?"
		}
		classify := func(e ast.Expr) string {
			e = unparen(e)
			if id := identOf(e); id != nil {
				switch info.Uses[id] {
				case xP:
					return "X"
				case yP:
					return "Y"
				}
				return "?"
			}
			call, ok := e.(*ast.CallExpr)
			if !ok {
				return "?"
			}
			fn := calleeOf(info, call)
			if fn == nil {
				return "?"
			}
			switch fn.Name() {
			case "exprValue":
				if len(call.Args) == 2 {
					if tv, ok := info.Types[call.Args[1]]; ok && tv.Value != nil {
						if tv.Value.String() == "true" {
							return "T"
						}
						if tv.Value.String() == "false" {
							return "F"
						}
					}
				}
			case "exprBool":
				if len(call.Args) == 1 {
					if lit, ok := unparen(call.Args[0]).(*ast.FuncLit); ok && len(lit.Body.List) == 1 {
						if r, ok := lit.Body.List[0].(*ast.ReturnStmt); ok && len(r.Results) == 1 {
							return term(r.Results[0])
						}
					}
				}
			}
			return "?"
		}
		var run func(list []ast.Stmt, a asg) (string, ast.Node, bool)
		run = func(list []ast.Stmt, a asg) (string, ast.Node, bool) {
			for _, st := range list {
				switch x := st.(type) {
				case *ast.ReturnStmt:
					if len(x.Results) == 1 {
						return classify(x.Results[0]), x, true
					}
					return "?", x, true
				case *ast.IfStmt:
					v, ok := evalCond(x.Cond, a)
					if !ok {
						return "?cond:" + exprString(x.Cond), x, true
					}
					if v {
						if r, n, done := run(x.Body.List, a); done {
							return r, n, true
						}
					} else if x.Else != nil {
						var el []ast.Stmt
						if b, ok := x.Else.(*ast.BlockStmt); ok {
							el = b.List
						} else {
							el = []ast.Stmt{x.Else}
						}
						if r, n, done := run(el, a); done {
							return r, n, true
						}
					}
				}
			}
			return "", nil, false
		}
		opS := spec.op.String()
		for _, a := range []asg{
			{true, true, false, false}, {true, false, false, false}, {true, true, true, true}, {true, true, true, false}, {true, false, true, true}, {true, false, true, false},
			{false, false, true, true}, {false, false, true, false}, {false, false, false, false},
		} {
			got, at, _ := run(fd.Body.List, a)
			var want []string
			switch {
			case a.xc && spec.op == token.LAND:
				if a.xv {
					want = []string{"Y", "Y"}
					if a.yc {
						want = []string{"Y", map[bool]string{true: "T", false: "F"}[a.yv]}
					}
				} else {
					want = []string{"F"}
				}
			case a.xc && spec.op == token.LOR:
				if a.xv {
					want = []string{"T"}
				} else {
					want = []string{"Y"}
					if a.yc {
						want = []string{"Y", map[bool]string{true: "T", false: "F"}[a.yv]}
					}
				}
			case a.yc && spec.op == token.LAND:
				if a.yv {
					want = []string{"X", "(X && T)"}
				} else {
					want = []string{"(X && F)"}
				}
			case a.yc && spec.op == token.LOR:
				if a.yv {
					want = []string{"(X || T)"}
				} else {
					want = []string{"X", "(X || F)"}
				}
			default:
				want = []string{"(X " + opS + " Y)"}
			}
			good := false
			for _, w := range want {
				if got == w {
					good = true
				}
			}
			name := func(cst, v bool, s string) string {
				if !cst {
					return s
				}
				return fmt.Sprint(v)
			}
			key := fmt.Sprintf("%s/%s %s %s", spec.fk, name(a.xc, a.xv, "x"), opS, name(a.yc, a.yv, "y"))
			c.Ob(rule, key, at, good, fmt.Sprintf("compiled to %s; Go's value and evaluation order allow %v (X, Y: the operand itself or a call of its closure; T, F: constants)", got, want))
		}
	}
}
