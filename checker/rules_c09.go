package main

// C09: methods, embedding, interfaces, type switches — the structural clauses of the lookup and dispatch code.

import (
	"fmt"
	"go/ast"
	"go/constant"
	"go/token"
	"go/types"
	"strings"
)

// ruleDepthOrderedLookup (L1): Go selects the field or method at the shallowest embedding depth and rejects a
// selector that is ambiguous at that depth. The breadth-first loops of xreflect/lookup.go therefore (a) go one
// level deeper only while nothing was found, (b) examine the whole level (no early exit), (c) add up the matches of
// every element of the level, (d) keep the first match.
func ruleDepthOrderedLookup(c *Ctx, rule string) {
	pk := c.P.Pkg("xreflect")
	if pk == nil {
		c.Ob(rule, "xreflect", nil, false, "package not loaded")
		return
	}
	info := pk.TypesInfo
	for _, fk := range []string{"xreflect.xtype.FieldByName", "xreflect.xtype.methodByName"} {
		fd := c.P.Func(fk)
		if fd == nil {
			c.Ob(rule, fk, nil, false, "anchor function not found")
			continue
		}
		// the count result
		var count types.Object
		if fd.Type.Results != nil {
			for _, f := range fd.Type.Results.List {
				for _, nm := range f.Names {
					if b, ok := info.Defs[nm].Type().Underlying().(*types.Basic); ok && b.Kind() == types.Int {
						count = info.Defs[nm]
					}
				}
			}
		}
		var level *ast.ForStmt
		ast.Inspect(fd.Body, func(nd ast.Node) bool {
			f, ok := nd.(*ast.ForStmt)
			if !ok || f.Init != nil || f.Post != nil || f.Cond == nil || level != nil {
				return true
			}
			level = f
			return false
		})
		if level == nil || count == nil {
			c.Ob(rule, fk+"/level-loop", fd, false, "breadth-first level loop or count result not found")
			continue
		}
		// (a) for count == 0 && len(work) != 0
		var work string
		okCond, hasCount := false, false
		for _, a := range andAtoms(level.Cond) {
			b, ok := unparen(a).(*ast.BinaryExpr)
			if !ok {
				continue
			}
			if b.Op == token.EQL && identOf(b.X) != nil && info.Uses[identOf(b.X)] == count {
				if v, isC := constInt(info, b.Y); isC && v == 0 {
					hasCount = true
				}
			}
			if b.Op == token.NEQ {
				if call, ok := unparen(b.X).(*ast.CallExpr); ok && exprString(call.Fun) == "len" && len(call.Args) == 1 {
					if v, isC := constInt(info, b.Y); isC && v == 0 {
						work = exprString(call.Args[0])
					}
				}
			}
		}
		okCond = hasCount && work != "" && len(andAtoms(level.Cond)) == 2
		c.Ob(rule, fk+"/deeper-only-if-nothing-found", level, okCond, "the search goes one embedding level deeper only while nothing was found and embedded fields remain")
		// the range over the level
		var rng *ast.RangeStmt
		for _, st := range level.Body.List {
			if r, ok := st.(*ast.RangeStmt); ok && exprString(r.X) == work {
				rng = r
			}
		}
		if rng == nil {
			c.Ob(rule, fk+"/whole-level", level, false, "range over the current level not found")
			continue
		}
		// (b) no early exit
		early := false
		ast.Inspect(rng.Body, func(nd ast.Node) bool {
			switch x := nd.(type) {
			case *ast.FuncLit:
				return false
			case *ast.BranchStmt:
				if x.Tok == token.BREAK || x.Tok == token.GOTO {
					early = true
				}
			case *ast.ReturnStmt:
				early = true
			}
			return true
		})
		c.Ob(rule, fk+"/whole-level", rng, !early, "every embedded field of a level is examined (no early exit), so ambiguity at that depth is seen")
		// (c) count += ecount, unconditionally in the range body
		addsUp := false
		var ecount string
		for _, st := range rng.Body.List {
			if as, ok := st.(*ast.AssignStmt); ok && as.Tok == token.ADD_ASSIGN && len(as.Lhs) == 1 && identOf(as.Lhs[0]) != nil && info.Uses[identOf(as.Lhs[0])] == count {
				addsUp = true
				ecount = exprString(as.Rhs[0])
			}
		}
		c.Ob(rule, fk+"/matches-added-up", rng, addsUp, "the matches of every element of the level are added to the count, unconditionally")
		// (d) first match kept: result assigned under count == 0 && ecount > 0; children queued only when that element had no match
		firstKept, queuedOnMiss := false, false
		ast.Inspect(rng.Body, func(nd ast.Node) bool {
			ifs, ok := nd.(*ast.IfStmt)
			if !ok {
				return true
			}
			b, ok := unparen(ifs.Cond).(*ast.BinaryExpr)
			if !ok || b.Op != token.GTR || exprString(b.X) != ecount {
				return true
			}
			// enclosing if count == 0
			outer := false
			for _, anc := range enclosingStack(rng.Body, ifs) {
				if o, ok := anc.(*ast.IfStmt); ok && o != ifs {
					if ob, ok := unparen(o.Cond).(*ast.BinaryExpr); ok && ob.Op == token.EQL && identOf(ob.X) != nil && info.Uses[identOf(ob.X)] == count {
						outer = true
					}
				}
			}
			for _, st := range ifs.Body.List {
				if as, ok := st.(*ast.AssignStmt); ok && len(as.Lhs) == 1 && outer {
					firstKept = true
				}
			}
			if eb, ok := ifs.Else.(*ast.BlockStmt); ok {
				for _, st := range eb.List {
					if as, ok := st.(*ast.AssignStmt); ok && len(as.Rhs) == 1 {
						if call, ok := unparen(as.Rhs[0]).(*ast.CallExpr); ok && exprString(call.Fun) == "append" {
							queuedOnMiss = true
						}
					}
				}
			}
			return true
		})
		c.Ob(rule, fk+"/first-match-kept", rng, firstKept && queuedOnMiss, "the first match of a level is the result, and the embedded fields of an element are queued only when it had no match itself")
	}
	// one struct: every field examined, every match counted, embedded fields queued only before the first match
	fb := c.P.Func("xreflect.fieldByName")
	if fb == nil {
		c.Ob(rule, "xreflect.fieldByName", nil, false, "anchor function not found")
	} else {
		okAll, okCount, okQueue := false, false, false
		ast.Inspect(fb.Body, func(nd ast.Node) bool {
			f, ok := nd.(*ast.ForStmt)
			if !ok || f.Init == nil || f.Cond == nil || f.Post == nil {
				return true
			}
			init, _ := f.Init.(*ast.AssignStmt)
			cond, _ := unparen(f.Cond).(*ast.BinaryExpr)
			post, _ := f.Post.(*ast.IncDecStmt)
			if init == nil || cond == nil || post == nil {
				return true
			}
			v, isC := constInt(info, init.Rhs[0])
			bound := false
			if id := identOf(cond.Y); id != nil {
				if d := buildDefIndex(info, fb).single(info.Uses[id]); d != nil && strings.HasSuffix(exprString(d), ".NumField()") {
					bound = true
				}
			}
			okAll = isC && v == 0 && cond.Op == token.LSS && bound && post.Tok == token.INC
			ast.Inspect(f.Body, func(m ast.Node) bool {
				ifs, ok := m.(*ast.IfStmt)
				if !ok {
					return true
				}
				if call, ok := unparen(ifs.Cond).(*ast.CallExpr); ok {
					if fn := calleeOf(info, call); fn != nil && fn.Name() == "matchFieldByName" {
						for _, st := range ifs.Body.List {
							if inc, ok := st.(*ast.IncDecStmt); ok && inc.Tok == token.INC && exprString(inc.X) == "count" {
								okCount = true
							}
						}
						if e, ok := ifs.Else.(*ast.IfStmt); ok {
							atoms := map[string]bool{}
							for _, a := range andAtoms(e.Cond) {
								atoms[strings.ReplaceAll(exprString(a), " ", "")] = true
							}
							hasAnon := false
							for a := range atoms {
								if strings.HasSuffix(a, ".Anonymous()") {
									hasAnon = true
								}
							}
							okQueue = atoms["count==0"] && hasAnon
						}
					}
				}
				return true
			})
			return false
		})
		c.Ob(rule, "xreflect.fieldByName/every-field", fb, okAll, "every field 0..NumField()-1 of a struct is examined")
		c.Ob(rule, "xreflect.fieldByName/every-match-counted", fb, okCount, "every matching field increments the count (two matches at one depth are an ambiguity)")
		c.Ob(rule, "xreflect.fieldByName/embedded-queued", fb, okQueue, "an embedded field is queued for the next level only if it does not match itself and nothing matched yet")
	}
	// methodByName (one type): every method examined, every match counted
	mb := c.P.Func("xreflect.methodByName")
	if mb != nil {
		okCount := false
		ast.Inspect(mb.Body, func(nd ast.Node) bool {
			ifs, ok := nd.(*ast.IfStmt)
			if !ok {
				return true
			}
			if call, ok := unparen(ifs.Cond).(*ast.CallExpr); ok {
				if fn := calleeOf(info, call); fn != nil && fn.Name() == "matchMethodByName" {
					for _, st := range ifs.Body.List {
						if inc, ok := st.(*ast.IncDecStmt); ok && inc.Tok == token.INC && exprString(inc.X) == "count" {
							okCount = true
						}
					}
				}
			}
			return true
		})
		c.Ob(rule, "xreflect.methodByName/every-match-counted", mb, okCount, "every matching method increments the count")
	}
}

// ruleTypeSwitchDispatch (L2/L3): the fast path of a type switch covers only the initial run of concrete cases; default runs last.
func ruleTypeSwitchDispatch(c *Ctx, rule string) {
	pk := c.P.Pkg("fast")
	info := pk.TypesInfo
	// AllConcrete is monotone: only ever assigned false, apart from the initial literal in TypeSwitch
	w := fieldWriters(c, "fast", "typecaseHelper", "AllConcrete")
	okMono := true
	var ws []string
	for k, nodes := range w {
		ws = append(ws, k)
		for _, n := range nodes {
			switch x := n.(type) {
			case *ast.AssignStmt:
				if exprString(x.Rhs[0]) != "false" {
					okMono = false
				}
			case *ast.KeyValueExpr:
				if k != "fast.Comp.TypeSwitch#lit" || exprString(x.Value) != "true" {
					okMono = false
				}
			default:
				okMono = false
			}
		}
	}
	c.Ob(rule, "fast.typecaseHelper.AllConcrete/monotone", nil, okMono && len(ws) >= 2, fmt.Sprintf("the all-cases-so-far-are-concrete flag starts true and is only ever cleared (writers: %v)", ws))
	add := c.P.Func("fast.typecaseHelper.add")
	okAdd := false
	if add != nil {
		ast.Inspect(add.Body, func(nd ast.Node) bool {
			ifs, ok := nd.(*ast.IfStmt)
			if !ok {
				return true
			}
			// if t != nil && t.Kind() == r.Interface { AllConcrete = false } else if seen.AllConcrete { ConcreteMap.Set }
			clears := false
			for _, st := range ifs.Body.List {
				if as, ok := st.(*ast.AssignStmt); ok {
					if _, isF := fieldSel(info, as.Lhs[0], "AllConcrete"); isF && exprString(as.Rhs[0]) == "false" {
						clears = true
					}
				}
			}
			isIface := false
			for _, a := range andAtoms(ifs.Cond) {
				if b, ok := unparen(a).(*ast.BinaryExpr); ok && b.Op == token.EQL {
					if o := usedObj(info, b.Y); o != nil && o.Name() == "Interface" {
						isIface = true
					}
				}
			}
			if !clears || !isIface {
				return true
			}
			if e, ok := ifs.Else.(*ast.IfStmt); ok {
				if _, isF := fieldSel(info, e.Cond, "AllConcrete"); isF {
					inspectCalls(e.Body, func(call *ast.CallExpr) {
						if s, ok := unparen(call.Fun).(*ast.SelectorExpr); ok && s.Sel.Name == "Set" {
							if _, isM := fieldSel(info, s.X, "ConcreteMap"); isM {
								okAdd = true
							}
						}
					})
				}
			}
			return true
		})
	}
	c.Ob(rule, "fast.typecaseHelper.add/initial-concrete-segment", add, okAdd, "a case enters the map used by the fast dispatch only while every earlier case was a concrete type; the first interface case closes the map")
	// only add writes ConcreteMap
	okOnly := true
	for _, fd := range c.P.FuncsOf("fast") {
		if fd.Body == nil || funcKey(pk, fd) == "fast.typecaseHelper.add" {
			continue
		}
		inspectCalls(fd.Body, func(call *ast.CallExpr) {
			if s, ok := unparen(call.Fun).(*ast.SelectorExpr); ok && (s.Sel.Name == "Set" || s.Sel.Name == "Delete") {
				if _, isM := fieldSel(info, s.X, "ConcreteMap"); isM {
					okOnly = false
				}
			}
		})
	}
	c.Ob(rule, "fast.typecaseHelper.ConcreteMap/owner", nil, okOnly, "only typecaseHelper.add fills the fast-dispatch map")
	gm := c.P.Func("fast.Comp.typeswitchGotoMap")
	if gm == nil {
		c.Ob(rule, "fast.Comp.typeswitchGotoMap", nil, false, "anchor function not found")
	} else {
		usesConcrete, usesAll, collision, fallback := false, false, false, false
		ast.Inspect(gm.Body, func(nd ast.Node) bool {
			switch x := nd.(type) {
			case *ast.CallExpr:
				if s, ok := unparen(x.Fun).(*ast.SelectorExpr); ok && s.Sel.Name == "Iterate" {
					if _, isM := fieldSel(info, s.X, "ConcreteMap"); isM {
						usesConcrete = true
					}
					if _, isM := fieldSel(info, s.X, "TypeMap"); isM {
						usesAll = true
					}
				}
			case *ast.IfStmt:
				if b, ok := unparen(x.Cond).(*ast.BinaryExpr); ok && b.Op == token.NEQ && strings.HasPrefix(exprString(b.X), "len(") && strings.HasSuffix(exprString(b.Y), ".Len()") {
					for _, st := range x.Body.List {
						if _, isRet := st.(*ast.ReturnStmt); isRet {
							collision = true
						}
					}
				}
				// if ip, found := m[rtype]; found { env.IP = ip } else { env.IP++ }
				if x.Init != nil && x.Else != nil {
					if eb, ok := x.Else.(*ast.BlockStmt); ok && len(eb.List) == 1 {
						if inc, ok := eb.List[0].(*ast.IncDecStmt); ok && inc.Tok == token.INC {
							if _, isIP := fieldSel(info, inc.X, "IP"); isIP {
								fallback = true
							}
						}
					}
				}
			}
			return true
		})
		c.Ob(rule, "fast.Comp.typeswitchGotoMap/source", gm, usesConcrete && !usesAll, "the fast dispatch is built from the initial concrete segment only, never from all cases")
		c.Ob(rule, "fast.Comp.typeswitchGotoMap/collision", gm, collision, "the fast dispatch is abandoned when two case types share a reflect type")
		c.Ob(rule, "fast.Comp.typeswitchGotoMap/fallback", gm, fallback, "a dynamic type that is not in the map falls through to the sequential comparison of the cases")
	}
	// default runs last: the jump to it is appended after all clauses were compiled
	ts := c.P.Func("fast.Comp.TypeSwitch")
	if ts == nil {
		c.Ob(rule, "fast.Comp.TypeSwitch", nil, false, "anchor function not found")
		return
	}
	var loopEnd, jumpPos token.Pos
	var defVar types.Object
	ast.Inspect(ts.Body, func(nd ast.Node) bool {
		switch x := nd.(type) {
		case *ast.RangeStmt:
			if strings.HasSuffix(exprString(x.X), "list") || strings.HasSuffix(exprString(x.X), ".List") {
				calls := false
				inspectCalls(x.Body, func(call *ast.CallExpr) {
					if fn := calleeOf(info, call); fn != nil && fn.Name() == "typeswitchCase" {
						calls = true
					}
				})
				if calls {
					loopEnd = x.End()
				}
			}
		case *ast.IfStmt:
			if b, ok := unparen(x.Cond).(*ast.BinaryExpr); ok && b.Op == token.GEQ && identOf(b.X) != nil {
				if v, isC := constInt(info, b.Y); isC && v == 0 {
					// body appends a jump to defaulti+1
					jumps := false
					ast.Inspect(x.Body, func(m ast.Node) bool {
						if as, ok := m.(*ast.AssignStmt); ok && len(as.Rhs) == 1 {
							if be, ok := unparen(as.Rhs[0]).(*ast.BinaryExpr); ok && be.Op == token.ADD && identOf(be.X) != nil && info.Uses[identOf(be.X)] == info.Uses[identOf(b.X)] {
								if v, isC := constInt(info, be.Y); isC && v == 1 {
									jumps = true
								}
							}
						}
						return true
					})
					if jumps && x.Pos() > loopEnd && loopEnd != token.NoPos {
						jumpPos = x.Pos()
						defVar = info.Uses[identOf(b.X)]
					}
				}
			}
		}
		return true
	})
	c.Ob(rule, "fast.Comp.TypeSwitch/default-last", ts, jumpPos != token.NoPos && defVar != nil, "the jump into the default clause is emitted after every case was compiled, wherever default is written: it runs only if no case matched")
	// the default clause starts with a header that skips it when reached sequentially
	td := c.P.Func("fast.Comp.typeswitchDefault")
	okHdr := false
	if td != nil {
		// first appended statement sets IP to the end index assigned after the body
		var endVar types.Object
		ast.Inspect(td.Body, func(nd ast.Node) bool {
			if as, ok := nd.(*ast.AssignStmt); ok && len(as.Lhs) == 1 && len(as.Rhs) == 1 && identOf(as.Lhs[0]) != nil {
				if strings.HasSuffix(exprString(as.Rhs[0]), ".Code.Len()") {
					endVar = info.Uses[identOf(as.Lhs[0])]
				}
			}
			return true
		})
		ast.Inspect(td.Body, func(nd ast.Node) bool {
			if lit, ok := nd.(*ast.FuncLit); ok && endVar != nil {
				ast.Inspect(lit.Body, func(m ast.Node) bool {
					if as, ok := m.(*ast.AssignStmt); ok && len(as.Rhs) == 1 && identOf(as.Rhs[0]) != nil && info.Uses[identOf(as.Rhs[0])] == endVar {
						okHdr = true
					}
					return true
				})
			}
			return true
		})
	}
	c.Ob(rule, "fast.Comp.typeswitchDefault/header", td, okHdr, "a default clause reached sequentially (before later cases were tried) is skipped: its first statement jumps past its body")
}

// ruleEmulatedInterfaceBinding (L4): conversion to an interpreted interface binds every method by its own name.
func ruleEmulatedInterfaceBinding(c *Ctx, rule string) {
	pk := c.P.Pkg("fast")
	info := pk.TypesInfo
	fd := c.P.Func("fast.Comp.converterToEmulatedInterface")
	if fd == nil {
		c.Ob(rule, "fast.Comp.converterToEmulatedInterface", nil, false, "anchor function not found")
		return
	}
	okLoop, okName, okMissing, okAmbig, okStore, okGate := false, false, false, false, false, false
	// gate: tin.Implements(tout) or error, first
	if len(fd.Body.List) > 0 {
		if ifs, ok := fd.Body.List[0].(*ast.IfStmt); ok {
			if u, ok := unparen(ifs.Cond).(*ast.UnaryExpr); ok && u.Op == token.NOT && strings.Contains(exprString(u.X), ".Implements(") {
				inspectCalls(ifs.Body, func(call *ast.CallExpr) {
					if fn := calleeOf(info, call); fn != nil && isErrorHelper(fn) {
						okGate = true
					}
				})
			}
		}
	}
	ast.Inspect(fd.Body, func(nd ast.Node) bool {
		f, ok := nd.(*ast.ForStmt)
		if !ok || f.Init == nil || f.Cond == nil || f.Post == nil {
			return true
		}
		init, _ := f.Init.(*ast.AssignStmt)
		cond, _ := unparen(f.Cond).(*ast.BinaryExpr)
		if init == nil || cond == nil {
			return true
		}
		i := exprString(init.Lhs[0])
		v, isC := constInt(info, init.Rhs[0])
		bound := false
		if id := identOf(cond.Y); id != nil {
			if d := buildDefIndex(info, fd).single(info.Uses[id]); d != nil && strings.HasSuffix(exprString(d), ".NumMethod()") {
				bound = true
			}
		}
		okLoop = isC && v == 0 && cond.Op == token.LSS && bound
		var mtdout, cnt string
		ast.Inspect(f.Body, func(m ast.Node) bool {
			switch x := m.(type) {
			case *ast.AssignStmt:
				if len(x.Rhs) == 1 {
					if call, ok := unparen(x.Rhs[0]).(*ast.CallExpr); ok {
						if s, ok := unparen(call.Fun).(*ast.SelectorExpr); ok {
							if s.Sel.Name == "Method" && len(call.Args) == 1 && exprString(call.Args[0]) == i {
								mtdout = exprString(x.Lhs[0])
							}
							if s.Sel.Name == "MethodByName" && len(call.Args) == 2 && mtdout != "" && exprString(call.Args[0]) == mtdout+".Name" && len(x.Lhs) == 2 {
								okName = true
								cnt = exprString(x.Lhs[1])
							}
						}
					}
				}
				if ix, ok := unparen(x.Lhs[0]).(*ast.IndexExpr); ok && exprString(ix.Index) == i && len(x.Lhs) == 1 {
					okStore = true
				}
			case *ast.IfStmt:
				var walk func(ifs *ast.IfStmt)
				walk = func(ifs *ast.IfStmt) {
					if b, ok := unparen(ifs.Cond).(*ast.BinaryExpr); ok && exprString(b.X) == cnt && cnt != "" {
						errs := false
						inspectCalls(ifs.Body, func(call *ast.CallExpr) {
							if fn := calleeOf(info, call); fn != nil && isErrorHelper(fn) {
								errs = true
							}
						})
						if v, isC := constInt(info, b.Y); isC && errs {
							if b.Op == token.EQL && v == 0 {
								okMissing = true
							}
							if b.Op == token.GTR && v == 1 {
								okAmbig = true
							}
						}
					}
					if e, ok := ifs.Else.(*ast.IfStmt); ok {
						walk(e)
					}
				}
				walk(x)
				return false
			}
			return true
		})
		return false
	})
	c.Ob(rule, "fast.Comp.converterToEmulatedInterface/gate", fd, okGate, "a type that does not implement the interface is rejected before any method is bound")
	c.Ob(rule, "fast.Comp.converterToEmulatedInterface/every-method", fd, okLoop && okStore, "every method 0..NumMethod()-1 of the interface gets an entry, at its own index")
	c.Ob(rule, "fast.Comp.converterToEmulatedInterface/by-name", fd, okName, "method i of the interface is implemented by the method of the same name of the concrete type")
	c.Ob(rule, "fast.Comp.converterToEmulatedInterface/missing-or-ambiguous", fd, okMissing && okAmbig, "a missing method and a method that is ambiguous at its depth are both errors")
}

func init() {
	delete(notApplicable, "C09")
	register(&PropDef{
		ID:    "C09",
		Title: "Methods, embedding, interfaces and type switches behave as in Go",
		Explanation: "Decided (a few structural clauses of the selection and dispatch machinery; the resolution algorithms as a whole are not): L1 depth-ordered lookup: the breadth-first loops of xtype.FieldByName and xtype.methodByName go one embedding level deeper only while nothing was found, examine the whole level without early exit, add up the matches of every element (so ambiguity at the shallowest depth is seen), keep the first match and queue the embedded fields of an element only when it had no match; fieldByName examines every field of a struct, counts every match and queues an embedded field only when it does not match and nothing matched yet; the work list of the next level is a new slice (W1, shared with C36); " +
			"L2 type switch: the map used for fast dispatch is filled only by typecaseHelper.add and only while every earlier case was a concrete type (the flag starts true and is only ever cleared), typeswitchGotoMap builds its table from that initial segment only, abandons it when two case types share a reflect type, and falls through to the sequential comparison for a type not in the table; the jump into the default clause is emitted after all cases, and a default clause met sequentially skips itself; " +
			"L4 conversion to an interpreted interface rejects a non-implementing type first, binds every method 0..NumMethod()-1 at its own index to the concrete method of the same name, and reports both a missing and an ambiguous method. " +
			"L5 wherever the depth of a field (len(StructField.Index)) is compared with the depth of a method (len(Method.FieldIndex)) the method side carries exactly one more, the two paths being reported in different units; L6 every run-time test of a type assertion that compares the dynamic reflect type with the asserted one also tests the interpreter-level dynamic type in the same condition (interpreted named types share reflect types). " +
			"Not decided: which field or method a selector resolves to in a given program, method sets of pointer vs. value receivers, method values and expressions, type assertion outcomes, wrapper methods for embedded fields, compiled interfaces (C11).",
		Assumptions: []string{"go/types method sets for the types loaded from the import tables"},
		Rules: []func(*Ctx){func(c *Ctx) {
			ruleDepthOrderedLookup(c, "L1-depth-ordered-lookup")
			ruleWorklistHandover(c, "W1-worklist-handover", "xreflect", "lookup.go")
			ruleTypeSwitchDispatch(c, "L2-typeswitch-dispatch")
			ruleEmulatedInterfaceBinding(c, "L4-interface-binding")
			ruleDepthUnits(c, "L5-depth-units")
			ruleTwoLevelTypeTest(c, "L6-two-level-type-test")
		}},
		Technique: "AST/type-resolved custom analysis: loop-shape and guard checks of the breadth-first lookups, monotone-flag and ownership checks of the type-switch dispatch table, call-order checks",
		Mutants: []Mutant{
			{Name: "field-lookup-stops-at-first-match", File: "xreflect/lookup.go", Old: "\t\t\tif count == 0 {\n\t\t\t\tif ecount > 0 {\n\t\t\t\t\tfield = efield\n\t\t\t\t} else {", New: "\t\t\tif count == 0 {\n\t\t\t\tif ecount > 0 {\n\t\t\t\t\tfield = efield\n\t\t\t\t\tcount = ecount\n\t\t\t\t\tbreak\n\t\t\t\t} else {", Canary: true},
			{Name: "method-lookup-keeps-descending", File: "xreflect/lookup.go", Old: "\t\tfor count == 0 && len(tovisit) != 0 {\n\t\t\tvar next []StructField\n\t\t\tfor _, f := range tovisit {\n\t\t\t\tet := unwrap(f.Type)", New: "\t\tfor len(tovisit) != 0 {\n\t\t\tvar next []StructField\n\t\t\tfor _, f := range tovisit {\n\t\t\t\tet := unwrap(f.Type)"},
			{Name: "ambiguous-fields-not-counted", File: "xreflect/lookup.go", Old: "\t\t\t\t// debugf(\"fieldByName: %d-th field of <%v> matches: %#v\", i, t.rtype, field)\n\t\t\t}\n\t\t\tcount++", New: "\t\t\t\t// debugf(\"fieldByName: %d-th field of <%v> matches: %#v\", i, t.rtype, field)\n\t\t\t\tcount++\n\t\t\t}"},
			{Name: "goto-map-over-all-cases", File: "fast/switch_type.go", Old: "\t} else if seen.AllConcrete {\n\t\tseen.ConcreteMap.Set(gtype, entry)", New: "\t} else {\n\t\tseen.ConcreteMap.Set(gtype, entry)", Canary: true},
			{Name: "goto-map-misses-fall-to-end", File: "fast/switch_type.go", Old: "\t\t} else {\n\t\t\tenv.IP++\n\t\t}\n\t\treturn env.Code[env.IP], env\n\t}\n\tc.Code.List[ip] = stmt", New: "\t\t} else {\n\t\t\tenv.IP += 2\n\t\t}\n\t\treturn env.Code[env.IP], env\n\t}\n\tc.Code.List[ip] = stmt"},
			{Name: "method-depth-in-field-units", File: "fast/selector.go", Old: "mtddepth := len(mtd.FieldIndex) + 1", New: "mtddepth := len(mtd.FieldIndex)"},
			{Name: "typeassert2-reflect-level-only", File: "fast/type.go", Old: "\t\t\trt := rtypeof(v, t)\n\t\t\tif rt != rtout || (t != nil && !t.IdenticalTo(tout)) {\n\t\t\t\treturn fail[0], fail", New: "\t\t\tif rtypeof(v, t) != rtout {\n\t\t\t\treturn fail[0], fail", Nth: 1},
			{Name: "interface-method-bound-by-first-name", File: "fast/interface.go", Old: "mtdin, count := tsrc.MethodByName(mtdout.Name, c.FileComp().Path)", New: "mtdin, count := tsrc.MethodByName(tout.Method(0).Name, c.FileComp().Path)"},
			{Name: "ambiguous-method-accepted", File: "fast/interface.go", Old: "\t\t} else if count > 1 {\n\t\t\tc.Errorf(\"cannot convert from <%v> to <%v>: multiple methods match %s %s\", tin, tout, mtdout.Name, mtdout.Type)\n", New: ""},
		},
	})
}

// L5 — one unit for the depth of a field and of a method. A selector x.f picks the field or method found at the
// shallowest embedding depth and is ambiguous when both exist at the same depth. xreflect reports a field
// with its full index path (a direct field has len(Index) == 1) and a method with the path of the embedded
// fields only (a method of the type itself has len(FieldIndex) == 0): wherever the two are compared, the
// method side must be one larger in offset: len(FieldIndex)+1+k against len(Index)+k.
func ruleDepthUnits(c *Ctx, rule string) {
	n := 0
	for _, short := range []string{"fast", "xreflect"} {
		pk := c.P.Pkg(short)
		if pk == nil {
			continue
		}
		info := pk.TypesInfo
		for _, fd := range c.P.FuncsOf(short) {
			if fd.Body == nil {
				continue
			}
			var di *defIndex
			var lin func(e ast.Expr, depth int) (string, int, bool)
			lin = func(e ast.Expr, depth int) (string, int, bool) {
				if depth > 6 {
					return "", 0, false
				}
				switch x := unparen(e).(type) {
				case *ast.Ident:
					if di == nil {
						di = buildDefIndex(info, fd)
					}
					if o := info.Uses[x]; o != nil {
						if d := di.single(o); d != nil {
							return lin(d, depth+1)
						}
					}
				case *ast.CallExpr:
					if id := identOf(x.Fun); id != nil && id.Name == "len" && len(x.Args) == 1 {
						if _, isB := info.Uses[id].(*types.Builtin); isB {
							if s, ok := unparen(x.Args[0]).(*ast.SelectorExpr); ok {
								t := info.TypeOf(s.X)
								if s.Sel.Name == "Index" && isNamedType(t, "xreflect", "StructField") {
									return "field", 0, true
								}
								if s.Sel.Name == "FieldIndex" && isNamedType(t, "xreflect", "Method") {
									return "method", 0, true
								}
							}
						}
					}
				case *ast.BinaryExpr:
					if x.Op == token.ADD || x.Op == token.SUB {
						for _, p := range [][2]ast.Expr{{x.X, x.Y}, {x.Y, x.X}} {
							if tv, ok := info.Types[p[1]]; ok && tv.Value != nil {
								if k, ok := constantInt(tv); ok {
									if kind, b, ok := lin(p[0], depth+1); ok {
										if x.Op == token.SUB {
											if p[0] != x.X {
												return "", 0, false
											}
											return kind, b - k, true
										}
										return kind, b + k, true
									}
								}
							}
						}
					}
				}
				return "", 0, false
			}
			seq := 0
			ast.Inspect(fd.Body, func(nd ast.Node) bool {
				b, ok := nd.(*ast.BinaryExpr)
				if !ok {
					return true
				}
				switch b.Op {
				case token.LSS, token.GTR, token.LEQ, token.GEQ, token.EQL, token.NEQ:
				default:
					return true
				}
				k1, o1, ok1 := lin(b.X, 0)
				k2, o2, ok2 := lin(b.Y, 0)
				if !ok1 || !ok2 || k1 == k2 {
					return true
				}
				if k1 == "method" {
					o1, o2 = o2, o1
				}
				n++
				seq++
				c.Ob(rule, fmt.Sprintf("%s/compare#%d", funcKey(pk, fd), seq), b, o2-o1 == 1, fmt.Sprintf("field depth len(Index)%+d is compared with method depth len(FieldIndex)%+d: the method side must be exactly one more (a direct field has len(Index) 1, a method of the type itself len(FieldIndex) 0)", o1, o2))
				return true
			})
		}
	}
	if n == 0 {
		c.Ob(rule, "fast.Comp.TryLookupFieldOrMethod", nil, false, "no comparison of a field depth with a method depth found: anchor missing")
	}
}

// L6 — a type assertion to a concrete type compares two levels of type. Interpreted named types share the
// reflect.Type of their underlying type (and emulated interfaces share one struct type), so equality of the
// reflect types is necessary but not sufficient: wherever the dynamic reflect type of an asserted value
// (rtypeof(v, t) / ValueType(v)) is compared with the asserted reflect type, the same condition also tests the
// interpreter-level dynamic type t (by a method call on it: IdenticalTo, AssignableTo, Implements).
func ruleTwoLevelTypeTest(c *Ctx, rule string) {
	pk := c.P.Pkg("fast")
	info := pk.TypesInfo
	isRType := func(e ast.Expr) bool {
		t := info.TypeOf(e)
		if t == nil {
			return false
		}
		n, ok := types.Unalias(t).(*types.Named)
		return ok && n.Obj().Pkg() != nil && n.Obj().Pkg().Path() == "reflect" && n.Obj().Name() == "Type"
	}
	n := 0
	for _, fd := range c.P.FuncsOf("fast") {
		if fd.Body == nil || baseName(c.P.Fset, fd) != "type.go" {
			continue
		}
		di := buildDefIndex(info, fd)
		// dynamic reflect type: a call of rtypeof(v, t) or of a function named ValueType; t is rtypeof's second argument,
		// or the xreflect.Type result of the two-result call that produced v
		dynOf := func(e ast.Expr) (types.Object, bool) {
			e = unparen(e)
			if id := identOf(e); id != nil {
				if o := info.Uses[id]; o != nil {
					if d := di.single(o); d != nil {
						e = unparen(d)
					}
				}
			}
			call, ok := e.(*ast.CallExpr)
			if !ok {
				return nil, false
			}
			fn := calleeOf(info, call)
			if fn == nil {
				return nil, false
			}
			switch {
			case funcFullName(fn) == "fast.rtypeof" && len(call.Args) == 2:
				return usedObj(info, call.Args[1]), true
			case fn.Name() == "ValueType" && len(call.Args) == 1:
				// the xr.Type defined together with v
				vo := usedObj(info, call.Args[0])
				var to types.Object
				ast.Inspect(fd.Body, func(x ast.Node) bool {
					as, ok := x.(*ast.AssignStmt)
					if !ok || len(as.Lhs) != 2 || len(as.Rhs) != 1 {
						return true
					}
					if lo := info.Defs[identOf(as.Lhs[0])]; lo != nil && lo == vo {
						if id := identOf(as.Lhs[1]); id != nil && id.Name != "_" {
							to = info.Defs[id]
						}
					}
					return true
				})
				return to, true
			}
			return nil, false
		}
		seq := 0
		ast.Inspect(fd.Body, func(nd ast.Node) bool {
			ifs, ok := nd.(*ast.IfStmt)
			if !ok {
				return true
			}
			var dyn types.Object
			found := false
			ast.Inspect(ifs.Cond, func(x ast.Node) bool {
				b, ok := x.(*ast.BinaryExpr)
				if !ok || (b.Op != token.NEQ && b.Op != token.EQL) || !isRType(b.X) || !isRType(b.Y) {
					return true
				}
				for _, side := range []ast.Expr{b.X, b.Y} {
					if t, ok := dynOf(side); ok {
						found = true
						if t != nil {
							dyn = t
						}
					}
				}
				return true
			})
			if !found {
				return true
			}
			n++
			seq++
			tested := false
			if dyn != nil {
				inspectCalls(ifs.Cond, func(call *ast.CallExpr) {
					if s, ok := unparen(call.Fun).(*ast.SelectorExpr); ok && usedObj(info, s.X) == dyn {
						switch s.Sel.Name {
						case "IdenticalTo", "AssignableTo", "Implements":
							tested = true
						}
					}
				})
			}
			c.Ob(rule, fmt.Sprintf("%s/test#%d", funcKey(pk, fd), seq), ifs, tested, "the dynamic reflect type of the asserted value is compared with the asserted reflect type: the same condition must also test the interpreter-level dynamic type (types declared by interpreted code share reflect types)")
			return true
		})
	}
	if n < 8 {
		c.Ob(rule, "fast/type.go", nil, false, fmt.Sprintf("%d two-level tests found, 8 confirmed by reading (TypeAssert1, TypeAssert2, typeassert)", n))
	}
}

func constantInt(tv types.TypeAndValue) (int, bool) {
	if tv.Value == nil || tv.Value.Kind() != constant.Int {
		return 0, false
	}
	v, ok := constant.Int64Val(tv.Value)
	return int(v), ok
}
