package main

import (
	"go/ast"
	"go/token"
	"go/types"
)

func ruleCmdLookup(c *Ctx) {
	pk := c.P.Pkg("fast")
	info := pk.TypesInfo
	ps := c.P.Func("fast.prefixSearch")
	if ps == nil {
		c.Ob("L1-exact-match", "fast.prefixSearch", nil, false, "anchor function not found")
		return
	}
	di := buildDefIndex(info, ps)
	prefixObj := types.Object(nil)
	vecObj := types.Object(nil)
	for _, f := range ps.Type.Params.List {
		for _, nm := range f.Names {
			o := info.Defs[nm]
			if b, ok := o.Type().Underlying().(*types.Basic); ok && b.Kind() == types.String {
				prefixObj = o
			}
			if _, ok := o.Type().Underlying().(*types.Slice); ok {
				vecObj = o
			}
		}
	}
	// the ambiguity return: a return whose error operand is errors.New(...)
	var ambiguity *ast.ReturnStmt
	ast.Inspect(ps.Body, func(n ast.Node) bool {
		if r, ok := n.(*ast.ReturnStmt); ok && len(r.Results) == 2 {
			if call, ok := unparen(r.Results[1]).(*ast.CallExpr); ok && funcFullName(calleeOf(info, call)) == "errors.New" {
				ambiguity = r
			}
		}
		return true
	})
	if ambiguity == nil || prefixObj == nil || vecObj == nil {
		c.Ob("L1-exact-match", "fast.prefixSearch", ps, false, "ambiguity return / parameters not recognised")
		return
	}
	// L1: before the ambiguity return, an `if <exact> { return i, nil }` where <exact> is the found flag of
	// binarySearch(vec, prefix) or a comparison X.Name == prefix.
	exact := false
	for _, st := range ps.Body.List {
		if st.Pos() > ambiguity.Pos() {
			break
		}
		ast.Inspect(st, func(n ast.Node) bool {
			ifs, ok := n.(*ast.IfStmt)
			if !ok {
				return true
			}
			isExact := false
			cond := unparen(ifs.Cond)
			if id := identOf(cond); id != nil {
				// bool result of binarySearch(vec, prefix)
				if d := di.single(info.Uses[id]); d != nil {
					if call, ok := unparen(d).(*ast.CallExpr); ok && funcFullName(calleeOf(info, call)) == "fast.binarySearch" && len(call.Args) == 2 &&
						identOf(call.Args[1]) != nil && info.Uses[identOf(call.Args[1])] == prefixObj {
						if b, ok := info.Uses[id].Type().Underlying().(*types.Basic); ok && b.Kind() == types.Bool {
							isExact = true
						}
					}
				}
			}
			if b, ok := cond.(*ast.BinaryExpr); ok && b.Op == token.EQL {
				for _, pair := range [][2]ast.Expr{{b.X, b.Y}, {b.Y, b.X}} {
					if sel, ok := unparen(pair[0]).(*ast.SelectorExpr); ok && sel.Sel.Name == "Name" && identOf(pair[1]) != nil && info.Uses[identOf(pair[1])] == prefixObj {
						isExact = true
					}
				}
			}
			if !isExact {
				return true
			}
			// body returns a nil error
			for _, b := range ifs.Body.List {
				if r, ok := b.(*ast.ReturnStmt); ok && len(r.Results) == 2 && identOf(r.Results[1]) != nil && identOf(r.Results[1]).Name == "nil" {
					exact = true
				}
			}
			return true
		})
	}
	c.Ob("L1-exact-match", "fast.prefixSearch", ambiguity, exact, "before a prefix is reported ambiguous, an exact comparison with a command name was evaluated and an exact match returned (Match() is 0 for exact and proper prefixes alike)")
	// L3: every scan loop is bounded by len(vec)
	nloops := 0
	ast.Inspect(ps.Body, func(n ast.Node) bool {
		f, ok := n.(*ast.ForStmt)
		if !ok || f.Cond == nil {
			return true
		}
		scans := false
		inspectCalls(f.Body, func(call *ast.CallExpr) {
			if funcFullName(calleeOf(info, call)) == "fast.Cmd.Match" {
				scans = true
			}
		})
		if !scans {
			return true
		}
		nloops++
		okb := false
		if b, ok := unparen(f.Cond).(*ast.BinaryExpr); ok && b.Op == token.LSS {
			bound := unparen(b.Y)
			if id := identOf(bound); id != nil {
				if d := di.single(info.Uses[id]); d != nil {
					bound = unparen(d)
				}
			}
			if call, ok := bound.(*ast.CallExpr); ok && identOf(call.Fun) != nil && identOf(call.Fun).Name == "len" && len(call.Args) == 1 && identOf(call.Args[0]) != nil && info.Uses[identOf(call.Args[0])] == vecObj {
				okb = true
			}
		}
		c.Ob("L3-scan-bound", "fast.prefixSearch/loop", f, okb, "the scan for matching commands runs up to len(vec), so the last command of a letter is considered")
		return true
	})
	if nloops == 0 {
		c.Ob("L3-scan-bound", "fast.prefixSearch/loop", ps, false, "no scan loop found: anchor missing")
	}
	// the ambiguity list covers [lo, hi)
	// L2: Add keeps the per-letter vector sorted; Add/Del/Lookup use the first byte of the name as key
	add := c.P.Func("fast.Cmds.Add")
	if add == nil {
		c.Ob("L2-sorted", "fast.Cmds.Add", nil, false, "anchor function not found")
	} else {
		var appendPos, sortPos, storePos token.Pos
		ast.Inspect(add.Body, func(n ast.Node) bool {
			switch x := n.(type) {
			case *ast.CallExpr:
				if id := identOf(x.Fun); id != nil && id.Name == "append" && appendPos == 0 {
					appendPos = x.Pos()
				}
				if funcFullName(calleeOf(info, x)) == "fast.sortCmdList" && appendPos != 0 && sortPos == 0 {
					sortPos = x.Pos()
				}
			case *ast.AssignStmt:
				for _, l := range x.Lhs {
					if ix, ok := unparen(l).(*ast.IndexExpr); ok {
						if _, isMap := info.TypeOf(ix.X).Underlying().(*types.Map); isMap && appendPos != 0 && x.Pos() > appendPos {
							storePos = x.Pos()
						}
					}
				}
			}
			return true
		})
		c.Ob("L2-sorted", "fast.Cmds.Add", add, appendPos != 0 && sortPos > appendPos && storePos > sortPos, "append, then sortCmdList, then the vector is stored: binary and prefix search rely on sorted vectors")
	}
	for _, fk := range []string{"fast.Cmds.Add", "fast.Cmds.Del", "fast.Cmds.Lookup"} {
		fd := c.P.Func(fk)
		if fd == nil {
			c.Ob("L2-key", fk, nil, false, "anchor function not found")
			continue
		}
		dd := buildDefIndex(info, fd)
		var strParam types.Object
		for _, f := range fd.Type.Params.List {
			for _, nm := range f.Names {
				strParam = info.Defs[nm]
			}
		}
		n, good := 0, 0
		ast.Inspect(fd.Body, func(nd ast.Node) bool {
			ix, ok := nd.(*ast.IndexExpr)
			if !ok {
				return true
			}
			if _, isMap := info.TypeOf(ix.X).Underlying().(*types.Map); !isMap {
				return true
			}
			n++
			key := unparen(ix.Index)
			if id := identOf(key); id != nil {
				if d := dd.single(info.Uses[id]); d != nil {
					key = unparen(d)
				}
			}
			if k, ok := key.(*ast.IndexExpr); ok {
				if v, isC := constInt(info, k.Index); isC && v == 0 {
					if r := dd.rootOf(info, k.X, 0); r != nil && (r == strParam || r.Name() == "cmd") {
						good++
					}
				}
			}
			return true
		})
		c.Ob("L2-key", fk, fd, n > 0 && n == good, "the per-letter table is indexed by the first byte of the command name / prefix")
	}
	// L4: ordering agreement between sortCmdList and binarySearch
	sl := c.P.Func("fast.sortCmdList")
	okSort := false
	if sl != nil {
		ast.Inspect(sl.Body, func(n ast.Node) bool {
			if fl, ok := n.(*ast.FuncLit); ok && len(fl.Body.List) == 1 {
				if r, ok := fl.Body.List[0].(*ast.ReturnStmt); ok && len(r.Results) == 1 {
					if b, ok := unparen(r.Results[0]).(*ast.BinaryExpr); ok && b.Op == token.LSS {
						lx, lok := unparen(b.X).(*ast.SelectorExpr)
						rx, rok := unparen(b.Y).(*ast.SelectorExpr)
						if lok && rok && lx.Sel.Name == "Name" && rx.Sel.Name == "Name" {
							li, _ := unparen(lx.X).(*ast.IndexExpr)
							ri, _ := unparen(rx.X).(*ast.IndexExpr)
							if li != nil && ri != nil && len(fl.Type.Params.List) >= 1 {
								var ps []types.Object
								for _, f := range fl.Type.Params.List {
									for _, nm := range f.Names {
										ps = append(ps, info.Defs[nm])
									}
								}
								if len(ps) == 2 && identOf(li.Index) != nil && identOf(ri.Index) != nil && info.Uses[identOf(li.Index)] == ps[0] && info.Uses[identOf(ri.Index)] == ps[1] {
									okSort = true
								}
							}
						}
					}
				}
			}
			return true
		})
	}
	c.Ob("L4-order", "fast.sortCmdList", sl, okSort, "vectors are sorted ascending by Name (less(i,j) = vec[i].Name < vec[j].Name), the order binarySearch assumes")
	bs := c.P.Func("fast.binarySearch")
	okBS := false
	if bs != nil {
		// name < exact => lo = mid+1 ; name > exact => hi = mid-1
		lt, gt := false, false
		ast.Inspect(bs.Body, func(n ast.Node) bool {
			ifs, ok := n.(*ast.IfStmt)
			if !ok {
				return true
			}
			b, ok := unparen(ifs.Cond).(*ast.BinaryExpr)
			if !ok || len(ifs.Body.List) != 1 {
				return true
			}
			as, ok := ifs.Body.List[0].(*ast.AssignStmt)
			if !ok || len(as.Lhs) != 1 || len(as.Rhs) != 1 {
				return true
			}
			rhs, ok := unparen(as.Rhs[0]).(*ast.BinaryExpr)
			if !ok {
				return true
			}
			if b.Op == token.LSS && identOf(as.Lhs[0]) != nil && identOf(as.Lhs[0]).Name == "lo" && rhs.Op == token.ADD {
				lt = true
			}
			if b.Op == token.GTR && identOf(as.Lhs[0]) != nil && identOf(as.Lhs[0]).Name == "hi" && rhs.Op == token.SUB {
				gt = true
			}
			return true
		})
		okBS = lt && gt
	}
	c.Ob("L4-order", "fast.binarySearch", bs, okBS, "binary search moves lo up when name < exact and hi down when name > exact")
	// L5: dispatch of unknown and ambiguous commands
	cmd := c.P.Func("fast.Interp.Cmd")
	if cmd == nil {
		c.Ob("L5-dispatch", "fast.Interp.Cmd", nil, false, "anchor function not found")
		return
	}
	force, ambRet := false, false
	ast.Inspect(cmd.Body, func(n ast.Node) bool {
		ifs, ok := n.(*ast.IfStmt)
		if !ok {
			return true
		}
		b, ok := unparen(ifs.Cond).(*ast.BinaryExpr)
		if !ok || b.Op != token.EQL || objQName(usedObj(info, b.Y)) != "io.EOF" {
			return true
		}
		for _, st := range ifs.Body.List {
			if as, ok := st.(*ast.AssignStmt); ok && as.Tok == token.OR_ASSIGN && len(as.Rhs) == 1 && objQName(usedObj(info, as.Rhs[0])) == "base.CmdOptForceEval" {
				force = true
			}
		}
		if blk, ok := ifs.Else.(*ast.BlockStmt); ok {
			for _, st := range blk.List {
				if r, ok := st.(*ast.ReturnStmt); ok && len(r.Results) == 2 {
					if s, isS := constString(info, r.Results[0]); isS && s == "" {
						ambRet = true
					}
				}
			}
		}
		return true
	})
	c.Ob("L5-dispatch", "fast.Interp.Cmd/unknown", cmd, force, "an unknown ':'-prefixed input (lookup error io.EOF) is evaluated as code: opt |= CmdOptForceEval")
	c.Ob("L5-dispatch", "fast.Interp.Cmd/ambiguous", cmd, ambRet, "an ambiguous command evaluates nothing (returns the empty source)")
}
