package main

import (
	"bytes"
	"fmt"
	"math/rand"
	"os"
	"path/filepath"
	"runtime"
	"runtime/debug"
	"strings"
)

// Mutant is a seeded source edit applied in memory through packages.Config.Overlay.
// /repo is never written. It measures the sensitivity of the rules; it is not part
// of the verdict about /repo, except that a canary which applies but is not
// reported makes the run exit 2 (the checker is broken, nothing it says is believed).
type Mutant struct {
	Name   string
	File   string // relative to the repository root
	Old    string // must occur; Nth selects the occurrence (1-based; 0 = must be unique)
	New    string
	Nth    int
	Canary bool // also run in the quick tier
}

type mutantReport struct {
	Catalogue    int      `json:"catalogue"`
	Applied      int      `json:"applied"`
	Reported     int      `json:"reported"`
	Skipped      int      `json:"skipped"`
	Survivors    []string `json:"survivors"`
	SkippedNames []string `json:"skipped_detail"`
	Detected     []string `json:"detected"`
	CanaryFailed bool     `json:"canary_failed"`
}

func stack() string { return string(debug.Stack()) }

func applyMutant(m Mutant) (string, []byte, error) {
	abs := filepath.Join(repoDir, m.File)
	src, err := os.ReadFile(abs)
	if err != nil {
		return "", nil, err
	}
	n := bytes.Count(src, []byte(m.Old))
	if n == 0 {
		return "", nil, fmt.Errorf("pattern not found")
	}
	if m.Nth == 0 {
		if n != 1 {
			return "", nil, fmt.Errorf("pattern occurs %d times, expected once", n)
		}
		return abs, bytes.Replace(src, []byte(m.Old), []byte(m.New), 1), nil
	}
	if m.Nth > n {
		return "", nil, fmt.Errorf("pattern occurs %d times, wanted occurrence %d", n, m.Nth)
	}
	idx, from := -1, 0
	for i := 0; i < m.Nth; i++ {
		j := bytes.Index(src[from:], []byte(m.Old))
		idx = from + j
		from = idx + len(m.Old)
	}
	out := append([]byte{}, src[:idx]...)
	out = append(out, m.New...)
	out = append(out, src[idx+len(m.Old):]...)
	return abs, out, nil
}

func runMutants(def *PropDef, base *Ctx, tier string, seed int64, findings []Finding, exceptions []Exception) *mutantReport {
	rep := &mutantReport{Catalogue: len(def.Mutants), Survivors: []string{}, SkippedNames: []string{}, Detected: []string{}}
	baseFail := map[string]bool{}
	for _, o := range base.obs {
		if !o.OK {
			baseFail[o.Rule+"\x00"+o.Key] = true
		}
	}
	var sel []Mutant
	for _, m := range def.Mutants {
		if tier == "thorough" || m.Canary {
			sel = append(sel, m)
		}
	}
	if tier == "quick" && len(sel) > 2 {
		// VERIF_SEED only chooses which canaries run in the quick tier
		r := rand.New(rand.NewSource(seed))
		r.Shuffle(len(sel), func(i, j int) { sel[i], sel[j] = sel[j], sel[i] })
		sel = sel[:2]
	}
	for _, m := range sel {
		abs, content, err := applyMutant(m)
		if err != nil {
			rep.Skipped++
			rep.SkippedNames = append(rep.SkippedNames, m.Name+": "+err.Error())
			continue
		}
		prog, err := loadRepo("", "", map[string][]byte{abs: content}, def.Patterns...)
		if err != nil {
			rep.Skipped++
			rep.SkippedNames = append(rep.SkippedNames, m.Name+": mutated tree does not type-check: "+firstLine(err.Error()))
			continue
		}
		c := newCtx(def.ID, tier, seed, prog)
		c.mutating = true
		func() {
			defer func() {
				if r := recover(); r != nil {
					// a panic of the checker on a mutant counts as a report (run would exit 2 on /repo)
					c.obs = append(c.obs, Obligation{Rule: "internal-panic", Key: fmt.Sprint(r), OK: false})
				}
			}()
			for _, r := range def.Rules {
				r(c)
			}
			if tier == "thorough" {
				for _, r := range def.ThoroughRules {
					r(c)
				}
			}
		}()
		res := classify(c, findings, exceptions)
		rep.Applied++
		var newFail []string
		for _, o := range res.violations {
			if !baseFail[o.Rule+"\x00"+o.Key] {
				newFail = append(newFail, o.Rule+" "+o.Key)
			}
		}
		if len(c.fatal) > 0 {
			newFail = append(newFail, "checker-fatal: "+strings.Join(c.fatal, "; "))
		}
		if len(newFail) > 0 {
			rep.Reported++
			d := m.Name + " -> " + newFail[0]
			if len(newFail) > 1 {
				d += fmt.Sprintf(" (+%d more)", len(newFail)-1)
			}
			rep.Detected = append(rep.Detected, d)
		} else {
			rep.Survivors = append(rep.Survivors, m.Name)
			if m.Canary {
				rep.CanaryFailed = true
			}
		}
		prog = nil
		c = nil
		runtime.GC()
	}
	return rep
}
