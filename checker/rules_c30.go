package main

// C30: conversion of standard go/types information into the interpreter's fork.

import (
	"fmt"
	"go/ast"
	"go/token"
	"go/types"
	"sort"
	"strings"
)

// the components that define each kind of type (arguments of its constructor): the converter must read all of them
var typeComponents = map[string][]string{
	"Array":     {"Elem", "Len"},
	"Chan":      {"Dir", "Elem"},
	"Map":       {"Key", "Elem"},
	"Pointer":   {"Elem"},
	"Slice":     {"Elem"},
	"Struct":    {"NumFields", "Field", "Tag"},
	"Signature": {"Recv", "Params", "Results", "Variadic"},
	"Interface": {"NumExplicitMethods", "ExplicitMethod", "NumEmbeddeds", "EmbeddedType"},
	"Named":     {"Obj", "Underlying", "NumMethods"},
	"Basic":     {"Kind"},
}

// kinds of type the converter deliberately does not produce, with the reason
var typeExclusions = map[string]string{
	"Tuple":     "never a value type on its own: converted by mkparams as part of a Signature",
	"TypeParam": "generic declarations are excluded by the property; the arm rejects them",
	"Union":     "only inside constraint interfaces of generic declarations (excluded)",
	"Alias":     "materialised only with gotypesalias=1, which the module's go directive (1.18) leaves disabled",
}

func ruleConverterCoverage(c *Ctx, rule string) {
	pk := c.P.Pkg("go/types")
	if pk == nil {
		c.Ob(rule, "go/types", nil, false, "package not loaded")
		return
	}
	info := pk.TypesInfo
	std := pk.Imports["go/types"]
	if std == nil {
		c.Ob(rule, "std go/types", nil, false, "standard go/types not imported by the converter")
		return
	}
	typeIface, _ := std.Types.Scope().Lookup("Type").Type().Underlying().(*types.Interface)
	objIface, _ := std.Types.Scope().Lookup("Object").Type().Underlying().(*types.Interface)
	var typeImpl, objImpl []string
	for _, name := range std.Types.Scope().Names() {
		tn, ok := std.Types.Scope().Lookup(name).(*types.TypeName)
		if !ok || !tn.Exported() || tn.IsAlias() {
			continue
		}
		if _, isIface := tn.Type().Underlying().(*types.Interface); isIface {
			continue
		}
		if _, isNamed := tn.Type().(*types.Named); !isNamed {
			continue
		}
		if tn.Type().(*types.Named).TypeParams().Len() > 0 {
			continue
		}
		p := types.NewPointer(tn.Type())
		if typeIface != nil && types.Implements(p, typeIface) {
			typeImpl = append(typeImpl, name)
		}
		if objIface != nil && types.Implements(p, objIface) {
			objImpl = append(objImpl, name)
		}
	}
	tf := c.P.Func("go/types.Converter.typ")
	if tf == nil {
		c.Ob(rule, "go/types.Converter.typ", nil, false, "anchor function not found")
		return
	}
	// arms of the type switch: std type name -> clause
	arms := map[string]*ast.CaseClause{}
	ast.Inspect(tf.Body, func(nd ast.Node) bool {
		ts, ok := nd.(*ast.TypeSwitchStmt)
		if !ok {
			return true
		}
		for _, cc := range ts.Body.List {
			cl := cc.(*ast.CaseClause)
			for _, e := range cl.List {
				if pt, ok := info.TypeOf(e).(*types.Pointer); ok {
					if n, ok := pt.Elem().(*types.Named); ok && n.Obj().Pkg() == std.Types {
						arms[n.Obj().Name()] = cl
					}
				}
			}
		}
		return false
	})
	panicsOnly := func(cl *ast.CaseClause) bool {
		if len(cl.Body) == 0 {
			return false
		}
		es, ok := cl.Body[0].(*ast.ExprStmt)
		if !ok {
			return false
		}
		call, ok := es.X.(*ast.CallExpr)
		return ok && identOf(call.Fun) != nil && identOf(call.Fun).Name == "panic"
	}
	if len(typeImpl) < 12 {
		c.Ob(rule, "std go/types/implementers", nil, false, fmt.Sprintf("%d implementers of types.Type found, at least 12 expected", len(typeImpl)))
	}
	// getters called on the switched value inside an arm, following the mk* helper it delegates to (one level)
	gettersOf := func(cl *ast.CaseClause) map[string]bool {
		out := map[string]bool{}
		gobj := info.Implicits[cl]
		collect := func(body ast.Node, obj types.Object) {
			inspectCalls(body, func(call *ast.CallExpr) {
				if s, ok := unparen(call.Fun).(*ast.SelectorExpr); ok && identOf(s.X) != nil && info.Uses[identOf(s.X)] == obj {
					out[s.Sel.Name] = true
				}
			})
		}
		for _, st := range cl.Body {
			collect(st, gobj)
			inspectCalls(st, func(call *ast.CallExpr) {
				fn := calleeOf(info, call)
				if fn == nil || fn.Pkg() != pk.Types || !strings.HasPrefix(fn.Name(), "mk") {
					return
				}
				for i, a := range call.Args {
					if id := identOf(a); id != nil && info.Uses[id] == gobj {
						if hd := c.P.Func("go/types.Converter." + fn.Name()); hd != nil {
							k := 0
							for _, f := range hd.Type.Params.List {
								for _, nm := range f.Names {
									if k == i {
										collect(hd.Body, info.Defs[nm])
									}
									k++
								}
							}
						}
					}
				}
			})
		}
		return out
	}
	for _, name := range typeImpl {
		cl := arms[name]
		if reason, excluded := typeExclusions[name]; excluded {
			okX := cl == nil || panicsOnly(cl)
			c.Ob(rule, "go/types.Converter.typ/"+name, tf, okX, "types."+name+" is not converted ("+reason+"): it has no arm, or an arm that rejects it")
			continue
		}
		if cl == nil || panicsOnly(cl) {
			c.Ob(rule, "go/types.Converter.typ/"+name, tf, false, "types."+name+" implements types.Type but has no converting arm")
			continue
		}
		got := gettersOf(cl)
		var miss []string
		for _, g := range typeComponents[name] {
			if !got[g] {
				miss = append(miss, g)
			}
		}
		c.Ob(rule, "go/types.Converter.typ/"+name, cl, len(typeComponents[name]) > 0 && len(miss) == 0, fmt.Sprintf("the arm reads every defining component of types.%s (%v; missing %v)", name, typeComponents[name], miss))
	}
	// objects: Const, Func, TypeName, Var are converted; the others cannot be exported members of a package scope
	of := c.P.Func("go/types.Converter.object")
	oarms := map[string]bool{}
	if of != nil {
		ast.Inspect(of.Body, func(nd ast.Node) bool {
			if cl, ok := nd.(*ast.CaseClause); ok {
				for _, e := range cl.List {
					if pt, ok := info.TypeOf(e).(*types.Pointer); ok {
						if n, ok := pt.Elem().(*types.Named); ok && n.Obj().Pkg() == std.Types && len(cl.Body) > 0 {
							oarms[n.Obj().Name()] = true
						}
					}
				}
			}
			return true
		})
	}
	for _, name := range objImpl {
		switch name {
		case "Const", "Func", "TypeName", "Var":
			c.Ob(rule, "go/types.Converter.object/"+name, of, oarms[name], "types."+name+" objects of a package scope are converted")
		default:
			c.ObTrivial(rule, "go/types.Converter.object/"+name, of, true, "types."+name+" is never an exported member of a package scope")
		}
	}
	if len(objImpl) < 6 {
		c.Ob(rule, "std go/types/objects", nil, false, "implementers of types.Object not found")
	}
	// each object constructor receives position, package, name and type (and value) read from the same source object
	for _, h := range []struct {
		fn   string
		need []string
	}{
		{"constant", []string{"Pos", "Pkg", "Name", "Type", "Val"}},
		{"function", []string{"Pos", "Pkg", "Name", "Type"}},
		{"variable", []string{"Pos", "Pkg", "Name", "Type"}},
		{"mkfield", []string{"Pos", "Pkg", "Name", "Type", "Anonymous|Embedded"}},
		{"mkparam", []string{"Pos", "Pkg", "Name", "Type"}},
		{"mkfunc", []string{"Pos", "Pkg", "Name", "Type"}},
		{"mktypename", []string{"Pos", "Pkg", "Name"}},
	} {
		fd := c.P.Func("go/types.Converter." + h.fn)
		if fd == nil {
			c.Ob(rule, "go/types.Converter."+h.fn, nil, false, "helper not found")
			continue
		}
		var src types.Object
		for _, f := range fd.Type.Params.List {
			for _, nm := range f.Names {
				if src == nil {
					src = info.Defs[nm]
				}
			}
		}
		got := map[string]bool{}
		inspectCalls(fd.Body, func(call *ast.CallExpr) {
			if s, ok := unparen(call.Fun).(*ast.SelectorExpr); ok && identOf(s.X) != nil && info.Uses[identOf(s.X)] == src {
				got[s.Sel.Name] = true
			}
		})
		var miss []string
		for _, n := range h.need {
			found := false
			for _, alt := range strings.Split(n, "|") {
				if got[alt] {
					found = true
				}
			}
			if !found {
				miss = append(miss, n)
			}
		}
		c.Ob(rule, "go/types.Converter."+h.fn+"/fields", fd, len(miss) == 0, fmt.Sprintf("the converted object takes %v from its source object (missing %v)", h.need, miss))
	}
}

func ruleConverterOrder(c *Ctx, rule string) {
	pk := c.P.Pkg("go/types")
	if pk == nil {
		return
	}
	info := pk.TypesInfo
	// typ: cache consulted first, result cached
	tf := c.P.Func("go/types.Converter.typ")
	if tf != nil {
		atPos, setPos, swPos := token.NoPos, token.NoPos, token.NoPos
		ast.Inspect(tf.Body, func(nd ast.Node) bool {
			switch x := nd.(type) {
			case *ast.CallExpr:
				if s, ok := unparen(x.Fun).(*ast.SelectorExpr); ok {
					if _, isCache := fieldSel(info, s.X, "cache"); isCache {
						if s.Sel.Name == "At" && atPos == token.NoPos {
							atPos = x.Pos()
						}
						if s.Sel.Name == "Set" {
							setPos = x.Pos()
						}
					}
				}
			case *ast.TypeSwitchStmt:
				if swPos == token.NoPos {
					swPos = x.Pos()
				}
			}
			return true
		})
		c.Ob(rule, "go/types.Converter.typ/cache", tf, atPos != token.NoPos && atPos < swPos && swPos < setPos, "a type is looked up in the conversion cache before it is converted and stored there afterwards (one converted type per source type: identity is preserved)")
	}
	// mknamed: cached before its underlying type is converted
	mn := c.P.Func("go/types.Converter.mknamed")
	if mn != nil {
		setPos, undPos := token.NoPos, token.NoPos
		inspectCalls(mn.Body, func(call *ast.CallExpr) {
			if s, ok := unparen(call.Fun).(*ast.SelectorExpr); ok {
				if _, isCache := fieldSel(info, s.X, "cache"); isCache && s.Sel.Name == "Set" {
					setPos = call.Pos()
				}
				if s.Sel.Name == "Underlying" && undPos == token.NoPos {
					undPos = call.Pos()
				}
			}
		})
		c.Ob(rule, "go/types.Converter.mknamed/cycle", mn, setPos != token.NoPos && undPos != token.NoPos && setPos < undPos, "a named type is cached before its underlying type is converted, so recursive types terminate and stay identical")
		// methods are deferred whenever the source has any
		okM := false
		ast.Inspect(mn.Body, func(nd ast.Node) bool {
			if ifs, ok := nd.(*ast.IfStmt); ok {
				if b, ok := unparen(ifs.Cond).(*ast.BinaryExpr); ok && b.Op == token.NEQ && strings.HasSuffix(exprString(b.X), ".NumMethods()") {
					if v, isC := constInt(info, b.Y); isC && v == 0 {
						ast.Inspect(ifs.Body, func(m ast.Node) bool {
							if as, ok := m.(*ast.AssignStmt); ok && len(as.Lhs) == 1 {
								if ix, ok := unparen(as.Lhs[0]).(*ast.IndexExpr); ok {
									if _, isF := fieldSel(info, ix.X, "toaddmethods"); isF {
										okM = true
									}
								}
							}
							return true
						})
					}
				}
			}
			return true
		})
		c.Ob(rule, "go/types.Converter.mknamed/methods", mn, okM, "a named type with methods is queued for method conversion")
	}
	// addmethods converts every method
	am := c.P.Func("go/types.Converter.addmethods")
	if am != nil {
		okA := false
		ast.Inspect(am.Body, func(nd ast.Node) bool {
			f, ok := nd.(*ast.ForStmt)
			if !ok {
				return true
			}
			init, _ := f.Init.(*ast.AssignStmt)
			cond, _ := unparen(f.Cond).(*ast.BinaryExpr)
			if init == nil || cond == nil || cond.Op != token.LSS {
				return true
			}
			if v, isC := constInt(info, init.Rhs[0]); !isC || v != 0 {
				return true
			}
			adds := false
			inspectCalls(f.Body, func(call *ast.CallExpr) {
				if s, ok := unparen(call.Fun).(*ast.SelectorExpr); ok && s.Sel.Name == "AddMethod" {
					adds = true
				}
			})
			bound := false
			if id := identOf(cond.Y); id != nil {
				if d := buildDefIndex(info, am).single(info.Uses[id]); d != nil && strings.HasSuffix(exprString(d), ".NumMethods()") {
					bound = true
				}
			}
			okA = adds && bound
			return true
		})
		c.Ob(rule, "go/types.Converter.addmethods", am, okA, "every method 0..NumMethods()-1 of the source type is added to the converted type")
	}
	// Package: every name of the scope, then interfaces completed, then methods added
	pf := c.P.Func("go/types.Converter.Package")
	if pf != nil {
		namesLoop, completePos, addPos := token.NoPos, token.NoPos, token.NoPos
		inserts := false
		ast.Inspect(pf.Body, func(nd ast.Node) bool {
			switch x := nd.(type) {
			case *ast.RangeStmt:
				if strings.HasSuffix(exprString(x.X), ".Names()") {
					namesLoop = x.Pos()
					inspectCalls(x.Body, func(call *ast.CallExpr) {
						if s, ok := unparen(call.Fun).(*ast.SelectorExpr); ok && s.Sel.Name == "Insert" {
							inserts = true
						}
					})
				}
			case *ast.CallExpr:
				if s, ok := unparen(x.Fun).(*ast.SelectorExpr); ok {
					if s.Sel.Name == "Complete" {
						completePos = x.Pos()
					}
					if s.Sel.Name == "addmethods" {
						addPos = x.Pos()
					}
				}
			}
			return true
		})
		c.Ob(rule, "go/types.Converter.Package/order", pf, namesLoop != token.NoPos && inserts && namesLoop < completePos && completePos < addPos, "every name of the source scope is converted and inserted; then the interfaces are completed; then the methods are added")
	}
}

// ruleConverterIndexAlignment: component i of a converted type comes from component i of the source: inside every counting
// loop of the converter each indexed getter of the source, g.M(i), flows into a store at the same index, X[i] = ...
func ruleConverterIndexAlignment(c *Ctx, rule string) {
	pk := c.P.Pkg("go/types")
	info := pk.TypesInfo
	n := 0
	for _, fd := range c.P.FuncsOf("go/types") {
		if fd.Body == nil || baseName(c.P.Fset, fd) != "converter.go" {
			continue
		}
		fd := fd
		ast.Inspect(fd.Body, func(nd ast.Node) bool {
			f, ok := nd.(*ast.ForStmt)
			if !ok || f.Init == nil {
				return true
			}
			init, _ := f.Init.(*ast.AssignStmt)
			if init == nil || len(init.Lhs) != 1 {
				return true
			}
			i := exprString(init.Lhs[0])
			// getters of the source with index i
			ast.Inspect(f.Body, func(m ast.Node) bool {
				call, ok := m.(*ast.CallExpr)
				if !ok || len(call.Args) != 1 || exprString(call.Args[0]) != i {
					return true
				}
				s, ok := unparen(call.Fun).(*ast.SelectorExpr)
				if !ok || identOf(s.X) == nil {
					return true
				}
				recv := info.TypeOf(s.X)
				if recv == nil || !strings.Contains(types.TypeString(recv, nil), "go/types.") || strings.Contains(types.TypeString(recv, nil), "gomacro") {
					return true
				}
				n++
				// the enclosing statement is X[i] = ... (possibly through a conversion helper) or v := c.mk(g.M(i)) followed by t.Add(v)
				aligned := false
				for _, anc := range enclosingStack(f.Body, call) {
					if as, ok := anc.(*ast.AssignStmt); ok && len(as.Lhs) == 1 {
						if ix, ok := unparen(as.Lhs[0]).(*ast.IndexExpr); ok && exprString(ix.Index) == i {
							aligned = true
						}
						if as.Tok == token.DEFINE && identOf(as.Lhs[0]) != nil {
							// m := c.mkfunc(g.Method(i), ...); t.AddMethod(m): order-preserving add
							name := identOf(as.Lhs[0]).Name
							inspectCalls(f.Body, func(c2 *ast.CallExpr) {
								if s2, ok := unparen(c2.Fun).(*ast.SelectorExpr); ok && strings.HasPrefix(s2.Sel.Name, "Add") && len(c2.Args) == 1 && exprString(c2.Args[0]) == name {
									aligned = true
								}
							})
						}
					}
				}
				c.Ob(rule, funcKey(pk, fd)+"/"+s.Sel.Name+"("+i+")", call, aligned, "component "+i+" of the source is stored as component "+i+" of the result (X["+i+"] = ...), not appended or filtered")
				return true
			})
			return false
		})
	}
	if n < 5 {
		c.Ob(rule, "go/types.Converter/indexed-getters", nil, false, fmt.Sprintf("%d indexed getters found, at least 5 expected", n))
	}
	// Converter.Package: the only return before the scope is converted is the nil guard
	pf := c.P.Func("go/types.Converter.Package")
	if pf != nil {
		loopPos := token.NoPos
		ast.Inspect(pf.Body, func(nd ast.Node) bool {
			if rs, ok := nd.(*ast.RangeStmt); ok && strings.HasSuffix(exprString(rs.X), ".Names()") && loopPos == token.NoPos {
				loopPos = rs.Pos()
			}
			return true
		})
		early := 0
		ast.Inspect(pf.Body, func(nd ast.Node) bool {
			r, ok := nd.(*ast.ReturnStmt)
			if !ok || r.Pos() > loopPos {
				return true
			}
			// allowed: inside `if g == nil`
			allowed := false
			for _, anc := range enclosingStack(pf.Body, r) {
				if ifs, ok := anc.(*ast.IfStmt); ok {
					if b, ok := unparen(ifs.Cond).(*ast.BinaryExpr); ok && b.Op == token.EQL && exprString(b.Y) == "nil" && identOf(b.X) != nil && paramIdxOf(info, pf, info.Uses[identOf(b.X)]) == 0 {
						allowed = true
					}
				}
			}
			if !allowed {
				early++
			}
			return true
		})
		c.Ob(rule, "go/types.Converter.Package/no-early-return", pf, loopPos != token.NoPos && early == 0, "every non-nil package has its whole scope converted: no return precedes the loop over the scope's names except the nil guard")
	}
}

func init() {
	var impl []string
	for k := range typeComponents {
		impl = append(impl, k)
	}
	sort.Strings(impl)
	register(&PropDef{
		ID:    "C30",
		Title: "Converting standard-library type information preserves every exported object",
		Explanation: "Decided (exhaustiveness and coverage of the recursive conversion): V1 every implementer of the standard types.Type (enumerated from go/types' own type information) has a converting arm in Converter.typ or is one of four excluded kinds with a stated reason (Tuple, TypeParam, Union, Alias), and each arm, followed into its mk* helper, reads every defining component of its kind (" + strings.Join(impl, ", ") + ": element, key, length, direction, fields and tags, receiver/params/results/variadic, explicit methods and embedded types, object/underlying/methods); " +
			"the object switch converts Const, Func, TypeName and Var (the other implementers of types.Object cannot be exported package members) and each object helper takes position, package, name, type (and constant value / embedded flag) from its source object; " +
			"V2 order: the conversion cache is consulted before converting and filled afterwards; a named type is cached before its underlying type is converted (recursive types) and queued for method conversion when it has methods; every method is added; Package converts every name of the scope, then completes interfaces, then adds methods; V3 inside every counting loop of the converter, component i of the source (g.Field(i), g.Tag(i), g.At(i), g.ExplicitMethod(i), g.EmbeddedType(i), g.Method(i)) is stored as component i of the result, and no return precedes the conversion of a non-nil package's scope. " +
			"E4m a map literal keyed by a small enumeration has an entry for every constant of the key type; V4k the cache of converted packages is indexed by import path. " +
			"Not decided: equality of the converted package with the original (printed forms, method sets).",
		Assumptions: []string{"go/types of the installed toolchain: set of implementers of types.Type and types.Object", "table of defining components per kind of type (in the checker source)"},
		Rules: []func(*Ctx){func(c *Ctx) {
			ruleConverterCoverage(c, "V1-converter-coverage")
			ruleEnumKeyedMapsTotal(c, "E4m-enum-keyed-maps-total", "go/types", "xreflect")
			rulePackageCacheKey(c, "V4k-package-cache-key")
			ruleConverterOrder(c, "V2-converter-order")
			ruleConverterIndexAlignment(c, "V3-index-alignment")
			c.Floor("V1-converter-coverage", 25)
		}},
		Technique: "AST/type-resolved custom analysis: exhaustiveness of a type switch over the implementers of an interface (from go/types), getter coverage per arm, call-order checks",
		Mutants: []Mutant{
			{Name: "package-cache-keyed-by-name", File: "go/types/converter.go", Old: "\tpath := g.Path()\n\tif p := c.pkg[path]; p != nil {", New: "\tpath := g.Name()\n\tif p := c.pkg[path]; p != nil {"},
			{Name: "struct-tags-dropped", File: "go/types/converter.go", Old: "\t\ttags[i] = g.Tag(i)\n", New: "", Canary: true},
			{Name: "tags-appended-only-when-present", File: "go/types/converter.go", Old: "\t\ttags[i] = g.Tag(i)\n", New: "\t\tif tag := g.Tag(i); tag != \"\" {\n\t\t\ttags = append(tags[:0:0], append(tags, tag)...)\n\t\t}\n"},
			{Name: "package-returned-from-stub", File: "go/types/converter.go", Old: "\tc.cache = typeutil.Map{}\n\tp := c.mkpackage(g)\n", New: "\tif p := c.pkg[g.Path()]; p != nil {\n\t\treturn p\n\t}\n\tc.cache = typeutil.Map{}\n\tp := c.mkpackage(g)\n"},
			{Name: "channel-direction-lost", File: "go/types/converter.go", Old: "t = NewChan(ChanDir(g.Dir()), elem)", New: "t = NewChan(SendRecv, elem)"},
			{Name: "variadic-flag-lost", File: "go/types/converter.go", Old: "\t\tg.Variadic(),\n", New: "\t\tfalse,\n"},
			{Name: "embedded-interfaces-dropped", File: "go/types/converter.go", Old: "\tn = g.NumEmbeddeds()\n", New: "\tn = 0\n"},
			{Name: "named-cached-after-underlying", File: "go/types/converter.go", Old: "\tc.cache.Set(g, t)\n\tif debugConverter {\n\t\tfmt.Println(\"scanning underlying type of\", typename.Name())\n\t}\n\tu := c.typ(g.Underlying())\n", New: "\tu := c.typ(g.Underlying())\n\tc.cache.Set(g, t)\n", Canary: true},
			{Name: "variables-not-converted", File: "go/types/converter.go", Old: "\tcase *types.Var:\n\t\tret = c.variable(g)\n", New: ""},
			{Name: "constant-value-from-zero", File: "go/types/converter.go", Old: "c.typ(g.Type()), g.Val())", New: "c.typ(g.Type()), nil)"},
			{Name: "embedded-flag-lost", File: "go/types/converter.go", Old: "c.typ(g.Type()), g.Anonymous())", New: "c.typ(g.Type()), false)"},
		},
	})
}
