package main

// C15 — E9 transactional mutation of compile-time state.

import (
	"fmt"
	"go/ast"
	"go/token"
	"go/types"
	"sort"
	"strings"
)

// mayErrorSet computes, over all loaded repository packages, the functions that can reach
// a panic (output.Errorf and friends end in panic) through statically resolved calls.
func mayErrorSet(c *Ctx) map[*types.Func]bool {
	type fnInfo struct {
		callees []*types.Func
		direct  bool
	}
	infos := map[*types.Func]*fnInfo{}
	for _, pk := range c.P.All {
		if !strings.HasPrefix(pk.PkgPath, modPath) {
			continue
		}
		info := pk.TypesInfo
		for _, f := range pk.Syntax {
			for _, d := range f.Decls {
				fd, ok := d.(*ast.FuncDecl)
				if !ok || fd.Body == nil {
					continue
				}
				fn, _ := info.Defs[fd.Name].(*types.Func)
				if fn == nil {
					continue
				}
				fi := &fnInfo{}
				ast.Inspect(fd.Body, func(n ast.Node) bool {
					if _, isLit := n.(*ast.FuncLit); isLit {
						return false // run-time closures do not run during compilation
					}
					call, ok := n.(*ast.CallExpr)
					if !ok {
						return true
					}
					if id := identOf(call.Fun); id != nil {
						if _, isB := info.Uses[id].(*types.Builtin); isB && id.Name == "panic" {
							fi.direct = true
						}
					}
					if cal := calleeOf(info, call); cal != nil {
						fi.callees = append(fi.callees, cal)
					}
					return true
				})
				infos[fn] = fi
			}
		}
	}
	may := map[*types.Func]bool{}
	for fn, fi := range infos {
		if fi.direct {
			may[fn] = true
		}
	}
	changed := true
	for changed {
		changed = false
		for fn, fi := range infos {
			if may[fn] {
				continue
			}
			for _, cal := range fi.callees {
				if may[cal] {
					may[fn] = true
					changed = true
					break
				}
			}
		}
	}
	return may
}

func ruleTransactionalDecls(c *Ctx, rule string) {
	pk := c.P.Pkg("fast")
	info := pk.TypesInfo
	may := mayErrorSet(c)
	mutatorCalls := map[string]bool{"fast.Comp.NewBind": true, "fast.CompBinds.NewBind": true, "fast.Comp.NewFuncBind": true, "fast.Comp.methodAdd": true,
		"xreflect.Type.AddMethod": true, "xreflect.Type.SetUnderlying": true, "fast.Comp.DeclVar0": false}
	n := 0
	var keys []string
	byKey := map[string]*ast.FuncDecl{}
	for _, fd := range c.P.FuncsOf("fast") {
		if fd.Body == nil || recvTypeName(fd) != "Comp" {
			continue
		}
		nm := fd.Name.Name
		if !(strings.HasPrefix(nm, "Decl") || nm == "methodDecl" || nm == "Import") {
			continue
		}
		keys = append(keys, funcKey(pk, fd))
		byKey[funcKey(pk, fd)] = fd
	}
	sort.Strings(keys)
	for _, fkey := range keys {
		fd := byKey[fkey]
		var recv types.Object
		if len(fd.Recv.List) == 1 && len(fd.Recv.List[0].Names) == 1 {
			recv = info.Defs[fd.Recv.List[0].Names[0]]
		}
		onRecv := func(e ast.Expr) bool {
			for {
				switch x := unparen(e).(type) {
				case *ast.Ident:
					return info.Uses[x] == recv
				case *ast.SelectorExpr:
					e = x.X
				default:
					return false
				}
			}
		}
		// first mutation of the receiver's persistent state
		var mpos token.Pos
		what := ""
		ast.Inspect(fd.Body, func(nd ast.Node) bool {
			if _, isLit := nd.(*ast.FuncLit); isLit {
				return false
			}
			switch x := nd.(type) {
			case *ast.CallExpr:
				if cal := calleeOf(info, x); cal != nil && mutatorCalls[funcFullName(cal)] {
					if sel, ok := unparen(x.Fun).(*ast.SelectorExpr); ok && onRecv(sel.X) {
						// an unnamed bind ("" literal) is a temporary, not a definition
						if len(x.Args) > 0 {
							if s, isS := constString(info, x.Args[0]); isS && s == "" {
								return true
							}
						}
						if mpos == 0 || x.Pos() < mpos {
							mpos, what = x.Pos(), funcFullName(cal)
						}
					}
				}
			case *ast.AssignStmt:
				for _, l := range x.Lhs {
					if ix, ok := unparen(l).(*ast.IndexExpr); ok {
						if base, isF := fieldSel(info, ix.X, "Binds"); isF && onRecv(base) {
							if mpos == 0 || x.Pos() < mpos {
								mpos, what = x.Pos(), "store into Binds"
							}
						}
						if base, isF := fieldSel(info, ix.X, "Types"); isF && onRecv(base) {
							if mpos == 0 || x.Pos() < mpos {
								mpos, what = x.Pos(), "store into Types"
							}
						}
					}
				}
			}
			return true
		})
		if mpos == 0 {
			continue
		}
		n++
		// fallible calls that can execute after the mutation: the rest of the mutating statement, then the
		// statements that follow it in its block and, when a block falls through, in the enclosing blocks
		var after []ast.Node
		var chain []ast.Node
		ast.Inspect(fd.Body, func(nd ast.Node) bool {
			if nd == nil {
				chain = chain[:len(chain)-1]
				return true
			}
			chain = append(chain, nd)
			if nd.Pos() == mpos {
				if _, isCall := nd.(*ast.CallExpr); isCall || isAssign(nd) {
					// walk up: for every enclosing block, the statements after the one containing the mutation
					child := ast.Node(nd)
					stop := false
					for i := len(chain) - 2; i >= 0 && !stop; i-- {
						switch b := chain[i].(type) {
						case *ast.BlockStmt:
							seen := false
							for _, st := range b.List {
								if seen {
									after = append(after, st)
									if _, isRet := st.(*ast.ReturnStmt); isRet {
										stop = true
										break
									}
								}
								if containsNode(st, child) {
									seen = true
									after = append(after, st) // the rest of the statement itself (position filter below)
								}
							}
						case *ast.CaseClause:
							seen := false
							for _, st := range b.Body {
								if seen {
									after = append(after, st)
									if _, isRet := st.(*ast.ReturnStmt); isRet {
										stop = true
										break
									}
								}
								if containsNode(st, child) {
									seen = true
									after = append(after, st)
								}
							}
						case *ast.ForStmt, *ast.RangeStmt:
							// the loop body runs again: everything in the loop may follow the mutation
							after = append(after, b)
						case *ast.FuncLit:
							stop = true
						}
						child = chain[i]
					}
				}
			}
			return true
		})
		var fallible []string
		seenCall := map[*ast.CallExpr]bool{}
		for _, region := range after {
			ast.Inspect(region, func(nd ast.Node) bool {
				if _, isLit := nd.(*ast.FuncLit); isLit {
					return false
				}
				if _, isDefer := nd.(*ast.DeferStmt); isDefer {
					return false
				}
				call, ok := nd.(*ast.CallExpr)
				if !ok || seenCall[call] {
					return true
				}
				_, inLoop := region.(*ast.ForStmt)
				_, inRange := region.(*ast.RangeStmt)
				if call.Pos() <= mpos && !inLoop && !inRange {
					return true
				}
				if call.Pos() == mpos {
					return true
				}
				seenCall[call] = true
				cal := calleeOf(info, call)
				if cal == nil || !may[cal] {
					return true
				}
				// an error report followed by return is a fallible point too (it panics)
				fallible = append(fallible, cal.Name())
				return true
			})
		}
		if len(fallible) == 0 {
			c.Ob(rule, fkey, fd, true, fmt.Sprintf("the definition is published (%s) after every step that can fail", what))
			continue
		}
		// a deferred rollback armed before the mutation
		rollback := false
		flagCleared := false
		for _, st := range fd.Body.List {
			ds, ok := st.(*ast.DeferStmt)
			if !ok || ds.Pos() > mpos {
				continue
			}
			fl, ok := ds.Call.Fun.(*ast.FuncLit)
			if !ok {
				continue
			}
			restores := false
			var flag types.Object
			ast.Inspect(fl.Body, func(m ast.Node) bool {
				switch x := m.(type) {
				case *ast.AssignStmt:
					for _, l := range x.Lhs {
						if ix, ok := unparen(l).(*ast.IndexExpr); ok {
							if _, isF := fieldSel(info, ix.X, "Binds"); isF {
								restores = true
							}
							if _, isF := fieldSel(info, ix.X, "Types"); isF {
								restores = true
							}
						}
					}
				case *ast.CallExpr:
					if id := identOf(x.Fun); id != nil && id.Name == "delete" {
						restores = true
					}
					if cal := calleeOf(info, x); cal != nil && (strings.Contains(cal.Name(), "RemoveMethod") || strings.Contains(cal.Name(), "restore") || strings.Contains(cal.Name(), "Rollback")) {
						restores = true
					}
					// re-publishing a definition saved before the mutation through the same registry call (methods:
					// AddMethod(name, oldtype) replaces the method being redefined by its previous type)
					if cal := calleeOf(info, x); cal != nil && mutatorCalls[funcFullName(cal)] {
						for _, a := range x.Args {
							if id := identOf(a); id != nil {
								if o := info.Uses[id]; o != nil && o.Pos() < mpos && o.Pos() > fd.Body.Pos() {
									// the registry call re-creates the slot only: the saved value must be stored back as well
									ast.Inspect(fl.Body, func(k ast.Node) bool {
										if as, ok := k.(*ast.AssignStmt); ok && len(as.Lhs) == 1 && len(as.Rhs) == 1 {
											if _, ok := unparen(as.Lhs[0]).(*ast.IndexExpr); ok {
												if rid := identOf(as.Rhs[0]); rid != nil {
													if ro := info.Uses[rid]; ro != nil && ro.Pos() < mpos && ro.Pos() > fd.Body.Pos() {
														restores = true
													}
												}
											}
										}
										return true
									})
								}
							}
						}
					}
				case *ast.IfStmt:
					// a branch under a constant-false conjunct restores nothing
					for _, a := range andAtoms(x.Cond) {
						if tv, ok := info.Types[a]; ok && tv.Value != nil && tv.Value.String() == "false" {
							return false
						}
					}
					ast.Inspect(x.Cond, func(k ast.Node) bool {
						if id, ok := k.(*ast.Ident); ok {
							if v, ok := info.Uses[id].(*types.Var); ok {
								if b, ok := v.Type().(*types.Basic); ok && b.Kind() == types.Bool && flag == nil {
									flag = v
								}
							}
						}
						return true
					})
				}
				return true
			})
			// the branch that restores the saved definition is taken whenever one was saved: its guard is
			// exactly `old != nil` (an extra conjunct would delete a definition that should be restored)
			ast.Inspect(fl.Body, func(m ast.Node) bool {
				ifs, ok := m.(*ast.IfStmt)
				if !ok {
					return true
				}
				restoresOld := false
				var oldObj types.Object
				for _, st := range ifs.Body.List {
					if as, ok := st.(*ast.AssignStmt); ok && len(as.Lhs) == 1 && len(as.Rhs) == 1 {
						if ix, ok := unparen(as.Lhs[0]).(*ast.IndexExpr); ok {
							if _, isF := fieldSel(info, ix.X, "Binds"); isF && identOf(as.Rhs[0]) != nil {
								restoresOld = true
								oldObj = info.Uses[identOf(as.Rhs[0])]
							}
						}
					}
				}
				if !restoresOld {
					return true
				}
				atoms := andAtoms(ifs.Cond)
				exact := len(atoms) == 1
				if exact {
					b, ok := atoms[0].(*ast.BinaryExpr)
					exact = ok && b.Op == token.NEQ && identOf(b.X) != nil && info.Uses[identOf(b.X)] == oldObj && identOf(b.Y) != nil && identOf(b.Y).Name == "nil"
				}
				c.Ob(rule+"-restore-guard", fkey, ifs, exact, "the rollback restores the saved definition whenever there was one (guard exactly `old != nil`), and deletes the name only when there was none")
				return true
			})
			if restores && flag != nil {
				rollback = true
				// the flag is disarmed before every normal exit that follows the mutation
				isClear := func(st ast.Stmt) bool {
					as, ok := st.(*ast.AssignStmt)
					if !ok || len(as.Lhs) != 1 || identOf(as.Lhs[0]) == nil || info.Uses[identOf(as.Lhs[0])] != flag {
						return false
					}
					id := identOf(as.Rhs[0])
					return id != nil && id.Name == "false"
				}
				flagCleared = true
				exits := 0
				var walk func(list []ast.Stmt, cleared bool)
				walk = func(list []ast.Stmt, cleared bool) {
					for si, st := range list {
						if isClear(st) {
							cleared = true
						}
						switch x := st.(type) {
						case *ast.ReturnStmt:
							// `c.Errorf(...); return x`: the error helper panics, the return is never reached
							if si > 0 {
								if es, ok := list[si-1].(*ast.ExprStmt); ok {
									if call, ok := es.X.(*ast.CallExpr); ok {
										if fn := calleeOf(info, call); fn != nil && isErrorHelper(fn) {
											continue
										}
									}
								}
							}
							if x.Pos() > mpos {
								exits++
								if !cleared {
									flagCleared = false
								}
							}
						case *ast.IfStmt:
							walk(x.Body.List, cleared)
							if blk, ok := x.Else.(*ast.BlockStmt); ok {
								walk(blk.List, cleared)
							} else if ei, ok := x.Else.(*ast.IfStmt); ok {
								walk([]ast.Stmt{ei}, cleared)
							}
						case *ast.BlockStmt:
							walk(x.List, cleared)
						case *ast.SwitchStmt:
							for _, cc := range x.Body.List {
								walk(cc.(*ast.CaseClause).Body, cleared)
							}
						case *ast.ForStmt:
							walk(x.Body.List, cleared)
						case *ast.RangeStmt:
							walk(x.Body.List, cleared)
						}
					}
				}
				walk(fd.Body.List, false)
				// falling off the end of the function
				endCleared := false
				for _, st := range fd.Body.List {
					if isClear(st) {
						endCleared = true
					}
				}
				if last := fd.Body.List[len(fd.Body.List)-1]; !terminates(&ast.BlockStmt{List: []ast.Stmt{last}}) && !endCleared {
					flagCleared = false
				}
			}
		}
		sort.Strings(fallible)
		fallible = uniqStrings(fallible)
		if len(fallible) > 6 {
			fallible = append(fallible[:6], "...")
		}
		c.Ob(rule, fkey, fd, rollback && flagCleared, fmt.Sprintf("the definition is published (%s) before steps that can fail (%s): a deferred rollback armed by a flag must restore the previous definition on failure", what, strings.Join(fallible, ", ")))
	}
	if n < 4 {
		c.Ob(rule, "fast/declaration-compilers", nil, false, "fewer than 4 declaration compilers that publish definitions found: anchor missing")
	}
}

// ruleCompileBeforeRun: in ParseEvalPrint / Eval the whole input is compiled before anything runs.
func ruleCompileBeforeRun(c *Ctx, rule string) {
	pk := c.P.Pkg("fast")
	info := pk.TypesInfo
	for _, fk := range []string{"fast.Interp.ParseEvalPrint", "fast.Interp.Eval", "fast.Interp.EvalAst"} {
		fd := c.P.Func(fk)
		if fd == nil {
			continue
		}
		var compPos, runPos token.Pos
		inspectCalls(fd.Body, func(call *ast.CallExpr) {
			switch funcFullName(calleeOf(info, call)) {
			case "fast.Interp.CompileAst", "fast.Interp.Compile", "fast.Interp.CompileNode":
				if compPos == 0 {
					compPos = call.Pos()
				}
			case "fast.Interp.RunExpr", "fast.Interp.RunExpr1", "fast.Interp.DebugExpr":
				if runPos == 0 {
					runPos = call.Pos()
				}
			}
		})
		if compPos == 0 && runPos == 0 {
			continue
		}
		nested := false
		inspectCalls(fd.Body, func(call *ast.CallExpr) {
			switch funcFullName(calleeOf(info, call)) {
			case "fast.Interp.RunExpr", "fast.Interp.RunExpr1", "fast.Interp.DebugExpr":
				for _, a := range call.Args {
					if inner, ok := unparen(a).(*ast.CallExpr); ok && strings.HasPrefix(funcFullName(calleeOf(info, inner)), "fast.Interp.Compile") {
						nested = true
					}
				}
			}
		})
		c.Ob(rule, fk, fd, compPos != 0 && (runPos > compPos || nested), "the input is compiled as a whole (Compile / CompileAst) before RunExpr executes any of it")
	}
}

func isAssign(n ast.Node) bool { _, ok := n.(*ast.AssignStmt); return ok }

// ruleImportAllOrNothing (T4): a grouped import either binds every package it names or none. MultiImport validates
// every spec first (unquoting and sanitising the path can fail) and only then hands the whole set to the importer.
// Decided: inside the loops of MultiImport no function is called that can reach a publication into the compiler's
// registry (NewBind / NewFuncBind or a store into Binds or Types, over statically resolved calls), and at least one
// such call follows the loops.
func ruleImportAllOrNothing(c *Ctx, rule string) {
	pk := c.P.Pkg("fast")
	info := pk.TypesInfo
	fd := c.P.Func("fast.Comp.MultiImport")
	if fd == nil || fd.Body == nil {
		c.Ob(rule, "fast.Comp.MultiImport", nil, false, "anchor function not found")
		return
	}
	memo := map[*types.Func]int{}
	var publishes func(fn *types.Func, depth int) bool
	publishes = func(fn *types.Func, depth int) bool {
		if fn == nil || fn.Pkg() != pk.Types {
			return false
		}
		if v, ok := memo[fn]; ok {
			return v == 1
		}
		memo[fn] = 0
		switch funcFullName(fn) {
		case "fast.Comp.NewBind", "fast.CompBinds.NewBind", "fast.Comp.NewFuncBind":
			memo[fn] = 1
			return true
		}
		if depth > 5 {
			return false
		}
		d := c.P.Func(funcFullName(fn))
		if d == nil || d.Body == nil {
			return false
		}
		found := false
		ast.Inspect(d.Body, func(n ast.Node) bool {
			if found {
				return false
			}
			switch x := n.(type) {
			case *ast.FuncLit:
				return false
			case *ast.AssignStmt:
				for _, l := range x.Lhs {
					if ix, ok := unparen(l).(*ast.IndexExpr); ok {
						if _, isB := fieldSel(info, ix.X, "Binds"); isB {
							found = true
						}
						if _, isT := fieldSel(info, ix.X, "Types"); isT {
							found = true
						}
					}
				}
			case *ast.CallExpr:
				if publishes(calleeOf(info, x), depth+1) {
					found = true
				}
			}
			return true
		})
		if found {
			memo[fn] = 1
		}
		return found
	}
	var inLoop, after []string
	var loopEnd token.Pos
	var stack []ast.Node
	ast.Inspect(fd.Body, func(n ast.Node) bool {
		if n == nil {
			stack = stack[:len(stack)-1]
			return true
		}
		stack = append(stack, n)
		switch x := n.(type) {
		case *ast.RangeStmt:
			if x.End() > loopEnd {
				loopEnd = x.End()
			}
		case *ast.ForStmt:
			if x.End() > loopEnd {
				loopEnd = x.End()
			}
		case *ast.CallExpr:
			fn := calleeOf(info, x)
			if !publishes(fn, 0) {
				return true
			}
			loop := false
			for _, a := range stack {
				switch a.(type) {
				case *ast.RangeStmt, *ast.ForStmt:
					loop = true
				}
			}
			if loop {
				inLoop = append(inLoop, fn.Name())
			} else {
				after = append(after, fn.Name())
			}
		}
		return true
	})
	c.Ob(rule, "fast.Comp.MultiImport", fd, len(inLoop) == 0 && len(after) >= 1, fmt.Sprintf("every import spec is validated before any package is bound: no publishing call inside the loop over the specs (found %v), the set is imported by one call after it (found %v)", inLoop, after))
}

// ruleReceiverNormalisation (T3): the functions that resolve the receiver type of a method declaration (to register
// the method, to find the method being redefined for the rollback) must agree on how `*T` is reduced to `T`: each has
// the statement `if trecv.Kind() == Ptr && !trecv.Named() { trecv = trecv.Elem() }` on the variable bound to t.In(0),
// with the same condition.
func ruleReceiverNormalisation(c *Ctx, rule string) {
	pk := c.P.Pkg("fast")
	info := pk.TypesInfo
	conds := map[string]string{}
	var at ast.Node
	for _, fk := range []string{"fast.Comp.methodAdd", "fast.Comp.methodFind"} {
		fd := c.P.Func(fk)
		if fd == nil || fd.Body == nil {
			c.Ob(rule, fk, nil, false, "anchor function not found")
			return
		}
		var recv types.Object
		ast.Inspect(fd.Body, func(n ast.Node) bool {
			as, ok := n.(*ast.AssignStmt)
			if !ok || len(as.Lhs) != 1 || len(as.Rhs) != 1 || recv != nil {
				return true
			}
			if call, ok := unparen(as.Rhs[0]).(*ast.CallExpr); ok {
				if s, ok := unparen(call.Fun).(*ast.SelectorExpr); ok && s.Sel.Name == "In" && len(call.Args) == 1 {
					if id := identOf(as.Lhs[0]); id != nil {
						recv = info.Defs[id]
						if recv == nil {
							recv = info.Uses[id]
						}
					}
				}
			}
			return true
		})
		ast.Inspect(fd.Body, func(n ast.Node) bool {
			ifs, ok := n.(*ast.IfStmt)
			if !ok || len(ifs.Body.List) != 1 {
				return true
			}
			as, ok := ifs.Body.List[0].(*ast.AssignStmt)
			if !ok || len(as.Lhs) != 1 || usedObj(info, as.Lhs[0]) != recv || recv == nil {
				return true
			}
			if call, ok := unparen(as.Rhs[0]).(*ast.CallExpr); ok {
				if s, ok := unparen(call.Fun).(*ast.SelectorExpr); ok && s.Sel.Name == "Elem" && usedObj(info, s.X) == recv {
					if _, seen := conds[fk]; !seen {
						// the condition with the receiver variable renamed
						conds[fk] = strings.ReplaceAll(exprString(ifs.Cond), recv.Name(), "$recv")
						at = ifs
					}
				}
			}
			return true
		})
	}
	a, b := conds["fast.Comp.methodAdd"], conds["fast.Comp.methodFind"]
	c.Ob(rule, "fast.Comp.methodFind/receiver", at, a != "" && a == b, fmt.Sprintf("methodAdd reduces the receiver under `%s`, methodFind under `%s`: the rollback must look for the method where it is registered", a, b))
}
