package main

// C26: multiline reader (E2 exit condition, E4 mode coverage, transition table agreement).

import (
	"fmt"
	"go/ast"
	"go/constant"
	"go/token"
	"go/types"
	"sort"
	"strings"
)

func ruleMultilineReader(c *Ctx) {
	pk := c.P.Pkg("base")
	if pk == nil {
		c.Fatal("package base not loaded")
		return
	}
	info := pk.TypesInfo
	fd := c.P.Func("base.ReadMultiline")
	if fd == nil {
		c.Ob("R0-anchor", "base.ReadMultiline", nil, false, "anchor function not found")
		return
	}
	// locals by name (resolved objects)
	obj := func(name string) types.Object {
		var o types.Object
		ast.Inspect(fd.Body, func(n ast.Node) bool {
			if id, ok := n.(*ast.Ident); ok && id.Name == name && o == nil {
				if d := info.Defs[id]; d != nil {
					o = d
				}
			}
			return true
		})
		return o
	}
	// the outer loop: the `for { ... }` without condition directly in the function body
	var outer *ast.ForStmt
	for _, st := range fd.Body.List {
		if f, ok := st.(*ast.ForStmt); ok && f.Cond == nil {
			outer = f
		}
	}
	if outer == nil {
		c.Ob("R0-anchor", "base.ReadMultiline/loop", fd, false, "read loop not found")
		return
	}
	var inner *ast.RangeStmt
	var readStmt *ast.AssignStmt
	for _, st := range outer.Body.List {
		if r, ok := st.(*ast.RangeStmt); ok && inner == nil {
			inner = r
		}
		if as, ok := st.(*ast.AssignStmt); ok && readStmt == nil && len(as.Rhs) == 1 {
			if call, ok := as.Rhs[0].(*ast.CallExpr); ok {
				if sel, ok := call.Fun.(*ast.SelectorExpr); ok && sel.Sel.Name == "Read" {
					readStmt = as
				}
			}
		}
	}
	if inner == nil || readStmt == nil {
		c.Ob("R0-anchor", "base.ReadMultiline/loop", outer, false, "line read / character loop not found")
		return
	}
	lineObj, bufObj := info.Uses[identOf(readStmt.Lhs[0])], obj("buf")
	modeObj, parenObj, nlObj := obj("m"), obj("paren"), obj("ignorenl")
	if lineObj == nil || bufObj == nil || modeObj == nil || parenObj == nil || nlObj == nil {
		c.Ob("R0-anchor", "base.ReadMultiline/state", fd, false, "state variables line/buf/m/paren/ignorenl not found")
		return
	}
	usesObj := func(e ast.Expr, o types.Object) bool {
		id := identOf(e)
		return id != nil && info.Uses[id] == o
	}
	// ---- R1: exits of the outer loop
	var appendPos token.Pos
	for _, st := range outer.Body.List {
		if as, ok := st.(*ast.AssignStmt); ok && len(as.Lhs) == 1 && usesObj(as.Lhs[0], bufObj) && len(as.Rhs) == 1 {
			if call, ok := as.Rhs[0].(*ast.CallExpr); ok && identOf(call.Fun) != nil && identOf(call.Fun).Name == "append" && len(call.Args) == 2 && usesObj(call.Args[0], bufObj) && usesObj(call.Args[1], lineObj) && call.Ellipsis.IsValid() {
				appendPos = as.Pos()
			}
		}
	}
	c.Ob("R2-lossless", "base.ReadMultiline/append", outer, appendPos != 0, "every line obtained from in.Read is appended whole to buf in the loop body (buf = append(buf, line...))")
	nexits := 0
	var walkExits func(n ast.Node, conds []ast.Expr)
	walkExits = func(n ast.Node, conds []ast.Expr) {
		switch x := n.(type) {
		case *ast.BlockStmt:
			for _, s := range x.List {
				walkExits(s, conds)
			}
		case *ast.IfStmt:
			walkExits(x.Body, append(append([]ast.Expr{}, conds...), x.Cond))
			if x.Else != nil {
				walkExits(x.Else, append(append([]ast.Expr{}, conds...), &ast.UnaryExpr{Op: token.NOT, X: x.Cond}))
			}
		case *ast.BranchStmt:
			if x.Tok != token.BREAK {
				return
			}
			nexits++
			key := fmt.Sprintf("base.ReadMultiline/exit%d", nexits)
			// error exit: if err != nil { break }
			isErr := false
			var atoms []ast.Expr
			for _, cnd := range conds {
				atoms = append(atoms, andAtoms(cnd)...)
			}
			for _, a := range atoms {
				if b, ok := a.(*ast.BinaryExpr); ok && b.Op == token.NEQ && identOf(b.Y) != nil && identOf(b.Y).Name == "nil" {
					if t := info.TypeOf(b.X); t != nil && types.TypeString(t, nil) == "error" {
						isErr = true
					}
				}
			}
			if isErr {
				c.Ob("R1-exit-condition", key, x, appendPos != 0 && x.Pos() > appendPos, "error exit (err != nil) happens after the line was appended to buf")
				return
			}
			hasParen, hasNl, hasMode := false, false, false
			for _, a := range atoms {
				switch y := a.(type) {
				case *ast.BinaryExpr:
					if usesObj(y.X, parenObj) && (y.Op == token.LEQ || y.Op == token.EQL) {
						if v, ok := constInt(info, y.Y); ok && v == 0 {
							hasParen = true
						}
					}
					if usesObj(y.X, modeObj) && y.Op == token.EQL && objQName(usedObj(info, y.Y)) == "base.mNormal" {
						hasMode = true
					}
				case *ast.UnaryExpr:
					if y.Op == token.NOT && usesObj(y.X, nlObj) {
						hasNl = true
					}
				}
			}
			c.Ob("R1-exit-condition", key, x, hasParen && hasNl && hasMode && x.Pos() > appendPos,
				fmt.Sprintf("a chunk ends only when paren <= 0 (%v), !ignorenl (%v) and m == mNormal (%v), after the line was appended", hasParen, hasNl, hasMode))
		case *ast.ForStmt, *ast.RangeStmt, *ast.SwitchStmt, *ast.SelectStmt, *ast.TypeSwitchStmt:
			// a break inside these does not leave the outer loop (no labels are used)
		case *ast.LabeledStmt:
			walkExits(x.Stmt, conds)
		}
	}
	for _, st := range outer.Body.List {
		walkExits(st, nil)
	}
	if nexits == 0 {
		c.Ob("R1-exit-condition", "base.ReadMultiline/exit", outer, false, "no exit of the read loop found: anchor missing")
	}
	// returns inside the character loop must be the invalid-character error
	ast.Inspect(inner, func(n ast.Node) bool {
		if r, ok := n.(*ast.ReturnStmt); ok {
			isInv := false
			if len(r.Results) == 1 {
				if call, ok := r.Results[0].(*ast.CallExpr); ok && identOf(call.Fun) != nil && identOf(call.Fun).Name == "invalidChar" {
					isInv = true
				}
			}
			c.Ob("R1-exit-condition", "base.ReadMultiline/return-in-line", r, isInv, "the only return inside a line is the invalid-character error")
		}
		return true
	})
	// final returns return string(buf)
	for _, st := range fd.Body.List {
		ast.Inspect(st, func(n ast.Node) bool {
			if _, isLit := n.(*ast.FuncLit); isLit {
				return false
			}
			if r, ok := n.(*ast.ReturnStmt); ok && r.Pos() > outer.End() && len(r.Results) == 3 {
				okr := false
				if call, ok := unparen(r.Results[0]).(*ast.CallExpr); ok && len(call.Args) == 1 && usesObj(call.Args[0], bufObj) {
					if tv, ok := info.Types[call.Fun]; ok && tv.IsType() {
						okr = true
					}
				}
				c.Ob("R2-lossless", "base.ReadMultiline/return", r, okr, "the chunk returned is exactly the accumulated buf")
			}
			return true
		})
	}
	// ---- R3: writes into line
	nw := 0
	var stack []ast.Node
	ast.Inspect(outer, func(n ast.Node) bool {
		if n == nil {
			stack = stack[:len(stack)-1]
			return true
		}
		stack = append(stack, n)
		as, ok := n.(*ast.AssignStmt)
		if !ok {
			return true
		}
		for i, l := range as.Lhs {
			ix, ok := unparen(l).(*ast.IndexExpr)
			if !ok || !usesObj(ix.X, lineObj) {
				continue
			}
			nw++
			underHash, underBang := false, false
			for _, s := range stack {
				if cl, ok := s.(*ast.CaseClause); ok {
					for _, e := range cl.List {
						if objQName(usedObj(info, e)) == "base.mHash" {
							underHash = true
						}
						if tv, ok := info.Types[e]; ok && tv.Value != nil && tv.Value.Kind() == constant.Int {
							if v, _ := constant.Int64Val(tv.Value); v == '!' {
								underBang = true
							}
						}
					}
				}
			}
			val := int64(-1)
			if i < len(as.Rhs) {
				if tv, ok := info.Types[as.Rhs[i]]; ok && tv.Value != nil {
					val, _ = constant.Int64Val(tv.Value)
				}
			}
			c.Ob("R3-line-writes", fmt.Sprintf("base.ReadMultiline/line-write%d", nw), as, underHash && underBang && val == '/', "the input is modified only to turn a leading '#!' into '//' (under mode mHash and character '!')")
		}
		return true
	})
	// ---- R4: line comment ends with the line
	r4 := false
	for _, st := range outer.Body.List {
		if ifs, ok := st.(*ast.IfStmt); ok && st.Pos() > inner.End() {
			if b, ok := unparen(ifs.Cond).(*ast.BinaryExpr); ok && b.Op == token.EQL && usesObj(b.X, modeObj) && objQName(usedObj(info, b.Y)) == "base.mLineComment" {
				for _, s2 := range ifs.Body.List {
					if as, ok := s2.(*ast.AssignStmt); ok && len(as.Lhs) == 1 && usesObj(as.Lhs[0], modeObj) && objQName(usedObj(info, as.Rhs[0])) == "base.mNormal" {
						r4 = true
					}
				}
			}
		}
	}
	c.Ob("R4-linecomment-reset", "base.ReadMultiline", outer, r4, "a line comment ends at the end of its line (m == mLineComment resets to mNormal after each line)")
	// ---- R5: every mode has an arm in the state machine and a name
	var modes []string
	for _, name := range pk.Types.Scope().Names() {
		if cst, ok := pk.Types.Scope().Lookup(name).(*types.Const); ok && isNamedType(cst.Type(), "base", "mode") {
			modes = append(modes, name)
		}
	}
	sort.Strings(modes)
	var machine *ast.SwitchStmt
	machineLabel := ""
	for _, st := range inner.Body.List {
		label := ""
		if ls, ok := st.(*ast.LabeledStmt); ok {
			st = ls.Stmt
			label = ls.Label.Name
		}
		if sw, ok := st.(*ast.SwitchStmt); ok && sw.Tag != nil && usesObj(sw.Tag, modeObj) {
			machine = sw
			machineLabel = label
		}
	}
	if machine == nil {
		c.Ob("R5-modes", "base.ReadMultiline/switch m", inner, false, "state machine switch not found")
		return
	}
	arm := map[string]*ast.CaseClause{}
	for _, cc := range machine.Body.List {
		cl := cc.(*ast.CaseClause)
		for _, e := range cl.List {
			arm[strings.TrimPrefix(objQName(usedObj(info, e)), "base.")] = cl
		}
	}
	strFn := c.P.Func("base.mode.String")
	named := map[string]bool{}
	if strFn != nil {
		ast.Inspect(strFn.Body, func(n ast.Node) bool {
			if cl, ok := n.(*ast.CaseClause); ok {
				for _, e := range cl.List {
					named[strings.TrimPrefix(objQName(usedObj(info, e)), "base.")] = true
				}
			}
			return true
		})
	}
	for _, m := range modes {
		c.Ob("R5-modes", "base.mode/"+m, machine, arm[m] != nil && named[m], "mode has an arm in the state machine and a case in mode.String")
	}
	if len(modes) < 10 {
		c.Ob("R5-modes", "base.mode", nil, false, "fewer than 10 modes found: anchor missing")
	}
	// ---- R7: operator look-ahead states hand the look-ahead character back to the normal state.
	// After '+', '-' or '/' the reader waits for the next character to tell ++ -- // /* from a plain operator; when it
	// is none of those, that character is an ordinary one (it may open a bracket or a string) and must be examined by
	// the mNormal arm: through a fallthrough into it, or a goto to the label of the state machine.
	for _, m := range []string{"mPlus", "mMinus", "mSlash"} {
		cl := arm[m]
		if cl == nil {
			continue
		}
		redispatch := false
		// (a) the clause ends with fallthrough and the next clause is mNormal
		if n := len(cl.Body); n > 0 {
			if br, ok := cl.Body[n-1].(*ast.BranchStmt); ok && br.Tok == token.FALLTHROUGH {
				for i, cc := range machine.Body.List {
					if cc == ast.Stmt(cl) && i+1 < len(machine.Body.List) && machine.Body.List[i+1] == ast.Stmt(arm["mNormal"]) {
						redispatch = true
					}
				}
			}
		}
		// (b) goto the machine's label, on the path that sets m = mNormal for a non-blank character
		ast.Inspect(cl, func(n ast.Node) bool {
			br, ok := n.(*ast.BranchStmt)
			if !ok || br.Tok != token.GOTO || br.Label == nil || machineLabel == "" || br.Label.Name != machineLabel {
				return true
			}
			// m = mNormal precedes it inside the same default clause of `switch ch`
			for _, anc := range enclosingStack(cl, br) {
				if dc, ok := anc.(*ast.CaseClause); ok && dc != cl && dc.List == nil {
					setsNormal := false
					ast.Inspect(dc, func(k ast.Node) bool {
						if as, ok := k.(*ast.AssignStmt); ok && as.Pos() < br.Pos() && len(as.Lhs) == 1 && usesObj(as.Lhs[0], modeObj) && strings.HasSuffix(objQName(usedObj(info, as.Rhs[0])), "mNormal") {
							setsNormal = true
						}
						return true
					})
					// unconditional for every non-blank character: the only test between the default clause and the goto is the blank test
					nIf, inElse := 0, false
					for _, a2 := range enclosingStack(dc, br) {
						if ifs, ok := a2.(*ast.IfStmt); ok {
							nIf++
							if ifs.Else != nil && containsNode(ifs.Else, br) {
								if b, ok := unparen(ifs.Cond).(*ast.BinaryExpr); ok && (b.Op == token.LEQ || b.Op == token.LSS) && identOf(b.X) != nil && identOf(b.X).Name == "ch" {
									inElse = true
								}
							}
						}
					}
					if setsNormal && (nIf == 0 || nIf == 1 && inElse) {
						redispatch = true
					}
				}
			}
			return true
		})
		c.Ob("R7-lookahead", "base.ReadMultiline/"+m, cl, redispatch, "the character that follows a plain "+map[string]string{"mPlus": "'+'", "mMinus": "'-'", "mSlash": "'/'"}[m]+" operator is examined again by the normal state (fallthrough or goto): it may open a bracket, a string or a rune literal")
	}
	// ---- R6: transition table of the literal / comment modes
	// transitions[mode][char] = set of modes assigned
	trans := func(cl *ast.CaseClause) (map[int64][]string, []string) {
		byChar := map[int64][]string{}
		var anyChar []string
		var collect func(n ast.Node, chars []int64)
		collect = func(n ast.Node, chars []int64) {
			switch x := n.(type) {
			case *ast.SwitchStmt:
				if x.Tag != nil && identOf(x.Tag) != nil && identOf(x.Tag).Name == "ch" {
					for _, cc := range x.Body.List {
						c2 := cc.(*ast.CaseClause)
						var cs []int64
						for _, e := range c2.List {
							if tv, ok := info.Types[e]; ok && tv.Value != nil {
								v, _ := constant.Int64Val(tv.Value)
								cs = append(cs, v)
							}
						}
						if c2.List == nil {
							cs = []int64{-1}
						}
						for _, b := range c2.Body {
							collect(b, cs)
						}
					}
					return
				}
			case *ast.AssignStmt:
				for i, l := range x.Lhs {
					if usesObj(l, modeObj) && i < len(x.Rhs) {
						nm := strings.TrimPrefix(objQName(usedObj(info, x.Rhs[i])), "base.")
						if len(chars) == 0 {
							anyChar = append(anyChar, nm)
						}
						for _, ch := range chars {
							byChar[ch] = append(byChar[ch], nm)
						}
					}
				}
				return
			case *ast.IfStmt:
				collect(x.Body, chars)
				if x.Else != nil {
					collect(x.Else, chars)
				}
				return
			case *ast.BlockStmt:
				for _, s := range x.List {
					collect(s, chars)
				}
				return
			}
		}
		for _, b := range cl.Body {
			collect(b, nil)
		}
		return byChar, anyChar
	}
	type exp struct {
		mode string
		ch   int64 // -2 = any character (unconditional), -1 = default arm
		next string
	}
	expected := []exp{
		{"mNormal", '\'', "mRune"}, {"mNormal", '"', "mString"}, {"mNormal", '`', "mRawString"}, {"mNormal", '/', "mSlash"},
		{"mRune", '\\', "mRuneEscape"}, {"mRune", '\'', "mNormal"}, {"mRuneEscape", -2, "mRune"},
		{"mString", '\\', "mStringEscape"}, {"mString", '"', "mNormal"}, {"mStringEscape", -2, "mString"},
		{"mRawString", '`', "mNormal"},
		{"mSlash", '/', "mLineComment"}, {"mSlash", '*', "mComment"},
		{"mComment", '*', "mCommentStar"}, {"mCommentStar", '/', "mNormal"}, {"mCommentStar", -1, "mComment"},
		// a run of stars keeps the "after a star" state: the comment may end with **/ ("=": no transition, or to itself)
		{"mCommentStar", '*', "="},
	}
	closing := map[string]map[int64]bool{"mRune": {'\'': true}, "mString": {'"': true}, "mRawString": {'`': true}, "mCommentStar": {'/': true}, "mComment": {}, "mLineComment": {}, "mRuneEscape": {}, "mStringEscape": {}}
	for _, e := range expected {
		cl := arm[e.mode]
		if cl == nil {
			continue
		}
		byChar, anyChar := trans(cl)
		got := byChar[e.ch]
		if e.ch == -2 {
			got = anyChar
		}
		okT := len(got) == 1 && got[0] == e.next
		if e.next == "=" {
			_, explicit := byChar[e.ch]
			okT = (explicit || hasCharCase(cl, info, e.ch)) && (len(got) == 0 || len(got) == 1 && got[0] == e.mode)
		}
		chs := fmt.Sprintf("%q", rune(e.ch))
		if e.ch == -2 {
			chs = "any character"
		} else if e.ch == -1 {
			chs = "any other character"
		}
		c.Ob("R6-transitions", fmt.Sprintf("base.ReadMultiline/%s/%s", e.mode, chs), cl, okT, fmt.Sprintf("in mode %s, %s leads to %s (found %v)", e.mode, chs, e.next, got))
	}
	// a literal/comment mode returns to mNormal only on its terminator
	for m, term := range closing {
		cl := arm[m]
		if cl == nil {
			continue
		}
		byChar, anyChar := trans(cl)
		bad := []string{}
		for ch, nexts := range byChar {
			for _, nx := range nexts {
				if nx == "mNormal" && !term[ch] {
					bad = append(bad, fmt.Sprintf("%q", rune(ch)))
				}
			}
		}
		for _, nx := range anyChar {
			if nx == "mNormal" {
				bad = append(bad, "any")
			}
		}
		sort.Strings(bad)
		c.Ob("R6-closing", "base.ReadMultiline/"+m, cl, len(bad) == 0, fmt.Sprintf("mode %s is left for mNormal only on its terminator (other exits to mNormal: %v)", m, bad))
	}
	// ---- R9: characters rejected inside a string or rune literal. The Go scanner ends an interpreted string or a rune
	// literal with an error only at a newline (scanString / scanRune: `ch == '\n' || ch < 0`); every other character,
	// control characters such as TAB included, is part of the literal. The reader aborts a chunk through invalidChar:
	// the test guarding each such call inside the literal modes must be exactly `ch == '\n'`.
	nInv := 0
	for _, m := range []string{"mRune", "mRuneEscape", "mString", "mStringEscape"} {
		cl := arm[m]
		if cl == nil {
			continue
		}
		ast.Inspect(cl, func(n ast.Node) bool {
			ifs, ok := n.(*ast.IfStmt)
			if !ok {
				return true
			}
			aborts := false
			for _, st := range ifs.Body.List {
				if r, ok := st.(*ast.ReturnStmt); ok && len(r.Results) == 1 {
					if call, ok := unparen(r.Results[0]).(*ast.CallExpr); ok && identOf(call.Fun) != nil && identOf(call.Fun).Name == "invalidChar" {
						aborts = true
					}
				}
			}
			if !aborts {
				return true
			}
			nInv++
			good := false
			if b, ok := unparen(ifs.Cond).(*ast.BinaryExpr); ok && b.Op == token.EQL && identOf(b.X) != nil && identOf(b.X).Name == "ch" {
				if tv, ok := info.Types[b.Y]; ok && tv.Value != nil {
					if v, _ := constant.Int64Val(tv.Value); v == '\n' {
						good = true
					}
				}
			}
			c.Ob("R9-literal-abort", fmt.Sprintf("base.ReadMultiline/%s#%d", m, nInv), ifs, good, "inside a string or rune literal only a newline aborts the chunk (condition "+exprString(ifs.Cond)+"); TAB and other control characters are part of the literal, as in the Go scanner")
			return true
		})
	}
	if nInv == 0 {
		c.Ob("R9-literal-abort", "base.ReadMultiline/invalidChar", fd, false, "no abort through invalidChar found in the literal modes: anchor missing")
	}
	// brackets and continuation characters in mNormal
	if cl := arm["mNormal"]; cl != nil {
		inc, dec, cont := map[int64]bool{}, map[int64]bool{}, map[int64]bool{}
		ast.Inspect(cl, func(n ast.Node) bool {
			c2, ok := n.(*ast.CaseClause)
			if !ok {
				return true
			}
			var cs []int64
			for _, e := range c2.List {
				if tv, ok := info.Types[e]; ok && tv.Value != nil && tv.Value.Kind() == constant.Int {
					v, _ := constant.Int64Val(tv.Value)
					cs = append(cs, v)
				}
			}
			for _, b := range c2.Body {
				switch x := b.(type) {
				case *ast.IncDecStmt:
					if usesObj(x.X, parenObj) {
						for _, ch := range cs {
							if x.Tok == token.INC {
								inc[ch] = true
							} else {
								dec[ch] = true
							}
						}
					}
				case *ast.AssignStmt:
					if len(x.Lhs) == 1 && usesObj(x.Lhs[0], nlObj) {
						if b2, ok := unparen(x.Rhs[0]).(*ast.BinaryExpr); ok && b2.Op == token.EQL && usesObj(b2.X, parenObj) {
							for _, ch := range cs {
								cont[ch] = true
							}
						}
					}
				}
			}
			return true
		})
		okB := inc['('] && inc['['] && inc['{'] && dec[')'] && dec[']'] && dec['}'] && len(inc) == 3 && len(dec) == 3
		c.Ob("R6-brackets", "base.ReadMultiline/mNormal/brackets", cl, okB, "( [ { increment and ) ] } decrement the bracket depth")
		// the division operator: after '/', any whitespace (ch <= ' ') marks a pending continuation
		if sl := arm["mSlash"]; sl != nil {
			okSlash := false
			ast.Inspect(sl, func(n ast.Node) bool {
				ifs, ok := n.(*ast.IfStmt)
				if !ok {
					return true
				}
				b, ok := unparen(ifs.Cond).(*ast.BinaryExpr)
				if !ok || identOf(b.X) == nil || identOf(b.X).Name != "ch" {
					return true
				}
				v, isC := constInt(info, b.Y)
				covers := isC && ((b.Op == token.LEQ && v == ' ') || (b.Op == token.LSS && v == ' '+1))
				for _, st := range ifs.Body.List {
					if as, ok := st.(*ast.AssignStmt); ok && len(as.Lhs) == 1 && usesObj(as.Lhs[0], nlObj) && identOf(as.Rhs[0]) != nil && identOf(as.Rhs[0]).Name == "true" && covers {
						okSlash = true
					}
				}
				return true
			})
			c.Ob("R6-continuation", "base.ReadMultiline/mSlash/division", sl, okSlash, "a '/' followed by any whitespace, the space included (ch <= ' '), is a division operator that continues the statement on the next line")
		}
		need := []int64{',', '=', '&', '|', '*', '<', '>', '%', '^', '!'}
		miss := []string{}
		for _, ch := range need {
			if !cont[ch] {
				miss = append(miss, string(rune(ch)))
			}
		}
		c.Ob("R6-continuation", "base.ReadMultiline/mNormal/operators", cl, len(miss) == 0, fmt.Sprintf("a line ending in a binary operator or comma continues on the next line (ignorenl set for , = & | * < > %% ^ !; missing %v)", miss))
	}
}

// hasCharCase reports whether the `switch ch` directly inside the clause has a case listing the character
// (so that the default arm does not apply to it).
func hasCharCase(cl *ast.CaseClause, info *types.Info, ch int64) bool {
	found := false
	for _, st := range cl.Body {
		sw, ok := st.(*ast.SwitchStmt)
		if !ok || sw.Tag == nil || identOf(sw.Tag) == nil || identOf(sw.Tag).Name != "ch" {
			continue
		}
		for _, cc := range sw.Body.List {
			for _, e := range cc.(*ast.CaseClause).List {
				if tv, ok := info.Types[e]; ok && tv.Value != nil {
					if v, _ := constant.Int64Val(tv.Value); v == ch {
						found = true
					}
				}
			}
		}
	}
	return found
}
