package main

func init() {
	register(&PropDef{
		ID:    "X00",
		Title: "development: uniformity over all of fast",
		Rules: []func(*Ctx){func(c *Ctx) { ruleUniformity(c, "fast", nil, "U-uniform") },
			func(c *Ctx) { ruleDepth(c, "fast", nil, "A3-depth", "A4-storage") },
			func(c *Ctx) { ruleAccessor(c, "fast", "A2-accessor") },
			func(c *Ctx) { ruleAccessor(c, "xreflect", "A2-accessor") }},
	})
}

func init() {
	registry["X00"].Rules = append(registry["X00"].Rules, func(c *Ctx) {
		var l []string
		for k := range depthSwitchRejects {
			l = append(l, k)
		}
		c.Extra("depth_switch_rejects", l)
	})
}

func init() {
	registry["X00"].Rules = []func(*Ctx){func(c *Ctx) {
		opOf := ruleDispatchTables(c, "fast", []string{"fast.Comp.BinaryExpr1", "fast.Comp.UnaryExpr", "fast.Comp.setVar", "fast.Comp.setPlace"}, "A5")
		ruleOperatorAnchor(c, "fast", opOf, "A5-operator", "A6-order", nil)
		ext := extendOps(c, "fast", opOf)
		ruleShortcuts(c, "fast", ext, "A7-shortcut", nil)
		helpers := map[string]string{}
		for fn, op := range ext {
			if _, direct := opOf[fn]; !direct {
				helpers[funcFullName(fn)] = op
			}
		}
		c.Extra("pow2_helpers", helpers)
		rulePow2(c, "fast", helpers, "A8-pow2")
	}}
}

func init() {
	register(&PropDef{ID: "X01", Title: "dev: dump pow2 helper terms", Rules: []func(*Ctx){func(c *Ctx) {
		fd := families(c, "fast")
		seen := map[string]int{}
		for _, m := range fd.members {
			switch m.FD.Name.Name {
			case "mulPow2", "quoPow2", "remPow2", "varQuoPow2", "placeQuoPow2":
				s := m.FD.Name.Name + " [" + kindCategory(firstOr(m.Kinds)) + "] " + m.pathString(m.KindIdx+1) + " :: " + showTerm(canonMember(c.P.Fset, m, fd.di[m.FD]), m.Tau)
				seen[s]++
			}
		}
		for _, k := range sortedKeys(seen) {
			println(seen[k], k)
		}
	}}})
}

func firstOr(s []string) string {
	if len(s) > 0 {
		return s[0]
	}
	return ""
}

// ---------------------------------------------------------------- C01

var c01Files = []string{"binary_ops.go", "binary_shifts.go", "binary_relops.go", "binary_eqlneq.go", "binary.go", "unary.go", "unary_ops.go", "identifier.go", "expr.go", "expr1.go", "util.go"}

func init() {
	register(&PropDef{
		ID:    "C01",
		Title: "Typed expressions over basic types evaluate exactly as compiled Go",
		Explanation: "Decided, for every closure the fast interpreter can produce for a typed binary/unary expression or a variable read (enumerated exhaustively from source, not from values): " +
			"U sibling uniformity of every kind-specialised family in binary_*.go, unary_ops.go, identifier.go, util.go (a closure that differs from its same-category siblings in operator, operand, type, depth or accessor is reported); " +
			"A3 the frame on which a variable's slot is read equals the depth label of its arm (0,1,2,file,top, upn in the general arm) and A4 Ints/Vals storage matches the IntBind guard; A2 reflect accessor category equals the category of the conversion target; " +
			"A5 the dispatch table BinaryExpr1/UnaryExpr is injective and complete over Go's 19 binary operators and every closure of a compile function applies exactly the Go operator of the arm that dispatches to it; A6 left operand from the left expression, right from the right; " +
			"A7 every constant shortcut (x+0, x*1, x*0, x&-1 ...) is an identity of Go semantics for every operand category that reaches it (table justified by IEEE-754 / two's complement); A8 every power-of-two strength reduction matches a proven shape, signed shapes only in signed arms, negation only for negative divisors, shift = integerLen(y)-1 under isPowerOfTwo(y); " +
			"G1 signed shift counts are converted to uint64 only after the negative-count panic; D1 constants are folded iff both operands are constant. " +
			"The oracle for each closure is Go's own operator on the labelled type (closure bodies are Go expressions over typed operands). " +
			"Not decided: typing of mixed operands (toSameFuncType / prepareShift), EvalConst itself, comparisons of non-basic types, values computed by reflect or go/constant.",
		Assumptions: []string{"Go compiler semantics of operators on basic types", "identity table A7 and rewrite shapes A8 in the checker source (reviewed against IEEE-754 and two's complement)", "go/types, go/packages at x/tools v0.29.0"},
		Rules: []func(*Ctx){func(c *Ctx) {
			ruleUniformity(c, "fast", c01Files, "U-uniform")
			ruleDepth(c, "fast", []string{"identifier.go"}, "A3-depth", "A4-storage")
			opOf := ruleDispatchTables(c, "fast", []string{"fast.Comp.BinaryExpr1", "fast.Comp.UnaryExpr"}, "A5")
			ruleOperatorAnchor(c, "fast", opOf, "A5-operator", "A6-order", nil)
			ext := extendOps(c, "fast", opOf)
			ruleShortcuts(c, "fast", ext, "A7-shortcut", nil)
			helpers := map[string]string{}
			for fn, op := range ext {
				if _, direct := opOf[fn]; !direct {
					helpers[funcFullName(fn)] = op
				}
			}
			rulePow2(c, "fast", helpers, "A8-pow2")
			ruleNegativeShift(c)
			ruleBinaryDispatchComplete(c)
			c.Floor("U-uniform", 900)
			c.Floor("A3-depth", 100)
			c.Floor("A5-operator", 500)
			c.Floor("A6-order", 500)
			c.Floor("A7-shortcut", 30)
			c.Floor("A8-pow2", 40)
		}, func(c *Ctx) { ruleAccessorFiles(c, "fast", c01Files, "A2-accessor") }},
		Mutants: []Mutant{
			{Name: "int16-sub-becomes-add", File: "fast/binary_ops.go", Old: "x := x.(func(*Env) int16)\n\t\t\ty := y.(func(*Env) int16)\n\t\t\tfun = func(env *Env) int16 {\n\t\t\t\treturn x(env) - y(env)", New: "x := x.(func(*Env) int16)\n\t\t\ty := y.(func(*Env) int16)\n\t\t\tfun = func(env *Env) int16 {\n\t\t\t\treturn x(env) + y(env)", Canary: true},
			{Name: "string-add-operands-swapped", File: "fast/binary_ops.go", Old: "fun = func(env *Env) string {\n\t\t\t\treturn x(env) + y(env)", New: "fun = func(env *Env) string {\n\t\t\t\treturn y(env) + x(env)"},
			{Name: "float32-depth2-reads-depth1", File: "fast/identifier.go", Old: "return *(*float32)(unsafe.Pointer(&env.\n\t\t\t\t\tOuter.Outer.Ints[idx]))", New: "return *(*float32)(unsafe.Pointer(&env.\n\t\t\t\t\tOuter.Ints[idx]))", Canary: true},
			{Name: "quopow2-int16-parens", File: "fast/binary_ops.go", Old: "return -(n >> shift)", New: "return -n >> shift", Nth: 3},
			{Name: "asuint64-int16-no-panic", File: "fast/util.go", Old: "\t\t\ti := fun(env)\n\t\t\tif i < 0 {\n\t\t\t\tpanic(negativeShiftAmount)\n\t\t\t}\n\t\t\treturn uint64(i)", New: "\t\t\ti := fun(env)\n\t\t\treturn uint64(i)", Nth: 3},
			{Name: "xor-dispatched-to-or", File: "fast/binary.go", Old: "z = c.Xor(node, x, y)", New: "z = c.Or(node, x, y)"},
			{Name: "lss-const-becomes-leq", File: "fast/binary_relops.go", Old: "return x(env) < y\n", New: "return x(env) <= y\n", Nth: 4},
			{Name: "unsigned-shape-in-signed-arm", File: "fast/binary_ops.go", Old: "n := x(env)\n\t\t\t\t\tif n < 0 {\n\t\t\t\t\t\tn += y_1\n\t\t\t\t\t}\n\t\t\t\t\treturn n >> shift", New: "n := x(env)\n\t\t\t\t\treturn n >> shift", Nth: 1},
			{Name: "sub-zero-left-shortcut", File: "fast/binary_ops.go", Old: "\t\tif isLiteralNumber(y, 0) {\n\t\t\treturn xe\n\t\t}\n\n\t\tswitch k {\n\t\tcase xr.Int:\n\n\t\t\tx := x.(func(*Env) int)\n\t\t\ty := int(xr.ValueOf(y).Int())\n\t\t\tfun = func(env *Env) int {\n\t\t\t\treturn x(env) - y", New: "\t\tif isLiteralNumber(y, 1) {\n\t\t\treturn xe\n\t\t}\n\n\t\tswitch k {\n\t\tcase xr.Int:\n\n\t\t\tx := x.(func(*Env) int)\n\t\t\ty := int(xr.ValueOf(y).Int())\n\t\t\tfun = func(env *Env) int {\n\t\t\t\treturn x(env) - y"},
		},
	})
}
