package main

func init() {
	register(&PropDef{
		ID:    "X00",
		Title: "development: uniformity over all of fast",
		Rules: []func(*Ctx){func(c *Ctx) { ruleUniformity(c, "fast", nil, "U-uniform") },
			func(c *Ctx) { ruleDepth(c, "fast", nil, "A3-depth", "A4-storage") },
			func(c *Ctx) { ruleAccessor(c, "fast", "A2-accessor") },
			func(c *Ctx) { ruleAccessor(c, "xreflect", "A2-accessor") }},
	})
}

func init() {
	registry["X00"].Rules = append(registry["X00"].Rules, func(c *Ctx) {
		var l []string
		for k := range depthSwitchRejects {
			l = append(l, k)
		}
		c.Extra("depth_switch_rejects", l)
	})
}
