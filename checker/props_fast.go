package main

import (
	"go/types"
)

func firstOr(s []string) string {
	if len(s) > 0 {
		return s[0]
	}
	return ""
}

// ---------------------------------------------------------------- C01

var c01Files = []string{"binary_ops.go", "binary_shifts.go", "binary_relops.go", "binary_eqlneq.go", "binary.go", "unary.go", "unary_ops.go", "identifier.go", "expr.go", "expr1.go", "util.go"}

func init() {
	register(&PropDef{
		ID:    "C01",
		Title: "Typed expressions over basic types evaluate exactly as compiled Go",
		Explanation: "Decided, for every closure the fast interpreter can produce for a typed binary/unary expression or a variable read (enumerated exhaustively from source, not from values): " +
			"U sibling uniformity of every kind-specialised family in binary_*.go, unary_ops.go, identifier.go, util.go (a closure that differs from its same-category siblings in operator, operand, type, depth or accessor is reported); " +
			"A3 the frame on which a variable's slot is read equals the depth label of its arm (0,1,2,file,top, upn in the general arm) and A4 Ints/Vals storage matches the IntBind guard; A2 reflect accessor category equals the category of the conversion target; " +
			"A5 the dispatch table BinaryExpr1/UnaryExpr is injective and complete over Go's 19 binary operators and every closure of a compile function applies exactly the Go operator of the arm that dispatches to it; A6 left operand from the left expression, right from the right; " +
			"A7 every constant shortcut (x+0, x*1, x*0, x&-1 ...) is an identity of Go semantics for every operand category that reaches it (table justified by IEEE-754 / two's complement; conjuncts on reflect.Category restrict the categories that reach a shortcut; a compile-time rejection such as 'division by zero' is judged like a rewrite: exact for integers only — found F36; isLiteralNumber(c, -1) on an unsigned operand means all bits set, so x / c is not -x — found F35; the world is closed: an explicit replacement of an operation by an operand, a zero or a negation that is not under a recognised test on the constant operand is reported); A7b && and || with constant operands, enumerated over the sixteen combinations of constancy and value, return what Go's value and evaluation order allow (x || true must still evaluate x); A8 every power-of-two strength reduction matches a proven shape, signed shapes only in signed arms, negation only for negative divisors, shift = integerLen(y)-1 under isPowerOfTwo(y); " +
			"G1 signed shift counts are converted to uint64 only after the negative-count panic; D1 constants are folded iff both operands are constant. " +
			"The oracle for each closure is Go's own operator on the labelled type (closure bodies are Go expressions over typed operands). " +
			"Z1 no && / || in fast, xreflect, base/untyped, base/reflect has two identical operands (found F50: the right operand of == was never tested for comparability). " +
			"Not decided: typing of mixed operands (toSameFuncType / prepareShift), EvalConst itself, comparisons of non-basic types, values computed by reflect or go/constant.",
		Assumptions: []string{"Go compiler semantics of operators on basic types", "identity table A7 and rewrite shapes A8 in the checker source (reviewed against IEEE-754 and two's complement)", "go/types, go/packages at x/tools v0.29.0"},
		Rules: []func(*Ctx){func(c *Ctx) {
			ruleUniformity(c, "fast", c01Files, "U-uniform")
			ruleDepth(c, "fast", []string{"identifier.go"}, "A3-depth", "A4-storage")
			opOf := ruleDispatchTables(c, "fast", []string{"fast.Comp.BinaryExpr1", "fast.Comp.UnaryExpr"}, "A5")
			ruleOperatorAnchor(c, "fast", opOf, "A5-operator", "A6-order", nil)
			ext := extendOps(c, "fast", opOf)
			ruleShortcuts(c, "fast", ext, "A7-shortcut", nil)
			ruleBoolShortcuts(c, "A7b-bool-shortcuts")
			ruleNoDuplicateOperands(c, "Z1-no-duplicate-operands", "fast", "xreflect", "base/untyped", "base/reflect")
			helpers := map[string]string{}
			for fn, op := range ext {
				if _, direct := opOf[fn]; !direct {
					helpers[funcFullName(fn)] = op
				}
			}
			rulePow2(c, "fast", helpers, "A8-pow2")
			ruleNegativeShift(c)
			ruleBinaryDispatchComplete(c)
			c.Floor("U-uniform", 900)
			c.Floor("A3-depth", 100)
			c.Floor("A5-operator", 500)
			c.Floor("A6-order", 500)
			c.Floor("A7-shortcut", 30)
			c.Floor("A8-pow2", 40)
		}, func(c *Ctx) { ruleAccessorFiles(c, "fast", c01Files, "A2-accessor") }},
		Mutants: []Mutant{
			{Name: "right-operand-comparability-not-tested", File: "fast/binary_eqlneq.go", Old: "if !xe.Type.Comparable() || !ye.Type.Comparable() {", New: "if !xe.Type.Comparable() || !xe.Type.Comparable() {", Nth: 1},
			{Name: "or-with-constant-true-skips-left-operand", File: "fast/binary.go", Old: "\t\t\treturn c.exprBool(func(env *Env) bool {\n\t\t\t\treturn xfun(env) || true\n\t\t\t})", New: "\t\t\treturn c.exprValue(nil, true)"},
			{Name: "and-with-constant-true-on-the-left-returns-left", File: "fast/binary.go", Old: "\tif xfun == nil {\n\t\tif xval {\n\t\t\treturn y\n\t\t}\n\t\treturn c.exprValue(nil, false)", New: "\tif xfun == nil {\n\t\tif xval {\n\t\t\treturn x\n\t\t}\n\t\treturn c.exprValue(nil, false)"},
			{Name: "shift-by-width-or-more-folded-to-zero", File: "fast/binary_shifts.go", Old: "\t\t} else if y == 0 {\n\t\t\treturn xe\n\t\t}", New: "\t\t} else if y == 0 {\n\t\t\treturn xe\n\t\t} else if y >= 8*uint64(xe.Type.Size()) {\n\t\t\treturn c.exprZero(xe)\n\t\t}", Nth: 2},
			{Name: "quo-by-allones-unsigned-negated", File: "fast/binary_ops.go", Old: "} else if isLiteralNumber(ye.Value, -1) && reflect.Category(xe.Type.Kind()) != xr.Uint {", New: "} else if isLiteralNumber(ye.Value, -1) {"},
			{Name: "float-division-by-constant-zero-rejected", File: "fast/binary_ops.go", Old: "if isLiteralNumber(y, 0) && reflect.IsCategory(xe.Type.Kind(), xr.Int, xr.Uint) {", New: "if isLiteralNumber(y, 0) {"},
			{Name: "int16-sub-becomes-add", File: "fast/binary_ops.go", Old: "x := x.(func(*Env) int16)\n\t\t\ty := y.(func(*Env) int16)\n\t\t\tfun = func(env *Env) int16 {\n\t\t\t\treturn x(env) - y(env)", New: "x := x.(func(*Env) int16)\n\t\t\ty := y.(func(*Env) int16)\n\t\t\tfun = func(env *Env) int16 {\n\t\t\t\treturn x(env) + y(env)", Canary: true},
			{Name: "string-add-operands-swapped", File: "fast/binary_ops.go", Old: "fun = func(env *Env) string {\n\t\t\t\treturn x(env) + y(env)", New: "fun = func(env *Env) string {\n\t\t\t\treturn y(env) + x(env)"},
			{Name: "float32-depth2-reads-depth1", File: "fast/identifier.go", Old: "return *(*float32)(unsafe.Pointer(&env.Outer.Outer.Ints[idx]))", New: "return *(*float32)(unsafe.Pointer(&env.Outer.Ints[idx]))", Nth: 1, Canary: true},
			{Name: "quopow2-int16-parens", File: "fast/binary_ops.go", Old: "return -(n >> shift)", New: "return -n >> shift", Nth: 3},
			{Name: "asuint64-int16-no-panic", File: "fast/util.go", Old: "\t\t\ti := fun(env)\n\t\t\tif i < 0 {\n\t\t\t\tpanic(negativeShiftAmount)\n\t\t\t}\n\t\t\treturn uint64(i)", New: "\t\t\ti := fun(env)\n\t\t\treturn uint64(i)", Nth: 3},
			{Name: "xor-dispatched-to-or", File: "fast/binary.go", Old: "z = c.Xor(node, x, y)", New: "z = c.Or(node, x, y)"},
			{Name: "lss-const-becomes-leq", File: "fast/binary_relops.go", Old: "fun = func(env *Env) bool { return x(env) < y }", New: "fun = func(env *Env) bool { return x(env) <= y }", Nth: 4},
			{Name: "unsigned-shape-in-signed-arm", File: "fast/binary_ops.go", Old: "n := x(env)\n\t\t\t\t\tif n < 0 {\n\t\t\t\t\t\tn += y_1\n\t\t\t\t\t}\n\t\t\t\t\treturn n >> shift", New: "n := x(env)\n\t\t\t\t\treturn n >> shift", Nth: 1},
			{Name: "sub-zero-left-shortcut", File: "fast/binary_ops.go", Old: "\t\tif isLiteralNumber(y, 0) {\n\t\t\treturn xe\n\t\t}\n\n\t\tswitch k {\n\t\tcase xr.Int:\n\n\t\t\tx := x.(func(*Env) int)\n\t\t\ty := int(xr.ValueOf(y).Int())\n\t\t\tfun = func(env *Env) int {\n\t\t\t\treturn x(env) - y", New: "\t\tif isLiteralNumber(y, 1) {\n\t\t\treturn xe\n\t\t}\n\n\t\tswitch k {\n\t\tcase xr.Int:\n\n\t\t\tx := x.(func(*Env) int)\n\t\t\ty := int(xr.ValueOf(y).Int())\n\t\t\tfun = func(env *Env) int {\n\t\t\t\treturn x(env) - y"},
		},
	})
}

func isStmtSig(t types.Type) bool {
	sig, ok := t.(*types.Signature)
	if !ok || sig.Params().Len() != 1 || sig.Results().Len() != 2 {
		return false
	}
	return isEnvPtr(sig.Params().At(0).Type()) && isNamedType(sig.Results().At(0).Type(), "fast", "Stmt") && isEnvPtr(sig.Results().At(1).Type())
}

// ---------------------------------------------------------------- C02

var c02Files = []string{"var_ops.go", "var_set.go", "var_set_value.go", "var_shifts.go", "place_ops.go", "place_set.go", "place_shifts.go", "place_set_value.go", "place_get.go", "assignment.go"}

func c02Rules(c *Ctx) {
	ruleUniformity(c, "fast", c02Files, "U-uniform")
	ruleDepth(c, "fast", c02Files, "A3-depth", "A4-storage")
	opOf := ruleDispatchTables(c, "fast", []string{"fast.Comp.setVar", "fast.Comp.setPlace", "fast.Comp.setPlaceShift"}, "A5")
	ruleOperatorAnchor(c, "fast", opOf, "A5-operator", "A6-order", nil)
	ext := extendOps(c, "fast", opOf)
	ruleShortcuts(c, "fast", ext, "A7-shortcut", nil)
	ruleIdentityStore(c, "A7s-identity-store")
	ruleAccessorInCategoryArm(c, "A2c-accessor-in-category-arm", []string{"place_shifts.go", "place_ops.go", "place_set.go", "place_set_value.go"})
	rulePlaceOperandOrder(c, "A6m-place-operand-order", []string{"place_set.go", "place_ops.go", "place_shifts.go", "place_set_value.go"})
	ruleNoSharedRuntimeStorage(c, "H1-no-shared-storage")
	ruleAbsentMapKey(c, "M1-absent-key", []string{"place_ops.go", "place_shifts.go", "place_set.go", "place_set_value.go", "assignment.go"})
	helpers := map[string]string{}
	for fn, op := range ext {
		if _, direct := opOf[fn]; !direct {
			helpers[funcFullName(fn)] = op
		}
	}
	rulePow2(c, "fast", helpers, "A8-pow2")
	ruleStmtProtocol(c, "fast", c02Files, "S1-stmt-protocol")
	ruleAssignPhases(c)
	ruleOperandOnce(c, []string{"place_ops.go", "place_set.go", "place_shifts.go", "place_set_value.go", "var_ops.go", "var_set.go", "var_shifts.go", "var_set_value.go"}, "E2-once")
	ruleIncDec(c)
	ruleNilableSetter(c, "P5-blank-target")
	ruleIntsGuard(c, "fast", "A4-ints-guard")
	ruleNoCellReplacement(c, []string{"var_set.go", "var_set_value.go", "var_ops.go", "var_shifts.go", "place_set.go", "place_ops.go", "place_shifts.go", "place_set_value.go"}, "V1-no-cell-replacement")
	ruleAccessorFiles(c, "fast", c02Files, "A2-accessor")
	c.Floor("U-uniform", 2400)
	c.Floor("A3-depth", 1900)
	c.Floor("A4-storage", 1800)
	c.Floor("A5-operator", 1800)
	c.Floor("A6-order", 1800)
	c.Floor("S1-stmt-protocol", 2000)
	c.Floor("E2-once", 2000)
}

func init() {
	register(&PropDef{
		ID:    "C02",
		Title: "Assignments and compound assignments on every kind of place behave as in Go",
		Explanation: "Decided, exhaustively over the ~4 000 statement closures of var_*.go / place_*.go / assignment.go: U sibling uniformity per kind-family; A3 slot accessed on the frame its depth arm names; A4 Ints/Vals storage matches the IntBind guard and every function that addresses a variable's unboxed slot is entered only for IntBind variables (in-function arm, early return, or every call site under a class test); A2 accessor category; " +
			"A5 setVar/setPlace dispatch tables injective and complete (every specialisation with the family signature is wired) and each closure applies exactly the Go operator of its arm; A6 right operand from the value parameter, left from the place; A7 constant shortcuts are identities for every category that reaches them (including delegations such as x /= -1 -> x *= -1 and compile-time rejections); A7s an identity shortcut on a map element still evaluates map and key once and writes the element back (found F41); A6m in every statement closure of the place compilers the container is evaluated before the key and both before the right-hand side; M1 no read of a map element through reflect uses the result of MapIndex without an IsValid test (found F40); A8 power-of-two division shapes; " +
			"S1 every statement closure returns Code[IP] of the environment it returns after exactly one advance of IP (or Code[t] after IP = t) on every path; E2 every captured operand closure (place, map key, right-hand side) is evaluated at most once per path; " +
			"P1-P4 two-phase multiple assignment: left operands, then right-hand expressions (copied with dup), then stores, map keys copied, two-place fast path only without map keys; P5 a setter that is nil for the blank identifier is called only under a nil test (found F51); I1 ++/-- compile as += / -= the constant one. " +
			"P1o within the two-target closures left operands, right-hand expressions and stores each run in target order (a swapped pair of stores breaks `*p, x = 1, 2` when p points to x). Not decided: which specialisation is selected for a given program (Place construction), map-element read-modify-write inside reflect, exotic evaluation-order mixes beyond the call-order rule.",
		Assumptions: []string{"Go operator semantics on basic types", "computation at the category's widest type followed by a truncating store equals computation at the narrow type (two's complement)", "reflect Set*/MapIndex/SetMapIndex as documented"},
		Rules:       []func(*Ctx){c02Rules},
		Mutants: []Mutant{
			{Name: "two-target-stores-right-to-left", File: "fast/assignment.go", Old: "\t\t\t\tassign[0].setplace(obj0, obj0, val0)\n\t\t\t\tassign[1].setvar(env, val1)", New: "\t\t\t\tassign[1].setvar(env, val1)\n\t\t\t\tassign[0].setplace(obj0, obj0, val0)"},
			{Name: "map-store-evaluates-right-hand-side-first", File: "fast/place_set.go", Old: "\t\t\tobj := lhs(env)\n\t\t\tkey := mapkey(env)\n\t\t\tval := rhs(env)\n\t\t\tif val.Type() != rt {\n\t\t\t\tval = convert(val, rt)\n\t\t\t}\n", New: "\t\t\tval := rhs(env)\n\t\t\tif val.Type() != rt {\n\t\t\t\tval = convert(val, rt)\n\t\t\t}\n\t\t\tobj := lhs(env)\n\t\t\tkey := mapkey(env)\n"},
			{Name: "varquo-allones-delegates-to-mul", File: "fast/var_ops.go", Old: "} else if isLiteralNumber(val, -1) && reflect.Category(va.Type.Kind()) != xr.Uint {", New: "} else if isLiteralNumber(val, -1) {"},
			{Name: "identity-shortcut-skips-map-store", File: "fast/assignment.go", Old: "\t\t\tobj.SetMapIndex(key, val)\n", New: ""},
			{Name: "map-shift-int-arm-reads-unsigned", File: "fast/place_shifts.go", Old: "result := mapIndexInt(lhs, key)", New: "result := mapIndexUint(lhs, key)", Nth: 1},
			{Name: "map-quo-reads-missing-key", File: "fast/place_shifts.go", Old: "result := mapIndexInt(lhs, key)\n\n\t\t\t\t\tif result < 0 {", New: "result := lhs.MapIndex(key).Int()\n\n\t\t\t\t\tif result < 0 {"},
			{Name: "uint16-xor-depth2-uses-depth1", File: "fast/var_ops.go", Old: "*(*uint16)(unsafe.Pointer(&env.\n\t\t\t\t\t\tOuter.Outer.Ints[index])) ^= fun(env)", New: "*(*uint16)(unsafe.Pointer(&env.\n\t\t\t\t\t\tOuter.Ints[index])) ^= fun(env)", Canary: true},
			{Name: "sub-becomes-add-boxed-int", File: "fast/var_ops.go", Old: "lhs.SetInt(lhs.Int() - int64(val))", New: "lhs.SetInt(lhs.Int() + int64(val))", Nth: 1, Canary: true},
			{Name: "ip-not-advanced", File: "fast/var_set.go", Old: "= val\n\n\t\t\t\t\t\tenv.IP++\n\t\t\t\t\t\treturn env.Code[env.IP], env", New: "= val\n\n\t\t\t\t\t\treturn env.Code[env.IP], env", Nth: 1},
			{Name: "map-key-evaluated-twice", File: "fast/place_ops.go", Old: "lhs.SetMapIndex(key, xr.ValueOf(result))", New: "lhs.SetMapIndex(keyfun(env), xr.ValueOf(result))", Nth: 30},
			{Name: "blank-target-takes-two-place-path", File: "fast/assignment.go", Old: " &&\n\t\tassign[0].hasSetter() && assign[1].hasSetter() {", New: " {"},
			{Name: "stores-before-rhs", File: "fast/assignment.go", Old: "val1 := dup(efuns[1](env))\n\t\t\t\tassign[0].setvar(env, val0)", New: "assign[0].setvar(env, val0)\n\t\t\t\tval1 := dup(efuns[1](env))"},
			{Name: "key-copy-dropped", File: "fast/assignment.go", Old: "if tmp = a.placekey(env); tmp.CanSet() {\n\t\t\t\ttmp = tmp.Convert(tmp.Type())\n\t\t\t}\n\t\t\tkeys[i] = tmp", New: "keys[i] = a.placekey(env)"},
			{Name: "intbinds-arms-swapped", File: "fast/var_set.go", Old: "intbinds := va.Desc.Class() == IntBind", New: "intbinds := va.Desc.Class() != IntBind", Nth: 1},
			{Name: "dec-compiles-as-add", File: "fast/statement.go", Old: "op = token.SUB\n\t} else {\n\t\top = token.ADD", New: "op = token.ADD\n\t} else {\n\t\top = token.SUB"},
			{Name: "place-shl-dispatched-to-shr", File: "fast/place_ops.go", Old: "\t\tcase token.SHL, token.SHL_ASSIGN:\n\t\t\treturn c.placeShlConst(place, count)\n", New: "\t\tcase token.SHL, token.SHL_ASSIGN:\n\t\t\treturn c.placeShrConst(place, count)\n"},
			{Name: "shl-dispatched-to-shr", File: "fast/var_ops.go", Old: "return c.varShlConst(va, val)", New: "return c.varShrConst(va, val)"},
		},
	})
}

// ---------------------------------------------------------------- C06, C14

var c06Files = []string{"function.go", "call.go", "call0ret1.go", "call1ret1.go", "call2ret1.go", "callnret0.go", "callnret1.go", "call_variadic.go", "call_ellipsis.go", "call_multivalue.go",
	"func0ret0.go", "func0ret1.go", "func1ret0.go", "func1ret1.go", "func2ret0.go", "address.go"}

func poolOwnership(c *Ctx) {
	ruleOwnership(c, "O1-pool-owner", "fast", "Run", "Pool", []string{"fast.newEnv#*", "fast.NewEnv#*", "fast.newEnv4Func#*", "fast.Env.freeEnv#*"}, "the frame pool is private to the allocator")
	ruleOwnership(c, "O1-pool-owner", "fast", "Run", "PoolSize", []string{"fast.newEnv", "fast.NewEnv", "fast.newEnv4Func", "fast.Env.freeEnv"}, "the frame pool is private to the allocator")
}

func init() {
	register(&PropDef{
		ID:    "C06",
		Title: "Function calls and closures behave as in Go regardless of frame recycling",
		Explanation: "Decided: M1 every function literal that captures an *Env bound by an enclosing literal and is not invoked on the spot (616 today) is preceded by thatEnv.MarkUsedByClosure(), so the captured frame chain is never recycled; " +
			"N2 every interpreted function body runs on a frame from newEnv4Func; N1 every frame obtained with newEnv4Func is released with freeEnv4Func on the same variable in the same block, with no return in between and no slot access after release; Q1 every pointer &E.Ints[i] that leaves its expression is preceded by E.IntAddressTaken = true on the same frame; " +
			"FE1 freeEnv returns early for UsedByClosure frames and drops Ints of IntAddressTaken frames before pooling; O1/O2 Run.Pool, Run.PoolSize and Env.UsedByClosure are written only by the allocator / MarkUsedByClosure; " +
			"U sibling uniformity and A3 depth of the fetched function variable and A2 accessor category over the call*ret*/func*ret* specialisations (argument i stored to slot i with the storage of its kind, result read from the result slot). " +
			"V2 the call closures that cache the converted function of a file-level symbol, keyed on the identity of the xreflect.Value in its slot, obtain the symbol through a function that excludes assignable bindings (found F39: a file-level `var f func()` assigned again kept calling the old function); R2 `return` with several named results evaluates and detaches every expression before it sets any result (found F38: `return b, a`); H1 no statement or expression closure writes into a buffer that was allocated once by the enclosing compile function, or returns a value allocated there (recursion and goroutines would share it); N3 every result bind is declared with DeclVar0, which zeroes the slot at each entry (a function left by a recovered panic returns the slot as it is). " +
			"E5 under the test of Call.Ellipsis the function value is invoked through reflect CallSlice only, and never through CallSlice in the opposite branch (f(a, xs...) must not wrap xs again); V3 a memoised callee is refreshed under `remembered value != value just read` and records the value read; Z2 literals that pick argument closures by constant index pick each once. Not decided: variadic packing, multiple results through reflect, recursion depth, that UsedByClosure is sufficient for every escape route (method values).",
		Assumptions: []string{"a frame is reachable after its call only through closures created in literals over it or through &Ints pointers", "reflect.MakeFunc / ValueOf retain the closure they are given"},
		Rules: []func(*Ctx){func(c *Ctx) {
			ruleMarkBeforeEscape(c, "fast", "M1-mark-before-escape")
			ruleEllipsisCallSlice(c, "E5-ellipsis-callslice")
			ruleDistinctPickedElements(c, "Z2-distinct-picked-closures", "fast")
			ruleNewFreePairing(c, "fast", "N1-new-free")
			ruleFuncBodyFrame(c, "fast", "N2-funcbody-frame")
			ruleInteriorPointers(c, "fast", "Q1-interior-pointer")
			ruleFreeEnvStructure(c)
			poolOwnership(c)
			ruleOwnership(c, "O2-usedbyclosure-owner", "fast", "Env", "UsedByClosure", []string{"fast.Env.MarkUsedByClosure", "fast.New", "fast.New#lit", "fast.CompGlobals.NewImport#lit"}, "only the marking walk sets the flag; top-level environments are created marked")
			ruleUniformity(c, "fast", c06Files, "U-uniform")
			ruleUniformity2D(c, "fast", c06Files, "U2-sibling-functions")
			ruleDepth(c, "fast", c06Files, "A3-depth", "A4-storage")
			ruleAccessorFiles(c, "fast", c06Files, "A2-accessor")
			ruleCacheKeys(c, "V2-cache-keys")
			ruleCacheRefreshGuard(c, "V3-cache-refresh")
			ruleNoSharedRuntimeStorage(c, "H1-no-shared-storage")
			ruleResultSlotsZeroed(c, "N3-result-slots-zeroed")
			ruleReturnParallel(c, "R2-return-parallel")
			c.Floor("M1-mark-before-escape", 370)
			c.Floor("N1-new-free", 370)
			c.Floor("Q1-interior-pointer", 60)
			c.Floor("U-uniform", 1500)
			c.Floor("A3-depth", 150)
		}},
		Mutants: []Mutant{
			{Name: "ellipsis-call-through-plain-call", File: "fast/call_ellipsis.go", Old: "\t\t\tretv := callslicexr(funv, argv)\n\t\t\treturn retv[0], retv", New: "\t\t\tretv := callxr(funv, argv)\n\t\t\treturn retv[0], retv", Nth: 4},
			{Name: "unnamed-result-slot-not-zeroed", File: "fast/function.go", Old: "\t\tbind := c.DeclVar0(name, t.Out(i), nil)\n\t\tbinds[i] = bind", New: "\t\tbind := c.NewBind(name, VarBind, t.Out(i))\n\t\tbinds[i] = bind"},
			{Name: "argument-buffer-hoisted-out-of-the-call-closure", File: "fast/builtin.go", Old: "\t\t\t\tret = func(env *Env) xr.Value {\n\t\t\t\t\targs := make([]xr.Value, len(argfunsX1))\n\t\t\t\t\tfor i, argfun := range argfunsX1 {\n\t\t\t\t\t\targs[i] = argfun(env)\n\t\t\t\t\t}\n\t\t\t\t\treturn xr.Append(args[0], args[1:]...)", New: "\t\t\t\targs := make([]xr.Value, len(argfunsX1))\n\t\t\t\tret = func(env *Env) xr.Value {\n\t\t\t\t\tfor i, argfun := range argfunsX1 {\n\t\t\t\t\t\targs[i] = argfun(env)\n\t\t\t\t\t}\n\t\t\t\t\treturn xr.Append(args[0], args[1:]...)"},
			{Name: "mark-dropped-uint8-bool", File: "fast/func1ret1.go", Old: "\n\t\t\t\tenv.MarkUsedByClosure()\n\t\t\t\treturn xr.ValueOf(func(arg0 uint8,\n\n\t\t\t\t) (ret0 bool,", New: "\n\t\t\t\treturn xr.ValueOf(func(arg0 uint8,\n\n\t\t\t\t) (ret0 bool,", Canary: true},
			{Name: "free-dropped", File: "fast/func0ret1.go", Old: "env.freeEnv4Func()", New: "_ = env", Nth: 3, Canary: true},
			{Name: "intaddress-mark-before-walk", File: "fast/address.go", Old: "\t\t\t\t\tfor i := 3; i < upn; i++ {\n\t\t\t\t\t\tenv = env.Outer\n\t\t\t\t\t}\n\n\t\t\t\t\tenv.IntAddressTaken = true\n\t\t\t\t\treturn (*float64)", New: "\t\t\t\t\tenv.IntAddressTaken = true\n\t\t\t\t\tfor i := 3; i < upn; i++ {\n\t\t\t\t\t\tenv = env.Outer\n\t\t\t\t\t}\n\n\t\t\t\t\treturn (*float64)"},
			{Name: "call-cache-for-file-level-variables", File: "fast/call.go", Old: "if sym != nil && sym.Upn == maxdepth-1 && sym.Desc.Class() != FuncBind {\n\t\treturn nil\n\t}", New: "_ = maxdepth"},
			{Name: "one-call-compiler-bypasses-the-gate", File: "fast/call1ret1.go", Old: "funsym := call.funSym(maxdepth)", New: "funsym := call.Fun.Sym"},
			{Name: "return-named-results-sequential", File: "fast/statement.go", Old: "\tif n > 1 && cinfo.NamedResults {", New: "\tif n > 2 && cinfo.NamedResults {"},
			{Name: "return-parallel-not-detached", File: "fast/statement.go", Old: "\t\t\tvals[i] = dup(fun(env))\n\t\t}\n\t\tfor i, assign := range assigns {", New: "\t\t\tvals[i] = fun(env)\n\t\t}\n\t\tfor i, assign := range assigns {"},
			{Name: "call0ret1-string-depth2", File: "fast/call0ret1.go", Old: "fun := env.Outer.Outer.Vals[funindex].Interface().(func() string)", New: "fun := env.Outer.Vals[funindex].Interface().(func() string)"},
			{Name: "freeenv-ignores-closure-flag", File: "fast/compile.go", Old: "\tif env.UsedByClosure {\n\t\t// output.Debugf(\"freeEnv: used by closure, cannot reuse: %p %+v\", env, env)\n\t\treturn\n\t}", New: "\tif env.UsedByClosure && env.Outer == nil {\n\t\treturn\n\t}"},
			{Name: "bool-result-read-from-arg-slot", File: "fast/func1ret1.go", Old: "ret0 = *(*bool)(unsafe.Pointer(&env.Ints[indexes[1]]))", New: "ret0 = *(*bool)(unsafe.Pointer(&env.Ints[indexes[0]]))", Nth: 9},
			{Name: "result-read-after-free", File: "fast/func0ret1.go", Old: "\t\t\t\t\tret0 = resultfun(env)\n\t\t\t\t\tenv.freeEnv4Func()", New: "\t\t\t\t\tenv.freeEnv4Func()\n\t\t\t\t\tret0 = resultfun(env)", Nth: 2},
		},
	})
	register(&PropDef{
		ID:    "C14",
		Title: "REPL-style evaluation, one top-level statement at a time, matches in-order Go",
		Explanation: "Decided (the stable-address clause: a pointer obtained in one evaluation keeps aliasing its variable in every later one): O3 the slot array Env.Ints is (re)assigned only by newEnv, NewEnv, newEnv4Func, freeEnv and prepareEnv; PE1 prepareEnv installs a new array only after the IntAddressTaken error check and publishes cap(Ints) as IntBindMax when an address was taken; " +
			"NB1 a variable becomes an unboxed IntBind only under IntBindMax == 0 || the slots it needs (two for complex128) still fit below IntBindMax; PE3 when prepareEnv grows a slot array the new array is made with the required length before the old contents are copied; PE2 the limit is published before every compilation, not only before every run (found F44: the declaration that followed `p := &x` at slot 1024, or a complex128 at slot 1023, broke the interpreter for good); Q1 every &E.Ints[i] that leaves its expression (all of package fast, including imported interpreted packages) is preceded by E.IntAddressTaken = true on the same frame; A4b every function that addresses a variable's unboxed slot is entered only for IntBind variables (the variable being a parameter, or a local obtained from one of the functions that resolve a user expression to a place: rangeVars, Place, Resolve, ... — that clause found F34); V0 no &E.Vals[i] exists (boxed cells are addressed through reflect, so Vals may grow); V1 assignment code stores into a boxed cell and never replaces it; A3/A4/A5/A6 on the variable-assignment specialisations (the boxed arms are reached mostly by REPL histories). " +
			"NB2 a redeclared name reuses its old slot index only when the conditions on the way exclude the case old kind is not complex128 and new kind is complex128 (boolean evaluation of the guards, other sub-conditions left free); V3 a callee memoised from a file-level slot is refreshed when the slot holds another value (a function redefined in a later evaluation is seen by earlier callers). Not decided: that each evaluation sees the effects of all earlier ones (run-time state), the two-slot complex128 arithmetic on IntBindMax.",
		Assumptions: []string{"reflect.Value.Addr() of a boxed cell does not point into Env.Vals", "Go's append/make semantics"},
		Rules: []func(*Ctx){func(c *Ctx) {
			ruleOwnership(c, "O3-ints-owner", "fast", "Env", "Ints", []string{"fast.newEnv", "fast.NewEnv", "fast.newEnv4Func", "fast.Env.freeEnv", "fast.Interp.prepareEnv", "*#elem"}, "only the allocator and the REPL preparation may move the slot array")
			ruleOwnership(c, "O3-intaddr-owner", "fast", "Env", "IntAddressTaken", []string{"fast.Var.Address", "fast.Env.freeEnv", "fast.Import.intPlace"}, "set where an interior pointer is handed out, cleared only when the array is dropped")
			rulePrepareEnv(c)
			ruleNewBindMax(c)
			ruleBindReuseSlots(c, "NB2-reuse-slots")
			ruleCacheRefreshGuard(c, "V3-cache-refresh")
			rulePrepareBeforeCompile(c)
			ruleGrowKeepsContents(c, "PE3-grow-keeps-contents")
			ruleInteriorPointers(c, "fast", "Q1-interior-pointer")
			ruleIntsGuard(c, "fast", "A4-ints-guard")
			ruleNoValsAddress(c, "fast", "V0-no-vals-address")
			// boxed-storage arms are reached mostly through REPL histories (late declarations after an
			// address was taken): their operator and storage anchors belong to this property too
			opOf := ruleDispatchTables(c, "fast", []string{"fast.Comp.setVar"}, "A5")
			ruleOperatorAnchor(c, "fast", opOf, "A5-operator", "A6-order", nil)
			ruleDepth(c, "fast", []string{"var_ops.go", "var_set.go", "var_shifts.go", "var_set_value.go", "identifier.go", "address.go"}, "A3-depth", "A4-storage")
			ruleNoCellReplacement(c, []string{"var_set.go", "var_set_value.go", "var_ops.go", "var_shifts.go", "place_set.go", "place_ops.go", "place_shifts.go", "place_set_value.go"}, "V1-no-cell-replacement")
			c.Floor("Q1-interior-pointer", 60)
			c.Floor("A4-ints-guard", 18)
		}},
		Mutants: []Mutant{
			{Name: "redeclared-complex-keeps-one-slot", File: "fast/declaration.go", Old: "if bind.Type.Kind() == r.Complex128 || t.Kind() != r.Complex128 {", New: "if bind.Type.Kind() != r.Complex128 || t.Kind() == r.Complex128 {"},
			{Name: "callee-memo-never-refreshed", File: "fast/call0ret1.go", Old: "\t\t\t\t\t\tfunv := env.FileEnv.Vals[funindex]\n\t\t\t\t\t\tif cachedfunv != funv {\n\t\t\t\t\t\t\tcachedfun = funv.Interface().(func() string)", New: "\t\t\t\t\t\tfunv := env.FileEnv.Vals[funindex]\n\t\t\t\t\t\tif cachedfun == nil {\n\t\t\t\t\t\t\tcachedfun = funv.Interface().(func() string)"},
			{Name: "grown-ints-array-made-empty", File: "fast/repl.go", Old: "binds := make([]uint64, min, capacity)", New: "binds := make([]uint64, 0, capacity)"},
			{Name: "range-string-direct-store-any-class", File: "fast/range.go", Old: "direct := placeval != nil && placeval.IsVar() && placeval.Var.Desc.Class() == IntBind", New: "direct := placeval != nil && placeval.IsVar()"},
			{Name: "import-mark-dropped", File: "fast/import.go", Old: "\timpenv.IntAddressTaken = true\n", New: "", Canary: true},
			{Name: "prepareenv-realloc-unchecked", File: "fast/repl.go", Old: "\t\tif env.IntAddressTaken {\n\t\t\tc.Errorf(\"internal error: attempt to reallocate Env.Ints[] after one of its addresses was taken\")\n\t\t}\n", New: "", Canary: true},
			{Name: "newbind-ignores-max", File: "fast/declaration.go", Old: "if (c.IntBindMax == 0 || c.IntBindNum+slots <= c.IntBindMax) &&", New: "if (c.IntBindMax == 0 || c.IntBindNum <= c.IntBindMax) &&\n\t\t\tslots > 0 &&"},
			{Name: "newbind-one-slot-for-complex", File: "fast/declaration.go", Old: "\t\tif t.Kind() == r.Complex128 {\n\t\t\tslots = 2 // complex128 occupies two uint64 slots\n\t\t}\n", New: ""},
			{Name: "intbindmax-published-after-compile-only", File: "fast/repl.go", Old: "\tif env := ir.env; env != nil && env.IntAddressTaken {\n\t\tc.IntBindMax = cap(env.Ints)\n\t}\n", New: ""},
			{Name: "address-mark-on-wrong-frame", File: "fast/address.go", Old: "\t\t\t\t\tenv = env.\n\t\t\t\t\t\tOuter\n\n\t\t\t\t\tenv.IntAddressTaken = true\n\t\t\t\t\treturn (*int)", New: "\t\t\t\t\tenv.IntAddressTaken = true\n\t\t\t\t\tenv = env.\n\t\t\t\t\t\tOuter\n\n\t\t\t\t\treturn (*int)"},
			{Name: "quopow2-guard-dropped", File: "fast/var_ops.go", Old: "\tif va.Desc.Class() != IntBind {\n\t\t// boxed variable: the specialisations below address Env.Ints directly\n\t\treturn nil\n\t}\n", New: ""},
			{Name: "new-ints-writer", File: "fast/compile.go", Old: "\trun.CurrEnv = env.Outer\n\tenv.freeEnv(run)", New: "\trun.CurrEnv = env.Outer\n\tenv.Ints = env.Ints[:0:0]\n\tenv.freeEnv(run)"},
		},
	})
}

func init() {
	register(&PropDef{
		ID:    "C37",
		Title: "REPL command lookup resolves unique prefixes and reports ambiguity",
		Explanation: "Decided: L1 exact-match consultation: before prefixSearch reports ambiguity an equality between the prefix and a command name (binarySearch's found flag or Name == prefix) has been evaluated and returns the exact command — Cmd.Match returns 0 for exact matches and proper prefixes alike, so without it 'or when the prefix equals a command name' cannot hold; " +
			"L2 Add appends, sorts with sortCmdList, then stores, and Add/Del/Lookup index the per-letter table by the first byte of the name; L3 every scan loop of prefixSearch is bounded by len(vec); L4 sortCmdList and binarySearch agree on ascending Name order; L5 an unknown ':' input sets CmdOptForceEval (evaluated as code), an ambiguous one evaluates nothing. " +
			"L5c in Interp.Cmd the command character is dropped from the very string in which it was found (found F49: blanks before the colon). " +
			"L6d a debugger command is accepted only when it matches the typed prefix in every alternative of the condition. " +
			"Not decided: the element shifting arithmetic of removeCmd (needs reasoning about slice lengths, not shape), the contents of the ambiguity list.",
		Assumptions: []string{"sort.Slice, strings.HasPrefix as documented"},
		Rules: []func(*Ctx){ruleCmdLookup, func(c *Ctx) {
			ruleCommandCharRemoval(c, "L5c-command-char-removal")
			ruleDebugLookupConjunction(c, "L6d-debug-lookup-conjunction")
		}},
		Mutants: []Mutant{
			{Name: "debugger-command-selected-by-first-letter-alone", File: "fast/debug/cmd.go", Old: "if found && cmd.Match(prefix) {", New: "if found || cmd.Match(prefix) {"},
			{Name: "command-char-removed-from-untrimmed-input", File: "fast/cmd.go", Old: "\t\t\ti := strings.IndexByte(src, g.ReplCmdChar)\n\t\t\tsrc = src[:i] + \" \" + src[i+1:]", New: "\t\t\tsrc = \" \" + src[1:]"},
			{Name: "exact-flag-discarded", File: "fast/cmd.go", Old: "\tlo, found := binarySearch(vec, prefix)\n\tif found {\n\t\t// exact match: never ambiguous, even if other names extend it\n\t\treturn lo, nil\n\t}\n", New: "\tlo, _ := binarySearch(vec, prefix)\n", Canary: true},
			{Name: "scan-stops-one-short", File: "fast/cmd.go", Old: "for ; hi < n; hi++ {", New: "for ; hi < n-1; hi++ {", Canary: true},
			{Name: "sort-dropped", File: "fast/cmd.go", Old: "\t\tvec = append(vec, cmd)\n\t\tsortCmdList(vec)\n", New: "\t\tvec = append(vec, cmd)\n"},
			{Name: "force-eval-dropped", File: "fast/cmd.go", Old: "\t\t\topt |= base.CmdOptForceEval\n", New: ""},
			{Name: "sort-descending", File: "fast/cmd.go", Old: "return vec[i].Name < vec[j].Name", New: "return vec[i].Name > vec[j].Name"},
			{Name: "del-wrong-key", File: "fast/cmd.go", Old: "\t\tc := name[0]\n\t\tif vec, ok := cmds.m[c]; ok {\n\t\t\tif pos, ok := binarySearch(vec, name); ok {", New: "\t\tc := name[len(name)-1]\n\t\tif vec, ok := cmds.m[c]; ok {\n\t\t\tif pos, ok := binarySearch(vec, name); ok {"},
		},
	})
}

func init() {
	sym := map[string]bool{"go/typeutil.identical": true, "go/typeutil.identicalVar": true, "go/typeutil.sameVarName": true, "go/typeutil.sameFuncName": true, "go/typeutil.sameName": true, "go/typeutil.Identical": true}
	register(&PropDef{
		ID:    "C28",
		Title: "Type identity is a total equivalence consistent with type hashing and type maps",
		Explanation: "Decided: Y1 mirror rule: in identical, identicalVar, sameVarName, sameFuncName, sameName every comparison and every call of a symmetric predicate relates corresponding parts of the two operands (exchanging x and y maps one side onto the other, single-definition locals inlined) and every condition is invariant under the exchange — a necessary condition of symmetry; " +
			"Y2 totality: every implementer of the forked types.Type has its own case in identical and in hashFor (no reachable panic); Y3 pointer parameters of sameName are dereferenced only after an early return taken when they are nil; " +
			"Y6 hash features ⊆ identity features per type constructor (a feature that enters the hash but that identity ignores would give identical types different hashes); Y4 Map.At/Set/Delete locate the bucket with hasher.Hash and compare keys with the same typeutil.Identical; Y5 Map.Set leaves the bucket scan early only on an identical key. " +
			"Y6 a deleted entry (key == nil) is skipped by every scan of a bucket of typeutil.Map, it never ends the scan; Y7 a nil test on one operand of a symmetric predicate of predicates.go is accompanied by the same test on the other. " +
			"Not decided: transitivity, hash quality, the association-list behaviour beyond these clauses.",
		Assumptions: []string{"getter aliases of the forked go/types: ExplicitMethod = Method, NumExplicitMethods = NumMethods (confirmed by reading go/types/type.go)", "reflect pointer identity of *types.TypeName objects"},
		Patterns:    nil,
		Rules: []func(*Ctx){func(c *Ctx) {
			ruleMirror(c, "go/typeutil.identical", 0, 1, sym, "Y1-mirror")
			ruleMirror(c, "go/typeutil.identicalVar", 0, 1, sym, "Y1-mirror")
			ruleMirror(c, "go/typeutil.sameVarName", 0, 1, sym, "Y1-mirror")
			ruleMirror(c, "go/typeutil.sameFuncName", 0, 1, sym, "Y1-mirror")
			ruleTombstoneScan(c, "Y6-tombstone-scan")
			ruleTwoSidedNilGuard(c, "Y7-two-sided-nil-guard")
			ruleTypeSwitchTotal(c, "go/typeutil.identical", "go/types", "Type", "Y2-total")
			ruleTypeSwitchTotal(c, "go/typeutil.Hasher.hashFor", "go/types", "Type", "Y2-total")
			ruleNilGuard(c, "go/typeutil.sameName", "Y3-nil-guard")
			ruleHashSubsetOfIdentity(c, "go/typeutil.identical", "go/typeutil.Hasher.hashFor", "Y6-hash-subset")
			ruleMapPredicate(c)
			c.Floor("Y1-mirror", 20)
			c.Floor("Y2-total", 20)
			c.Floor("Y6-hash-subset", 15)
		}},
		Mutants: []Mutant{
			{Name: "hole-ends-bucket-scan", File: "go/typeutil/map.go", Old: "\t\tfor _, e := range m.table[m.hasher.Hash(key)] {\n\t\t\tif e.key != nil && Identical(key, e.key) {", New: "\t\tfor _, e := range m.table[m.hasher.Hash(key)] {\n\t\t\tif e.key == nil {\n\t\t\t\tbreak\n\t\t\t}\n\t\t\tif Identical(key, e.key) {"},
			{Name: "one-sided-nil-guard", File: "go/typeutil/predicates.go", Old: "\tif v == nil || w == nil {\n\t\treturn v == w", New: "\tif v == nil {\n\t\treturn w == nil"},
			{Name: "embedded-count-from-x", File: "go/typeutil/predicates.go", Old: "nf := y.NumEmbeddeds()", New: "nf := x.NumEmbeddeds()", Canary: true},
			{Name: "struct-tag-same-side", File: "go/typeutil/predicates.go", Old: "cmpTags && x.Tag(i) != y.Tag(i) ||", New: "cmpTags && x.Tag(i) != x.Tag(i) ||"},
			{Name: "basic-hashed-by-name", File: "go/typeutil/map.go", Old: "\t\treturn uint32(t.Kind())\n", New: "\t\treturn hashString(t.Name())\n", Canary: true},
			{Name: "delete-uses-other-identity", File: "go/typeutil/map.go", Old: "if e.key != nil && Identical(key, e.key) {\n\t\t\t\t// We can't compact", New: "if e.key != nil && types.Identical(key, e.key) {\n\t\t\t\t// We can't compact"},
			{Name: "set-stops-at-first-hole", File: "go/typeutil/map.go", Old: "\t\t\t\thole = &bucket[i]\n", New: "\t\t\t\thole = &bucket[i]\n\t\t\t\tbreak\n"},
			{Name: "samename-nil-and", File: "go/typeutil/predicates.go", Old: "if xpkg == nil || ypkg == nil {", New: "if xpkg == nil && ypkg == nil {"},
			{Name: "chan-arm-removed-from-hash", File: "go/typeutil/map.go", Old: "\tcase *types.Chan:\n\t\treturn 9127 + 2*uint32(t.Dir()) + 3*h.Hash(t.Elem())\n", New: ""},
			{Name: "map-elem-compared-with-key", File: "go/typeutil/predicates.go", Old: "identical(x.Key(), y.Key(), cmpTags, p) && identical(x.Elem(), y.Elem(), cmpTags, p)", New: "identical(x.Key(), y.Key(), cmpTags, p) && identical(x.Elem(), y.Key(), cmpTags, p)"},
		},
	})
}

func depRules(c *Ctx) {
	ruleMapRangeDeterminism(c, "base/dep", "D1-map-range")
	ruleOrderTaint(c, "base/dep", "D2-order-taint", map[string]bool{"SortByPos": true, "Sort": true, "sort_unique_inplace": true}, map[string]bool{"Map": true, "Print": false})
	ruleChainStride(c, []string{"base/dep"}, "D3-stride")
	ruleDepScopes(c)
	ruleDepGraphStructure(c)
	ruleAppendAlias(c, "base/dep", "D7-append-alias")
	ruleCompileSorts(c)
	ruleConstDepsPairing(c, "D11-constdeps-pairing")
	ruleSelfDependency(c, "D12-self-dependency")
	ruleQueuePartition(c, "D13-queue-partition")
	ruleDepMapPerName(c, "D14-depmap-per-name")
	c.Floor("D1-map-range", 8)
	c.Floor("D2-order-taint", 6)
	c.Floor("D3-stride", 1)
}

func init() {
	muts := []Mutant{
		{Name: "islocal-stride-two", File: "base/dep/scope.go", Old: "for ; s.Outer != nil; s = s.Outer {", New: "for ; s.Outer != nil; s = s.Outer.Outer {", Canary: true},
		{Name: "visit-ranges-edge-map", File: "base/dep/graph.go", Old: "\tfor _, name := range edges {\n\t\tfor _, node := range g.Nodes[name] {", New: "\tfor name := range g.Edges[name] {\n\t\tfor _, node := range g.Nodes[name] {", Canary: true},
		{Name: "typefwd-unsorted", File: "base/dep/graph.go", Old: "sorted = append(sorted, buf.SortByPos()...)", New: "sorted = append(sorted, buf...)"},
		{Name: "typefwd-drops-all-deps", File: "base/dep/graph.go", Old: "g.RemoveDepsFor(Type, list.Map())", New: "g.RemoveDeps(list.Map())"},
		{Name: "append-without-dup", File: "base/dep/scope.go", Old: "deps = append(dup(typDeps), valueDeps...)", New: "deps = append(typDeps, valueDeps...)"},
		{Name: "params-in-throwaway-scope", File: "base/dep/scope.go", Old: "deps := inner.funcSignature(node.Type)", New: "deps := inner.Expr(node.Type)"},
		{Name: "imports-after-decls", File: "base/dep/sorter.go", Old: "\tdecls := s.popPackages()\n\tif len(decls) == 0 {\n\t\tdecls = s.popImports()\n\t}\n\tif len(decls) == 0 {\n\t\tdecls = s.popDecls()\n\t}", New: "\tdecls := s.popPackages()\n\tif len(decls) == 0 {\n\t\tdecls = s.popDecls()\n\t}\n\tif len(decls) == 0 {\n\t\tdecls = s.popImports()\n\t}"},
		{Name: "min-select-first-found", File: "base/dep/graph.go", Old: "if ret == nil || decl.Pos < pos {", New: "if ret == nil || pos < 0 {"},
		{Name: "repeated-const-loses-dependencies", File: "base/dep/scope.go", Old: "\t\t\t\tvalue = defaults.Values[i]\n\t\t\t\tdeps = append(dup(deps), defaults.ValueDeps[i]...)\n\t\t\t}", New: "\t\t\t\tvalue = defaults.Values[i]\n\t\t\t}\n\t\t\tif i < len(node.Values) {\n\t\t\t\tdeps = append(dup(deps), defaults.ValueDeps[i]...)\n\t\t\t}"},
		{Name: "variable-self-reference-dropped", File: "base/dep/decl.go", Old: "\tdecl := NewDecl(Var, ident.Name, node, ident.Pos(), deps)\n", New: "\tdecl := NewDecl(Var, ident.Name, node, ident.Pos(), remove_item_inplace(ident.Name, dup(deps)))\n"},
		{Name: "import-joins-declaration-run", File: "base/dep/sorter.go", Old: "if node != nil && node.Tok != token.IMPORT && node.Tok != token.PACKAGE {", New: "if node != nil && node.Tok != token.PACKAGE {"},
		{Name: "method-self-dependency-by-bare-name", File: "base/dep/decl.go", Old: "\tdeps = sort_unique_inplace(deps)\n\tdeps = remove_item_inplace(name, deps)\n\n\treturn NewDecl(kind, name, node, node.Name.Pos(), deps)", New: "\tdeps = sort_unique_inplace(deps)\n\tdeps = remove_item_inplace(node.Name.Name, deps)\n\n\treturn NewDecl(kind, name, node, node.Name.Pos(), deps)"},
		{Name: "func-type-params-leak", File: "base/dep/scope.go", Old: "case *ast.BlockStmt, *ast.FuncType, *ast.InterfaceType, *ast.StructType:", New: "case *ast.BlockStmt, *ast.InterfaceType, *ast.StructType:"},
	}
	register(&PropDef{
		ID:    "C17",
		Title: "The dependency sorter returns a deterministic, source-stable topological order",
		Explanation: "Decided: D1 every range over a map in base/dep has order-insensitive effects (keyed stores/deletes, counters, minimum selection under a strict order on positions, appends whose slice is sorted before use; callees are summarised, recursion or calls through function values over shared state are reported); " +
			"D2 every slice whose element order comes from a map iteration (DeclMap.List, RemoveTypeFwd, ...) reaches only len, Map(), element-wise updates or a sort (SortByPos / graph.Sort) before any order-sensitive use, in every function and through every caller; D3 chain-walk stride: a loop that examines a scope while following .Outer advances exactly one link per iteration; " +
			"D4 parameters and results are declared in the scope in which the body is scanned; D5 binding constructs of Go have a declaring arm in Scope.AstExpr; D6 a forward type declaration drops dependencies only of Type nodes; D5b every go/ast node type that owns a FieldList (derived from go/ast's type information: FuncType, InterfaceType, StructType) opens a scope of its own in AstExpr, since scanning a Field declares its names; D11 ConstDeps keeps expressions and their dependencies in step: (Type, TypeDeps) and (Values, ValueDeps) are written together and Values[i] is used exactly where ValueDeps[i] is attached, so an implicitly repeated const expression keeps its dependencies; D7 no append inside a loop aliases a slice declared outside it; D8 phases packages, imports, declarations, statements in that order, each run ending at the first node of another class; D9 the declaration-loop error is raised iff both removal steps return nothing. " +
			"Not decided: that the order returned is a topological order of the true dependency relation (run-time graph algorithm).",
		Assumptions: []string{"sort.Slice / sort.Strings as documented", "token.Pos values of distinct declarations are distinct"},
		Rules:       []func(*Ctx){depRules},
		Mutants:     muts,
	})
	register(&PropDef{
		ID:    "C16",
		Title: "Package-level declarations in one evaluation may be written in any order",
		Explanation: "Decided (a spurious or missing dependency is how a valid declaration set gets a wrong value or a false 'declaration loop'): the scope-tracking clauses D3 (stride of Scope.isLocal), D4 (parameter/result scope encloses the body), D5 (binding constructs have declaring arms), D7 (dependency lists of one spec do not alias), plus D1/D2 determinism of the sorter and D10: Comp.Compile routes every multi-declaration input through dep.Sorter.All() before the first compileDecl. " +
			"Not decided: values after evaluation in every permutation.",
		Assumptions: []string{"see C17"},
		Rules:       []func(*Ctx){depRules},
		Mutants:     muts[:2],
	})
}

func init() {
	register(&PropDef{
		ID:    "C22",
		Title: "The uniform syntax-tree wrapper round-trips every node losslessly",
		Explanation: "Decided, for each of the ~50 wrapper types over *ast.N, with the field list of ast.N taken from go/types: W2 Size() is a constant k and Get/Set accept exactly the indexes 0..k-1 (badIndex reports the same k); W3 Get(j) reads field f iff Set(j) writes f; W4 every child field (a node, a slice of nodes, a *FieldList / *BlockStmt ...) is reachable through some index and every scalar field (positions, tokens, flags) is copied by New() or assigned by a Set arm; W5 ToAst wraps *ast.N in that wrapper; W6 slice wrappers use len / X[i]. " +
			"Together these imply that rebuilding any tree through New + Set(i, Get(i)) preserves every field the rule covers. W6 Node() and Interface() of every wrapper return the wrapped node itself (nil when it is nil), never one of its children. Fields the forked parser never fills are frozen exceptions. Not decided: structural equality of a specific tree (implied for all trees by the clauses above).",
		Assumptions: []string{"field lists of go/ast as type-checked by the installed toolchain"},
		Rules:       []func(*Ctx){ruleAstWrappers, func(c *Ctx) { c.Floor("W3-get-set", 60); c.Floor("W4-field-coverage", 70); c.Floor("W5-toast", 40) }},
		Mutants: []Mutant{
			{Name: "set-writes-other-field", File: "ast2/ast_node.go", Old: "\tcase 2:\n\t\tx.X.High = expr\n", New: "\tcase 2:\n\t\tx.X.Low = expr\n", Canary: true},
			{Name: "new-drops-chan-direction", File: "ast2/ast_node.go", Old: "Arrow: x.X.Arrow, Dir: x.X.Dir}}", New: "Arrow: x.X.Arrow}}", Canary: true},
			{Name: "slice3-flag-not-derived", File: "ast2/ast_node.go", Old: "\t\tx.X.Max = expr\n\t\tx.X.Slice3 = expr != nil\n", New: "\t\tx.X.Max = expr\n"},
			{Name: "gendecl-new-drops-tok", File: "ast2/ast_slice.go", Old: "TokPos: x.X.TokPos, Tok: x.X.Tok, Lparen", New: "TokPos: x.X.TokPos, Lparen"},
			{Name: "get-skips-child", File: "ast2/ast_node.go", Old: "return ToAst3(i, x.X.Init, x.X.Tag, x.X.Body)", New: "return ToAst3(i, x.X.Init, x.X.Init, x.X.Body)"},
			{Name: "size-too-small", File: "ast2/ast_node.go", Old: "func (x SliceExpr) Size() int      { return 4 }", New: "func (x SliceExpr) Size() int      { return 3 }"},
			{Name: "node-returns-child", File: "ast2/ast_node.go", Old: "func (x ParenExpr) Node() ast.Node      { return asNode(x.X, x.X == nil) }", New: "func (x ParenExpr) Node() ast.Node      { return asNode(x.X.X, x.X == nil) }"},
			{Name: "toast-wrong-wrapper", File: "ast2/wrap.go", Old: "\t\tx = BadStmt{node}", New: "\t\tx = EmptyStmt{&ast.EmptyStmt{}}"},
		},
	})
}

func init() {
	register(&PropDef{
		ID:    "C26",
		Title: "The multiline reader splits input losslessly at complete-statement boundaries",
		Explanation: "Decided: R1 the only non-error exit of the read loop is nested under paren <= 0 && !ignorenl && m == mNormal (so a chunk never ends inside a string, raw string, rune, comment or open bracket as tracked by the mode machine) and the only return inside a line is the invalid-character error; R2 every line read is appended whole to buf before any exit and the chunk returned is exactly buf; R3 the input bytes are modified only to turn '#!' into '//'; R4 a line comment ends with its line; R7 the operator look-ahead states (after + - /) hand the look-ahead character back to the normal state, so a bracket or quote right after an operator is counted; " +
			"R5 all 14 modes have an arm and a name; R6 the transition table of the literal/comment modes (opening quote, escape, terminator), the bracket counters and the set of continuation characters agree with Go's lexical structure, and a literal/comment mode returns to mNormal only on its terminator. " +
			"R6 also: a run of stars keeps the after-a-star state, so that a comment may end with **/ (found F46); R9 inside a string or rune literal only a newline aborts the chunk, as in the Go scanner (found F47: a literal TAB was rejected). " +
			"R10 a Readline over a bufio reader returns the bytes it read together with the error (a last line without newline arrives with io.EOF); R11 after a + or - that is not doubled the newline is ignored unconditionally. " +
			"Not decided: lastIsKeywordIgnoresNl, interaction of +/- modes with ++/--, that tracking at byte level matches the Go scanner on every input.",
		Assumptions: []string{"Go lexical grammar for string, rune, raw string and comment delimiters"},
		Rules: []func(*Ctx){ruleMultilineReader, func(c *Ctx) {
			c.Floor("R6-transitions", 12)
			c.Floor("R5-modes", 12)
			c.Floor("R1-exit-condition", 2)
			ruleReadKeepsPartialLine(c, "R10-read-keeps-partial-line")
			rulePlusMinusContinuation(c, "R11-plus-minus-continuation")
		}},
		Mutants: []Mutant{
			{Name: "partial-last-line-dropped-at-eof", File: "base/readline.go", Old: "\treturn line, err\n", New: "\tif err != nil {\n\t\treturn nil, err\n\t}\n\treturn line, nil\n", Nth: 1},
			{Name: "comment-star-run-reopens-comment", File: "base/read.go", Old: "\t\t\t\tcase '*':\n\t\t\t\t\t// still after a star: the comment may end with \"**/\"\n", New: ""},
			{Name: "tab-inside-string-aborts-chunk", File: "base/read.go", Old: "\t\t\t\t\tif ch == '\\n' {\n\t\t\t\t\t\treturn invalidChar(i, ch, \"string\")", New: "\t\t\t\t\tif ch < ' ' {\n\t\t\t\t\t\treturn invalidChar(i, ch, \"string\")"},
			{Name: "char-after-division-skipped", File: "base/read.go", Old: "\t\t\t\t\t\tgoto again\n", New: "\t\t\t\t\t\tif ch == 0 {\n\t\t\t\t\t\t\tgoto again\n\t\t\t\t\t\t}\n", Canary: true},
			{Name: "exit-ignores-mode", File: "base/read.go", Old: "if paren <= 0 && !ignorenl && m == mNormal && (firstToken >= 0 || !optAllComments) {", New: "if paren <= 0 && !ignorenl && (firstToken >= 0 || !optAllComments) {", Canary: true},
			{Name: "rawstring-closed-by-doublequote", File: "base/read.go", Old: "\t\t\t\tcase '`':\n\t\t\t\t\tm = mNormal\n", New: "\t\t\t\tcase '`', '\"':\n\t\t\t\t\tm = mNormal\n", Canary: true},
			{Name: "line-appended-after-exit-check", File: "base/read.go", Old: "\t\tbuf = append(buf, line...)\n\t\tif m == mLineComment {\n\t\t\tm = mNormal\n\t\t}\n\t\tif err != nil {\n\t\t\tbreak\n\t\t}\n", New: "\t\tif m == mLineComment {\n\t\t\tm = mNormal\n\t\t}\n\t\tif err != nil {\n\t\t\tbreak\n\t\t}\n\t\tbuf = append(buf, line...)\n"},
			{Name: "string-escape-dropped", File: "base/read.go", Old: "\t\t\tcase mString:\n\t\t\t\tswitch ch {\n\t\t\t\tcase '\\\\':\n\t\t\t\t\tm = mStringEscape\n", New: "\t\t\tcase mString:\n\t\t\t\tswitch ch {\n\t\t\t\tcase '\\\\':\n\t\t\t\t\tm = mString\n"},
			{Name: "closing-bracket-not-counted", File: "base/read.go", Old: "case ')', ']', '}':", New: "case ')', '}':"},
			{Name: "comma-does-not-continue", File: "base/read.go", Old: "case '!', '%', '&', '*', ',', '<', '=', '>', '^', '|':", New: "case '!', '%', '&', '*', '<', '=', '>', '^', '|':"},
			{Name: "linecomment-never-ends", File: "base/read.go", Old: "\t\tif m == mLineComment {\n\t\t\tm = mNormal\n\t\t}\n", New: ""},
		},
	})
}

func init() {
	register(&PropDef{
		ID:    "C34",
		Title: "Generic-contract methods on basic and container types agree with Go operators",
		Explanation: "Decided, for every one of the ~220 closures installed by addBasicTypeMethodsCTI: G2 the method name -> operator table given by the property itself (Equal ==, Less <, Add + ... AndNot &^, Lsh <<, Rsh >>, Neg -x, Not !x / ^x, Cmp three-way shape, Real/Imag/Len builtins): the closure applies exactly that Go operator; G3 operands in order (a op b, the receiver placeholder unused); G4 operand and result types are the kind's own type (bool for Equal/Less, int for Cmp); " +
			"G5 per kind, the set of methods given a body equals the set declared by go/types makeBasicMethods for that kind; G6 every container method registered with n operands is implemented by a function that uses each of its n operands and none beyond; U sibling uniformity across kinds in cti_basic_method.go and cti_method.go. The oracle is Go's own operator on the labelled type. " +
			"G7 the container methods Len and Cap are answered by the reflect method of the same name. " +
			"Not decided: container methods implemented through reflect beyond uniformity (Index, Append, Copy ... are reflect calls trusted to equal the builtins).",
		Assumptions: []string{"Go operator semantics on basic types", "reflect container operations equal the corresponding builtins"},
		Rules: []func(*Ctx){ruleContractMethods, func(c *Ctx) {
			ruleCtiArity(c, "G6-container-arity")
			ruleCtiPrimitiveName(c, "G7-cti-primitive-name")
			ruleUniformity(c, "xreflect", []string{"cti_basic_method.go", "cti_method.go"}, "U-uniform")
			c.Floor("G2-method-operator", 130)
			c.Floor("G4-method-types", 130)
			c.Floor("G5-method-set", 15)
			c.Floor("U-uniform", 150)
		}},
		Mutants: []Mutant{
			{Name: "cap-answers-with-len", File: "xreflect/cti_method.go", Old: "\t\tr.Indirect(v[0]).Cap(),\n", New: "\t\tr.Indirect(v[0]).Len(),\n"},
			{Name: "uint16-rem-becomes-quo", File: "xreflect/cti_basic_method.go", Old: "b uint16,\n\n\t\t\t\t) uint16 {\n\t\t\t\t\treturn a % b", New: "b uint16,\n\n\t\t\t\t) uint16 {\n\t\t\t\t\treturn a / b", Canary: true},
			{Name: "float64-sub-operands-swapped", File: "xreflect/cti_basic_method.go", Old: "b float64,\n\n\t\t\t\t) float64 {\n\t\t\t\t\treturn a - b", New: "b float64,\n\n\t\t\t\t) float64 {\n\t\t\t\t\treturn b - a", Canary: true},
			{Name: "int8-cmp-inverted", File: "xreflect/cti_basic_method.go", Old: "b int8,\n\n\t\t\t\t) int {\n\t\t\t\t\tif a < b {\n\t\t\t\t\t\treturn -1", New: "b int8,\n\n\t\t\t\t) int {\n\t\t\t\t\tif a < b {\n\t\t\t\t\t\treturn 1"},
			{Name: "string-less-becomes-leq", File: "xreflect/cti_basic_method.go", Old: "b string,\n\n\t\t\t\t) bool {\n\t\t\t\t\treturn a < b", New: "b string,\n\n\t\t\t\t) bool {\n\t\t\t\t\treturn a <= b"},
			{Name: "declared-method-without-body", File: "go/types/cti_method.go", Old: "\t\t\tnewFunc(\"AndNot\", sig_binary),\n", New: "\t\t\tnewFunc(\"AndNot\", sig_binary),\n\t\t\tnewFunc(\"Nand\", sig_binary),\n"},
		},
	})
}

// ---------------------------------------------------------------- C07 C10 C12 C13 C33

func runStateOwnership(c *Ctx) {
	ruleOwnership(c, "O-run-state", "fast", "Run", "PanicFun", []string{"fast.pushDefer", "fast.callRecover"}, "set when a deferred call starts while panicking, cleared by a successful recover")
	ruleOwnership(c, "O-run-state", "fast", "Run", "Panic", []string{"fast.reExecWithFlags", "fast.callRecover"}, "captured by rundefer, consumed by recover")
	ruleOwnership(c, "O-run-state", "fast", "Run", "DeferOfFun", []string{"fast.pushDefer", "fast.popDefer"}, "maintained by the push/pop pair only")
	ruleOwnership(c, "O-run-state", "fast", "Run", "InstallDefer", []string{"fast.Comp.Defer", "fast.reExecWithFlags"}, "written by the defer statement, consumed by the executor")
	ruleOwnership(c, "O-run-state", "fast", "Run", "Interrupt", []string{"fast.exec", "fast.reExecWithFlags", "fast.restore"}, "the trampoline statement belongs to the executor")
	ruleOwnership(c, "O-run-state", "fast", "Run", "CurrEnv", []string{"fast.Env.FreeEnv", "fast.Env.freeEnv4Func", "fast.NewEnv", "fast.newEnv4Func", "fast.Run.setCurrEnv", "fast.restore"}, "the call stack top is moved by frame allocation/release and restored by restore/setCurrEnv")
	ruleOwnership(c, "O-run-state", "fast", "Run", "DebugDepth", []string{"fast.Run.applyDebugOp"}, "debugger only")
}

func init() {
	register(&PropDef{
		ID:    "C07",
		Title: "defer, panic and recover follow Go semantics in interpreted code",
		Explanation: "Decided: X4 in callRecover the panic value is read and consumed only after three early returns (not directly inside a deferred call; no panic in progress; the deferred call belongs to another frame than the panicking one), each a disjunct of its condition, and a successful recover clears Panic and PanicFun; " +
			"X5 rundefer runs the deferred function between pushDefer and a popDefer registered with Go's defer and re-raises through maybeRepanic only while panicking; every installed function is taken from run.InstallDefer once and registered with Go's own defer (LIFO order and execution during panics are then Go's); Comp.Defer evaluates the function value and arguments when the statement executes, copies them when settable, never inside the installed closure; code with defer selects the flag-aware executor; " +
			"X6 pushDefer/popDefer save and restore DeferOfFun and the defer flag position by position, and every flag pushDefer raises with a constant is lowered by popDefer; O ownership of Run.PanicFun/Panic/DeferOfFun/InstallDefer; S1 statement protocol of the defer/return statements. " +
			"E3 the function value and the arguments of a defer statement, evaluated when the statement runs, are detached from the variables they were read from (a settable value is replaced by a copy) before they are kept for the later call. " +
			"F2p no keyed literal of the code buffer (fast.Code) or of the signal record (base.Signals) that names only some fields is stored into existing storage (the WithDefers flag, a pending signal would be cleared); R3o callRecover gives up when Run.DeferOfFun != Run.PanicFun and pushDefer records the panicking frame under the bare condition `panicking`; N1d the release of a function frame is never deferred. Not decided: event-by-event order for nested panics, modification of named results.",
		Assumptions: []string{"Go's own defer/recover for the closures registered with defer", "reflect.Value.Call"},
		Rules: []func(*Ctx){func(c *Ctx) {
			ruleRecoverGuards(c, "X4-recover-guards")
			ruleDeferProtocol(c, "X5-defer-protocol")
			ruleSaveRestore(c, "X6-save-restore")
			rulePartialOverwrite(c, "F2p-partial-overwrite", "fast", []string{"base.Signals", "fast.Code"})
			ruleRecoverOwner(c, "R3o-recover-owner")
			ruleFreeNotDeferred(c, "N1d-free-not-deferred")
			ruleDetachedOperands(c, "E3-detached-operands", "fast.Comp.Defer")
			runStateOwnership(c)
			ruleStmtProtocol(c, "fast", []string{"statement.go", "code.go", "builtin.go"}, "S1-stmt-protocol")
		}},
		Mutants: []Mutant{
			{Name: "truncate-forgets-defer-flag", File: "fast/code.go", Old: "\tif len(code.List) > n {\n\t\tcode.List = code.List[0:n]\n\t}\n\tif len(code.DebugPos) > n {\n\t\tcode.DebugPos = code.DebugPos[0:n]\n\t}\n", New: "\tif len(code.List) > n {\n\t\t*code = Code{List: code.List[0:n], DebugPos: code.DebugPos[0:n]}\n\t}\n"},
			{Name: "popdefer-leaves-start-flag-set", File: "fast/code.go", Old: "\trun.DeferOfFun = deferOf\n\trun.ExecFlags.SetStartDefer(false)\n", New: "\trun.DeferOfFun = deferOf\n"},
			{Name: "recover-frame-check-behind-debug", File: "fast/builtin.go", Old: "\tif run.DeferOfFun != run.PanicFun {\n\t\tif debug {", New: "\tif debug && run.DeferOfFun != run.PanicFun {\n\t\tif debug {", Canary: true},
			{Name: "recover-outside-defer-allowed", File: "fast/builtin.go", Old: "\tif !run.ExecFlags.IsDefer() {\n\t\tif debug {\n\t\t\toutput.Debugf(\"recover() not directly inside a defer\")\n\t\t}\n\t\treturn nilInterface\n\t}\n", New: ""},
			{Name: "recover-does-not-consume", File: "fast/builtin.go", Old: "\trun.Panic = nil\n\trun.PanicFun = nil\n\treturn v", New: "\trun.Panic = nil\n\treturn v"},
			{Name: "pushdefer-returns-new-frame", File: "fast/code.go", Old: "return g, deferOf_, g.ExecFlags.IsDefer()", New: "return g, deferOf, g.ExecFlags.IsDefer()", Canary: true},
			{Name: "popdefer-not-deferred", File: "fast/code.go", Old: "\t\tdefer popDefer(pushDefer(run, funenv, panicking))\n\t\tpanicking2 = true // detect panics inside defer\n\t\tfun()\n\t\tpanicking2 = false\n", New: "\t\tg0, d0, i0 := pushDefer(run, funenv, panicking)\n\t\tpanicking2 = true // detect panics inside defer\n\t\tfun()\n\t\tpanicking2 = false\n\t\tpopDefer(g0, d0, i0)\n"},
			{Name: "repanic-unconditional", File: "fast/code.go", Old: "\t\tif panicking {\n\t\t\tpanicking = maybeRepanic(run)\n\t\t}", New: "\t\tpanicking = maybeRepanic(run)"},
			{Name: "defer-callee-not-copied", File: "fast/statement.go", Old: "\t\tf := fun(env)\n\t\tif f.CanSet() {\n\t\t\tf = f.Convert(f.Type()) // make a copy\n\t\t}\n", New: "\t\tf := fun(env)\n"},
			{Name: "defer-args-evaluated-late", File: "fast/statement.go", Old: "\t\t\trun.InstallDefer = func() {\n\t\t\t\tf.Call(args)\n\t\t\t}", New: "\t\t\trun.InstallDefer = func() {\n\t\t\t\tfun(env).Call(args)\n\t\t\t}"},
		},
	})
	register(&PropDef{
		ID:    "C12",
		Title: "A panic escaping an evaluation at any point leaves later evaluations unaffected",
		Explanation: "Decided: X6 save/restore correspondence: reExecWithFlags registers `defer restore(run, IsDefer(), run.Interrupt, run.CurrEnv)` before it modifies any of them, with each argument a read at entry of exactly the state restore writes back from the matching parameter; restore also clears the synchronous signal; pushDefer/popDefer correspond position by position and popDefer is registered with defer (X5), maybeRepanic is guarded by the frame's own panicking flag; " +
			"RunExpr/DebugExpr wrap the evaluation in `defer run.setCurrEnv(run.setCurrEnv(env))`; every executor entry clears a stale synchronous signal and prepareEnv clears both signals before each evaluation; O ownership: PanicFun, Panic, DeferOfFun, InstallDefer, Interrupt, CurrEnv, DebugDepth are written only by the enumerated executor/allocator/debugger functions. " +
			"X8 option bits cleared for one forced evaluation (`:expr` in macro-expand-only or collecting mode) are restored by a deferred function registered before the evaluation starts, in both interpreters. X9 a field saved in a local and restored in a deferred closure is restored by a direct statement of that closure, before any return in it (EvalReader, EvalFile, Repl: also on the panicking path); N1d the release of a function frame is never deferred (it would be recycled while the panic that started in it unwinds); R3o / F2p as in C07. Not decided: state held outside Run (frames of an unwound exec are simply dropped), side effects of the aborted code, option bits toggled by the REPL driver.",
		Assumptions: []string{"Go runs deferred calls during panics"},
		Rules: []func(*Ctx){func(c *Ctx) {
			ruleSaveRestore(c, "X6-save-restore")
			ruleOptionRestore(c, "X8-option-restore")
			ruleExactOptionRestore(c, "X8b-exact-option-restore")
			ruleDeferProtocol(c, "X5-defer-protocol")
			rulePartialOverwrite(c, "F2p-partial-overwrite", "fast", []string{"base.Signals", "fast.Code"})
			ruleRecoverOwner(c, "R3o-recover-owner")
			ruleFreeNotDeferred(c, "N1d-free-not-deferred")
			ruleUnconditionalRestore(c, "X9-unconditional-restore", "fast", "classic", "base")
			runStateOwnership(c)
		}},
		Mutants: []Mutant{
			{Name: "frame-release-deferred", File: "fast/func0ret0.go", Old: "\t\t\tenv := newEnv4Func(env, nbind, nintbind, debugC)\n\t\t\t// execute the body\n\t\t\tfuncbody(env)\n\n\t\t\tenv.freeEnv4Func()\n", New: "\t\t\tenv := newEnv4Func(env, nbind, nintbind, debugC)\n\t\t\tdefer env.freeEnv4Func()\n\t\t\t// execute the body\n\t\t\tfuncbody(env)\n"},
			{Name: "panicking-frame-recorded-once", File: "fast/code.go", Old: "\tif panicking {\n\t\tg.PanicFun = deferOf", New: "\tif panicking && g.PanicFun == nil {\n\t\tg.PanicFun = deferOf"},
			{Name: "evalreader-restores-only-without-panic", File: "fast/interpreter.go", Old: "\t\tg.Readline = savein\n\t\tg.Options = saveopts\n\t\tif rec := recover(); rec != nil {", New: "\t\tif rec := recover(); rec == nil {\n\t\t\tg.Readline = savein\n\t\t\tg.Options = saveopts\n\t\t} else {"},
			{Name: "forced-eval-options-restored-only-on-success", File: "fast/repl.go", Old: "\tif toenable := cmdOptForceEval(g, opt); toenable != 0 {\n\t\tdefer func() {\n\t\t\tg.Options |= toenable\n\t\t}()\n\t}\n", New: "\ttoenable := cmdOptForceEval(g, opt)\n\tdefer func() {\n\t\tif !trap {\n\t\t\tg.Options |= toenable\n\t\t}\n\t}()\n"},
			{Name: "restore-saves-after-modification", File: "fast/code.go", Old: "\tdefer restore(run, run.ExecFlags.IsDefer(), run.Interrupt, caller)\n\tef.SetDefer(ef.StartDefer())\n", New: "\tef.SetDefer(ef.StartDefer())\n\tdefer restore(run, run.ExecFlags.IsDefer(), run.Interrupt, caller)\n", Canary: true},
			{Name: "restore-drops-currenv", File: "fast/code.go", Old: "\trun.Interrupt = interrupt\n\trun.CurrEnv = caller\n", New: "\trun.Interrupt = interrupt\n"},
			{Name: "runexpr-currenv-not-deferred", File: "fast/repl.go", Old: "\tdefer run.setCurrEnv(run.setCurrEnv(env))\n\n\tfun := e.AsXV(COptKeepUntyped)\n\tv, vs := fun(env)\n\treturn reflect.PackValues", New: "\told := run.setCurrEnv(env)\n\n\tfun := e.AsXV(COptKeepUntyped)\n\tv, vs := fun(env)\n\trun.setCurrEnv(old)\n\treturn reflect.PackValues", Nth: 1, Canary: true},
			{Name: "prepareenv-keeps-async", File: "fast/repl.go", Old: "\tg.Signals.Sync = base.SigNone\n\tg.Signals.Async = base.SigNone\n", New: "\tg.Signals.Sync = base.SigNone\n"},
			{Name: "new-panicfun-writer", File: "fast/code.go", Old: "\trun.Signals.Sync = base.SigNone\n\tif sig := run.Signals.Async; sig == base.SigInterrupt {", New: "\trun.Signals.Sync = base.SigNone\n\trun.PanicFun = caller\n\tif sig := run.Signals.Async; sig == base.SigInterrupt {"},
			{Name: "repanic-unconditional", File: "fast/code.go", Old: "\t\tif panicking {\n\t\t\tpanicking = maybeRepanic(run)\n\t\t}", New: "\t\tpanicking = maybeRepanic(run)"},
		},
	})
	register(&PropDef{
		ID:    "C13",
		Title: "Interrupting running code stops it promptly and leaves the interpreter usable",
		Explanation: "Decided: X7 poll bound: in exec and reExecWithFlags every loop that dispatches statements reads run.Signals on every iteration, and the number of statement dispatches between two polls is a constant computed and reported by the checker (15 today; the rule requires <= 64); before the unbounded loop run.Interrupt is spinInterrupt so jumping statements come back to the poll; Interp.Interrupt reaches a store to Signals.Async; the signal is SigInterrupt unless both debugger options are set; " +
			"applyAsyncSignal consumes the signal (X7c: clears it unconditionally before it acts, so that deferred functions run by the unwinding are not aborted too) and panics with SigInterrupt; restore re-raises a pending interrupt in the caller; spinInterrupt applies pending asynchronous signals; X6 restore/prepareEnv leave Run clean for the next evaluation (shared with C12). " +
			"F2p the signal record of a Run is never overwritten by a literal that names only Sync (a pending Async interrupt would be lost); R3o recover() (which also sees the interrupt panic) gives up unless the deferred call belongs to the panicking frame. Not decided: latency in wall-clock terms, code blocked inside compiled functions or channel operations.",
		Assumptions: []string{"every statement closure returns in bounded time unless it calls compiled code"},
		Rules: []func(*Ctx){func(c *Ctx) {
			ruleInterruptPolling(c, "X7-interrupt-polling")
			ruleConsumeBeforeRaise(c, "X7c-consume-before-raise")
			ruleRunRegistered(c, "X3r-run-registered")
			ruleSaveRestore(c, "X6-save-restore")
			rulePartialOverwrite(c, "F2p-partial-overwrite", "fast", []string{"base.Signals", "fast.Code"})
			ruleRecoverOwner(c, "R3o-recover-owner")
		}},
		Mutants: []Mutant{
			{Name: "multi-value-return-wipes-pending-signal", File: "fast/statement.go", Old: "\t\tg := env.Run\n\t\tg.Signals.Sync = base.SigReturn\n\t\treturn g.Interrupt, env\n\t}, node.Pos())\n}", New: "\t\tg := env.Run\n\t\tg.Signals = base.Signals{Sync: base.SigReturn}\n\t\treturn g.Interrupt, env\n\t}, node.Pos())\n}", Nth: 2},
			{Name: "recover-owner-test-weakened", File: "fast/builtin.go", Old: "if run.DeferOfFun != run.PanicFun {", New: "if run.DeferOfFun == nil {"},
			{Name: "unbounded-loop-never-polls", File: "fast/code.go", Old: "\t\t\tstmt, env = stmt(env)\n\n\t\t\tif !run.Signals.IsEmpty() {\n\t\t\t\tbreak\n\t\t\t}\n", New: "\t\t\tstmt, env = stmt(env)\n\n\t\t\tif stmt == nil {\n\t\t\t\tbreak\n\t\t\t}\n", Canary: true},
			{Name: "interrupt-not-stored", File: "fast/code.go", Old: "\trun.Signals.Async = sig\n}", New: "\t_ = sig\n}", Canary: true},
			{Name: "async-signal-cleared-after-the-panic", File: "fast/code.go", Old: "func (run *Run) applyAsyncSignal(sig base.Signal) {\n\trun.Signals.Async = base.SigNone\n\tswitch sig {", New: "func (run *Run) applyAsyncSignal(sig base.Signal) {\n\tdefer func() { run.Signals.Async = base.SigNone }()\n\tswitch sig {"},
			{Name: "async-signal-ignored", File: "fast/code.go", Old: "\tdefault:\n\t\tpanic(base.SigInterrupt)\n", New: "\tdefault:\n\t\tbreak\n"},
			{Name: "restore-drops-pending-interrupt", File: "fast/code.go", Old: "\tif sig := run.Signals.Async; sig == base.SigInterrupt {\n\t\t// do NOT handle async SigDebug here\n\t\trun.applyAsyncSignal(sig)\n\t}\n", New: ""},
			{Name: "ctrl-c-always-debugger", File: "fast/code.go", Old: "if run.Options&CtrlCDebug == CtrlCDebug {", New: "if run.Options&CtrlCDebug != 0 {"},
		},
	})
	register(&PropDef{
		ID:    "C33",
		Title: "Goroutine identity and per-goroutine runtime state are never shared",
		Explanation: "Decided: X3 in newEnv4Func the frame pool is reached only through the record selected by `if run.goid != goid { run = run.getRun4Goid(goid) }` with goid = gls.GoID() read in the same call, the new frame is tagged with that record and becomes its CurrEnv; getRun4Goid registers the record it creates; Comp.Go creates the goroutine's record with its own id, registers it and unregisters it with defer; " +
			"X1 lock set: every access of IrGlobals.gls lies between lock.Lock() and lock.Unlock() of the same object; X2 SpinLock.Lock returns only after a successful CompareAndSwapInt32(s,0,1); O ownership: Run.goid is written only where a record is created, Run.Pool/PoolSize only by the allocator; N2 every interpreted function body runs on a frame obtained with newEnv4Func (never NewEnv); U sibling uniformity of func*ret*.go. " +
			"X3r every creation of a per-goroutine record (newTopInterp, getRun4Goid, Comp.Go) is followed in the same function by its registration under its own goroutine id; X3g the record of a new goroutine is attached to the frame created for it, never to the parent's frame. " +
			"O4 a frame is released into the Run recorded in the frame itself (FreeEnv and freeEnv4Func read the Run field of the receiver, not that of another frame of the chain). Not decided: uniqueness of GoID among live goroutines (assembly, trusted), schedules.",
		Assumptions: []string{"gls.GoID returns a value unique among live goroutines", "sync/atomic semantics"},
		Rules: []func(*Ctx){func(c *Ctx) {
			ruleGoidGate(c, "X3-goid-gate")
			ruleGoAttachesToOwnFrame(c, "X3g-go-own-frame")
			ruleRunRegistered(c, "X3r-run-registered")
			ruleReleaseIntoOwnRun(c, "O4-release-into-own-run")
			ruleLockSet(c, "fast", "IrGlobals", "gls", "lock", "X1-lock-set")
			ruleSpinLock(c, "X2-spinlock")
			ruleOwnership(c, "O-goid-owner", "fast", "Run", "goid", []string{"fast.Run.new#lit", "fast.newTopInterp#lit"}, "a record's goroutine id is fixed when the record is created")
			poolOwnership(c)
			ruleFuncBodyFrame(c, "fast", "N2-funcbody-frame")
			ruleUniformity(c, "fast", []string{"func0ret0.go", "func0ret1.go", "func1ret0.go", "func1ret1.go", "func2ret0.go", "function.go"}, "U-uniform")
			c.Floor("U-uniform", 700)
			c.Floor("X1-lock-set", 3)
		}},
		ThoroughConfigs: []string{"linux/386", "linux/arm64", "darwin/amd64"},
		Mutants: []Mutant{
			{Name: "frame-released-into-declaring-goroutines-pool", File: "fast/compile.go", Old: "func (env *Env) freeEnv4Func() {\n\trun := env.Run\n", New: "func (env *Env) freeEnv4Func() {\n\trun := env.Outer.Run\n"},
			{Name: "main-record-not-registered", File: "fast/interpreter.go", Old: "\tg.gls[goid] = run\n", New: ""},
			{Name: "goroutine-record-attached-to-parent-frame", File: "fast/statement.go", Old: "\t\t\tenv2.Run = tg2\n", New: "\t\t\tenv.Run = tg2\n"},
			{Name: "frame-tagged-with-declaring-goroutine", File: "fast/compile.go", Old: "\t\tenv.Outer = outer\n\t\tenv.Run = run\n\t\tenv.FileEnv = outer.FileEnv\n\t}\n\tenv.DebugComp = debugComp", New: "\t\tenv.Outer = outer\n\t\tenv.Run = outer.Run\n\t\tenv.FileEnv = outer.FileEnv\n\t}\n\tenv.DebugComp = debugComp", Canary: true},
			{Name: "gate-removed", File: "fast/compile.go", Old: "\tif run.goid != goid {\n\t\t// no luck... get the correct ThreadGlobals for goid\n\t\trun = run.getRun4Goid(goid)\n\t}\n", New: "\t_ = goid\n"},
			{Name: "gls-read-unlocked", File: "fast/compile.go", Old: "\tg.lock.Lock()\n\tret := g.gls[goid]\n\tg.lock.Unlock()\n", New: "\tret := g.gls[goid]\n", Canary: true},
			{Name: "spinlock-blind-store", File: "atomic/spinlock.go", Old: "\tfor !atomic.CompareAndSwapInt32((*int32)(s), 0, 1) {\n\t\truntime.Gosched()\n\t}\n", New: "\tfor atomic.LoadInt32((*int32)(s)) != 0 {\n\t\truntime.Gosched()\n\t}\n\tatomic.StoreInt32((*int32)(s), 1)\n"},
			{Name: "goroutine-record-not-unregistered", File: "fast/statement.go", Old: "\t\t\ttg2.glsStore()\n\t\t\tdefer tg2.glsDel()\n", New: "\t\t\ttg2.glsStore()\n"},
			{Name: "one-signature-uses-newenv", File: "fast/func1ret1.go", Old: "env := newEnv4Func(env, nbind, nintbind, debugC)", New: "env := NewEnv(env, nbind, nintbind)", Nth: 77},
		},
	})
	register(&PropDef{
		ID:    "C10",
		Title: "Interpreted goroutines and channels behave as Go permits on every schedule",
		Explanation: "Decided (the race-freedom clause for the interpreter's own shared state, a necessary condition on every schedule): X1 lock set on IrGlobals.gls; X2 SpinLock; X3 Comp.Go evaluates the function value and the arguments in the caller's goroutine before the go statement, the goroutine creates, registers and unregisters (by defer) its own Run record, and newEnv4Func never touches another goroutine's frame pool; " +
			"U sibling uniformity, S1 statement protocol and A2 accessor category over the channel specialisations (Send, Recv, select) in channel.go / select.go. " +
			"H2 no statement or expression closure assigns to a variable of its compile function: compiled closures are shared by every goroutine that executes the same code (known finding F45: the call-site caches cachedfun/cachedfunv of five call compilers, a data race the race detector confirms); " +
			"E3 the function value and the arguments of a go statement are detached from the variables they were read from before the goroutine starts (found F37: `go f(p); p.a = 50` let the goroutine see 50). " +
			"E5 a go statement invokes the function value itself: it reads Call.Ellipsis and uses CallSlice for f(a, xs...) (found F54). S5 every compiler of a send value (statement and select case) converts a constant to the element type; N7 the Value of a constant handed to reflect is tested with IsValid (found F55). D6 every channel type assertion of the specialised send / receive closures has the direction its flag selects (<-chan T under recvonly, chan<- T under sendonly, chan T otherwise); B6 the channel, range and select compilers never use the non-blocking TryRecv / TrySend; S2 the ok variable of a receive in select reads the recvOK slot. Not decided: every schedule-dependent outcome, races inside user data, channel semantics (delegated to reflect.Send/Recv/Select).",
		Assumptions: []string{"reflect.Value.Send/Recv/Select implement Go's channel semantics", "sync/atomic semantics"},
		Rules: []func(*Ctx){func(c *Ctx) {
			ruleLockSet(c, "fast", "IrGlobals", "gls", "lock", "X1-lock-set")
			ruleSpinLock(c, "X2-spinlock")
			ruleGoidGate(c, "X3-goid-gate")
			ruleNoRuntimeWritesToCaptured(c, "H2-no-runtime-write-to-captured")
			ruleNoSharedRuntimeStorage(c, "H1-no-shared-storage")
			ruleGoAttachesToOwnFrame(c, "X3g-go-own-frame")
			ruleDetachedOperands(c, "E3-detached-operands", "fast.Comp.Go")
			ruleSendValueConversion(c, "S5-send-value-conversion")
			ruleSelectRecvOK(c, "S2-select-recvok")
			ruleBlockingChannelOps(c, "B6-blocking-channel-ops", []string{"channel.go", "range.go", "select.go"})
			ruleChanDirAssertion(c, "D6-chan-dir-assertion", []string{"channel.go", "select.go", "range.go"})
			ruleConstantNilValue(c, "N7-constant-nil-value", nil)
			ruleEllipsisCallSlice(c, "E5-ellipsis-callslice")
			ruleUniformity(c, "fast", []string{"channel.go", "select.go"}, "U-uniform")
			ruleStmtProtocol(c, "fast", []string{"channel.go", "select.go", "statement.go"}, "S1-stmt-protocol")
			ruleAccessorFiles(c, "fast", []string{"channel.go", "select.go"}, "A2-accessor")
			c.Floor("U-uniform", 55)
		}},
		Mutants: []Mutant{
			{Name: "recvonly-arm-asserts-bidirectional", File: "fast/channel.go", Old: "channel := channelfun(env).Interface().(<-chan uint8)\n\t\t\t\t\treturn <-channel", New: "channel := channelfun(env).Interface().(chan uint8)\n\t\t\t\t\treturn <-channel", Nth: 1},
			{Name: "range-over-channel-polls", File: "fast/range.go", Old: "_, ok := env.Vals[idxchan].Recv()", New: "_, ok := env.Vals[idxchan].TryRecv()"},
			{Name: "select-ok-reads-value-slot", File: "fast/select.go", Old: "\t\t\t\tidx := bindok.Desc.Index()\n\t\t\t\tc.SetPlace(place, token.ASSIGN, c.exprBool(", New: "\t\t\t\tidx := bind.Desc.Index()\n\t\t\t\tc.SetPlace(place, token.ASSIGN, c.exprBool("},
			{Name: "select-send-case-skips-constant-conversion", File: "fast/select.go", Old: "\t\tif esend.Const() {\n\t\t\t// as Comp.Send does: an untyped constant, or nil, takes the element type\n\t\t\tesend.ConstTo(texpected)\n\t\t} else if tactual == nil || !tactual.AssignableTo(texpected) {", New: "\t\tif tactual == nil || !tactual.AssignableTo(texpected) {"},
			{Name: "send-of-nil-constant-unchecked", File: "fast/channel.go", Old: "\t\tif !v.IsValid() {\n\t\t\t// sending the constant nil: it was converted to telem above\n\t\t\tv = xr.Zero(telem)\n\t\t}\n", New: ""},
			{Name: "go-statement-ignores-ellipsis", File: "fast/statement.go", Old: "\t\t\tif ellipsis {\n\t\t\t\t// go f(a, xs...) passes xs as the variadic slice\n\t\t\t\tfunv.CallSlice(argv)\n\t\t\t} else {\n\t\t\t\tfunv.Call(argv)\n\t\t\t}\n", New: "\t\t\t_ = ellipsis\n\t\t\tfunv.Call(argv)\n"},
			{Name: "select-cases-allocated-once", File: "fast/select.go", Old: "\tc.append(func(env *Env) (Stmt, *Env) {\n\t\tcases := make([]xr.SelectCase, len(entries))\n", New: "\tcases := make([]xr.SelectCase, n)\n\tc.append(func(env *Env) (Stmt, *Env) {\n"},
			{Name: "go-args-evaluated-in-goroutine", File: "fast/statement.go", Old: "\t\t\t\tfunv.Call(argv)\n\t\t\t}\n\t\t}()", New: "\t\t\t\tfunv.Call(append(argv[:0:0], exprfun(env2)))\n\t\t\t}\n\t\t}()", Canary: true},
			{Name: "go-argument-aliases-variable", File: "fast/statement.go", Old: "\t\t\tv := argfun(env2)\n\t\t\tif v.CanSet() {\n\t\t\t\tv = v.Convert(v.Type()) // make a copy\n\t\t\t}\n\t\t\targv[i] = v\n", New: "\t\t\targv[i] = argfun(env2)\n"},
			{Name: "gls-delete-unlocked", File: "fast/compile.go", Old: "\tg.lock.Lock()\n\tdelete(g.gls, goid)\n\tg.lock.Unlock()\n", New: "\tdelete(g.gls, goid)\n", Canary: true},
			{Name: "send-int16-does-not-advance", File: "fast/channel.go", Old: "\t\t\t\t\t\tchannel := channelfun(env).Interface().(chan<- int16)\n\t\t\t\t\t\tchannel <- value\n\t\t\t\t\t\tenv.IP++\n", New: "\t\t\t\t\t\tchannel := channelfun(env).Interface().(chan<- int16)\n\t\t\t\t\t\tchannel <- value\n", Nth: 1},
		},
	})
}

func init() {
	register(&PropDef{
		ID:    "C05",
		Title: "Statement control flow is executed exactly as in Go",
		Explanation: "Decided: S1 every one of the ~3 800 statement closures of package fast returns Code[IP] of the environment it returns after exactly one advance of IP (or Code[t] after IP = t) on every path — an IP that is not advanced, or a statement taken from another frame than the one returned, is the generic control-flow bug; " +
			"J1 in jumpOut and every other depth-specialised jump the frame whose IP is set and whose code is indexed is the one the arm names; J2 break/continue/goto stop at the enclosing function, count the frames to leave after each level and pass the count to jumpOut (D3: the compiler-chain walk advances one link per iteration); " +
			"J3 every late-bound jump target (jump.Cond/Post/Break/..., LoopInfo.Break/Continue) is assigned a code position on every path to the end of its compile function; J4 Comp.Stmt has a case for every statement node of go/ast; U sibling uniformity of the kind-specialised switch / range / select closures (including the arms that are alone in their category, compared modulo storage class); A3 a statement closure that walks Outer links in a counted loop up to the frame of a variable (the count derived from the variable's Upn) accesses that variable's slot on the frame it reached, never on the current one (found F32 in rangeString); G1 the places a for-range statement assigns to (returned by rangeVars) are only tested and assigned with SetPlace(p, ASSIGN, ...), never read, updated in place or re-bound to the loop's own counter, and each assignment is emitted after jump.Start and after an exit test (a statement that can jump to jump.Break) on every path, a direct store being in the continuing branch of that test (found F29, F33); G2 each iteration of a range over a string decodes the first rune of s[offset:] with utf8.DecodeRuneInString and advances the offset by the width it returned; J2 also: the scope of the function body itself is searched for a break / goto target before the search stops (found F31; a continue target always has a scope of its own, clause continue-owner); J5 HasLabel's bisection is a membership test (slice[i] == key) and every ThisLabels slice was sorted before it was installed; S2 the closed-channel flag of a select receive is the recvOK result of reflect.Select kept in a slot of its own and read by both two-valued receive forms (found F30); S3 each select clause compiler ends with the jump to the select's Break target in the same frame; S4 expression switch: the direct-dispatch table (GotoMap) receives a constant only while every earlier case expression was constant (monotone flag, single writer), the table builders read GotoMap and never ConstMap, the jump into default is emitted after all clauses and a default reached in sequence skips its body, every clause header is exactly one statement slot and fallthrough advances by that slot plus one, and a case body ends with fallthrough exactly when its last statement is one, else with the jump to Break in the same frame. " +
			"Y8 a local that is assigned only under a condition (the dynamic type of a possibly nil tag) is used only under a correlated test (found F52). " +
			"TR1 the code dropped for a constant condition is the branch that cannot run (the stretch since the recorded label compiles the body for constant false, the else branch for constant true); Z2 a literal that picks closures out of one slice by constant index picks each once. Not decided: the sequence of executed statements as such (switch dispatch optimisations, fallthrough, range and select semantics).",
		Assumptions: []string{"the executor runs the statement returned by the previous one (C13 rules)"},
		Rules: []func(*Ctx){func(c *Ctx) {
			ruleStmtProtocol(c, "fast", nil, "S1-stmt-protocol")
			ruleJumpDepth(c, "J1-jump-depth")
			ruleBranchBoundaries(c, "J2-branch-boundaries")
			ruleContinueOwner(c, "J2-continue-owner")
			ruleChainStride(c, []string{"fast"}, "D3-stride")
			ruleLateBoundTargets(c, "J3-late-bound-targets")
			ruleStmtCoverage(c, "fast.Comp.Stmt", "Stmt", "J4-stmt-coverage")
			ruleDepthLoops(c, "fast", nil, "A3-depth-loop")
			ruleRangePlaces(c, "G1-range-places")
			ruleSelectRecvOK(c, "S2-select-recvok")
			ruleSelectClauseExit(c, "S3-select-clause-exit")
			ruleSwitchDispatch(c, "S4-switch-dispatch")
			ruleReturnParallel(c, "R2-return-parallel")
			ruleLabelMembership(c, "J5-labels")
			ruleRangeStringDecode(c, "G2-range-string-decode")
			ruleConditionalInit(c, "Y8-conditional-init", "fast", nil)
			ruleDistinctPickedElements(c, "Z2-distinct-picked-closures", "fast")
			ruleDeadBranchTruncate(c, "TR1-dead-branch-truncate")
			c.Floor("G1-range-places", 8)
			ruleUniformity(c, "fast", []string{"switch.go", "switch2.go", "switch_type.go", "range.go", "range_map.go", "select.go", "statement.go"}, "U-uniform")
			c.Floor("S1-stmt-protocol", 2300)
			c.Floor("U-uniform", 25)
		}},
		Mutants: []Mutant{
			{Name: "constant-true-if-drops-taken-branch", File: "fast/statement.go", Old: "\t\t\tc.Code.Truncate(jump.Else)", New: "\t\t\tc.Code.Truncate(jump.Then)"},
			{Name: "two-case-list-compares-first-twice", File: "fast/switch.go", Old: "\t\t\tcmpfuns[0],\n\t\t\tcmpfuns[1],\n\t\t}", New: "\t\t\tcmpfuns[0],\n\t\t\tcmpfuns[0],\n\t\t}"},
			{Name: "nil-tag-type-dereferenced", File: "fast/switch_type.go", Old: "if vt == nil || rtype.Kind() != r.Interface || !vt.Implements(rtype) {", New: "if rtype.Kind() != r.Interface || !vt.Implements(rtype) {"},
			{Name: "jumpout-depth1-stays-in-frame", File: "fast/statement.go", Old: "\t\tstmt = func(env *Env) (Stmt, *Env) {\n\t\t\tenv = env.Outer\n\t\t\tip := *ip\n", New: "\t\tstmt = func(env *Env) (Stmt, *Env) {\n\t\t\tip := *ip\n", Canary: true},
			{Name: "for-break-target-unset", File: "fast/statement.go", Old: "\tjump.Break = c.Code.Len()\n\n\tc = c.popEnvIfLocalBinds(initLocals, &initBinds, node.Init)\n}\n\n// Go compiles", New: "\n\tc = c.popEnvIfLocalBinds(initLocals, &initBinds, node.Init)\n}\n\n// Go compiles", Canary: true},
			{Name: "break-crosses-function", File: "fast/statement.go", Old: "\t\tif o.Func != nil {\n\t\t\t// do not cross function boundaries: the function body itself was the last scope to search\n\t\t\tbreak\n\t\t}\n", New: "", Nth: 1},
			{Name: "goto-skips-function-scope", File: "fast/statement.go", Old: "\tfor o := c; o != nil; o = o.Outer {\n\t\tif ip := o.Labels[label]; ip != nil {", New: "\tfor o := c; o != nil && o.Func == nil; o = o.Outer {\n\t\tif ip := o.Labels[label]; ip != nil {"},
			{Name: "break-counts-function-frame", File: "fast/statement.go", Old: "\t\tif o.Func != nil {\n\t\t\t// do not cross function boundaries: the function body itself was the last scope to search\n\t\t\tbreak\n\t\t}\n\t\tupn += o.UpCost // count how many Env:s we must exit at runtime\n", New: "\t\tupn += o.UpCost // count how many Env:s we must exit at runtime\n\t\tif o.Func != nil {\n\t\t\tbreak\n\t\t}\n", Nth: 1},
			{Name: "select-ok-from-received-value", File: "fast/select.go", Old: "\t\t\t\tidx := bindok.Desc.Index()\n\t\t\t\tc.SetPlace(", New: "\t\t\t\tidx := bind.Desc.Index()\n\t\t\t\tc.SetPlace("},
			{Name: "switch-gotomap-after-nonconstant-case", File: "fast/switch.go", Old: "\tif seen.AllConst {\n\t\tseen.GotoMap[val] = entry\n\t}", New: "\tseen.GotoMap[val] = entry"},
			{Name: "switch-table-from-all-constants", File: "fast/switch2.go", Old: "\t\t\tfor k, v := range seen.GotoMap {\n\t\t\t\tm[int(xr.ValueOf(k).Int())] = v.IP", New: "\t\t\tfor k, v := range seen.ConstMap {\n\t\t\t\tm[int(xr.ValueOf(k).Int())] = v.IP"},
			{Name: "fallthrough-lands-on-next-header", File: "fast/switch.go", Old: "env.IP += 2 // +2 to skip", New: "env.IP += 1 // +2 to skip"},
			{Name: "switch-default-body-not-skipped", File: "fast/switch.go", Old: "\t\tip := iend\n\t\tenv.IP = ip\n\t\treturn env.Code[ip], env\n\t}, node.Pos())\n\tc.switchCaseBody(node.Body, canfallthrough)", New: "\t\tip := iend\n\t\tip = env.IP + 1\n\t\tenv.IP = ip\n\t\treturn env.Code[ip], env\n\t}, node.Pos())\n\tc.switchCaseBody(node.Body, canfallthrough)"},
			{Name: "haslabel-without-equality", File: "fast/global.go", Old: "return i >= 0 && i < len(l.ThisLabels) && l.ThisLabels[i] == label", New: "return i >= 0 && i < len(l.ThisLabels)"},
			{Name: "select-labels-unsorted", File: "fast/select.go", Old: "\tsort.Strings(labels)\n", New: "\tsort.Sort(sort.Reverse(sort.StringSlice(labels)))\n"},
			{Name: "select-default-falls-into-next-clause", File: "fast/select.go", Old: "\t\tc.List(node.Body)\n\t}\n\tc.jumpOut(0, c.Loop.Break)\n", New: "\t\tc.List(node.Body)\n\t}\n"},
			{Name: "range-string-decodes-last-rune", File: "fast/range.go", Old: "_, size := utf8.DecodeRuneInString(s[next:])", New: "_, size := utf8.DecodeLastRuneInString(s[next:])"},
			{Name: "select-recvok-discarded", File: "fast/select.go", Old: "\t\tchosen, recv, recvok := xr.Select(cases)\n", New: "\t\tchosen, recv, _ := xr.Select(cases)\n\t\trecvok := recv.IsValid()\n"},
			{Name: "continue-upcost-before-check", File: "fast/statement.go", Old: "\tfor o := c; o != nil && o.Func == nil; o = o.Outer {\n\t\tif o.Loop != nil && o.Loop.Continue != nil {", New: "\tfor o := c; o != nil && o.Func == nil; o = o.Outer {\n\t\tupn += o.UpCost\n\t\tif o.Loop != nil && o.Loop.Continue != nil {"},
			{Name: "range-string-rune-stored-in-current-frame", File: "fast/range.go", Old: "*(*int32)(unsafe.Pointer(&o.Ints[idxval])) = r", New: "*(*int32)(unsafe.Pointer(&env.Ints[idxval])) = r"},
			{Name: "range-slice-user-key-incremented", File: "fast/range.go", Old: "c.SetPlace(placeidx, token.ADD_ASSIGN, one)", New: "c.SetPlace(placekey, token.ADD_ASSIGN, one)"},
			{Name: "range-string-key-assigned-without-exit-test", File: "fast/range.go", Old: "\t\t\tif env.Ints[idxnext] < uint64(len(env.Vals[idxrange].String())) {\n\t\t\t\tip = env.IP + 1\n\t\t\t} else {\n\t\t\t\tip = jump.Break\n\t\t\t}", New: "\t\t\tip = env.IP + 1"},
			{Name: "if-statement-ip-not-advanced", File: "fast/statement.go", Old: "ip = env.IP + 1\n\t\t\t\t// Debugf(\"for: condition = true", New: "ip = env.IP\n\t\t\t\t// Debugf(\"for: condition = true"},
		},
	})
}

func init() {
	register(&PropDef{
		ID:    "C15",
		Title: "A failed evaluation leaves earlier definitions intact",
		Explanation: "Decided: T1 transactional publication: in every declaration compiler (Decl*, methodDecl, Import) that writes the compiler's persistent registry (NewBind / NewFuncBind / methodAdd with a real name, stores into Binds or Types), either no step that can still fail follows the write (failure reachability computed over the statically resolved call graph: a function can fail if it reaches panic), or a rollback registered with defer before the write restores the previous definition while a flag is still armed and the flag is cleared on the normal path; " +
			"T2 compile precedes run: ParseEvalPrint / Eval compile the whole input before RunExpr. " +
			"T3 methodAdd and methodFind reduce a pointer receiver to its element type under the same condition; T4 a grouped import validates every spec before one call binds them all; O the slot counters BindNum / IntBindNum are written by the allocator only (a rollback never gives a slot back). For methods the rollback re-publishes the saved method type through the same registry call and stores the saved function value back (F6, fixed). " +
			"T1s a rollback that deletes a name from a registry map also stores the entry remembered before the declaration back (DeclType, DeclFunc, DeclVar0). Not decided: the redefinition sentence (old variables keep their type and readability), which depends on named-type identity in xreflect.",
		Assumptions: []string{"calls through interfaces and function values are not followed by the failure-reachability analysis"},
		Rules: []func(*Ctx){func(c *Ctx) {
			ruleSavedEntryRestored(c, "T1s-saved-entry-restored")
			ruleTransactionalDecls(c, "T1-transactional-decl")
			ruleCompileBeforeRun(c, "T2-compile-before-run")
			ruleReceiverNormalisation(c, "T3-receiver-normalisation")
			ruleImportAllOrNothing(c, "T4-import-all-or-nothing")
			ruleOwnership(c, "O-slot-counters", "fast", "CompBinds", "BindNum", []string{"fast.CompBinds.NewBind"}, "slots are only ever handed out by the allocator: a counter that goes back would give the slot of a live variable to the next declaration")
			ruleOwnership(c, "O-slot-counters", "fast", "CompBinds", "IntBindNum", []string{"fast.CompBinds.NewBind"}, "slots are only ever handed out by the allocator: a counter that goes back would give the slot of a live variable to the next declaration")
		}},
		Mutants: []Mutant{
			{Name: "failed-type-redefinition-keeps-half-built-type", File: "fast/type.go", Old: "\t\t} else if oldt != nil {\n\t\t\tc.Types[name] = oldt\n\t\t} else {", New: "\t\t} else if oldt != nil {\n\t\t} else {"},
			{Name: "rollback-looks-for-pointer-receiver-elsewhere", File: "fast/function.go", Old: "\ttrecv = t.In(0)\n\tif trecv.Kind() == r.Ptr && !trecv.Named() {", New: "\ttrecv = t.In(0)\n\tif trecv.Kind() == r.Ptr && trecv.Named() {"},
			{Name: "grouped-import-binds-spec-by-spec", File: "fast/import.go", Old: "\t\t\tpaths[path] = name\n", New: "\t\t\tpaths[path] = name\n\t\t\tif _, err := c.ImportPackagesOrError(map[string]PackageName{path: name}); err != nil {\n\t\t\t\tc.Errorf(\"error importing package %q: %v\", path, err)\n\t\t\t}\n"},
			{Name: "declvar-rollback-removed", File: "fast/declaration.go", Old: "\t\t} else if oldbind != nil {\n\t\t\tc.Binds[name] = oldbind\n\t\t} else {\n\t\t\tdelete(c.Binds, name)\n\t\t}\n\t}()\n\tbind := c.NewBind(name, VarBind, t)", New: "\t\t}\n\t\t_ = oldbind\n\t}()\n\tbind := c.NewBind(name, VarBind, t)"},
			{Name: "declfunc-rollback-removed", File: "fast/function.go", Old: "\t\t} else if oldbind != nil {\n\t\t\tc.Binds[funcname] = oldbind\n\t\t} else {\n\t\t\tdelete(c.Binds, funcname)\n\t\t}", New: "\t\t}\n\t\t_ = oldbind", Canary: true},
			{Name: "declconst-publishes-before-conversion", File: "fast/declaration.go", Old: "\tlit := Lit{Type: valueType, Value: value}\n\tif t == nil {\n\t\tt = lit.Type\n\t} else {\n\t\tvalue = lit.ConstTo(t)\n\t}\n\tbind := c.NewBind(name, ConstBind, t)\n", New: "\tlit := Lit{Type: valueType, Value: value}\n\tbind := c.NewBind(name, ConstBind, t)\n\tif t == nil {\n\t\tt = lit.Type\n\t} else {\n\t\tvalue = lit.ConstTo(t)\n\t}\n", Canary: true},
			{Name: "declfunc-flag-never-cleared", File: "fast/function.go", Old: "\tc.Append(stmt, funcdecl.Pos())\n\tpanicking = false\n", New: "\tc.Append(stmt, funcdecl.Pos())\n", Nth: 1},
			{Name: "method-rollback-restores-type-only", File: "fast/function.go", Old: "\t\t\tindex := trecv.AddMethod(funcdecl.Name.Name, oldtype)\n\t\t\t(*trecv.GetMethods())[index] = oldfun\n", New: "\t\t\ttrecv.AddMethod(funcdecl.Name.Name, oldtype)\n\t\t\t_ = oldfun\n"},
			{Name: "method-rollback-removed", File: "fast/function.go", Old: "\t\tif panicking && oldtype != nil {\n", New: "\t\tif false && panicking && oldtype != nil {\n"},
		},
	})
}

func init() {
	register(&PropDef{
		ID:    "C20",
		Title: "Macro expansion rewrites exactly the macro calls and leaves other code unchanged",
		Explanation: "Decided, for both interpreters (fast and classic): K1 a node that is not a macro call is rebuilt as in.New() with child i of the output set unconditionally from child i of the input for every i < in.Size() (losslessness of that rebuild is C22's field coverage, run here too); macro calls are expanded only at quasiquote depth <= 0; the depth table QUASIQUOTE +1, UNQUOTE / UNQUOTE_SPLICE -1, QUOTE returns the node unexpanded at depth 0 is as documented and identical in both interpreters; " +
			"in MacroExpand1 an element that is not a macro call is appended unchanged, a macro with argNum arguments receives elements i+1..i+argNum in order and exactly those are consumed, results are appended in order, and i += argNum is the only write to the scan index inside the loop; MacroExpand repeats until nothing expands; K3 the flag a walk returns accumulates over the children (inside a loop it is only set to true or or-ed with itself), because a quoted form is rebuilt only when the walk of its body reports an expansion; K2 UnwrapTrivialAst removes only ParenExpr, ExprStmt, DeclStmt wrappers and one-element blocks. " +
			"Not decided: what a user macro returns.",
		Assumptions: []string{"ast2 wrappers are lossless (C22)"},
		Rules: []func(*Ctx){func(c *Ctx) {
			ruleMacroCodewalk(c, "K1-macro-codewalk")
			ruleMonotoneFlag(c, "K3-flag-accumulates", "fast.Comp.macroExpandCodewalk", "classic.Env.macroExpandAstCodewalk", "fast.Comp.MacroExpand1", "classic.Env.macroExpandAstOnce")
			ruleUnwrapTrivial(c, "K2-unwrap-trivial")
			ruleAstWrappers(c)
			c.Floor("K1-macro-codewalk", 20)
		}},
		Mutants: []Mutant{
			{Name: "unquote-does-not-lower-depth", File: "fast/macroexpand.go", Old: "\t\t\tquasiquoteDepth--\n", New: "\t\t\tquasiquoteDepth++\n", Canary: true},
			{Name: "expand1-inner-loop-reuses-scan-index", File: "fast/macroexpand.go", Old: "\t\t\t\tfor i := 0; i < n; i++ {\n\t\t\t\t\touts = outs.Append(res.Get(i))", New: "\t\t\t\tfor i = 0; i < n; i++ {\n\t\t\t\t\touts = outs.Append(res.Get(i))"},
			{Name: "classic-flag-overwritten-by-last-child", File: "classic/macroexpand.go", Old: "\t\t\tif expanded {\n\t\t\t\tanythingExpanded = true\n\t\t\t}\n", New: "\t\t\tanythingExpanded = expanded\n"},
			{Name: "rebuild-skips-unexpanded-child", File: "fast/macroexpand.go", Old: "\t\t\tif expanded {\n\t\t\t\tanythingExpanded = true\n\t\t\t}\n\t\t}\n\t\tout.Set(i, child)\n", New: "\t\t\tif expanded {\n\t\t\t\tanythingExpanded = true\n\t\t\t\tout.Set(i, child)\n\t\t\t}\n\t\t}\n", Canary: true},
			{Name: "macro-args-off-by-one", File: "fast/macroexpand.go", Old: "args[j] = xr.ValueOf(ToNode(ins.Get(i + j + 1)))", New: "args[j] = xr.ValueOf(ToNode(ins.Get(i + j)))"},
			{Name: "macro-consumes-one-less", File: "fast/macroexpand.go", Old: "\t\ti += argn\n", New: "\t\ti += argn - 1\n"},
			{Name: "classic-expands-inside-quasiquote", File: "classic/macroexpand.go", Old: "\tif quasiquoteDepth <= 0 {\n\t\tif env.Options", New: "\tif quasiquoteDepth <= 1 {\n\t\tif env.Options"},
			{Name: "classic-quote-table-differs", File: "classic/macroexpand.go", Old: "\t\t\t// extract the body of QUASIQUOTE\n\t\t\tquasiquoteDepth++\n", New: "\t\t\t// extract the body of QUASIQUOTE\n"},
		},
	})
}

func init() {
	register(&PropDef{
		ID:    "C03",
		Title: "Conversions between basic, string and byte/rune slice types match Go",
		Explanation: "Decided (the structural part): V1 a conversion is compiled only after the admission chain (identical types, same reflect type, nil to nillable, ConvertibleTo) and is otherwise rejected before execution; no conversion closure is created before the chain; Comp.Converter rejects non-convertible pairs first; U/A2 the 17 per-kind conversion closures of Comp.convert are uniform and extract the result with the accessor of their kind; " +
			"V2 untyped.Lit.Convert has an arm for every basic kind plus Interface and Slice, rejects what no arm converted, and converts the result to exactly the requested reflect type; S1 a conversion to a slice type is never folded into a compile-time constant (every EvalConst / ConstTo(target) / compile-time convert() site of Comp.convert is guarded by target.Kind() != Slice), so []byte(\"abc\") allocates at each execution; V3 every alternative of every admitting clause of the type checker's convertibleTo constrains both the operand's type and the target type (a one-sided alternative admits conversions to arbitrary types); K2 the 64-bit result of constant.Int64Val / Uint64Val is never narrowed (int32, rune, int ...) outside a two-sided range check (integer constant to string). The oracle for values is reflect.Value.Convert (trusted to implement Go's conversion). " +
			"Z3 a chain of tests on a category variable does not also test the kind it was computed from (cto == Int || kto == Uint skips the overflow check for uint8..uintptr); T7 the reflect shortcut of xtype.ConvertibleTo / AssignableTo / Implements keeps the direction receiver -> parameter. Not decided: the truth table of ConvertibleTo against the spec, value results, typed-constant overflow.",
		Assumptions: []string{"reflect.Value.Convert implements Go conversions for the kinds involved", "xreflect.Type.ConvertibleTo"},
		Rules: []func(*Ctx){func(c *Ctx) {
			ruleConversionGate(c, "V1-conversion-gate")
			ruleUntypedConvert(c, "V2-untyped-convert")
			ruleSliceConversionNotFolded(c, "S1-slice-not-folded")
			ruleTwoSidedAdmission(c, "V3-two-sided-admission")
			ruleNoNarrowing(c, "K2-no-narrowing")
			ruleCategoryChain(c, "Z3-category-chain", "base/untyped", "fast", "base/reflect")
			ruleShortcutDirection(c, "T7-shortcut-direction")
			ruleConstantExactness(c, "EX1-exactness")
			ruleRealPartNeedsZeroImag(c, "K4-real-part-needs-zero-imag")
			ruleUniformity(c, "fast", []string{"convert.go"}, "U-uniform")
			ruleAccessorFiles(c, "fast", []string{"convert.go"}, "A2-accessor")
			c.Floor("U-uniform", 12)
		}},
		Mutants: []Mutant{
			{Name: "narrowing-check-skipped-for-small-unsigned", File: "base/untyped/lit.go", Old: "if cto == r.Int || cto == r.Uint {", New: "if cto == r.Int || kto == r.Uint {"},
			{Name: "convertible-shortcut-reversed", File: "xreflect/type.go", Old: "rt.ConvertibleTo(ru)", New: "ru.ConvertibleTo(rt)"},
			{Name: "unsigned-target-read-as-signed-first", File: "base/untyped/lit.go", Old: "\t\tcase r.Uint:\n\t\t\tn, exact = constant.Uint64Val(src)\n", New: "\t\tcase r.Uint:\n\t\t\tn, exact = constant.Int64Val(src)\n\t\t\tif !exact {\n\t\t\t\tn, exact = constant.Uint64Val(src)\n\t\t\t}\n"},
			{Name: "complex-to-real-takes-real-part", File: "base/reflect/reflect.go", Old: "\t\t} else if IsCategory(k, r.Complex128) {\n\t\t\tif IsCategory(k, r.Int, r.Uint, r.Float64) {", New: "\t\t} else if IsCategory(k, r.Complex128) {\n\t\t\tif IsCategory(kto, r.Int, r.Uint, r.Float64) {"},
			{Name: "gate-falls-through", File: "fast/convert.go", Old: "\t} else {\n\t\tc.Errorf(\"cannot convert %v to %v: %v\", e.Type, t, nodeOpt)\n\t\treturn nil\n\t}", New: "\t} else {\n\t\tc.Warnf(\"cannot convert %v to %v: %v\", e.Type, t, nodeOpt)\n\t}", Canary: true},
			{Name: "uint16-result-read-as-int", File: "fast/convert.go", Old: "return uint16(val.Uint())", New: "return uint16(val.Int())", Canary: true},
			{Name: "converter-check-dropped", File: "fast/convert.go", Old: "\tif !tin.ConvertibleTo(tout) {\n\t\tc.Errorf(\"cannot convert from <%v> to <%v>\", tin, tout)\n\t}\n", New: ""},
			{Name: "integer-converts-to-anything", File: "go/types/conversions.go", Old: "if (isInteger(V) || isBytesOrRunes(Vu)) && isString(T) {", New: "if isInteger(V) || isBytesOrRunes(Vu) && isString(T) {"},
			{Name: "int-constant-to-string-truncated", File: "base/untyped/lit.go", Old: "ret = string(i)", New: "ret = string(rune(i))"},
			{Name: "string-to-bytes-folded", File: "fast/convert.go", Old: "\tif e.Const() && t.Kind() != xr.Slice {\n\t\teret.EvalConst(COptKeepUntyped)", New: "\tif e.Const() {\n\t\teret.EvalConst(COptKeepUntyped)", Canary: true},
			{Name: "untyped-string-converted-to-slice-constant", File: "fast/convert.go", Old: "\t\tif t.Kind() == xr.Slice {\n", New: "\t\tif t.Kind() == xr.Slice && false {\n"},
			{Name: "untyped-convert-no-exact-type", File: "base/untyped/lit.go", Old: "\tif v.Type() != t.ReflectType() {\n\t\tret = v.Convert(t.ReflectType())\n\t}\n\treturn ret\n}\n\n// EXTENSION", New: "\t_ = v\n\treturn ret\n}\n\n// EXTENSION"},
		},
	})
	register(&PropDef{
		ID:    "C04",
		Title: "Untyped constant expressions are exact and agree with Go's constant arithmetic",
		Explanation: "Decided: P1 operator pass-through: BinaryExprUntyped / ShiftUntyped / UnaryExprUntyped hand go/constant the node's own operator (through tokenWithoutAssign) with the operands in order; untyped division truncates (QUO_ASSIGN) exactly when both operands are of Int or Rune kind; && / || compute the matching boolean operation; the compound-assignment token tables pair each X_ASSIGN with X; " +
			"EX1 exactness: a constant.Value reaches an integer-category result only through exact extraction, never through constant.Float64Val, and every conversion to an integer kind is followed by a convert-back-and-compare overflow / truncation check; K1 every path of every function of base/untyped that uses constant.Int64Val / Uint64Val is enumerated (exact flag and target category concretely) and the first result, undefined when the flag is false, never flows into a result of the function on such a path; K2 such a 64-bit result is never narrowed outside a two-sided range check; F1 a constant converted to *big.Int / *big.Rat / *big.Float is copied into a fresh local at each execution and the compile-time value never escapes the closure. " +
			"K7 real() and imag() of an untyped constant are built with the constant kind untyped.Float, not a kind computed from the value (found F57). K2 also: an exact 64-bit value (Int64Val, Uint64Val, Lit.Int64, Lit.Uint64) changes signedness only inside a range check; K8 no *big.Float of a constant gets a hand-set precision or rounding mode. A2u an Int/Uint/Float/Complex/Bool accessor applied directly to the Value of a constant sits under a kind or category test about that constant (found F58: 1 << int(3) crashed). Not decided: go/constant's arithmetic, precision beyond what go/constant keeps, exactness of *big.Float conversions.",
		Assumptions: []string{"go/constant implements exact constant arithmetic"},
		Rules: []func(*Ctx){func(c *Ctx) {
			ruleUntypedOperators(c, "P1-operator-passthrough")
			ruleConstantExactness(c, "EX1-exactness")
			ruleInexactUndefined(c, "K1-inexact-undefined")
			ruleNoNarrowing(c, "K2-no-narrowing")
			ruleNoPrecisionCap(c, "K8-no-precision-cap")
			ruleFreshBigValues(c, "F1-fresh-big")
			ruleUnaryKeepsKind(c, "K5-unary-keeps-kind")
			ruleConstRepetitionPairing(c, "K6-const-repetition-pairing")
			ruleRealImagUntypedKind(c, "K7-real-imag-untyped-kind")
			ruleConstantAccessorGuard(c, "A2u-constant-accessor-guard", "fast")
		}},
		Mutants: []Mutant{
			{Name: "typed-shift-count-read-as-unsigned", File: "fast/binary.go", Old: "\t\t\tcase xr.Int:\n\t\t\t\tif yv.Int() < 0 {\n\t\t\t\t\tc.Errorf(\"invalid negative shift count: %v\", node)\n\t\t\t\t}\n\t\t\t\tycount = constant.MakeInt64(yv.Int())\n\t\t\tcase xr.Uint:\n\t\t\t\tycount = constant.MakeUint64(yv.Uint())\n\t\t\tdefault:\n\t\t\t\treturn c.invalidBinaryExpr(node, xe, ye)\n\t\t\t}", New: "\t\t\tdefault:\n\t\t\t\tycount = constant.MakeUint64(xr.ValueOf(ye.Value).Uint())\n\t\t\t}"},
			{Name: "bigint-uint64-through-int64", File: "base/untyped/lit.go", Old: "ret = b.SetUint64(n)", New: "ret = b.SetInt64(int64(n))"},
			{Name: "bigfloat-precision-capped", File: "base/untyped/lit.go", Old: "ret = b.SetRat(r)", New: "ret = b.SetPrec(512).SetRat(r)"},
			{Name: "real-of-untyped-takes-representation-kind", File: "fast/builtin.go", Old: "arg = untyped.MakeLit(untyped.Float, constant.ToFloat(val), &c.Universe.BasicTypes)", New: "arg = untyped.MakeLit(untyped.MakeKind(val.Kind()), val, &c.Universe.BasicTypes)"},
			{Name: "unary-result-kind-not-from-operand", File: "fast/unary.go", Old: "return c.exprUntypedLit(xlit.Kind, ret)", New: "return c.exprUntypedLit(UntypedLit{Val: ret}.Kind, ret)"},
			{Name: "const-repetition-keeps-earlier-type", File: "fast/declaration.go", Old: "\t\t\t\tdefaultType = valueSpec.Type\n", New: "\t\t\t\tif valueSpec.Type != nil {\n\t\t\t\t\tdefaultType = valueSpec.Type\n\t\t\t\t}\n"},
			{Name: "exact-float-path-for-signed-targets-only", File: "base/untyped/lit.go", Old: "\t\tif cat == r.Int || cat == r.Uint {\n\t\t\t// an integer-valued float constant", New: "\t\tif cat == r.Int {\n\t\t\t// an integer-valued float constant"},
			{Name: "compare-uses-fixed-operator", File: "fast/binary.go", Old: "flag := constant.Compare(x.Val, op, y.Val)", New: "flag := constant.Compare(x.Val, token.EQL, y.Val)", Canary: true},
			{Name: "integer-division-only-checks-left", File: "fast/binary.go", Old: "if op2 == token.QUO && xint && yint {", New: "if op2 == token.QUO && xint {", Canary: true},
			{Name: "binaryop-operands-swapped", File: "fast/binary.go", Old: "zobj := constant.BinaryOp(x.Val, op2, y.Val)", New: "zobj := constant.BinaryOp(y.Val, op2, x.Val)"},
			{Name: "table-entry-swapped", File: "fast/binary.go", Old: "\ttoken.OR_ASSIGN:      token.OR,\n\ttoken.XOR_ASSIGN:     token.XOR,", New: "\ttoken.OR_ASSIGN:      token.XOR,\n\ttoken.XOR_ASSIGN:     token.OR,"},
			{Name: "shr-dispatched-as-shl", File: "fast/binary.go", Old: "return c.ShiftUntyped(node, token.SHR, x, y)", New: "return c.ShiftUntyped(node, token.SHL, x, y)"},
			{Name: "big-rat-constant-shared", File: "fast/literal.go", Old: "\t\t\tvar b big.Rat\n\t\t\tb.Set(a)\n\t\t\treturn xr.ValueOf(&b)", New: "\t\t\tvar b big.Rat\n\t\t\tb.Set(a)\n\t\t\treturn xr.ValueOf(a)"},
			{Name: "huge-int-to-float-uses-undefined-result", File: "base/untyped/lit.go", Old: "\t\t\tif !exact {\n\t\t\t\t// beyond the range of 64-bit integers: round to the nearest float64\n\t\t\t\tn, exact = constant.Float64Val(src)\n\t\t\t}\n", New: "", Canary: true},
			{Name: "overflow-check-dropped-for-integers", File: "base/untyped/lit.go", Old: "\t\t\tvback := vto.Convert(t1)\n\t\t\tif src != vback.Interface() {", New: "\t\t\tvback := vto.Convert(t1)\n\t\t\tif false && src != vback.Interface() {"},
		},
	})
}

func init() {
	register(&PropDef{
		ID:    "C38",
		Title: "The classic interpreter matches Go on its documented subset",
		Explanation: "Decided: A5 in classic form: in every switch over a go/token operator in package classic, an arm that computes with exactly one Go operator uses the operator of the arm's own tokens (T and T_ASSIGN share an arm) with the operands in order; plus the macro code walk and quasiquote depth table of the classic interpreter agree with the fast one (K1, shared with C20). " +
			"A1c inside the kind arms of the classic unary and binary evaluators an accessor result is converted to the Go type of the arm's kind; G3c the loop bound of a range over a slice is a snapshot taken before the first iteration. " +
			"Not decided: everything else about the classic evaluator (tree-walking evaluation, scoping, calls).",
		Assumptions: []string{"Go operator semantics"},
		Rules: []func(*Ctx){func(c *Ctx) {
			ruleTokenArmOperators(c, "classic", nil, "A5-classic-operator")
			ruleArmTypeAgreement(c, "A1c-arm-type-agreement", "classic", []string{"unaryexpr.go", "binaryexpr.go"})
			ruleRangeLenSnapshot(c, "G3c-range-len-snapshot")
			ruleMacroCodewalk(c, "K1-macro-codewalk")
			ruleMonotoneFlag(c, "K3-flag-accumulates", "fast.Comp.macroExpandCodewalk", "classic.Env.macroExpandAstCodewalk", "fast.Comp.MacroExpand1", "classic.Env.macroExpandAstOnce")
		}},
		Mutants: []Mutant{
			{Name: "classic-int-arm-reads-int32", File: "classic/unaryexpr.go", Old: "\t\tx := int(xv.Int())\n", New: "\t\tx := int32(xv.Int())\n"},
			{Name: "classic-range-rereads-length", File: "classic/for.go", Old: "\t\tn := obj.Len()\n\t\tfor i := 0; i < n; i++ {", New: "\t\tfor i := 0; i < obj.Len(); i++ {", Nth: 1},
			{Name: "classic-int-sub-is-add", File: "classic/binaryexpr.go", Old: "\tcase token.SUB, token.SUB_ASSIGN:\n\t\tret = x - y\n", New: "\tcase token.SUB, token.SUB_ASSIGN:\n\t\tret = x + y\n", Nth: 1, Canary: true},
			{Name: "classic-float-lss-operands-swapped", File: "classic/binaryexpr.go", Old: "\t\tcase token.LSS:\n\t\t\tb = x < y\n", New: "\t\tcase token.LSS:\n\t\t\tb = y < x\n", Nth: 1, Canary: true},
			{Name: "classic-uint-andnot-is-and", File: "classic/binaryexpr.go", Old: "ret = x &^ y", New: "ret = x & y", Nth: 2},
		},
	})
}

func init() {
	register(&PropDef{
		ID:    "C18",
		Title: "Program results do not depend on semantics-neutral interpreter options",
		Explanation: "Decided: N1 who-may-read: OptCollectDeclarations / OptCollectStatements / OptTrapPanic / OptPanicStackTrace / OptKeepUntyped are referenced only by the enumerated REPL-driver, collector, command-line and result-returning functions (CompileAst, RunExpr, DebugExpr convert a final untyped result to its default type), never by code that compiles or executes programs; " +
			"N2 effect confinement: every statement controlled by OptDebugger only records the compiler for the debugger (a *Comp that the function never dereferences, or Env.DebugComp), and Env.DebugComp is read only by the single-step hook and the debugger package; N3 the fields of base.Globals that the declaration collector writes (PackagePath, Imports, Declarations, Statements: derived from CollectNode) are read only by the file writer and the command-line driver (one reviewed exception). " +
			"E14f the constants of the option types (base.Options, parser.Mode) are pairwise distinct unless declared as explicit aliases (an implicit repetition landing on another option would let one option switch on another); N5 every report of a recovered panic value in afterEval uses the same format verb, with or without the stack-trace option. " +
			"X8b the options or-ed back after a forced evaluation are the bits that were set before it, not the constant mask (found F48). " +
			"Not decided: the generics switch (a package-level mode consulted by the parser and type checker).",
		Assumptions: []string{"option constants are referenced by name (no arithmetic on raw bit values)"},
		Rules: []func(*Ctx){ruleOptionConfinement, ruleCollectorState, func(c *Ctx) {
			ruleFlagEnumInjective(c, "E14f-flag-enum", "go/parser", "Mode")
			ruleFlagEnumInjective(c, "E14f-flag-enum", "base", "Options")
			ruleSiblingVerbs(c, "N5-sibling-verbs")
			ruleExactOptionRestore(c, "X8b-exact-option-restore")
		}},
		Mutants: []Mutant{
			{Name: "forced-evaluation-restores-whole-mask", File: "fast/repl.go", Old: "\t\t\tg.Options &^= set\n\t\t\treturn set\n", New: "\t\t\tg.Options &^= set\n\t\t\treturn todisable\n"},
			{Name: "stack-trace-option-changes-panic-verb", File: "fast/repl.go", Old: "g.Fprintf(g.Stderr, \"%v\\n%s\", rec, debug.Stack())", New: "g.Fprintf(g.Stderr, \"%s\\n%s\", rec, debug.Stack())"},
			{Name: "field-lookup-uses-collected-package-name", File: "fast/selector.go", Old: "return t.FieldByName(name, c.FileComp().Path)", New: "return t.FieldByName(name, c.Globals.PackagePath)"},
			{Name: "debugger-option-changes-compilation", File: "fast/func1ret0.go", Old: "\tif c.Globals.Options&base.OptDebugger != 0 {\n\t\tdebugC = c\n\t}", New: "\tif c.Globals.Options&base.OptDebugger != 0 {\n\t\tdebugC = c\n\t\tc.UpCost++\n\t}", Canary: true},
			{Name: "executor-reads-trap-panic", File: "fast/code.go", Old: "\tcaller := run.CurrEnv\n\t// restore g.IsDefer", New: "\tif run.Options&base.OptTrapPanic != 0 {\n\t\trun.Signals.Sync = base.SigNone\n\t}\n\tcaller := run.CurrEnv\n\t// restore g.IsDefer", Canary: true},
			{Name: "compiler-reads-debugcomp", File: "fast/compile.go", Old: "\tenv.DebugComp = debugComp\n\tcaller := run.CurrEnv", New: "\tenv.DebugComp = debugComp\n\tif outer.DebugComp != nil {\n\t\tenv.Caller = nil\n\t}\n\tcaller := run.CurrEnv"},
		},
	})
	register(&PropDef{
		ID:    "C19",
		Title: "Debugging is transparent and step/next/finish/continue stop where documented",
		Explanation: "Decided: B1 table agreement: with the single stop test `env.CallDepth < run.DebugDepth` of singleStep, the depths requested by the commands (step: MaxInt, next: CallDepth+1, finish: CallDepth, continue: 0) give exactly the four documented behaviours (any depth / same or shallower / shallower / breakpoints only) — the checker derives the class from the operator and the offsets; singleStep executes exactly one statement per call and reaches the debugger hook under the stop test; applyDebugOp turns single-stepping on iff the depth is > 0 and records it; a function frame's CallDepth is its caller's + 1; a DebugOp returned without asking the user (synthetic statements) keeps Depth = run.DebugDepth; B2 a body that falls off its end terminates while single-stepping (the end-of-code sentinel signals the return only when no signal at all is pending, so singleStep raises SigReturn at the last index of env.Code); N4 every compiler recorded in a frame for the debugger (Env.DebugComp, or the debugComp argument of the ~600 newEnv4Func call sites) is a variable that is nil unless assigned under a test of exactly base.OptDebugger; X5 (shared with C07) a SigDefer raised by a stepped defer statement is forwarded to a region that installs the deferred function; " +
			"F1s each ExecFlags setter raises and lowers exactly its own bit (a setter that clears the debug flag silences stepping); P1p Code.List and Code.DebugPos, indexed in parallel, are assigned together and under the same test (the position table must not drift from the statements). " +
			"N2 confinement of the debugger's state (shared with C18): nothing the compiler or executor computes depends on OptDebugger or Env.DebugComp. N8 a function that makes a fresh or recycled frame current assigns its CallDepth (the pool does not reset it); B3r after a breakpoint answered with anything but continue, execution goes on through Run.Interrupt under that answer alone. Not decided: the stop sequence of a concrete run.",
		Assumptions: []string{"frames are pushed and popped as checked by C06 (new/free pairing)"},
		Rules: []func(*Ctx){ruleDebuggerTable, ruleOptionConfinement, ruleDebugTermination, ruleDebugCompRecorded, func(c *Ctx) {
			ruleDeferProtocol(c, "X5-defer-protocol")
			ruleFlagSetters(c, "F1s-flag-setters", "fast", "ExecFlags", 3)
			ruleParallelFields(c, "P1p-parallel-fields", "fast", "Code", "List", "DebugPos")
			ruleCurrentFrameDepth(c, "N8-current-frame-depth")
			ruleBreakpointRedirect(c, "B3r-breakpoint-redirect")
		}},
		Mutants: []Mutant{
			{Name: "nested-frame-keeps-stale-depth", File: "fast/compile.go", Old: "\tenv.CallDepth = outer.CallDepth\n", New: ""},
			{Name: "breakpoint-redirect-needs-armed-interrupt", File: "fast/debug.go", Old: "\t\tif sig != base.SigNone {\n\t\t\trun := env.Run\n", New: "\t\tif run := env.Run; sig != base.SigNone && run.Interrupt != nil {\n"},
			{Name: "start-defer-setter-clears-debug-flag", File: "fast/global.go", Old: "\t\t(*ef) &^= EFStartDefer\n", New: "\t\t(*ef) &= EFDefer\n"},
			{Name: "truncate-keeps-stale-positions", File: "fast/code.go", Old: "\tif len(code.DebugPos) > n {\n\t\tcode.DebugPos = code.DebugPos[0:n]\n\t}\n", New: ""},
			{Name: "skipped-statement-narrows-depth", File: "fast/debug/api.go", Old: "return DebugOp{Depth: env.Run.DebugDepth}", New: "return DebugOp{Depth: env.CallDepth}"},
			{Name: "func0ret0-records-compiler-under-other-flag", File: "fast/func0ret0.go", Old: "if c.Globals.Options&base.OptDebugger != 0 {", New: "if c.Globals.Options&base.OptDebugDebugger != 0 {"},
			{Name: "stepped-defer-not-installed", File: "fast/code.go", Old: "if run.Signals.IsEmpty() || sig == base.SigDefer {\n\t\t\tgoto again", New: "if run.Signals.IsEmpty() {\n\t\t\tgoto again"},
			{Name: "stepping-never-leaves-body-without-return", File: "fast/debug.go", Old: "\tif env.IP == len(env.Code)-1 && run.Signals.Sync == base.SigNone {", New: "\tif false && env.IP == len(env.Code)-1 && run.Signals.Sync == base.SigNone {"},
			{Name: "next-behaves-like-finish", File: "fast/debug/cmd.go", Old: "return DebugOp{d.env.CallDepth + 1, nil}", New: "return DebugOp{d.env.CallDepth, nil}", Canary: true},
			{Name: "stop-test-inclusive", File: "fast/debug.go", Old: "if env.CallDepth < run.DebugDepth {", New: "if env.CallDepth <= run.DebugDepth {", Canary: true},
			{Name: "step-is-bounded", File: "fast/global.go", Old: "DebugOpStep     = DebugOp{MaxInt, nil}", New: "DebugOpStep     = DebugOp{1, nil}"},
			{Name: "calldepth-not-incremented", File: "fast/compile.go", Old: "env.CallDepth = caller.CallDepth + 1", New: "env.CallDepth = caller.CallDepth"},
		},
	})
}
