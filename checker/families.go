package main

// E1 — specialisation-family discovery. A member is an outermost function literal
// of a function of the analysed package together with its label path: the chain of
// if-branches and switch arms that lead to it.

import (
	"fmt"
	"go/ast"
	"go/constant"
	"go/token"
	"go/types"
	"sort"
	"strings"

	"golang.org/x/tools/go/packages"
)

type pathElem struct {
	Kind  string // "if", "kind", "upn", "sw", "tsw", "loop"
	Label string
	Node  ast.Node // the switch / if statement
	Case  ast.Node // the case clause (for prelude extraction)
	Tag   ast.Expr // depth variable for "upn" elements that come from an if-guard
}

type Member struct {
	Pk      *packages.Package
	FD      *ast.FuncDecl
	FKey    string
	Lit     *ast.FuncLit
	Path    []pathElem
	KindIdx int        // index in Path of the innermost kind/tsw element, -1 if none
	Kinds   []string   // kind labels of that arm (usually one)
	Tau     types.Type // Go type of the label when there is exactly one basic kind
	UpnIdx  int        // index in Path of innermost depth switch, -1 if none
	Ord     int        // ordinal among literals with the same path
}

func (m *Member) pathString(from int) string {
	var sb strings.Builder
	for i := from; i < len(m.Path); i++ {
		if i > from {
			sb.WriteByte('/')
		}
		sb.WriteString(m.Path[i].Kind + ":" + m.Path[i].Label)
	}
	return sb.String()
}

// Key is the construct key of the member: function, label path, ordinal.
func (m *Member) Key() string {
	k := m.FKey + "/" + m.pathString(0)
	if m.Ord > 0 {
		k += fmt.Sprintf("/lit%d", m.Ord+1)
	}
	return k
}

var kindNames = []string{"Invalid", "Bool", "Int", "Int8", "Int16", "Int32", "Int64", "Uint", "Uint8", "Uint16", "Uint32", "Uint64", "Uintptr",
	"Float32", "Float64", "Complex64", "Complex128", "Array", "Chan", "Func", "Interface", "Map", "Ptr", "Slice", "String", "Struct", "UnsafePointer"}

var kindToBasic = map[string]types.BasicKind{
	"Bool": types.Bool, "Int": types.Int, "Int8": types.Int8, "Int16": types.Int16, "Int32": types.Int32, "Int64": types.Int64,
	"Uint": types.Uint, "Uint8": types.Uint8, "Uint16": types.Uint16, "Uint32": types.Uint32, "Uint64": types.Uint64, "Uintptr": types.Uintptr,
	"Float32": types.Float32, "Float64": types.Float64, "Complex64": types.Complex64, "Complex128": types.Complex128, "String": types.String,
}

// category of a basic type: the family that shares a reflect accessor.
func basicCategory(t types.Type) string {
	b, ok := t.Underlying().(*types.Basic)
	if !ok {
		return ""
	}
	switch b.Kind() {
	case types.Bool, types.UntypedBool:
		return "Bool"
	case types.Int, types.Int8, types.Int16, types.Int32, types.Int64, types.UntypedInt, types.UntypedRune:
		return "Int"
	case types.Uint, types.Uint8, types.Uint16, types.Uint32, types.Uint64, types.Uintptr:
		return "Uint"
	case types.Float32, types.Float64, types.UntypedFloat:
		return "Float"
	case types.Complex64, types.Complex128, types.UntypedComplex:
		return "Complex"
	case types.String, types.UntypedString:
		return "String"
	}
	return ""
}

func kindCategory(kind string) string {
	if bk, ok := kindToBasic[kind]; ok {
		return basicCategory(types.Typ[bk])
	}
	return kind
}

func isReflectKind(t types.Type) bool {
	if t == nil {
		return false
	}
	n, ok := t.(*types.Named)
	return ok && n.Obj().Name() == "Kind" && n.Obj().Pkg() != nil && n.Obj().Pkg().Path() == "reflect"
}

func isEnvPtr(t types.Type) bool { return t != nil && isNamedType(t, "fast", "Env") && isPtr(t) }

func isPtr(t types.Type) bool { _, ok := t.(*types.Pointer); return ok }

var depthSwitchRejects = map[string]bool{}

// discoverMembers walks every function of the package.
func discoverMembers(pk *packages.Package) []*Member {
	var out []*Member
	info := pk.TypesInfo
	for _, f := range pk.Syntax {
		for _, d := range f.Decls {
			fd, ok := d.(*ast.FuncDecl)
			if !ok || fd.Body == nil {
				continue
			}
			w := &memberWalker{pk: pk, info: info, fd: fd, fkey: funcKey(pk, fd), ords: map[string]int{}, di: buildDefIndex(info, fd)}
			w.stmts(fd.Body.List)
			out = append(out, w.out...)
		}
	}
	return out
}

type memberWalker struct {
	pk   *packages.Package
	info *types.Info
	fd   *ast.FuncDecl
	fkey string
	path []pathElem
	out  []*Member
	ords map[string]int
	di   *defIndex
}

func (w *memberWalker) push(e pathElem) { w.path = append(w.path, e) }
func (w *memberWalker) pop()            { w.path = w.path[:len(w.path)-1] }

func (w *memberWalker) stmts(list []ast.Stmt) {
	for _, s := range list {
		w.stmt(s)
	}
}

func (w *memberWalker) stmt(s ast.Stmt) {
	switch x := s.(type) {
	case nil:
	case *ast.BlockStmt:
		w.stmts(x.List)
	case *ast.IfStmt:
		if x.Init != nil {
			w.stmt(x.Init)
		}
		w.exprs(x.Cond)
		lab := exprString(x.Cond)
		if v, dl := depthGuard(w.info, w.di, x.Cond); v != nil {
			w.push(pathElem{Kind: "upn", Label: lab + "?then=" + dl, Node: x, Tag: v})
		} else {
			w.push(pathElem{Kind: "if", Label: lab + "?then", Node: x})
		}
		w.stmts(x.Body.List)
		w.pop()
		if x.Else != nil {
			w.push(pathElem{Kind: "if", Label: lab + "?else", Node: x})
			w.stmt(x.Else)
			w.pop()
		}
	case *ast.SwitchStmt:
		if x.Init != nil {
			w.stmt(x.Init)
		}
		kind := "sw"
		var tagT types.Type
		if x.Tag != nil {
			w.exprs(x.Tag)
			tagT = w.info.TypeOf(x.Tag)
		}
		if isReflectKind(tagT) {
			kind = "kind"
		} else if x.Tag != nil && isDepthSwitch(w.info, x) {
			if ce := chainEndsInField(w.info, w.di, x.Tag, 0); ce == "Upn" || strings.HasPrefix(ce, "param:") && strings.Contains(strings.ToLower(ce), "upn") {
				kind = "upn"
			} else {
				depthSwitchRejects[w.fkey+": switch "+exprString(x.Tag)+" ("+ce+")"] = true
			}
		}
		for _, cc := range x.Body.List {
			cl := cc.(*ast.CaseClause)
			lab := "default"
			if cl.List != nil {
				var ls []string
				for _, e := range cl.List {
					switch kind {
					case "kind":
						ls = append(ls, kindLabel(w.info, e))
					case "upn":
						ls = append(ls, depthLabel(w.info, e))
					default:
						ls = append(ls, exprString(e))
					}
				}
				lab = strings.Join(ls, ",")
			}
			tag := ""
			if kind == "sw" && x.Tag != nil {
				tag = exprString(x.Tag) + "="
			}
			w.push(pathElem{Kind: kind, Label: tag + lab, Node: x, Case: cl})
			w.stmts(cl.Body)
			w.pop()
		}
	case *ast.TypeSwitchStmt:
		if x.Init != nil {
			w.stmt(x.Init)
		}
		for _, cc := range x.Body.List {
			cl := cc.(*ast.CaseClause)
			lab := "default"
			if cl.List != nil {
				var ls []string
				for _, e := range cl.List {
					ls = append(ls, exprString(e))
				}
				lab = strings.Join(ls, ",")
			}
			w.push(pathElem{Kind: "tsw", Label: lab, Node: x, Case: cl})
			w.stmts(cl.Body)
			w.pop()
		}
	case *ast.ForStmt:
		w.push(pathElem{Kind: "loop", Label: "for", Node: x})
		if x.Init != nil {
			w.stmt(x.Init)
		}
		w.exprs(x.Cond)
		if x.Post != nil {
			w.stmt(x.Post)
		}
		w.stmts(x.Body.List)
		w.pop()
	case *ast.RangeStmt:
		w.exprs(x.X)
		w.push(pathElem{Kind: "loop", Label: "range", Node: x})
		w.stmts(x.Body.List)
		w.pop()
	case *ast.LabeledStmt:
		w.stmt(x.Stmt)
	case *ast.SelectStmt:
		for _, cc := range x.Body.List {
			cl := cc.(*ast.CommClause)
			w.push(pathElem{Kind: "sw", Label: "select", Node: x})
			if cl.Comm != nil {
				w.stmt(cl.Comm)
			}
			w.stmts(cl.Body)
			w.pop()
		}
	default:
		w.exprs(s)
	}
}

// exprs records outermost function literals below n.
func (w *memberWalker) exprs(n ast.Node) {
	if n == nil {
		return
	}
	ast.Inspect(n, func(n ast.Node) bool {
		fl, ok := n.(*ast.FuncLit)
		if !ok {
			return true
		}
		m := &Member{Pk: w.pk, FD: w.fd, FKey: w.fkey, Lit: fl, Path: append([]pathElem{}, w.path...), KindIdx: -1, UpnIdx: -1}
		for i, e := range m.Path {
			if e.Kind == "kind" || (e.Kind == "tsw" && tswTau(w.info, e.Case.(*ast.CaseClause)) != nil) {
				m.KindIdx = i
			}
			if e.Kind == "upn" {
				m.UpnIdx = i
			}
		}
		if m.KindIdx >= 0 {
			e := m.Path[m.KindIdx]
			if e.Kind == "kind" {
				if e.Label != "default" {
					m.Kinds = strings.Split(e.Label, ",")
				}
				if len(m.Kinds) == 1 {
					if bk, ok := kindToBasic[m.Kinds[0]]; ok {
						m.Tau = types.Typ[bk]
					}
				}
			} else {
				m.Tau = tswTau(w.info, e.Case.(*ast.CaseClause))
				if b, ok := m.Tau.(*types.Basic); ok {
					m.Kinds = []string{strings.Title(b.Name())}
				}
			}
		}
		ps := m.pathString(0)
		m.Ord = w.ords[ps]
		w.ords[ps]++
		w.out = append(w.out, m)
		return false
	})
}

// tswTau: a type-switch arm `case func(*Env) T:` with basic T labels the arm with T.
func tswTau(info *types.Info, cl *ast.CaseClause) types.Type {
	if len(cl.List) != 1 {
		return nil
	}
	t := info.TypeOf(cl.List[0])
	sig, ok := t.(*types.Signature)
	if !ok || sig.Params().Len() != 1 || sig.Results().Len() != 1 || !isEnvPtr(sig.Params().At(0).Type()) {
		return nil
	}
	if b, ok := sig.Results().At(0).Type().(*types.Basic); ok {
		return b
	}
	return nil
}

func kindLabel(info *types.Info, e ast.Expr) string {
	tv, ok := info.Types[e]
	if ok && tv.Value != nil && tv.Value.Kind() == constant.Int {
		if v, ok := constant.Int64Val(tv.Value); ok && v >= 0 && int(v) < len(kindNames) {
			return kindNames[v]
		}
	}
	return exprString(e)
}

// isDepthSwitch: a switch over an int tag that has arms 0, 1 and 2: the closure-depth
// specialisation of a variable access.
func isDepthSwitch(info *types.Info, s *ast.SwitchStmt) bool {
	b, ok := info.TypeOf(s.Tag).Underlying().(*types.Basic)
	if !ok || b.Kind() != types.Int {
		return false
	}
	have := map[int64]bool{}
	for _, cc := range s.Body.List {
		for _, e := range cc.(*ast.CaseClause).List {
			if v, ok := constInt(info, e); ok {
				have[v] = true
			}
		}
	}
	return have[0] && have[1] && have[2]
}

// depthLabel: 0,1,2 literally; `X - 1` is FILE (the file scope, one below the top);
// a non-constant expression without arithmetic is TOP.
func depthLabel(info *types.Info, e ast.Expr) string {
	if v, ok := constInt(info, e); ok {
		return fmt.Sprint(v)
	}
	if b, ok := unparen(e).(*ast.BinaryExpr); ok && b.Op == token.SUB {
		if v, ok := constInt(info, b.Y); ok && v == 1 {
			return "FILE"
		}
	}
	switch unparen(e).(type) {
	case *ast.Ident, *ast.SelectorExpr:
		return "TOP"
	}
	return "?" + exprString(e)
}

// ---------------------------------------------------------------- definitions

// defIndex maps local variables of a function to their defining expressions.
type defIndex struct {
	defs map[types.Object][]ast.Expr // nil entry = assigned from something non-expressible (multi-value, range, ...)
}

func buildDefIndex(info *types.Info, fd *ast.FuncDecl) *defIndex {
	di := &defIndex{defs: map[types.Object][]ast.Expr{}}
	obj := func(e ast.Expr) types.Object {
		id := identOf(e)
		if id == nil {
			return nil
		}
		if o := info.Defs[id]; o != nil {
			return o
		}
		return info.Uses[id]
	}
	// parameters and receiver are defined by the call: any assignment makes them multiply defined
	for _, fl := range []*ast.FieldList{fd.Recv, fd.Type.Params, fd.Type.Results} {
		if fl == nil {
			continue
		}
		for _, f := range fl.List {
			for _, nm := range f.Names {
				if o := info.Defs[nm]; o != nil {
					di.defs[o] = append(di.defs[o], nil)
				}
			}
		}
	}
	ast.Inspect(fd, func(n ast.Node) bool {
		switch x := n.(type) {
		case *ast.AssignStmt:
			if len(x.Lhs) == len(x.Rhs) {
				for i, l := range x.Lhs {
					if o := obj(l); o != nil {
						if x.Tok == token.ASSIGN || x.Tok == token.DEFINE {
							di.defs[o] = append(di.defs[o], x.Rhs[i])
						} else {
							di.defs[o] = append(di.defs[o], nil)
						}
					}
				}
			} else {
				for _, l := range x.Lhs {
					if o := obj(l); o != nil {
						if len(x.Rhs) == 1 && (x.Tok == token.ASSIGN || x.Tok == token.DEFINE) {
							// v, ok := f(a): provenance of every result flows from the call
							di.defs[o] = append(di.defs[o], x.Rhs[0])
						} else {
							di.defs[o] = append(di.defs[o], nil)
						}
					}
				}
			}
		case *ast.ValueSpec:
			for i, nm := range x.Names {
				o := info.Defs[nm]
				if o == nil {
					continue
				}
				if len(x.Values) == len(x.Names) {
					di.defs[o] = append(di.defs[o], x.Values[i])
				} else if len(x.Values) > 0 {
					di.defs[o] = append(di.defs[o], nil)
				}
				// `var x T` without value: zero value, no definition recorded
			}
		case *ast.TypeSwitchStmt:
			// switch v := e.(type): the per-clause implicit object derives from e
			if as, ok := x.Assign.(*ast.AssignStmt); ok && len(as.Rhs) == 1 {
				if ta, ok := unparen(as.Rhs[0]).(*ast.TypeAssertExpr); ok {
					for _, cc := range x.Body.List {
						if o := info.Implicits[cc]; o != nil {
							di.defs[o] = append(di.defs[o], ta.X)
						}
					}
				}
			}
		case *ast.RangeStmt:
			for _, l := range []ast.Expr{x.Key, x.Value} {
				if l != nil {
					if o := obj(l); o != nil {
						di.defs[o] = append(di.defs[o], nil)
					}
				}
			}
		case *ast.IncDecStmt:
			if o := obj(x.X); o != nil {
				di.defs[o] = append(di.defs[o], nil)
			}
		case *ast.UnaryExpr:
			if x.Op == token.AND {
				if o := obj(x.X); o != nil {
					di.defs[o] = append(di.defs[o], nil) // address taken: may be written through the pointer
				}
			}
		}
		return true
	})
	return di
}

// single returns the unique defining expression of o, or nil.
func (di *defIndex) single(o types.Object) ast.Expr {
	d := di.defs[o]
	if len(d) == 1 && d[0] != nil {
		return d[0]
	}
	return nil
}

// singleNonConst is single() ignoring definitions by a constant literal (`x := -1`
// placeholders overwritten later); used for provenance only, never for canonical terms.
func (di *defIndex) singleNonConst(o types.Object) ast.Expr {
	var found ast.Expr
	for _, d := range di.defs[o] {
		if d == nil {
			return nil
		}
		e := unparen(d)
		if u, ok := e.(*ast.UnaryExpr); ok {
			e = unparen(u.X)
		}
		if _, ok := e.(*ast.BasicLit); ok {
			continue
		}
		if found != nil {
			return nil
		}
		found = d
	}
	return found
}

// rootOf follows single definitions through selectors/calls to the root object:
// `index := va.Desc.Index()` has root va; `upn := va.Upn` has root va.
func (di *defIndex) rootOf(info *types.Info, e ast.Expr, depth int) types.Object {
	if depth > 8 {
		return nil
	}
	switch x := unparen(e).(type) {
	case *ast.Ident:
		o := info.Uses[x]
		if o == nil {
			o = info.Defs[x]
		}
		if o == nil {
			return nil
		}
		if d := di.singleNonConst(o); d != nil {
			if r := di.rootOf(info, d, depth+1); r != nil {
				return r
			}
		}
		return o
	case *ast.SelectorExpr:
		if _, ok := info.Uses[identOf(x.X)].(*types.PkgName); ok {
			return info.Uses[x.Sel]
		}
		return di.rootOf(info, x.X, depth+1)
	case *ast.CallExpr:
		if tv, ok := info.Types[x.Fun]; ok && tv.IsType() && len(x.Args) == 1 {
			return di.rootOf(info, x.Args[0], depth+1)
		}
		if s, ok := unparen(x.Fun).(*ast.SelectorExpr); ok {
			if _, isPkg := info.Uses[identOf(s.X)].(*types.PkgName); !isPkg {
				return di.rootOf(info, s.X, depth+1)
			}
		}
		// plain function: provenance flows from the first argument
		if len(x.Args) > 0 {
			return di.rootOf(info, x.Args[0], depth+1)
		}
	case *ast.CompositeLit:
		for _, el := range x.Elts {
			if kv, ok := el.(*ast.KeyValueExpr); ok {
				el = kv.Value
			}
			if r := di.rootOf(info, el, depth+1); r != nil {
				return r
			}
		}
	case *ast.StarExpr:
		return di.rootOf(info, x.X, depth+1)
	case *ast.UnaryExpr:
		return di.rootOf(info, x.X, depth+1)
	case *ast.TypeAssertExpr:
		return di.rootOf(info, x.X, depth+1)
	case *ast.IndexExpr:
		return di.rootOf(info, x.X, depth+1)
	}
	return nil
}

func sortedKeys(m map[string]int) []string {
	var ks []string
	for k := range m {
		ks = append(ks, k)
	}
	sort.Strings(ks)
	return ks
}

// depthGuard recognises an if-condition with a conjunct `V == L` where V is an int
// variable whose definition chain ends in a field named Upn; returns V and the depth label.
func depthGuard(info *types.Info, di *defIndex, cond ast.Expr) (ast.Expr, string) {
	switch x := unparen(cond).(type) {
	case *ast.BinaryExpr:
		if x.Op == token.LAND {
			if v, l := depthGuard(info, di, x.X); v != nil {
				return v, l
			}
			return depthGuard(info, di, x.Y)
		}
		if x.Op == token.EQL && identOf(x.X) != nil {
			if b, ok := info.TypeOf(x.X).Underlying().(*types.Basic); ok && b.Kind() == types.Int {
				if chainEndsInField(info, di, x.X, 0) == "Upn" {
					return x.X, depthLabel(info, x.Y)
				}
			}
		}
	}
	return nil, ""
}
