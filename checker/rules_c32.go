package main

// C32: Marshal / Unmarshal table agreement (E6).

import (
	"fmt"
	"go/ast"
	"go/token"
	"go/types"
	"strings"
)

type marshalArm struct {
	kind   string // constant name (Int, Rune, ...)
	tag    string
	fields int
	node   ast.Node
	exact  bool // all numeric fields produced by ExactString
	lossy  string
}

func ruleMarshalTables(c *Ctx) {
	pk := c.P.Pkg("base/untyped")
	if pk == nil {
		c.Fatal("package base/untyped not loaded")
		return
	}
	info := pk.TypesInfo
	mf := c.P.Func("base/untyped.Marshal")
	uf := c.P.Func("base/untyped.Unmarshal")
	ff := c.P.Func("base/untyped.unmarshalFloat")
	if mf == nil || uf == nil || ff == nil {
		c.Ob("M0-anchor", "base/untyped.Marshal/Unmarshal/unmarshalFloat", nil, false, "anchor functions not found")
		return
	}
	// ---- writer table
	var arms []marshalArm
	msw := findSwitches(mf.Body, func(tag ast.Expr) bool { return isNamedType(info.TypeOf(tag), "base/untyped", "Kind") })
	if len(msw) != 1 {
		c.Ob("M0-anchor", "base/untyped.Marshal/switch", mf, false, "expected one switch over Kind")
		return
	}
	for _, cc := range msw[0].Body.List {
		cl := cc.(*ast.CaseClause)
		if cl.List == nil {
			c.Ob("M1-writer", "base/untyped.Marshal/default", cl, false, "default arm in Marshal: some kind is written without a tag of its own")
			continue
		}
		for _, k := range cl.List {
			arm := marshalArm{kind: objQName(usedObj(info, k)), node: cl, exact: true}
			// string literals / Sprintf formats assigned in this arm
			var formats []string
			ast.Inspect(cl, func(n ast.Node) bool {
				switch x := n.(type) {
				case *ast.CallExpr:
					if isCallTo(info, x, "fmt.Sprintf") && len(x.Args) > 0 {
						if f, ok := constString(info, x.Args[0]); ok {
							formats = append(formats, f)
							for _, a := range x.Args[1:] {
								ac, _ := unparen(a).(*ast.CallExpr)
								callee := ""
								if ac != nil {
									callee = funcFullName(calleeOf(info, ac))
								}
								switch callee {
								case "go/constant.Value.ExactString":
								case "go/constant.StringVal":
								default:
									arm.exact = false
									arm.lossy = exprString(a)
								}
							}
						}
						return false
					}
				case *ast.BasicLit:
					if x.Kind == token.STRING {
						if s, ok := constString(info, x); ok {
							formats = append(formats, s)
						}
					}
				}
				return true
			})
			// every value assigned to the result in a numeric arm must be produced by Sprintf over exact fields
			ast.Inspect(cl, func(n ast.Node) bool {
				as, ok := n.(*ast.AssignStmt)
				if !ok || len(as.Lhs) != 1 || len(as.Rhs) != 1 {
					return true
				}
				if t := info.TypeOf(as.Lhs[0]); t == nil || basicCategory(t) != "String" {
					return true
				}
				rhs := unparen(as.Rhs[0])
				if _, isLit := rhs.(*ast.BasicLit); isLit {
					return true
				}
				if call, isCall := rhs.(*ast.CallExpr); isCall && isCallTo(info, call, "fmt.Sprintf") {
					return true
				}
				arm.exact = false
				arm.lossy = "result also produced by " + exprString(rhs)
				return true
			})
			tags := map[string]bool{}
			for _, f := range formats {
				t := f
				if i := strings.IndexByte(f, ':'); i >= 0 {
					t = f[:i]
				}
				tags[t] = true
				if n := strings.Count(f, "%s") + strings.Count(f, "%v"); n > arm.fields {
					arm.fields = n
				}
				if arm.fields == 0 && strings.Contains(f, ":") {
					arm.fields = 1 // literal payload such as bool:true
				}
			}
			if len(tags) != 1 {
				c.Ob("M1-writer", "base/untyped.Marshal/"+arm.kind, cl, false, fmt.Sprintf("arm writes %d different tags", len(tags)))
				continue
			}
			for t := range tags {
				arm.tag = t
			}
			arms = append(arms, arm)
		}
	}
	// ---- reader table
	usw := findSwitches(uf.Body, func(tag ast.Expr) bool {
		b, ok := info.TypeOf(tag).Underlying().(*types.Basic)
		return ok && b.Kind() == types.String
	})
	if len(usw) != 1 {
		c.Ob("M0-anchor", "base/untyped.Unmarshal/switch", uf, false, "expected one switch over the tag string")
		return
	}
	type readArm struct {
		kind       string
		node       *ast.CaseClause
		split      bool
		floatRead  int
		intRead    int
		stringRead int
	}
	readers := map[string]*readArm{}
	for _, cc := range usw[0].Body.List {
		cl := cc.(*ast.CaseClause)
		for _, k := range cl.List {
			tag, ok := constString(info, k)
			if !ok {
				continue
			}
			ra := &readArm{node: cl}
			ast.Inspect(cl, func(n ast.Node) bool {
				switch x := n.(type) {
				case *ast.AssignStmt:
					if len(x.Lhs) == 1 && len(x.Rhs) == 1 {
						if id := identOf(x.Lhs[0]); id != nil && isNamedType(info.TypeOf(id), "base/untyped", "Kind") {
							ra.kind = objQName(usedObj(info, x.Rhs[0]))
						}
					}
				case *ast.CallExpr:
					switch funcFullName(calleeOf(info, x)) {
					case "strings.IndexByte", "strings.Index", "strings.Cut":
						ra.split = true
					case "base/untyped.unmarshalFloat":
						ra.floatRead++
					case "go/constant.MakeFromLiteral":
						ra.intRead++
					case "go/constant.MakeString":
						ra.stringRead++
					}
				}
				return true
			})
			readers[tag] = ra
		}
	}
	// the first split of the whole string must look for the FIRST ':'
	firstSplit := ""
	var firstSplitNode ast.Node
	ast.Inspect(uf.Body, func(n ast.Node) bool {
		if firstSplit != "" {
			return false
		}
		if x, ok := n.(*ast.CallExpr); ok && x.Pos() < usw[0].Pos() {
			if fn := funcFullName(calleeOf(info, x)); strings.HasPrefix(fn, "strings.") {
				firstSplit, firstSplitNode = fn, x
			}
		}
		return true
	})
	okSplit := firstSplit == "strings.IndexByte" || firstSplit == "strings.Index" || firstSplit == "strings.Cut" || firstSplit == "strings.SplitN"
	c.Ob("M4-first-colon", "base/untyped.Unmarshal/tag-split", firstSplitNode, okSplit,
		"tag is separated from the payload by "+firstSplit+" (payload = everything after the FIRST ':' so that strings containing ':' survive)")
	if okSplit {
		// payload must be marshalled[sep+1:] and tag marshalled[:sep]
		good := 0
		ast.Inspect(uf.Body, func(n ast.Node) bool {
			if s, ok := n.(*ast.SliceExpr); ok && s.Pos() < usw[0].Pos() {
				if s.Low == nil && s.High != nil && identOf(s.High) != nil {
					good |= 1
				}
				if b, ok := unparen(orNil(s.Low)).(*ast.BinaryExpr); ok && s.High == nil && b.Op == token.ADD {
					if v, ok := constInt(info, b.Y); ok && v == 1 && identOf(b.X) != nil {
						good |= 2
					}
				}
			}
			return true
		})
		c.Ob("M4-first-colon", "base/untyped.Unmarshal/payload-slices", uf, good == 3, "tag = s[:sep], payload = s[sep+1:]")
	}
	// ---- agreement
	seen := map[string]bool{}
	for _, a := range arms {
		key := "base/untyped.Marshal/" + a.kind
		r := readers[a.tag]
		seen[a.tag] = true
		if r == nil {
			c.Ob("M2-bijection", key, a.node, false, fmt.Sprintf("tag %q written for %s has no case in Unmarshal", a.tag, a.kind))
			continue
		}
		if a.tag == "nil" {
			c.Ob("M2-bijection", key, a.node, r.kind == a.kind || r.kind == "", fmt.Sprintf("tag %q read back as %s", a.tag, r.kind))
			continue
		}
		c.Ob("M2-bijection", key, a.node, r.kind == a.kind, fmt.Sprintf("tag %q written for %s is read back as %s", a.tag, a.kind, r.kind))
		// field counts
		readFields := 1
		if r.split {
			readFields = 2
		}
		c.Ob("M3-fields", key, a.node, a.fields == readFields || (a.fields == 1 && readFields == 2 && a.kind != "base/untyped.Complex" && false),
			fmt.Sprintf("writer emits %d payload field(s), reader splits %d", a.fields, readFields))
		switch a.kind {
		case "base/untyped.Int", "base/untyped.Rune":
			c.Ob("M5-exact", key, a.node, a.exact && r.intRead >= 1 && r.floatRead == 0, "integer written with ExactString, read with MakeFromLiteral(token.INT) "+a.lossy)
		case "base/untyped.Float":
			c.Ob("M5-exact", key, a.node, a.exact && r.floatRead >= 1 && r.intRead == 0, "float written with ExactString (may be a/b), read with unmarshalFloat "+a.lossy)
		case "base/untyped.Complex":
			c.Ob("M5-exact", key, a.node, a.exact && r.floatRead >= 2 && r.intRead == 0, "real and imaginary parts written with ExactString, both read with unmarshalFloat "+a.lossy)
		case "base/untyped.String":
			c.Ob("M5-exact", key, a.node, a.exact && r.stringRead >= 1, "string payload written verbatim, read with MakeString "+a.lossy)
		}
	}
	for tag, r := range readers {
		if !seen[tag] {
			c.Ob("M2-bijection", "base/untyped.Unmarshal/"+tag, r.node, false, "tag is read but never written")
		}
	}
	// int arms must read with token.INT, unmarshalFloat must accept fractions
	for tag, r := range readers {
		if tag != "int" && tag != "rune" {
			continue
		}
		ok := false
		inspectCalls(r.node, func(call *ast.CallExpr) {
			if isCallTo(info, call, "go/constant.MakeFromLiteral") && len(call.Args) == 3 && objQName(usedObj(info, call.Args[1])) == "go/token.INT" {
				ok = true
			}
		})
		c.Ob("M5-exact", "base/untyped.Unmarshal/"+tag+"/literal-kind", r.node, ok, "integer payload parsed as token.INT")
	}
	hasSplit, hasQuo, nLit := false, false, 0
	ast.Inspect(ff.Body, func(n ast.Node) bool {
		switch x := n.(type) {
		case *ast.CallExpr:
			switch funcFullName(calleeOf(info, x)) {
			case "strings.IndexByte", "strings.Index", "strings.Cut":
				if len(x.Args) == 2 {
					if tv := info.Types[x.Args[1]]; tv.Value != nil && (tv.Value.ExactString() == "47" || tv.Value.ExactString() == `"/"`) {
						hasSplit = true
					}
				}
			case "go/constant.BinaryOp":
				if len(x.Args) == 3 && objQName(usedObj(info, x.Args[1])) == "go/token.QUO" {
					// numerator first
					hasQuo = true
				}
			case "go/constant.MakeFromLiteral":
				nLit++
			}
		}
		return true
	})
	c.Ob("M6-fraction", "base/untyped.unmarshalFloat", ff, hasSplit && hasQuo && nLit >= 3, "reader of float fields splits on '/' and divides numerator by denominator (ExactString writes a/b for non-integers)")
	if hasSplit && hasQuo {
		c.Ob("M6-fraction", "base/untyped.unmarshalFloat/operand-order", ff, fractionOrderOK(info, ff), "numerator is str[:sep], denominator is str[sep+1:], quotient is numerator/denominator")
	}
	c.Floor("M2-bijection", 6)
	c.Floor("M5-exact", 5)
}

func orNil(e ast.Expr) ast.Expr {
	if e == nil {
		return &ast.Ident{Name: "_"}
	}
	return e
}

// fractionOrderOK checks x := f(str[:sep]); y := f(str[sep+1:]); BinaryOp(x, QUO, y).
func fractionOrderOK(info *types.Info, fd *ast.FuncDecl) bool {
	role := map[types.Object]string{}
	ok := false
	ast.Inspect(fd.Body, func(n ast.Node) bool {
		switch x := n.(type) {
		case *ast.AssignStmt:
			if len(x.Lhs) == 1 && len(x.Rhs) == 1 {
				if call, isCall := unparen(x.Rhs[0]).(*ast.CallExpr); isCall && len(call.Args) > 0 {
					if s, isSlice := unparen(call.Args[0]).(*ast.SliceExpr); isSlice {
						if id := identOf(x.Lhs[0]); id != nil {
							o := info.Defs[id]
							if o == nil {
								o = info.Uses[id]
							}
							if s.Low == nil && s.High != nil {
								role[o] = "num"
							} else if s.Low != nil && s.High == nil {
								role[o] = "den"
							}
						}
					}
				}
			}
		case *ast.CallExpr:
			if isCallTo(info, x, "go/constant.BinaryOp") && len(x.Args) == 3 {
				a, b := identOf(x.Args[0]), identOf(x.Args[2])
				if a != nil && b != nil && role[info.Uses[a]] == "num" && role[info.Uses[b]] == "den" {
					ok = true
				}
			}
		}
		return true
	})
	return ok
}
