package main

// E1 anchors on environment accesses: A3 depth, A4 storage, A2 accessor.

import (
	"fmt"
	"go/ast"
	"go/token"
	"go/types"
	"strings"
)

// dval is the abstract depth of an *Env expression relative to the closure's own
// environment parameter: abs=="" means k + u*[upn]; FILE / TOP are absolute frames.
type dval struct {
	abs     string
	k, u    int
	unknown bool
}

func (d dval) String() string {
	if d.unknown {
		return "unknown"
	}
	if d.abs != "" {
		if d.k != 0 || d.u != 0 {
			return fmt.Sprintf("%s+%d", d.abs, d.k)
		}
		return d.abs
	}
	switch {
	case d.u == 0:
		return fmt.Sprint(d.k)
	case d.k == 0 && d.u == 1:
		return "upn"
	default:
		return fmt.Sprintf("%d*upn%+d", d.u, d.k)
	}
}

func (d dval) plus(k, u int) dval {
	if d.unknown {
		return d
	}
	if d.abs == "FILE" && k == 1 && u == 0 && d.k == 0 {
		return dval{abs: "TOP"}
	}
	if d.abs != "" {
		return dval{abs: d.abs, k: d.k + k, u: d.u + u}
	}
	return dval{k: d.k + k, u: d.u + u}
}

type depthInterp struct {
	info    *types.Info
	di      *defIndex
	upnObj  types.Object // the depth variable of the enclosing specialisation (may be nil)
	upnRoot types.Object
	state   map[types.Object]dval
	visit   func(access ast.Expr, E ast.Expr, idx ast.Expr, ints bool, d dval)
	// visitIP, when set, is called for every selector E.IP / E.Code with the depth of E
	visitIP func(sel *ast.SelectorExpr, d dval)
	// visitEnvCall, when set, is called for every call f(E) of a function-typed variable whose only parameter is *Env
	visitEnvCall func(call *ast.CallExpr, d dval)
}

func (p *depthInterp) isUpn(e ast.Expr) bool {
	id := identOf(e)
	if id == nil {
		return false
	}
	o := p.info.Uses[id]
	if o == nil {
		return false
	}
	if p.upnObj != nil && o == p.upnObj {
		return true
	}
	return false
}

func (p *depthInterp) eval(e ast.Expr) dval {
	switch x := unparen(e).(type) {
	case *ast.Ident:
		o := p.info.Uses[x]
		if o == nil {
			o = p.info.Defs[x]
		}
		if v, ok := p.state[o]; ok {
			return v
		}
		return dval{unknown: true}
	case *ast.SelectorExpr:
		if !isEnvPtr(p.info.TypeOf(x.X)) {
			return dval{unknown: true}
		}
		switch x.Sel.Name {
		case "Outer":
			return p.eval(x.X).plus(1, 0)
		case "FileEnv":
			return dval{abs: "FILE"}
		}
	case *ast.CallExpr:
		fn := funcFullName(calleeOf(p.info, x))
		var recv, n ast.Expr
		switch fn {
		case "fast.Env.Up":
			if s, ok := unparen(x.Fun).(*ast.SelectorExpr); ok && len(x.Args) == 1 {
				recv, n = s.X, x.Args[0]
			}
		case "fast.outerEnv3":
			if len(x.Args) == 2 {
				recv, n = x.Args[0], x.Args[1]
			}
		}
		if recv != nil {
			if v, ok := constInt(p.info, n); ok {
				return p.eval(recv).plus(int(v), 0)
			}
			if p.isUpn(n) {
				return p.eval(recv).plus(0, 1)
			}
		}
	}
	return dval{unknown: true}
}

func copyState(s map[types.Object]dval) map[types.Object]dval {
	n := make(map[types.Object]dval, len(s))
	for k, v := range s {
		n[k] = v
	}
	return n
}

func joinState(a, b map[types.Object]dval) map[types.Object]dval {
	n := map[types.Object]dval{}
	for k, v := range a {
		if w, ok := b[k]; ok && w == v {
			n[k] = v
		} else {
			n[k] = dval{unknown: true}
		}
	}
	for k := range b {
		if _, ok := a[k]; !ok {
			n[k] = dval{unknown: true}
		}
	}
	return n
}

// exprWalk visits accesses inside an expression in evaluation order (approximately:
// source order) with the current state; nested literals are interpreted with a copy.
func (p *depthInterp) exprWalk(n ast.Node) {
	if n == nil {
		return
	}
	ast.Inspect(n, func(n ast.Node) bool {
		switch x := n.(type) {
		case *ast.FuncLit:
			saved := p.state
			p.state = copyState(saved)
			for _, f := range x.Type.Params.List {
				for _, nm := range f.Names {
					if isEnvPtr(p.info.TypeOf(f.Type)) {
						// a nested closure with its own env parameter starts its own frame count
						p.state[p.info.Defs[nm]] = dval{unknown: true}
					}
				}
			}
			p.block(x.Body.List)
			p.state = saved
			return false
		case *ast.CallExpr:
			if p.visitEnvCall != nil && len(x.Args) == 1 && isEnvPtr(p.info.TypeOf(x.Args[0])) {
				if id := identOf(x.Fun); id != nil {
					if _, isVar := p.info.Uses[id].(*types.Var); isVar {
						p.visitEnvCall(x, p.eval(x.Args[0]))
					}
				}
			}
		case *ast.SelectorExpr:
			if p.visitIP != nil && (x.Sel.Name == "IP" || x.Sel.Name == "Code") && isEnvPtr(p.info.TypeOf(x.X)) {
				p.visitIP(x, p.eval(x.X))
			}
		case *ast.IndexExpr:
			if E, i, ok := intsAccess(p.info, x); ok {
				p.visit(x, E, i, true, p.eval(E))
			} else if E, i, ok := valsAccess(p.info, x); ok {
				p.visit(x, E, i, false, p.eval(E))
			}
		}
		return true
	})
}

func (p *depthInterp) assign(lhs ast.Expr, rhs ast.Expr, define bool) {
	id := identOf(lhs)
	if id == nil {
		return
	}
	o := p.info.Defs[id]
	if o == nil {
		o = p.info.Uses[id]
	}
	if o == nil || !isEnvPtr(o.Type()) {
		return
	}
	if rhs == nil {
		p.state[o] = dval{unknown: true}
		return
	}
	p.state[o] = p.eval(rhs)
}

// envLoop recognises `for i := c; i < upn; i++ { v = v.Outer ... }` and returns the
// per-variable increments of the whole loop.
func (p *depthInterp) envLoop(f *ast.ForStmt) (map[types.Object]dval, bool) {
	if f.Init == nil || f.Cond == nil || f.Post == nil {
		return nil, false
	}
	as, ok := f.Init.(*ast.AssignStmt)
	if !ok || len(as.Lhs) != 1 || len(as.Rhs) != 1 {
		return nil, false
	}
	iv := identOf(as.Lhs[0])
	if iv == nil {
		return nil, false
	}
	iobj := p.info.Defs[iv]
	cond, ok := unparen(f.Cond).(*ast.BinaryExpr)
	if !ok || identOf(cond.X) == nil || p.info.Uses[identOf(cond.X)] != iobj {
		return nil, false
	}
	inc, ok := f.Post.(*ast.IncDecStmt)
	if !ok || identOf(inc.X) == nil || p.info.Uses[identOf(inc.X)] != iobj {
		return nil, false
	}
	var c0 int64
	if p.isUpn(as.Rhs[0]) {
		// counting down: for i := upn; i > c; i-- : (upn - c) iterations
		c1, isC := constInt(p.info, cond.Y)
		if cond.Op != token.GTR || !isC || inc.Tok != token.DEC {
			return nil, false
		}
		c0 = c1
	} else {
		// counting up: for i := c; i < upn; i++
		v, isC := constInt(p.info, as.Rhs[0])
		if !isC || cond.Op != token.LSS || !p.isUpn(cond.Y) || inc.Tok != token.INC {
			return nil, false
		}
		c0 = v
	}
	eff := map[types.Object]dval{}
	for _, s := range f.Body.List {
		a, ok := s.(*ast.AssignStmt)
		if !ok || a.Tok != token.ASSIGN || len(a.Lhs) != 1 || len(a.Rhs) != 1 {
			return nil, false
		}
		v := identOf(a.Lhs[0])
		sel, ok2 := unparen(a.Rhs[0]).(*ast.SelectorExpr)
		if v == nil || !ok2 || sel.Sel.Name != "Outer" || identOf(sel.X) == nil || p.info.Uses[identOf(sel.X)] != p.info.Uses[v] {
			return nil, false
		}
		o := p.info.Uses[v]
		if !isEnvPtr(o.Type()) {
			return nil, false
		}
		d := eff[o]
		// one link per iteration, (upn - c0) iterations
		eff[o] = dval{k: d.k - int(c0), u: d.u + 1}
	}
	return eff, len(eff) > 0
}

func (p *depthInterp) block(list []ast.Stmt) {
	for _, s := range list {
		p.stmt(s)
	}
}

func (p *depthInterp) stmt(s ast.Stmt) {
	switch x := s.(type) {
	case nil:
	case *ast.BlockStmt:
		p.block(x.List)
	case *ast.AssignStmt:
		for _, r := range x.Rhs {
			p.exprWalk(r)
		}
		for _, l := range x.Lhs {
			if identOf(l) == nil {
				p.exprWalk(l)
			}
		}
		if x.Tok == token.ASSIGN || x.Tok == token.DEFINE {
			if len(x.Lhs) == len(x.Rhs) {
				// parallel assignment: evaluate all right sides first
				vals := make([]ast.Expr, len(x.Rhs))
				copy(vals, x.Rhs)
				type upd struct {
					l  ast.Expr
					v  dval
					ok bool
				}
				var ups []upd
				for i, l := range x.Lhs {
					if id := identOf(l); id != nil {
						o := p.info.Defs[id]
						if o == nil {
							o = p.info.Uses[id]
						}
						if o != nil && isEnvPtr(o.Type()) {
							ups = append(ups, upd{l, p.eval(vals[i]), true})
						}
					}
				}
				for _, u := range ups {
					id := identOf(u.l)
					o := p.info.Defs[id]
					if o == nil {
						o = p.info.Uses[id]
					}
					p.state[o] = u.v
				}
			} else {
				for _, l := range x.Lhs {
					p.assign(l, nil, false)
				}
			}
		}
	case *ast.DeclStmt:
		if gd, ok := x.Decl.(*ast.GenDecl); ok {
			for _, sp := range gd.Specs {
				if vs, ok := sp.(*ast.ValueSpec); ok {
					for _, v := range vs.Values {
						p.exprWalk(v)
					}
					for i, nm := range vs.Names {
						if o := p.info.Defs[nm]; o != nil && isEnvPtr(o.Type()) {
							if len(vs.Values) == len(vs.Names) {
								p.state[o] = p.eval(vs.Values[i])
							} else {
								p.state[o] = dval{unknown: true}
							}
						}
					}
				}
			}
		}
	case *ast.IfStmt:
		if x.Init != nil {
			p.stmt(x.Init)
		}
		p.exprWalk(x.Cond)
		saved := p.state
		p.state = copyState(saved)
		p.block(x.Body.List)
		a := p.state
		p.state = copyState(saved)
		if x.Else != nil {
			p.stmt(x.Else)
		}
		p.state = joinState(a, p.state)
	case *ast.ForStmt:
		if eff, ok := p.envLoop(x); ok {
			for o, d := range eff {
				if cur, ok := p.state[o]; ok {
					p.state[o] = cur.plus(d.k, d.u)
				}
			}
			return
		}
		if x.Init != nil {
			p.stmt(x.Init)
		}
		p.exprWalk(x.Cond)
		// unknown number of iterations: every env variable assigned in the loop is unknown
		p.havoc(x.Body)
		p.block(x.Body.List)
		if x.Post != nil {
			p.stmt(x.Post)
		}
		p.havoc(x.Body)
	case *ast.RangeStmt:
		p.exprWalk(x.X)
		p.havoc(x.Body)
		p.block(x.Body.List)
		p.havoc(x.Body)
	case *ast.SwitchStmt:
		if x.Init != nil {
			p.stmt(x.Init)
		}
		p.exprWalk(x.Tag)
		p.clauses(x.Body)
	case *ast.TypeSwitchStmt:
		if x.Init != nil {
			p.stmt(x.Init)
		}
		p.stmt(x.Assign)
		p.clauses(x.Body)
	case *ast.SelectStmt:
		p.clauses(x.Body)
	case *ast.LabeledStmt:
		p.stmt(x.Stmt)
	case *ast.ExprStmt:
		p.exprWalk(x.X)
	case *ast.ReturnStmt:
		for _, r := range x.Results {
			p.exprWalk(r)
		}
	case *ast.DeferStmt:
		p.exprWalk(x.Call)
	case *ast.GoStmt:
		p.exprWalk(x.Call)
	case *ast.SendStmt:
		p.exprWalk(x.Chan)
		p.exprWalk(x.Value)
	case *ast.IncDecStmt:
		p.exprWalk(x.X)
	default:
		p.exprWalk(s)
	}
}

func (p *depthInterp) clauses(body *ast.BlockStmt) {
	saved := p.state
	var joined map[types.Object]dval
	hasDefault := false
	for _, cc := range body.List {
		p.state = copyState(saved)
		switch cl := cc.(type) {
		case *ast.CaseClause:
			if cl.List == nil {
				hasDefault = true
			}
			for _, e := range cl.List {
				p.exprWalk(e)
			}
			p.block(cl.Body)
		case *ast.CommClause:
			if cl.Comm == nil {
				hasDefault = true
			} else {
				p.stmt(cl.Comm)
			}
			p.block(cl.Body)
		}
		if joined == nil {
			joined = p.state
		} else {
			joined = joinState(joined, p.state)
		}
	}
	if !hasDefault || joined == nil {
		if joined == nil {
			joined = saved
		} else {
			joined = joinState(joined, saved)
		}
	}
	p.state = joined
}

func (p *depthInterp) havoc(n ast.Node) {
	ast.Inspect(n, func(n ast.Node) bool {
		if a, ok := n.(*ast.AssignStmt); ok {
			for _, l := range a.Lhs {
				if id := identOf(l); id != nil {
					if o := p.info.Uses[id]; o != nil && isEnvPtr(o.Type()) {
						p.state[o] = dval{unknown: true}
					}
				}
			}
		}
		return true
	})
}

// interpretClosure runs the depth interpretation on a closure whose first *Env
// parameter is frame 0.
func interpretClosure(info *types.Info, di *defIndex, lit *ast.FuncLit, upnObj types.Object, visit func(access, E, idx ast.Expr, ints bool, d dval)) {
	p := &depthInterp{info: info, di: di, upnObj: upnObj, state: map[types.Object]dval{}, visit: visit}
	for _, f := range lit.Type.Params.List {
		if isEnvPtr(info.TypeOf(f.Type)) {
			for _, nm := range f.Names {
				p.state[info.Defs[nm]] = dval{k: 0}
			}
			break
		}
	}
	p.block(lit.Body.List)
}

func expectedDepth(label string) (dval, bool) {
	switch label {
	case "0":
		return dval{k: 0}, true
	case "1":
		return dval{k: 1}, true
	case "2":
		return dval{k: 2}, true
	case "FILE":
		return dval{abs: "FILE"}, true
	case "TOP":
		return dval{abs: "TOP"}, true
	case "default":
		return dval{u: 1}, true
	}
	return dval{}, false
}

// chainEndsInField follows single definitions of e and reports the field name of
// the selector the chain ends in (e.g. "Upn" for upn := va.Upn).
func chainEndsInField(info *types.Info, di *defIndex, e ast.Expr, depth int) string {
	if depth > 6 {
		return ""
	}
	switch x := unparen(e).(type) {
	case *ast.Ident:
		o := info.Uses[x]
		if o == nil {
			o = info.Defs[x]
		}
		if o == nil {
			return ""
		}
		if d := di.singleNonConst(o); d != nil {
			return chainEndsInField(info, di, d, depth+1)
		}
		return "param:" + o.Name()
	case *ast.SelectorExpr:
		return x.Sel.Name
	}
	return ""
}

// ruleDepth — A3: inside an arm of a depth switch labelled L, every Ints/Vals access
// whose slot index belongs to the same symbol as the switch tag is made on the frame
// L names. A4: under `if <class == IntBind>` the then-arm uses Ints, the else-arm Vals.
func ruleDepth(c *Ctx, short string, files []string, ruleA3, ruleA4 string) {
	fdta := families(c, short)
	ms := fdta.members
	if len(files) > 0 {
		ms = inFiles(c, ms, files...)
	}
	pk := c.P.Pkg(short)
	info := pk.TypesInfo
	for _, m := range ms {
		di := fdta.di[m.FD]
		if m.UpnIdx < 0 {
			continue
		}
		pe := m.Path[m.UpnIdx]
		var tag ast.Expr
		switch s := pe.Node.(type) {
		case *ast.SwitchStmt:
			tag = s.Tag
		}
		if pe.Tag != nil {
			tag = pe.Tag
		}
		if tag == nil {
			continue
		}
		label := pe.Label
		if i := strings.LastIndexByte(label, '='); i >= 0 {
			label = label[i+1:]
		}
		want, ok := expectedDepth(label)
		if !ok {
			if strings.Contains(label, ",") {
				continue // shared arm: no single depth
			}
			c.Ob(ruleA3, m.Key(), m.Lit, false, "unrecognised depth label "+label)
			continue
		}
		upnObj := info.Uses[identOf(tag)]
		tagRoot := di.rootOf(info, tag, 0)
		// storage expectation
		storage := ""
		for _, e := range m.Path[m.UpnIdx+1:] {
			if e.Kind == "if" {
				if st := intBindsGuard(info, di, e); st != "" {
					storage = st
				}
			}
		}
		for _, e := range m.Path[:m.UpnIdx] {
			if e.Kind == "if" {
				if st := intBindsGuard(info, di, e); st != "" {
					storage = st
				}
			}
		}
		n := 0
		interpretClosure(info, di, m.Lit, upnObj, func(access, E, idx ast.Expr, ints bool, d dval) {
			if tagRoot == nil || di.rootOf(info, idx, 0) != tagRoot {
				return
			}
			n++
			okd := !d.unknown && d == want
			c.Ob(ruleA3, m.Key(), access, okd, fmt.Sprintf("slot of %s accessed on frame %s, arm is labelled %s (%s)", tagRoot.Name(), d, label, want))
			if storage != "" {
				okst := (storage == "ints") == ints
				c.Ob(ruleA4, m.Key(), access, okst, fmt.Sprintf("arm selected by class==IntBind is %q, access uses %s", storage, map[bool]string{true: "Ints", false: "Vals"}[ints]))
			}
		})
		if n == 0 {
			c.ObTrivial(ruleA3+"-noaccess", m.Key(), m.Lit, true, "closure under a depth arm makes no access to the symbol's slot")
		}
	}
}

// intBindsGuard recognises a path element `if intbinds` where intbinds is defined as
// X.Class() == IntBind; returns "ints" for the arm taken when the class is IntBind.
func intBindsGuard(info *types.Info, di *defIndex, e pathElem) string {
	ifs, ok := e.Node.(*ast.IfStmt)
	if !ok {
		return ""
	}
	cond := unparen(ifs.Cond)
	neg := false
	if u, ok := cond.(*ast.UnaryExpr); ok && u.Op == token.NOT {
		neg = true
		cond = unparen(u.X)
	}
	if id := identOf(cond); id != nil {
		if o := info.Uses[id]; o != nil {
			if d := di.single(o); d != nil {
				cond = unparen(d)
			}
		}
	}
	if atoms := andAtoms(cond); len(atoms) > 1 && !neg && strings.HasSuffix(e.Label, "?then") {
		// a conjunction holds in its then-branch: one conjunct `class == IntBind` is enough
		for _, a := range atoms {
			if b, ok := unparen(a).(*ast.BinaryExpr); ok && b.Op == token.EQL &&
				(objQName(usedObj(info, b.Y)) == "fast.IntBind" || objQName(usedObj(info, b.X)) == "fast.IntBind") {
				return "ints"
			}
		}
		return ""
	}
	b, ok := cond.(*ast.BinaryExpr)
	if !ok || (b.Op != token.EQL && b.Op != token.NEQ) {
		return ""
	}
	if objQName(usedObj(info, b.Y)) != "fast.IntBind" && objQName(usedObj(info, b.X)) != "fast.IntBind" {
		return ""
	}
	if b.Op == token.NEQ {
		neg = !neg
	}
	then := strings.HasSuffix(e.Label, "?then")
	if then != neg {
		return "ints"
	}
	return "vals"
}

// ruleAccessor — A2, type-directed and label-free: T(v.Acc()) needs category(T) ==
// category(Acc); v.SetAcc(e) needs category(typeof e before widening) == category(Acc).
func ruleAccessor(c *Ctx, short string, rule string) { ruleAccessorFiles(c, short, nil, rule) }

func ruleAccessorFiles(c *Ctx, short string, files []string, rule string) {
	pk := c.P.Pkg(short)
	if pk == nil {
		c.Fatal("package %s not loaded", short)
		return
	}
	info := pk.TypesInfo
	fileSet := map[string]bool{}
	for _, f := range files {
		fileSet[f] = true
	}
	for _, f := range pk.Syntax {
		if len(files) > 0 && !fileSet[baseName(c.P.Fset, f)] {
			continue
		}
		var stack []ast.Node
		var encl []*ast.FuncDecl
		ast.Inspect(f, func(n ast.Node) bool {
			if n == nil {
				if _, ok := stack[len(stack)-1].(*ast.FuncDecl); ok {
					encl = encl[:len(encl)-1]
				}
				stack = stack[:len(stack)-1]
				return true
			}
			stack = append(stack, n)
			if fd, ok := n.(*ast.FuncDecl); ok {
				encl = append(encl, fd)
			}
			call, ok := n.(*ast.CallExpr)
			if !ok {
				return true
			}
			sel, ok := unparen(call.Fun).(*ast.SelectorExpr)
			if !ok || !isReflectValue(info.TypeOf(sel.X)) || len(encl) == 0 {
				return true
			}
			fkey := funcKey(pk, encl[len(encl)-1])
			if g, ok := getAccessors[sel.Sel.Name]; ok && len(call.Args) == 0 && g != "String" {
				// parent conversion?
				if len(stack) >= 2 {
					par := stack[len(stack)-2]
					for {
						if p, ok := par.(*ast.ParenExpr); ok && len(stack) >= 3 {
							_ = p
							par = stack[len(stack)-3]
							continue
						}
						break
					}
					if conv, ok := par.(*ast.CallExpr); ok && len(conv.Args) == 1 && unparen(conv.Args[0]) == call {
						if tv, ok := info.Types[conv.Fun]; ok && tv.IsType() {
							cat := basicCategory(tv.Type)
							if cat != "" {
								c.Ob(rule, fkey+"/get:"+sel.Sel.Name+"->"+tv.Type.String(), call, cat == g,
									fmt.Sprintf("%s(%s): accessor category %s, target category %s", tv.Type, exprString(call), g, cat))
							}
						}
					}
				}
			}
			if g, ok := setAccessors[sel.Sel.Name]; ok && len(call.Args) == 1 && g != "String" {
				arg := unparen(call.Args[0])
				// strip widening conversion
				if conv, ok := arg.(*ast.CallExpr); ok && len(conv.Args) == 1 {
					if tv, ok := info.Types[conv.Fun]; ok && tv.IsType() {
						arg = unparen(conv.Args[0])
					}
				}
				at := info.TypeOf(arg)
				if at != nil {
					cat := basicCategory(at)
					if cat != "" {
						c.Ob(rule, fkey+"/set:"+sel.Sel.Name+"<-"+at.String(), call, cat == g,
							fmt.Sprintf("%s: accessor category %s, value category %s", exprString(call), g, cat))
					}
				}
			}
			return true
		})
	}
}

// ruleDepthOfEnvCalls — A3 for closures that switch to another frame before calling a captured closure:
// in an arm of a depth switch labelled L, every call f(E) of a captured func(*Env) receives the frame L names.
func ruleDepthOfEnvCalls(c *Ctx, short string, files []string, rule string) {
	fdta := families(c, short)
	ms := fdta.members
	if len(files) > 0 {
		ms = inFiles(c, ms, files...)
	}
	pk := c.P.Pkg(short)
	info := pk.TypesInfo
	n := 0
	for _, m := range ms {
		di := fdta.di[m.FD]
		if m.UpnIdx < 0 {
			continue
		}
		pe := m.Path[m.UpnIdx]
		var tag ast.Expr
		if s, ok := pe.Node.(*ast.SwitchStmt); ok {
			tag = s.Tag
		}
		if pe.Tag != nil {
			tag = pe.Tag
		}
		if tag == nil {
			continue
		}
		label := pe.Label
		if i := strings.LastIndexByte(label, '='); i >= 0 {
			label = label[i+1:]
		}
		want, ok := expectedDepth(label)
		if !ok {
			continue
		}
		p := &depthInterp{info: info, di: di, upnObj: info.Uses[identOf(tag)], state: map[types.Object]dval{}, visit: func(access, E, idx ast.Expr, ints bool, d dval) {}}
		p.visitEnvCall = func(call *ast.CallExpr, d dval) {
			n++
			c.Ob(rule, m.Key(), call, !d.unknown && d == want, fmt.Sprintf("%s is called with frame %s, arm is labelled %s (%s)", exprString(call.Fun), d, label, want))
		}
		for _, f := range m.Lit.Type.Params.List {
			if isEnvPtr(info.TypeOf(f.Type)) {
				for _, nm := range f.Names {
					p.state[info.Defs[nm]] = dval{k: 0}
				}
				break
			}
		}
		p.block(m.Lit.Body.List)
	}
	if n == 0 {
		c.Ob(rule, short+"/"+strings.Join(files, ","), nil, false, "no frame-switching call found: anchor missing")
	}
}

// ruleDepthLoops — A3 for closures that reach a variable's frame with a loop instead of a depth switch:
//
//	o := env; for i := 0; i < upn; i++ { o = o.Outer }; ... o.Ints[idx] ...
//
// where upn and idx come from the same compile-time variable descriptor. Every Ints/Vals access whose index belongs to that
// variable must be made on the frame the loop computed (upn links up), not on the closure's own frame.
func ruleDepthLoops(c *Ctx, short string, files []string, rule string) {
	fdta := families(c, short)
	ms := fdta.members
	if len(files) > 0 {
		ms = inFiles(c, ms, files...)
	}
	pk := c.P.Pkg(short)
	info := pk.TypesInfo
	n := 0
	for _, m := range ms {
		if m.UpnIdx >= 0 {
			continue // judged by ruleDepth through its depth label
		}
		di := fdta.di[m.FD]
		// loops `for i := 0; i < U; i++ { v = v.Outer }` with U captured from outside the closure
		var upnObjs []types.Object
		ast.Inspect(m.Lit.Body, func(nd ast.Node) bool {
			f, ok := nd.(*ast.ForStmt)
			if !ok || f.Cond == nil {
				return true
			}
			cond, ok := unparen(f.Cond).(*ast.BinaryExpr)
			if !ok || cond.Op != token.LSS || identOf(cond.Y) == nil {
				return true
			}
			walks := false
			for _, st := range f.Body.List {
				if as, ok := st.(*ast.AssignStmt); ok && len(as.Rhs) == 1 {
					if s, ok := unparen(as.Rhs[0]).(*ast.SelectorExpr); ok && s.Sel.Name == "Outer" && isEnvPtr(info.TypeOf(s.X)) {
						walks = true
					}
				}
			}
			u := info.Uses[identOf(cond.Y)]
			if walks && u != nil && !(u.Pos() > m.Lit.Pos() && u.Pos() < m.Lit.End()) {
				if ce := chainEndsInField(info, di, cond.Y, 0); ce == "Upn" || strings.HasPrefix(ce, "param:") && strings.Contains(strings.ToLower(ce), "upn") {
					upnObjs = append(upnObjs, u)
				}
			}
			return true
		})
		for _, u := range upnObjs {
			var root types.Object
			ast.Inspect(m.Lit.Body, func(nd ast.Node) bool {
				if id, ok := nd.(*ast.Ident); ok && info.Uses[id] == u && root == nil {
					root = di.nearRoot(info, id, 0)
				}
				return true
			})
			if root == nil {
				continue
			}
			want := dval{u: 1}
			interpretClosure(info, di, m.Lit, u, func(access, E, idx ast.Expr, ints bool, d dval) {
				if di.nearRoot(info, idx, 0) != root {
					return
				}
				n++
				c.Ob(rule, m.Key()+"/"+u.Name(), access, !d.unknown && d == want, fmt.Sprintf("slot of %s accessed on frame %s; the closure walks %s links up to reach its frame, so the access must be made there (%s)", root.Name(), d, u.Name(), want))
			})
		}
	}
	if n == 0 {
		c.ObTrivial(rule+"-none", short+"/"+strings.Join(files, ","), nil, true, "no frame-walking loop with an access to judge in these files")
	}
}

// nearRoot is rootOf restricted to field selections, conversions and calls without arguments:
// `idx := bind.Desc.Index()` has near root bind, and `bind := c.DeclVar0("", nil, e)` stops there.
func (di *defIndex) nearRoot(info *types.Info, e ast.Expr, depth int) types.Object {
	if depth > 8 {
		return nil
	}
	switch x := unparen(e).(type) {
	case *ast.Ident:
		o := info.Uses[x]
		if o == nil {
			o = info.Defs[x]
		}
		if o == nil {
			return nil
		}
		if d := di.singleNonConst(o); d != nil {
			if r := di.nearRoot(info, d, depth+1); r != nil {
				return r
			}
		}
		return o
	case *ast.SelectorExpr:
		if _, ok := info.Uses[identOf(x.X)].(*types.PkgName); ok {
			return nil
		}
		return di.nearRoot(info, x.X, depth+1)
	case *ast.CallExpr:
		if tv, ok := info.Types[x.Fun]; ok && tv.IsType() && len(x.Args) == 1 {
			return di.nearRoot(info, x.Args[0], depth+1)
		}
		if s, ok := unparen(x.Fun).(*ast.SelectorExpr); ok && len(x.Args) == 0 {
			if _, isPkg := info.Uses[identOf(s.X)].(*types.PkgName); !isPkg {
				return di.nearRoot(info, s.X, depth+1)
			}
		}
	case *ast.StarExpr:
		return di.nearRoot(info, x.X, depth+1)
	}
	return nil
}
