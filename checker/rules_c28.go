package main

// C28: type identity / hash / type map (E8 mirror rule, E4 totality, E5 hash ⊆ identity, E6 map predicate).

import (
	"fmt"
	"go/ast"
	"go/token"
	"go/types"
	"sort"
	"strings"
)

// mirrorPrinter prints an expression with single-definition locals inlined and the
// two operands of the predicate printed as X and Y.
type mirrorPrinter struct {
	info  *types.Info
	di    *defIndex
	xs    map[types.Object]bool
	ys    map[types.Object]bool
	depth int
	sym   map[string]bool
}

func (m *mirrorPrinter) side(o types.Object) string {
	if m.xs[o] {
		return "X"
	}
	if m.ys[o] {
		return "Y"
	}
	return ""
}

func (m *mirrorPrinter) expr(e ast.Expr) string {
	switch x := unparen(e).(type) {
	case *ast.Ident:
		o := m.info.Uses[x]
		if o == nil {
			o = m.info.Defs[x]
		}
		if o == nil {
			return x.Name
		}
		if s := m.side(o); s != "" {
			return s
		}
		if _, isVar := o.(*types.Var); isVar && m.depth < 6 {
			if d := m.di.single(o); d != nil {
				m.depth++
				s := m.expr(d)
				m.depth--
				return s
			}
		}
		return x.Name
	case *ast.SelectorExpr:
		if _, ok := m.info.Uses[identOf(x.X)].(*types.PkgName); ok {
			return identOf(x.X).Name + "." + x.Sel.Name
		}
		return m.expr(x.X) + "." + x.Sel.Name
	case *ast.CallExpr:
		var as []string
		for _, a := range x.Args {
			as = append(as, m.expr(a))
		}
		// calls of symmetric predicates are printed with their operand pair(s) sorted
		if fn := calleeOf(m.info, x); fn != nil && m.sym[funcFullName(fn)] {
			if len(as) == 4 && fn.Name() == "sameName" {
				if as[2]+as[3] < as[0]+as[1] {
					as[0], as[1], as[2], as[3] = as[2], as[3], as[0], as[1]
				}
			} else if len(as) >= 2 && as[1] < as[0] {
				as[0], as[1] = as[1], as[0]
			}
		}
		return m.expr(x.Fun) + "(" + strings.Join(as, ",") + ")"
	case *ast.TypeAssertExpr:
		// y.(*types.Slice) has the value of y
		return m.expr(x.X)
	case *ast.BinaryExpr:
		l, r := m.expr(x.X), m.expr(x.Y)
		switch x.Op {
		case token.LAND, token.LOR, token.EQL, token.NEQ, token.ADD, token.MUL:
			if r < l {
				l, r = r, l
			}
		}
		return "(" + l + " " + x.Op.String() + " " + r + ")"
	case *ast.UnaryExpr:
		return x.Op.String() + m.expr(x.X)
	case *ast.StarExpr:
		return "*" + m.expr(x.X)
	case *ast.IndexExpr:
		return m.expr(x.X) + "[" + m.expr(x.Index) + "]"
	case *ast.BasicLit:
		return x.Value
	}
	return exprString(e)
}

func swapXY(s string) string {
	return strings.NewReplacer("X", "\x00", "Y", "X").Replace(s)
}

func swapAll(s string) string {
	r := strings.NewReplacer("X", "\x00", "Y", "\x01").Replace(s)
	return strings.NewReplacer("\x00", "Y", "\x01", "X").Replace(r)
}

func mentionsXY(s string) bool { return strings.ContainsAny(s, "XY") }

// operandObjects collects, for a two-operand predicate, the objects that stand for
// each operand: the parameters themselves plus the variables bound by
// `switch x := x.(type)` and `y, ok := y.(*T)`.
func operandObjects(info *types.Info, fd *ast.FuncDecl, px, py types.Object) (map[types.Object]bool, map[types.Object]bool) {
	xs := map[types.Object]bool{px: true}
	ys := map[types.Object]bool{py: true}
	changed := true
	for changed {
		changed = false
		ast.Inspect(fd.Body, func(n ast.Node) bool {
			switch s := n.(type) {
			case *ast.TypeSwitchStmt:
				if as, ok := s.Assign.(*ast.AssignStmt); ok && len(as.Rhs) == 1 {
					if ta, ok := unparen(as.Rhs[0]).(*ast.TypeAssertExpr); ok && identOf(ta.X) != nil {
						src := info.Uses[identOf(ta.X)]
						for _, cc := range s.Body.List {
							if o := info.Implicits[cc]; o != nil {
								if xs[src] && !xs[o] {
									xs[o] = true
									changed = true
								}
								if ys[src] && !ys[o] {
									ys[o] = true
									changed = true
								}
							}
						}
					}
				}
			case *ast.AssignStmt:
				if len(s.Rhs) == 1 && len(s.Lhs) >= 1 {
					if ta, ok := unparen(s.Rhs[0]).(*ast.TypeAssertExpr); ok && identOf(ta.X) != nil && identOf(s.Lhs[0]) != nil {
						src := info.Uses[identOf(ta.X)]
						o := info.Defs[identOf(s.Lhs[0])]
						if o != nil {
							if xs[src] && !xs[o] {
								xs[o] = true
								changed = true
							}
							if ys[src] && !ys[o] {
								ys[o] = true
								changed = true
							}
						}
					}
				}
			}
			return true
		})
	}
	return xs, ys
}

// ruleMirror: in a symmetric two-operand predicate every boolean condition is
// invariant under exchanging the operands (corresponding parts are compared).
func ruleMirror(c *Ctx, fkey string, xi, yi int, symmetricCalls map[string]bool, rule string) {
	pk := c.P.PkgOfFunc(fkey)
	fd := c.P.Func(fkey)
	if fd == nil || pk == nil {
		c.Ob(rule, fkey, nil, false, "anchor function not found")
		return
	}
	info := pk.TypesInfo
	var params []types.Object
	for _, f := range fd.Type.Params.List {
		for _, nm := range f.Names {
			params = append(params, info.Defs[nm])
		}
	}
	if xi >= len(params) || yi >= len(params) {
		c.Ob(rule, fkey, fd, false, "parameters not found")
		return
	}
	xs, ys := operandObjects(info, fd, params[xi], params[yi])
	mp := &mirrorPrinter{info: info, di: buildDefIndex(info, fd), xs: xs, ys: ys, sym: symmetricCalls}
	n := 0
	check := func(node ast.Node, what string, l, r string) {
		if !mentionsXY(l) && !mentionsXY(r) {
			return
		}
		n++
		ok := swapAll(l) == r
		c.Ob(rule, fmt.Sprintf("%s/%s", fkey, strings.ReplaceAll(what, " ", "")), node, ok,
			fmt.Sprintf("operand-symmetric: %s  vs  %s (exchanging the operands must map one side onto the other)", l, r))
	}
	ast.Inspect(fd.Body, func(nd ast.Node) bool {
		switch x := nd.(type) {
		case *ast.BinaryExpr:
			switch x.Op {
			case token.EQL, token.NEQ:
				l, r := mp.expr(x.X), mp.expr(x.Y)
				if mentionsXY(l) && mentionsXY(r) {
					check(x, l+x.Op.String()+r, l, r)
				} else if (mentionsXY(l) || mentionsXY(r)) && (x.Op == token.EQL || x.Op == token.NEQ) {
					// one-sided tests (x == nil) must have a mirrored twin in the same condition: checked at condition level
				}
			}
		case *ast.CallExpr:
			if fn := calleeOf(info, x); fn != nil && symmetricCalls[funcFullName(fn)] && len(x.Args) >= 2 {
				if fn.Type().(*types.Signature).Params().Len() == 4 && len(x.Args) == 4 && funcFullName(fn) == "go/typeutil.sameName" {
					check(x, funcFullName(fn)+"("+mp.expr(x.Args[0])+")", mp.expr(x.Args[0]), mp.expr(x.Args[2]))
					check(x, funcFullName(fn)+"("+mp.expr(x.Args[1])+")", mp.expr(x.Args[1]), mp.expr(x.Args[3]))
					_ = 0
				} else {
					l, r := mp.expr(x.Args[0]), mp.expr(x.Args[1])
					check(x, funcFullName(fn)+"("+l+")", l, r)
				}
			}
		}
		return true
	})
	// condition-level invariance: every if-condition / boolean return is invariant under the exchange
	ast.Inspect(fd.Body, func(nd ast.Node) bool {
		var cond ast.Expr
		switch x := nd.(type) {
		case *ast.IfStmt:
			cond = x.Cond
		case *ast.ReturnStmt:
			if len(x.Results) == 1 {
				if b, ok := info.TypeOf(x.Results[0]).Underlying().(*types.Basic); ok && b.Kind() == types.Bool {
					cond = x.Results[0]
				}
			}
		}
		if cond == nil {
			return true
		}
		s := mp.expr(cond)
		if !strings.Contains(s, "X") || !strings.Contains(s, "Y") {
			return true
		}
		// identifiers named ok etc. do not matter; compare with commutative normalisation done by the printer
		sw := normalizeCommutative(swapAll(s))
		n++
		c.Ob(rule+"-cond", fmt.Sprintf("%s/%s", fkey, short70(strings.ReplaceAll(s, " ", ""))), cond, normalizeCommutative(s) == sw, "condition is invariant under exchanging the operands: "+short70(s))
		return true
	})
	if n == 0 {
		c.Ob(rule, fkey, fd, false, "no comparison between the operands found: anchor missing")
	}
}

// normalizeCommutative re-sorts the operands of commutative operators in a printed expression.
// The printer already sorts at construction time; after swapping, sort again by re-parsing parentheses.
func normalizeCommutative(s string) string {
	s = sortPredicateArgs(s)
	// parse a fully parenthesised binary expression tree printed by mirrorPrinter
	var parse func(i int) (string, int)
	parse = func(i int) (string, int) {
		if i < len(s) && s[i] == '(' {
			// could be a call's "(" — binary nodes are printed as "(l op r)" with spaces around op
			depth := 0
			j := i
			for ; j < len(s); j++ {
				if s[j] == '(' {
					depth++
				} else if s[j] == ')' {
					depth--
					if depth == 0 {
						break
					}
				}
			}
			inner := s[i+1 : j]
			// find top-level " op "
			d := 0
			for k := 0; k < len(inner); k++ {
				switch inner[k] {
				case '(':
					d++
				case ')':
					d--
				case ' ':
					if d == 0 {
						rest := inner[k+1:]
						sp := strings.IndexByte(rest, ' ')
						if sp > 0 {
							op := rest[:sp]
							l := normalizeCommutative(inner[:k])
							r := normalizeCommutative(rest[sp+1:])
							switch op {
							case "&&", "||", "==", "!=", "+", "*":
								if r < l {
									l, r = r, l
								}
							}
							return "(" + l + " " + op + " " + r + ")", j + 1
						}
					}
				}
			}
			return s[i : j+1], j + 1
		}
		return s[i:], len(s)
	}
	if len(s) > 0 && s[0] == '(' {
		out, end := parse(0)
		if end == len(s) {
			return out
		}
	}
	return s
}

// ruleTypeSwitchTotal: every implementer of the interface has a case in the type switch of fkey.
func ruleTypeSwitchTotal(c *Ctx, fkey, ifacePkg, ifaceName, rule string) {
	pk := c.P.PkgOfFunc(fkey)
	fd := c.P.Func(fkey)
	ipk := c.P.Pkg(ifacePkg)
	if fd == nil || pk == nil || ipk == nil {
		c.Ob(rule, fkey, nil, false, "anchor not found")
		return
	}
	info := pk.TypesInfo
	tn, _ := ipk.Types.Scope().Lookup(ifaceName).(*types.TypeName)
	if tn == nil {
		c.Ob(rule, fkey, fd, false, "interface not found")
		return
	}
	iface := tn.Type().Underlying().(*types.Interface)
	var impls []types.Type
	for _, name := range ipk.Types.Scope().Names() {
		o, ok := ipk.Types.Scope().Lookup(name).(*types.TypeName)
		if !ok || o.IsAlias() || !o.Exported() {
			continue
		}
		if types.IsInterface(o.Type()) || strings.HasPrefix(o.Name(), "P_") {
			continue // interfaces and the interpreter's import proxies are not constructible types
		}
		pt := types.NewPointer(o.Type())
		if types.Implements(pt, iface) && !types.Implements(o.Type(), iface) {
			impls = append(impls, pt)
		} else if types.Implements(o.Type(), iface) {
			impls = append(impls, o.Type())
		}
	}
	var cases []types.Type
	hasPanicDefault := false
	ast.Inspect(fd.Body, func(n ast.Node) bool {
		ts, ok := n.(*ast.TypeSwitchStmt)
		if !ok {
			return true
		}
		for _, cc := range ts.Body.List {
			cl := cc.(*ast.CaseClause)
			for _, e := range cl.List {
				if t := info.TypeOf(e); t != nil {
					cases = append(cases, t)
				}
			}
			if cl.List == nil {
				hasPanicDefault = true
			}
		}
		return false
	})
	_ = hasPanicDefault
	for _, it := range impls {
		found := false
		for _, ct := range cases {
			if types.Identical(ct, it) {
				found = true
			}
		}
		c.Ob(rule, fkey+"/"+types.TypeString(it, func(p *types.Package) string { return p.Name() }), fd, found, "implementer of "+ifaceName+" has its own case (otherwise the function panics / returns a wrong default for it)")
	}
	if len(impls) < 8 {
		c.Ob(rule, fkey, fd, false, fmt.Sprintf("only %d implementers of %s found: anchor missing", len(impls), ifaceName))
	}
}

// featureChains collects the getter chains applied to the operand inside one type-switch arm.
// A chain is e.g. "Field.Type", "NumFields", "Elem". Objects passed to a name predicate
// (sameVarName, sameFuncName) contribute .Name and .Pkg; Named operands compared by Obj contribute Obj.
func featureChains(info *types.Info, di *defIndex, body []ast.Stmt, roots map[types.Object]bool, namePreds map[string]bool, alias map[string]string) map[string]bool {
	out := map[string]bool{}
	var chain func(e ast.Expr, depth int) (string, bool)
	chain = func(e ast.Expr, depth int) (string, bool) {
		if depth > 8 {
			return "", false
		}
		switch x := unparen(e).(type) {
		case *ast.Ident:
			o := info.Uses[x]
			if o == nil {
				o = info.Defs[x]
			}
			if roots[o] {
				return "", true
			}
			if d := di.single(o); d != nil {
				return chain(d, depth+1)
			}
		case *ast.CallExpr:
			if sel, ok := unparen(x.Fun).(*ast.SelectorExpr); ok {
				if base, ok := chain(sel.X, depth+1); ok {
					name := sel.Sel.Name
					if a, ok := alias[name]; ok {
						name = a
					}
					if base == "" {
						return name, true
					}
					return base + "." + name, true
				}
			}
		case *ast.TypeAssertExpr:
			return chain(x.X, depth+1)
		}
		return "", false
	}
	for _, st := range body {
		ast.Inspect(st, func(n ast.Node) bool {
			switch x := n.(type) {
			case *ast.CallExpr:
				if ch, ok := chain(x, 0); ok && ch != "" {
					out[ch] = true
				}
				if fn := calleeOf(info, x); fn != nil && namePreds[fn.Name()] {
					for _, a := range x.Args {
						if ch, ok := chain(a, 0); ok && ch != "" {
							out[ch+".Name"] = true
							out[ch+".Pkg"] = true
						}
					}
				}
				if fn := calleeOf(info, x); fn != nil && fn.Name() == "hashNamed" && len(x.Args) == 1 {
					if ch, ok := chain(x.Args[0], 0); ok {
						if ch == "" {
							out["Obj"] = true
						} else {
							out[ch+".Obj"] = true
						}
					}
				}
			}
			return true
		})
	}
	return out
}

// ruleHashSubsetOfIdentity: per type constructor, every feature hashed is a feature compared.
func ruleHashSubsetOfIdentity(c *Ctx, identKey, hashKey, rule string) {
	pk := c.P.PkgOfFunc(identKey)
	ifd, hfd := c.P.Func(identKey), c.P.Func(hashKey)
	if ifd == nil || hfd == nil {
		c.Ob(rule, identKey+"/"+hashKey, nil, false, "anchor functions not found")
		return
	}
	info := pk.TypesInfo
	alias := map[string]string{"NumExplicitMethods": "NumMethods", "ExplicitMethod": "Method", "Underlying": ""}
	arms := func(fd *ast.FuncDecl) map[string][]ast.Stmt {
		out := map[string][]ast.Stmt{}
		ast.Inspect(fd.Body, func(n ast.Node) bool {
			ts, ok := n.(*ast.TypeSwitchStmt)
			if !ok {
				return true
			}
			for _, cc := range ts.Body.List {
				cl := cc.(*ast.CaseClause)
				for _, e := range cl.List {
					if t := info.TypeOf(e); t != nil {
						out[types.TypeString(t, func(p *types.Package) string { return p.Name() })] = cl.Body
					}
				}
			}
			return false
		})
		return out
	}
	iArms, hArms := arms(ifd), arms(hfd)
	rootsOf := func(fd *ast.FuncDecl) map[types.Object]bool {
		var first types.Object
		for _, f := range fd.Type.Params.List {
			for _, nm := range f.Names {
				if first == nil {
					first = info.Defs[nm]
				}
			}
		}
		xs, _ := operandObjects(info, fd, first, nil)
		return xs
	}
	iRoots, hRoots := rootsOf(ifd), rootsOf(hfd)
	idi, hdi := buildDefIndex(info, ifd), buildDefIndex(info, hfd)
	var names []string
	for k := range hArms {
		names = append(names, k)
	}
	sort.Strings(names)
	for _, tname := range names {
		if tname == "untyped nil" {
			continue
		}
		hf := featureChains(info, hdi, hArms[tname], hRoots, map[string]bool{}, alias)
		// helper functions of the hasher: hashTuple / hashVar dig into Len/At/Type: treated as structural recursion on the operand
		ib, ok := iArms[tname]
		if !ok {
			c.Ob(rule, hashKey+"/"+tname, hfd, false, "type is hashed but has no arm in the identity predicate")
			continue
		}
		idf := featureChains(info, idi, ib, iRoots, map[string]bool{"sameVarName": true, "sameFuncName": true}, alias)
		var hl []string
		for f := range hf {
			hl = append(hl, f)
		}
		sort.Strings(hl)
		for _, f := range hl {
			f = strings.ReplaceAll(f, "..", ".")
			f = strings.TrimSuffix(f, ".")
			covered := false
			for g := range idf {
				g = strings.TrimSuffix(strings.ReplaceAll(g, "..", "."), ".")
				if f == g || strings.HasPrefix(f, g+".") && (strings.HasSuffix(g, "Type") || strings.HasSuffix(g, "Elem") || strings.HasSuffix(g, "Key") || strings.HasSuffix(g, "Params") || strings.HasSuffix(g, "Results") || strings.HasSuffix(g, "Recv")) {
					covered = true
				}
			}
			c.Ob(rule, hashKey+"/"+tname+"/"+f, hfd, covered, fmt.Sprintf("feature %s of %s enters the hash; the identity predicate compares %v (a hashed feature that identity ignores makes identical types hash differently)", f, tname, sortedSet(idf)))
		}
	}
}

func sortedSet(m map[string]bool) []string {
	var l []string
	for k := range m {
		l = append(l, strings.TrimSuffix(strings.ReplaceAll(k, "..", "."), "."))
	}
	sort.Strings(l)
	return l
}

// ruleMapPredicate: every Map operation finds its bucket with hasher.Hash(key) and
// compares keys with the same identity predicate; Set examines the whole bucket before inserting.
func ruleMapPredicate(c *Ctx) {
	pk := c.P.Pkg("go/typeutil")
	if pk == nil {
		c.Fatal("package go/typeutil not loaded")
		return
	}
	info := pk.TypesInfo
	preds := map[string]string{}
	for _, op := range []string{"At", "Set", "Delete"} {
		fd := c.P.Func("go/typeutil.Map." + op)
		if fd == nil {
			c.Ob("Y4-map-predicate", "go/typeutil.Map."+op, nil, false, "anchor function not found")
			continue
		}
		hashes, pred := 0, ""
		inspectCalls(fd.Body, func(call *ast.CallExpr) {
			fn := calleeOf(info, call)
			if fn == nil {
				return
			}
			if funcFullName(fn) == "go/typeutil.Hasher.Hash" {
				hashes++
			}
			if fn.Name() == "Identical" && len(call.Args) == 2 {
				pred = funcFullName(fn)
			}
		})
		preds[op] = pred
		c.Ob("Y4-map-predicate", "go/typeutil.Map."+op+"/bucket", fd, hashes >= 1, "the bucket is located with hasher.Hash(key)")
		c.Ob("Y4-map-predicate", "go/typeutil.Map."+op+"/identity", fd, pred == "go/typeutil.Identical", "keys are compared with typeutil.Identical (found: "+pred+"), the predicate the hash is consistent with")
	}
	// Set: no exit from the bucket scan except on the identical-key branch
	fd := c.P.Func("go/typeutil.Map.Set")
	if fd == nil {
		return
	}
	ok, found := true, false
	ast.Inspect(fd.Body, func(n ast.Node) bool {
		rs, isR := n.(*ast.RangeStmt)
		if !isR {
			return true
		}
		found = true
		ast.Inspect(rs.Body, func(m ast.Node) bool {
			var exit ast.Node
			switch x := m.(type) {
			case *ast.BranchStmt:
				if x.Tok == token.BREAK || x.Tok == token.GOTO {
					exit = x
				}
			case *ast.ReturnStmt:
				exit = x
			}
			if exit == nil {
				return true
			}
			// must be inside an if whose condition calls Identical
			inside := false
			ast.Inspect(rs.Body, func(k ast.Node) bool {
				if ifs, isIf := k.(*ast.IfStmt); isIf && containsNode(ifs.Body, exit) {
					inspectCalls(ifs.Cond, func(call *ast.CallExpr) {
						if fn := calleeOf(info, call); fn != nil && fn.Name() == "Identical" {
							inside = true
						}
					})
				}
				return true
			})
			if !inside {
				ok = false
			}
			return true
		})
		return false
	})
	c.Ob("Y5-set-scans-bucket", "go/typeutil.Map.Set", fd, found && ok, "the scan of the bucket is left early only when an identical key was found (otherwise a key behind a deleted slot would be inserted twice)")
}

// ruleNilGuard: method calls on pointer parameters of fkey are preceded by an early exit taken when the pointer is nil.
func ruleNilGuard(c *Ctx, fkey, rule string) {
	pk := c.P.PkgOfFunc(fkey)
	fd := c.P.Func(fkey)
	if fd == nil {
		c.Ob(rule, fkey, nil, false, "anchor function not found")
		return
	}
	info := pk.TypesInfo
	ptrParams := map[types.Object]bool{}
	for _, f := range fd.Type.Params.List {
		for _, nm := range f.Names {
			if o := info.Defs[nm]; o != nil && isPtr(o.Type()) {
				ptrParams[o] = true
			}
		}
	}
	n := 0
	inspectCalls(fd.Body, func(call *ast.CallExpr) {
		sel, ok := unparen(call.Fun).(*ast.SelectorExpr)
		if !ok || identOf(sel.X) == nil {
			return
		}
		o := info.Uses[identOf(sel.X)]
		if !ptrParams[o] {
			return
		}
		n++
		guarded := false
		for _, st := range fd.Body.List {
			if st.Pos() >= call.Pos() {
				break
			}
			ifs, isIf := st.(*ast.IfStmt)
			if !isIf || !terminates(ifs.Body) {
				continue
			}
			for _, a := range orAtoms(ifs.Cond) {
				if b, isB := a.(*ast.BinaryExpr); isB && b.Op == token.EQL && identOf(b.X) != nil && info.Uses[identOf(b.X)] == o && identOf(b.Y) != nil && identOf(b.Y).Name == "nil" {
					guarded = true
				}
			}
		}
		c.Ob(rule, fkey+"/"+o.Name()+"."+sel.Sel.Name, call, guarded, "dereference of "+o.Name()+" happens only after an early return taken whenever "+o.Name()+" == nil (the predicate must not fail)")
	})
	if n == 0 {
		c.ObTrivial(rule, fkey, fd, true, "no dereference of a pointer parameter")
	}
}

// sortPredicateArgs re-sorts the first two arguments of printed calls to the symmetric
// predicates after an operand exchange.
func sortPredicateArgs(s string) string {
	for _, name := range []string{"identical(", "identicalVar(", "sameVarName(", "sameFuncName(", "Identical(", "sameName("} {
		from := 0
		for {
			i := strings.Index(s[from:], name)
			if i < 0 {
				break
			}
			i += from
			if i > 0 && (s[i-1] == '.' || isIdentByte(s[i-1])) {
				from = i + len(name)
				continue
			}
			start := i + len(name)
			// split top-level args
			depth, j := 0, start
			var cuts []int
			for ; j < len(s); j++ {
				switch s[j] {
				case '(', '[', '{':
					depth++
				case ')', ']', '}':
					depth--
				case ',':
					if depth == 0 {
						cuts = append(cuts, j)
					}
				}
				if depth < 0 {
					break
				}
			}
			if name == "sameName(" {
				if len(cuts) == 3 {
					ab := s[start:cuts[1]]
					cd := s[cuts[1]+1 : j]
					if cd < ab {
						s = s[:start] + cd + "," + ab + s[j:]
					}
				}
				from = start
				continue
			}
			if len(cuts) >= 1 {
				a := s[start:cuts[0]]
				end := j
				if len(cuts) >= 2 {
					end = cuts[1]
				}
				b := s[cuts[0]+1 : end]
				if b < a {
					s = s[:start] + b + "," + a + s[end:]
				}
			}
			from = start
		}
	}
	return s
}

func isIdentByte(b byte) bool {
	return b == '_' || b >= '0' && b <= '9' || b >= 'a' && b <= 'z' || b >= 'A' && b <= 'Z'
}
