package main

// C11: interoperation with compiled code: proxies and foreign goroutines.

import (
	"fmt"
	"go/ast"
	"go/token"
	"strings"
)

// ruleProxyFill: Comp.converterToProxy fills a proxy by position.
func ruleProxyFill(c *Ctx, rule string) {
	pk := c.P.Pkg("fast")
	info := pk.TypesInfo
	fd := c.P.Func("fast.Comp.converterToProxy")
	if fd == nil {
		c.Ob(rule, "fast.Comp.converterToProxy", nil, false, "anchor function not found")
		return
	}
	okLoop, okName, okField := false, false, false
	ast.Inspect(fd.Body, func(nd ast.Node) bool {
		f, ok := nd.(*ast.ForStmt)
		if !ok || f.Init == nil || f.Cond == nil || f.Post == nil {
			return true
		}
		init, _ := f.Init.(*ast.AssignStmt)
		cond, _ := unparen(f.Cond).(*ast.BinaryExpr)
		post, _ := f.Post.(*ast.IncDecStmt)
		if init == nil || cond == nil || post == nil {
			return true
		}
		i := exprString(init.Lhs[0])
		v, isC := constInt(info, init.Rhs[0])
		bound := false
		if id := identOf(cond.Y); id != nil {
			if d := buildDefIndex(info, fd).single(info.Uses[id]); d != nil && strings.HasSuffix(exprString(d), ".NumMethod()") {
				bound = true
			}
		}
		okLoop = isC && v == 0 && cond.Op == token.LSS && bound && post.Tok == token.INC
		var mtdout string
		ast.Inspect(f.Body, func(m ast.Node) bool {
			switch x := m.(type) {
			case *ast.AssignStmt:
				if len(x.Rhs) == 1 {
					if call, ok := unparen(x.Rhs[0]).(*ast.CallExpr); ok {
						if s, ok := unparen(call.Fun).(*ast.SelectorExpr); ok {
							if s.Sel.Name == "Method" && len(call.Args) == 1 && exprString(call.Args[0]) == i && len(x.Lhs) == 1 {
								mtdout = exprString(x.Lhs[0])
							}
							if s.Sel.Name == "MethodByName" && len(call.Args) == 2 && mtdout != "" && exprString(call.Args[0]) == mtdout+".Name" && exprString(call.Args[1]) == mtdout+".PkgPath" {
								okName = true
							}
						}
					}
				}
			case *ast.CallExpr:
				if fn := calleeOf(info, x); fn != nil && fn.Name() == "setProxyField" && len(x.Args) == 2 {
					if fc, ok := unparen(x.Args[0]).(*ast.CallExpr); ok && len(fc.Args) == 1 {
						if s, ok := unparen(fc.Fun).(*ast.SelectorExpr); ok && s.Sel.Name == "Field" && strings.ReplaceAll(exprString(fc.Args[0]), " ", "") == i+"+1" {
							okField = true
						}
					}
				}
			}
			return true
		})
		return false
	})
	c.Ob(rule, "fast.Comp.converterToProxy/loop", fd, okLoop, "every method 0..NumMethod()-1 of the compiled interface is bound")
	c.Ob(rule, "fast.Comp.converterToProxy/lookup", fd, okName, "method i of the interface is implemented by the interpreted method of the same name and package path")
	c.Ob(rule, "fast.Comp.converterToProxy/field", fd, okField, "method i is stored in field i+1 of the proxy (field 0 holds the object)")
	// the run-time closures store the object in field 0 and convert the address of a fresh proxy
	n := 0
	ast.Inspect(fd.Body, func(nd ast.Node) bool {
		lit, ok := nd.(*ast.FuncLit)
		if !ok {
			return true
		}
		n++
		fresh, obj0, copies := false, false, false
		ast.Inspect(lit.Body, func(m ast.Node) bool {
			switch x := m.(type) {
			case *ast.AssignStmt:
				if len(x.Rhs) == 1 {
					if call, ok := unparen(x.Rhs[0]).(*ast.CallExpr); ok {
						if fn := calleeOf(info, call); fn != nil && fn.Name() == "NewR" {
							fresh = true
						}
					}
				}
			case *ast.CallExpr:
				if s, ok := unparen(x.Fun).(*ast.SelectorExpr); ok && s.Sel.Name == "Set" && len(x.Args) == 1 {
					if fc, ok := unparen(s.X).(*ast.CallExpr); ok && len(fc.Args) == 1 {
						if fs, ok := unparen(fc.Fun).(*ast.SelectorExpr); ok && fs.Sel.Name == "Field" {
							if v, isC := constInt(info, fc.Args[0]); isC && v == 0 {
								obj0 = true
							}
						}
					} else if exprString(x.Args[0]) == "vtable" {
						copies = true
					}
				}
			}
			return true
		})
		c.Ob(rule, fmt.Sprintf("fast.Comp.converterToProxy/closure%d", n), lit, fresh && obj0 && copies, "each conversion allocates a new proxy, copies the method table into it and stores the object in field 0")
		return false
	})
	if n < 2 {
		c.Ob(rule, "fast.Comp.converterToProxy/closures", fd, false, "run-time conversion closures not found")
	}
}

func init() {
	register(&PropDef{
		ID:    "C11",
		Title: "Interpreted functions and types interoperate with compiled code like Go values",
		Explanation: "Decided (structural clauses): T4 for every proxy of the precompiled import tables (all packages, all GOOS/GOARCH-tagged tables in the thorough tier): the proxy struct starts with Object interface{}, *P implements the compiled interface, every method has a field M_ of the method's signature with the object prepended, the method body is exactly `return P.M_(P.Object, params...)` with the parameters in order, and the fields after Object are the interface's methods in sorted order — the order in which Comp.converterToProxy fills them (field i+1 := method i); " +
			"Y1 converterToProxy binds every method 0..NumMethod()-1 of the compiled interface to the interpreted method of the same name and package path, stores it in field i+1, and each conversion allocates a new proxy, copies the table and stores the object in field 0; " +
			"X3 (shared with C33) a call entering the interpreter on a foreign goroutine gets its own run-time record: newEnv4Func's goroutine-id test dominates every use of the frame pool; N1/M1 (shared with C06) the function wrappers handed to compiled code (reflect.MakeFunc and the kind-specialised families) obtain and release their frames in pairs and mark captured frames. " +
			"M8 every run-time closure that adjusts a method receiver found through embedded fields tests both flags of the exclusive pair (address-of, dereference); Z2 the argument vectors of the call families pick each argument closure once. Not decided: behaviour of interpreted functions inside compiled callers, conversion of argument and result values.",
		Assumptions: []string{"reflect.Type.Method(i) enumerates interface methods sorted by name", "reflect.MakeFunc"},
		Rules: []func(*Ctx){func(c *Ctx) {
			// only the proxy obligations of the import-table analysis belong to this property
			n := len(c.obs)
			ruleImportTables(c)
			kept := c.obs[:n]
			for _, o := range c.obs[n:] {
				if strings.HasPrefix(o.Rule, "T4-proxy") {
					kept = append(kept, o)
				} else {
					c.counts[o.Rule]--
					if c.counts[o.Rule] <= 0 {
						delete(c.counts, o.Rule)
					}
				}
			}
			c.obs = kept
		}, func(c *Ctx) {
			ruleProxyFill(c, "Y1-proxy-fill")
			ruleNoSharedRuntimeStorage(c, "H1-no-shared-storage")
			ruleGoidGate(c, "X3-goid-gate")
			ruleNewFreePairing(c, "fast", "N1-new-free")
			ruleMarkBeforeEscape(c, "fast", "M1-mark-before-escape")
			ruleDistinctPickedElements(c, "Z2-distinct-picked-closures", "fast")
			ruleReceiverAdjustmentPairs(c, "M8-receiver-adjustment-pairs")
			c.Floor("T4-proxy-forward", 300)
			c.Floor("T4-proxy-order", 100)
		}},
		ThoroughConfigs: []string{"linux/386", "darwin/amd64", "linux/arm64", "freebsd/amd64", "windows/386"},
		Technique:       "AST/type-resolved custom analysis: table agreement of generated proxy structs with the interfaces they implement (go/types), positional agreement between proxy fields and the converter, dominance of the goroutine-id gate, pairing of frame acquisition and release",
		Mutants: []Mutant{
			{Name: "promoted-method-receiver-not-dereferenced", File: "fast/selector.go", Old: "\t\t\t\tif addressof {\n\t\t\t\t\targs[0] = args[0].Addr()\n\t\t\t\t} else if deref {\n\t\t\t\t\targs[0] = args[0].Elem()\n\t\t\t\t}\n\t\t\t\t// retrieve the function as soon as possible (early bind)", New: "\t\t\t\tif addressof {\n\t\t\t\t\targs[0] = args[0].Addr()\n\t\t\t\t}\n\t\t\t\t// retrieve the function as soon as possible (early bind)", Nth: 3},
			{Name: "two-argument-call-evaluates-first-twice", File: "fast/call2ret1.go", Old: "\t\t\t\targfuns[0](env),\n\t\t\t\targfuns[1](env),\n\t\t\t}\n\t\t\tret0 := callxr(funv, argv)[0]\n\t\t\treturn float32(ret0.Float())", New: "\t\t\t\targfuns[0](env),\n\t\t\t\targfuns[0](env),\n\t\t\t}\n\t\t\tret0 := callxr(funv, argv)[0]\n\t\t\treturn float32(ret0.Float())"},
			{Name: "proxy-fields-reordered", File: "imports/io.go", Old: "\tObject\tinterface{}\n\tClose_\tfunc(interface{}) error\n\tRead_\tfunc(_proxy_obj_ interface{}, p []byte) (n int, err error)\n}", New: "\tObject\tinterface{}\n\tRead_\tfunc(_proxy_obj_ interface{}, p []byte) (n int, err error)\n\tClose_\tfunc(interface{}) error\n}", Canary: true},
			{Name: "proxy-filled-from-field-zero", File: "fast/interface.go", Old: "setProxyField(vtable.Field(i+1), xr.ValueOf(e.Value))", New: "setProxyField(vtable.Field(i), xr.ValueOf(e.Value))", Canary: true},
			{Name: "proxy-method-looked-up-by-index-name", File: "fast/interface.go", Old: "mtdin, count := tsrc.MethodByName(mtdout.Name, mtdout.PkgPath)", New: "mtdin, count := tsrc.MethodByName(rtout.Method(0).Name, mtdout.PkgPath)"},
			{Name: "proxy-shared-between-conversions", File: "fast/interface.go", Old: "\t\treturn func(val xr.Value) xr.Value {\n\t\t\tvaddr := xr.NewR(rtproxy)\n\t\t\tvproxy := vaddr.Elem()\n\t\t\tvproxy.Set(vtable)\n", New: "\t\tvaddr := xr.NewR(rtproxy)\n\t\treturn func(val xr.Value) xr.Value {\n\t\t\tvproxy := vaddr.Elem()\n\t\t\tvproxy.Set(vtable)\n"},
		},
	})
}
