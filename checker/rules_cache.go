package main

// V2 — caches keyed on the identity of a slot's reflect.Value. The call closures of a symbol at file level keep
// the converted function in a captured variable and refresh it when the xreflect.Value found in the symbol's slot
// differs (!=) from the one seen last. That comparison notices a slot that was *replaced* (a function declaration
// executed again stores a new Value) but not a variable that was *assigned* (its Value is the same settable cell).
// Decided: wherever a statement or expression closure compares two xreflect.Value for identity and one of them was
// read from a Vals slot, the symbol the slot index comes from was obtained through a function that excludes
// assignable bindings (its body tests the descriptor's Class() against FuncBind).

import (
	"fmt"
	"go/ast"
	"go/token"
	"go/types"
	"sort"
)

func ruleCacheKeys(c *Ctx, rule string) {
	pk := c.P.Pkg("fast")
	info := pk.TypesInfo
	isXV := func(e ast.Expr) bool {
		t := info.TypeOf(e)
		return t != nil && isNamedType(t, "xreflect", "Value") && !isPtr(t)
	}
	gated := map[*types.Func]bool{}
	gate := func(fn *types.Func) bool {
		if v, ok := gated[fn]; ok {
			return v
		}
		g := false
		if fd := c.P.Func(funcFullName(fn)); fd != nil && fd.Body != nil {
			ast.Inspect(fd.Body, func(n ast.Node) bool {
				b, ok := n.(*ast.BinaryExpr)
				if !ok || (b.Op != token.EQL && b.Op != token.NEQ) {
					return true
				}
				for _, p := range [][2]ast.Expr{{b.X, b.Y}, {b.Y, b.X}} {
					if objQName(usedObj(info, p[1])) != "fast.FuncBind" {
						continue
					}
					if call, ok := unparen(p[0]).(*ast.CallExpr); ok {
						if s, ok := unparen(call.Fun).(*ast.SelectorExpr); ok && s.Sel.Name == "Class" {
							g = true
						}
					}
				}
				return true
			})
		}
		gated[fn] = g
		return g
	}
	type res struct {
		n, bad int
		first  ast.Node
		why    string
	}
	per := map[string]*res{}
	for _, fd := range c.P.FuncsOf("fast") {
		if fd.Body == nil {
			continue
		}
		var di *defIndex
		fkey := funcKey(pk, fd)
		ast.Inspect(fd.Body, func(n ast.Node) bool {
			lit, ok := n.(*ast.FuncLit)
			if !ok {
				return true
			}
			ast.Inspect(lit.Body, func(x ast.Node) bool {
				b, ok := x.(*ast.BinaryExpr)
				if !ok || (b.Op != token.NEQ && b.Op != token.EQL) || !isXV(b.X) || !isXV(b.Y) {
					return true
				}
				// one side read from a Vals slot (directly or through a local of the closure)
				var idx ast.Expr
				for _, side := range []ast.Expr{b.X, b.Y} {
					e := unparen(side)
					if id := identOf(e); id != nil {
						ast.Inspect(lit.Body, func(y ast.Node) bool {
							if as, ok := y.(*ast.AssignStmt); ok && len(as.Lhs) == 1 && len(as.Rhs) == 1 && identOf(as.Lhs[0]) != nil {
								if o := info.Defs[identOf(as.Lhs[0])]; o != nil && o == info.Uses[id] {
									e = unparen(as.Rhs[0])
								}
							}
							return true
						})
					}
					if ix, ok := e.(*ast.IndexExpr); ok {
						if _, i, isVals := valsAccess(info, ix); isVals {
							idx = i
						}
					}
				}
				if idx == nil {
					return true
				}
				if di == nil {
					di = buildDefIndex(info, fd)
				}
				r := per[fkey]
				if r == nil {
					r = &res{first: b}
					per[fkey] = r
				}
				r.n++
				root := di.nearRoot(info, idx, 0)
				good := false
				why := "the slot index does not derive from a symbol local of the function"
				if root != nil {
					why = "the symbol " + root.Name() + " is not obtained through a function that excludes assignable bindings (Class() == FuncBind test)"
					for _, d := range di.defs[root] {
						if d == nil {
							continue
						}
						if call, ok := unparen(d).(*ast.CallExpr); ok {
							if fn := calleeOf(info, call); fn != nil && gate(fn) {
								good = true
							}
						}
					}
				}
				if !good {
					r.bad++
					r.why = why
				}
				return true
			})
			return false
		})
	}
	var keys []string
	for k := range per {
		keys = append(keys, k)
	}
	sort.Strings(keys)
	for _, k := range keys {
		r := per[k]
		c.Ob(rule, k, r.first, r.bad == 0, fmt.Sprintf("%d closures refresh a cached function when the xreflect.Value in the symbol's slot differs from the one seen last: valid only for slots that are replaced, never assigned in place%s", r.n, sep(r.why)))
	}
	if len(keys) < 5 {
		c.Ob(rule, "fast/call-closures", nil, false, fmt.Sprintf("%d functions with an identity-keyed cache found, 5 confirmed by reading (call0ret0, call1ret0, call2ret0, call0ret1, call1ret1)", len(keys)))
	}
}

// M1 — a missing map key. reflect's MapIndex returns the zero Value (not a zero of the element type) for a key
// that is not in the map, and every accessor (Int, Uint, Float, ...) panics on it, while Go reads the element
// type's zero value: `m[k] <<= 2` and `m[k] /= 4` on a missing key store 0. Decided, in package fast: the result
// of an xreflect.Value.MapIndex call is never the receiver of a further method call other than IsValid, and a
// local bound to such a result is tested with IsValid() in the same function literal.
func ruleAbsentMapKey(c *Ctx, rule string, files []string) {
	pk := c.P.Pkg("fast")
	info := pk.TypesInfo
	fileSet := map[string]bool{}
	for _, f := range files {
		fileSet[f] = true
	}
	type res struct {
		n, bad int
		first  ast.Node
		why    string
	}
	per := map[string]*res{}
	isMapIndex := func(e ast.Expr) bool {
		call, ok := unparen(e).(*ast.CallExpr)
		if !ok {
			return false
		}
		s, ok := unparen(call.Fun).(*ast.SelectorExpr)
		return ok && s.Sel.Name == "MapIndex" && isNamedType(typeOrInvalid(info, s.X), "xreflect", "Value")
	}
	for _, fd := range c.P.FuncsOf("fast") {
		if fd.Body == nil || (len(files) > 0 && !fileSet[baseName(c.P.Fset, fd)]) {
			continue
		}
		fkey := funcKey(pk, fd)
		note := func(n ast.Node, good bool, why string) {
			r := per[fkey]
			if r == nil {
				r = &res{first: n}
				per[fkey] = r
			}
			r.n++
			if !good {
				r.bad++
				r.why = why
				if r.bad == 1 {
					r.first = n
				}
			}
		}
		// scopes: the function body and each function literal
		var scopes []ast.Node
		scopes = append(scopes, fd.Body)
		ast.Inspect(fd.Body, func(n ast.Node) bool {
			if l, ok := n.(*ast.FuncLit); ok {
				scopes = append(scopes, l.Body)
			}
			return true
		})
		seen := map[ast.Node]bool{}
		for _, sc := range scopes {
			ast.Inspect(sc, func(n ast.Node) bool {
				if l, ok := n.(*ast.FuncLit); ok && l.Body != sc {
					return false
				}
				switch x := n.(type) {
				case *ast.CallExpr:
					// X.MapIndex(K).Acc(...)
					if s, ok := unparen(x.Fun).(*ast.SelectorExpr); ok && isMapIndex(s.X) && !seen[x] {
						seen[x] = true
						note(x, s.Sel.Name == "IsValid", "the result of MapIndex is used through "+s.Sel.Name+"() without a test for a missing key")
					}
				case *ast.AssignStmt:
					if len(x.Lhs) == 1 && len(x.Rhs) == 1 && isMapIndex(x.Rhs[0]) && identOf(x.Lhs[0]) != nil && !seen[x] {
						seen[x] = true
						o := info.Defs[identOf(x.Lhs[0])]
						if o == nil {
							o = info.Uses[identOf(x.Lhs[0])]
						}
						tested, used := false, false
						ast.Inspect(sc, func(m ast.Node) bool {
							if call, ok := m.(*ast.CallExpr); ok {
								if s, ok := unparen(call.Fun).(*ast.SelectorExpr); ok && usedObj(info, s.X) == o {
									if s.Sel.Name == "IsValid" {
										tested = true
									} else {
										used = true
									}
								}
							}
							return true
						})
						note(x, tested || !used, "a local bound to the result of MapIndex is used through accessors and never tested with IsValid()")
					}
				}
				return true
			})
		}
	}
	var keys []string
	for k := range per {
		keys = append(keys, k)
	}
	sort.Strings(keys)
	for _, k := range keys {
		r := per[k]
		c.Ob(rule, k, r.first, r.bad == 0, fmt.Sprintf("%d reads of a map element through reflect tolerate a missing key%s", r.n, sep(r.why)))
	}
	if len(keys) == 0 {
		c.Ob(rule, "fast/MapIndex", nil, false, "no MapIndex call found: anchor missing")
	}
}

// A7s — an identity shortcut on a map element still stores. `m[k] += 0`, `m[k] *= 1`, `m[k] |= 0` ... are compiled
// to placeForSideEffects(place) by the A7 shortcuts. For a map element the store itself is observable: it inserts a
// missing key and panics on a nil map. Decided: in the function the "same" shortcuts of the place compilers call,
// the arm for a place with a map key runs one statement that evaluates the map and the key once each and calls
// SetMapIndex on them.
func ruleIdentityStore(c *Ctx, rule string) {
	pk := c.P.Pkg("fast")
	info := pk.TypesInfo
	fd := c.P.Func("fast.Comp.placeForSideEffects")
	if fd == nil || fd.Body == nil {
		c.Ob(rule, "fast.Comp.placeForSideEffects", nil, false, "anchor function not found")
		return
	}
	var arm *ast.IfStmt
	ast.Inspect(fd.Body, func(n ast.Node) bool {
		ifs, ok := n.(*ast.IfStmt)
		if !ok || arm != nil {
			return true
		}
		mentions := false
		for _, e := range []ast.Node{ifs.Init, ifs.Cond} {
			if e == nil {
				continue
			}
			ast.Inspect(e, func(m ast.Node) bool {
				if ex, ok := m.(ast.Expr); ok {
					if _, is := fieldSel(info, ex, "MapKey"); is {
						mentions = true
					}
				}
				return true
			})
		}
		if mentions {
			arm = ifs
		}
		return true
	})
	if arm == nil {
		c.Ob(rule, "fast.Comp.placeForSideEffects/map-arm", fd, false, "no arm for places with a map key")
		return
	}
	good, why := false, "the map arm contains no statement closure that calls SetMapIndex"
	ast.Inspect(arm.Body, func(n ast.Node) bool {
		lit, ok := n.(*ast.FuncLit)
		if !ok || !isStmtSig(info.TypeOf(lit)) {
			return true
		}
		evals := 0
		inspectCalls(lit.Body, func(call *ast.CallExpr) {
			if isExprFunX1(typeOrInvalid(info, call.Fun)) {
				evals++
			}
		})
		inspectCalls(lit.Body, func(call *ast.CallExpr) {
			s, ok := unparen(call.Fun).(*ast.SelectorExpr)
			if !ok || s.Sel.Name != "SetMapIndex" || len(call.Args) != 2 {
				return
			}
			if evals == 2 {
				good, why = true, ""
			} else {
				why = fmt.Sprintf("map and key are evaluated %d times in all, expected once each", evals)
			}
		})
		return false
	})
	c.Ob(rule, "fast.Comp.placeForSideEffects/map-arm", arm, good, "an identity compound assignment to a map element evaluates map and key once and writes the element back (inserting a missing key, panicking on a nil map)"+sep(why))
}

// B2 — append(s, t...) copies a block. s and t may share a backing array (`append(s[:1], s[0:3]...)`), so the
// elements of t must be copied as Go's append does (memmove semantics), not one element view after another into
// storage the views alias. Decided in call_builtin: the closure compiled for append with an ellipsis argument passes
// the two evaluated operands, in order, to reflect's AppendSlice and does not expand t into element values.
func ruleAppendEllipsis(c *Ctx, rule string) {
	pk := c.P.Pkg("fast")
	info := pk.TypesInfo
	fd := c.P.Func("fast.Comp.call_builtin")
	if fd == nil || fd.Body == nil {
		c.Ob(rule, "fast.Comp.call_builtin", nil, false, "anchor function not found")
		return
	}
	n := 0
	ast.Inspect(fd.Body, func(nd ast.Node) bool {
		ifs, ok := nd.(*ast.IfStmt)
		if !ok {
			return true
		}
		if _, isE := fieldSel(info, ifs.Cond, "Ellipsis"); !isE {
			return true
		}
		// inside: if name == "append" { ret = func... }
		ast.Inspect(ifs.Body, func(m ast.Node) bool {
			inner, ok := m.(*ast.IfStmt)
			if !ok {
				return true
			}
			b, ok := unparen(inner.Cond).(*ast.BinaryExpr)
			if !ok || b.Op != token.EQL {
				return true
			}
			if s, isS := constString(info, b.Y); !isS || s != "append" {
				return true
			}
			ast.Inspect(inner.Body, func(k ast.Node) bool {
				lit, ok := k.(*ast.FuncLit)
				if !ok {
					return true
				}
				n++
				var evals []types.Object
				for _, st := range lit.Body.List {
					if as, ok := st.(*ast.AssignStmt); ok && len(as.Lhs) == 1 && len(as.Rhs) == 1 {
						if call, ok := unparen(as.Rhs[0]).(*ast.CallExpr); ok && isExprFunX1(typeOrInvalid(info, call.Fun)) {
							evals = append(evals, info.Defs[identOf(as.Lhs[0])])
						}
					}
				}
				good, why := false, "no call of AppendSlice on the two evaluated operands"
				inspectCalls(lit.Body, func(call *ast.CallExpr) {
					fn := calleeOf(info, call)
					if fn == nil {
						return
					}
					if fn.Name() == "unwrapSlice" || (fn.Name() == "Append" && fn.Pkg() != nil && (fn.Pkg().Name() == "xreflect" || fn.Pkg().Name() == "reflect")) {
						why = "the appended slice is expanded into element values and appended one by one (" + fn.Name() + "): wrong when it overlaps the destination"
						good = false
						evals = nil
					}
					if fn.Name() == "AppendSlice" && len(call.Args) == 2 && len(evals) == 2 && usedObj(info, call.Args[0]) == evals[0] && usedObj(info, call.Args[1]) == evals[1] {
						good, why = true, ""
					}
				})
				c.Ob(rule, fmt.Sprintf("fast.Comp.call_builtin/append-ellipsis#%d", n), lit, good, "append(s, t...) hands both slices to AppendSlice (block copy, overlap-safe)"+sep(why))
				return false
			})
			return true
		})
		return true
	})
	if n == 0 {
		c.Ob(rule, "fast.Comp.call_builtin/append-ellipsis", fd, false, "no closure for append with an ellipsis argument found: anchor missing")
	}
	// the wrapper forwards to reflect.AppendSlice in order
	w := c.P.Func("xreflect.AppendSlice")
	okW := false
	if w != nil && w.Body != nil && len(w.Type.Params.List) >= 1 {
		var ps []types.Object
		xinfo := c.P.Pkg("xreflect").TypesInfo
		for _, f := range w.Type.Params.List {
			for _, nm := range f.Names {
				ps = append(ps, xinfo.Defs[nm])
			}
		}
		inspectCalls(w.Body, func(call *ast.CallExpr) {
			if fn := calleeOf(xinfo, call); fn != nil && fn.Name() == "AppendSlice" && fn.Pkg() != nil && fn.Pkg().Path() == "reflect" && len(call.Args) == 2 && len(ps) == 2 {
				r0 := rootIdentObj(xinfo, call.Args[0])
				r1 := rootIdentObj(xinfo, call.Args[1])
				okW = r0 == ps[0] && r1 == ps[1]
			}
		})
	}
	c.Ob(rule, "xreflect.AppendSlice", w, okW, "the wrapper passes its parameters to reflect.AppendSlice in order")
}

// rootIdentObj returns the object of the innermost identifier of a selector/call chain a.b().c.
func rootIdentObj(info *types.Info, e ast.Expr) types.Object {
	for {
		switch x := unparen(e).(type) {
		case *ast.Ident:
			return info.Uses[x]
		case *ast.SelectorExpr:
			e = x.X
		case *ast.CallExpr:
			e = x.Fun
		default:
			return nil
		}
	}
}

// B3 — make([]T, len, cap) with len > cap panics. xreflect.MakeSlice does not hand (len, cap) to reflect.MakeSlice
// (it allocates cap elements and reslices), so reflect's own check is bypassed. Decided: either the wrapper passes
// its len and cap parameters to reflect.MakeSlice in order, or it rejects len > cap by panicking before it allocates.
func ruleMakeSliceBounds(c *Ctx, rule string) {
	xp := c.P.Pkg("xreflect")
	fd := c.P.Func("xreflect.MakeSlice")
	if xp == nil || fd == nil || fd.Body == nil {
		c.Ob(rule, "xreflect.MakeSlice", nil, false, "anchor function not found")
		return
	}
	info := xp.TypesInfo
	var ps []types.Object
	for _, f := range fd.Type.Params.List {
		for _, nm := range f.Names {
			ps = append(ps, info.Defs[nm])
		}
	}
	if len(ps) != 3 {
		c.Ob(rule, "xreflect.MakeSlice", fd, false, "expected parameters (t, len, cap)")
		return
	}
	var prim *ast.CallExpr
	inspectCalls(fd.Body, func(call *ast.CallExpr) {
		if fn := calleeOf(info, call); fn != nil && fn.Name() == "MakeSlice" && fn.Pkg() != nil && fn.Pkg().Path() == "reflect" && len(call.Args) == 3 {
			prim = call
		}
	})
	if prim == nil {
		c.Ob(rule, "xreflect.MakeSlice", fd, false, "no call of reflect.MakeSlice")
		return
	}
	direct := usedObj(info, prim.Args[1]) == ps[1] && usedObj(info, prim.Args[2]) == ps[2]
	guarded := false
	for _, st := range fd.Body.List {
		ifs, ok := st.(*ast.IfStmt)
		if !ok || ifs.Pos() > prim.Pos() {
			continue
		}
		b, ok := unparen(ifs.Cond).(*ast.BinaryExpr)
		if !ok {
			continue
		}
		x, y := usedObj(info, b.X), usedObj(info, b.Y)
		if !((b.Op == token.GTR && x == ps[1] && y == ps[2]) || (b.Op == token.LSS && x == ps[2] && y == ps[1])) {
			continue
		}
		inspectCalls(ifs.Body, func(call *ast.CallExpr) {
			if id := identOf(call.Fun); id != nil {
				if _, isB := info.Uses[id].(*types.Builtin); isB && id.Name == "panic" {
					guarded = true
				}
			}
			if fn := calleeOf(info, call); fn != nil && (fn.Name() == "xerrorf" || fn.Name() == "errorf") {
				guarded = true
			}
		})
	}
	c.Ob(rule, "xreflect.MakeSlice", prim, direct || guarded, "make([]T, len, cap): len and cap reach reflect.MakeSlice in order, or len > cap is rejected with a panic before the allocation")
}
