package main

// Small structural rules added after the last batch of second-round seeds.

import (
	"fmt"
	"go/ast"
	"go/token"
	"go/types"
	"sort"
	"strings"
)

// ruleCloneSignature (K5s): a clone of a go/types signature keeps every component: wherever types.NewSignature is
// called with receiver, parameters and results taken from one source signature S (S.Recv(), S.Params(), S.Results()),
// the variadic flag is S.Variadic() too.
func ruleCloneSignature(c *Ctx, rule string, shorts ...string) {
	n := 0
	for _, short := range shorts {
		pk := c.P.Pkg(short)
		if pk == nil {
			continue
		}
		info := pk.TypesInfo
		for _, fd := range c.P.FuncsOf(short) {
			if fd.Body == nil {
				continue
			}
			inspectCalls(fd.Body, func(call *ast.CallExpr) {
				fn := calleeOf(info, call)
				if fn == nil || fn.Name() != "NewSignature" || len(call.Args) != 4 {
					return
				}
				src := func(e ast.Expr, m string) types.Object {
					cc, ok := unparen(e).(*ast.CallExpr)
					if !ok || len(cc.Args) != 0 {
						return nil
					}
					s, ok := unparen(cc.Fun).(*ast.SelectorExpr)
					if !ok || s.Sel.Name != m {
						return nil
					}
					return usedObj(info, s.X)
				}
				p, r := src(call.Args[1], "Params"), src(call.Args[2], "Results")
				if p == nil || p != r {
					return // not a clone of one signature
				}
				n++
				c.Ob(rule, fmt.Sprintf("%s/clone#%d", funcKey(pk, fd), n), call, src(call.Args[3], "Variadic") == p, "a signature rebuilt from the parameters and results of "+p.Name()+" keeps its variadic flag ("+exprString(call.Args[3])+")")
			})
		}
	}
	if n == 0 {
		c.Ob(rule, strings.Join(shorts, ","), nil, false, "no clone of a signature found: anchor missing")
	}
}

// ruleFieldFromReflect (K6f): a struct field translated from reflect keeps everything reflect says about it: the
// xreflect.StructField literal built by fromReflectField sets every field that reflect.StructField also has
// (Name, Type, Tag, Offset, Index, Anonymous): a dropped Tag makes differently tagged structs identical.
func ruleFieldFromReflect(c *Ctx, rule string) {
	pk := c.P.Pkg("xreflect")
	info := pk.TypesInfo
	fd := c.P.Func("xreflect.Universe.fromReflectField")
	if fd == nil || fd.Body == nil {
		c.Ob(rule, "xreflect.Universe.fromReflectField", nil, false, "anchor function not found")
		return
	}
	// reflect.StructField fields
	var rfields map[string]bool
	for _, f := range fd.Type.Params.List {
		t := info.TypeOf(f.Type)
		if p, ok := t.(*types.Pointer); ok {
			t = p.Elem()
		}
		if st, ok := t.Underlying().(*types.Struct); ok {
			rfields = map[string]bool{}
			for i := 0; i < st.NumFields(); i++ {
				rfields[st.Field(i).Name()] = true
			}
		}
	}
	found := false
	ast.Inspect(fd.Body, func(nd ast.Node) bool {
		cl, ok := nd.(*ast.CompositeLit)
		if !ok || !isNamedType(typeOrInvalid(info, cl), "xreflect", "StructField") {
			return true
		}
		found = true
		set := map[string]bool{}
		for _, el := range cl.Elts {
			if kv, ok := el.(*ast.KeyValueExpr); ok && identOf(kv.Key) != nil {
				set[identOf(kv.Key).Name] = true
			}
		}
		st := typeOrInvalid(info, cl).Underlying().(*types.Struct)
		var missing []string
		for i := 0; i < st.NumFields(); i++ {
			nm := st.Field(i).Name()
			if rfields[nm] && !set[nm] {
				missing = append(missing, nm)
			}
		}
		sort.Strings(missing)
		c.Ob(rule, "xreflect.Universe.fromReflectField/literal", cl, len(missing) == 0, fmt.Sprintf("every field xreflect.StructField shares with reflect.StructField is set from it (missing: %v)", missing))
		return true
	})
	if !found {
		c.Ob(rule, "xreflect.Universe.fromReflectField", fd, false, "no StructField literal: anchor missing")
	}
}

// ruleEnumKeyedMapsTotal (E4m): a map literal that translates one enumeration into another covers every constant of
// the key type: a missing key silently yields the zero value (`chan<- T` converted to `chan T`). Decided for map
// literals, in the listed packages, whose key type is a named integer type with between 2 and 12 constants declared
// in its package.
func ruleEnumKeyedMapsTotal(c *Ctx, rule string, shorts ...string) {
	n := 0
	for _, short := range shorts {
		pk := c.P.Pkg(short)
		if pk == nil {
			continue
		}
		info := pk.TypesInfo
		for _, f := range pk.Syntax {
			ast.Inspect(f, func(nd ast.Node) bool {
				cl, ok := nd.(*ast.CompositeLit)
				if !ok {
					return true
				}
				mt, ok := typeOrInvalid(info, cl).Underlying().(*types.Map)
				if !ok {
					return true
				}
				named, ok := types.Unalias(mt.Key()).(*types.Named)
				if !ok || named.Obj().Pkg() == nil {
					return true
				}
				if b, ok := named.Underlying().(*types.Basic); !ok || b.Info()&types.IsInteger == 0 {
					return true
				}
				var consts []string
				sc := named.Obj().Pkg().Scope()
				for _, nm := range sc.Names() {
					if k, ok := sc.Lookup(nm).(*types.Const); ok && types.Identical(k.Type(), named) && k.Exported() {
						consts = append(consts, nm)
					}
				}
				if len(consts) < 2 || len(consts) > 12 {
					return true
				}
				have := map[string]bool{}
				allConst := true
				for _, el := range cl.Elts {
					kv, ok := el.(*ast.KeyValueExpr)
					if !ok {
						continue
					}
					if o, ok := usedObj(info, kv.Key).(*types.Const); ok {
						have[o.Name()] = true
					} else {
						allConst = false
					}
				}
				if !allConst || len(have) == 0 {
					return true
				}
				n++
				var missing []string
				for _, k := range consts {
					if !have[k] {
						missing = append(missing, k)
					}
				}
				c.Ob(rule, fmt.Sprintf("%s/map[%s]#%d", short, named.Obj().Name(), n), cl, len(missing) == 0, fmt.Sprintf("the map literal keyed by %s.%s has an entry for every constant of that type (missing: %v)", named.Obj().Pkg().Name(), named.Obj().Name(), missing))
				return true
			})
		}
	}
	if n == 0 {
		c.ObTrivial(rule, strings.Join(shorts, ","), nil, true, "no map literal keyed by a small enumeration in these packages")
	}
}

// rulePackageCacheKey (V4k): converted packages are cached by import path: two packages may share a name (math/rand,
// crypto/rand). In Converter.mkpackage every index of the cache derives from a call of Path() on the package.
func rulePackageCacheKey(c *Ctx, rule string) {
	pk := c.P.Pkg("go/types")
	if pk == nil {
		c.Fatal("package go/types not loaded")
		return
	}
	info := pk.TypesInfo
	fd := c.P.Func("go/types.Converter.mkpackage")
	if fd == nil || fd.Body == nil {
		c.Ob(rule, "go/types.Converter.mkpackage", nil, false, "anchor function not found")
		return
	}
	di := buildDefIndex(info, fd)
	n := 0
	ast.Inspect(fd.Body, func(nd ast.Node) bool {
		ix, ok := nd.(*ast.IndexExpr)
		if !ok {
			return true
		}
		if _, is := fieldSel(info, ix.X, "pkg"); !is {
			return true
		}
		n++
		key := unparen(ix.Index)
		if id := identOf(key); id != nil {
			if d := di.single(info.Uses[id]); d != nil {
				key = unparen(d)
			}
		}
		good := false
		if call, ok := key.(*ast.CallExpr); ok {
			if s, ok := unparen(call.Fun).(*ast.SelectorExpr); ok && s.Sel.Name == "Path" {
				good = true
			}
		}
		c.Ob(rule, fmt.Sprintf("go/types.Converter.mkpackage/key#%d", n), ix, good, "the package cache is indexed by the import path ("+exprString(ix.Index)+")")
		return true
	})
	if n < 2 {
		c.Ob(rule, "go/types.Converter.mkpackage", fd, false, "cache lookups not found: anchor missing")
	}
}

// ruleRuneErrorWidth (I3): utf8.RuneError is also the encoding of the valid code point U+FFFD: decoding reports an
// illegal encoding only when it returns RuneError with width 1. Every comparison with utf8.RuneError in the scanner
// is in a conjunction with a test of the width against 1.
func ruleRuneErrorWidth(c *Ctx, rule string) {
	pk := c.P.Pkg("go/scanner")
	if pk == nil {
		c.Fatal("package go/scanner not loaded")
		return
	}
	info := pk.TypesInfo
	n := 0
	for _, fd := range c.P.FuncsOf("go/scanner") {
		if fd.Body == nil {
			continue
		}
		ast.Inspect(fd.Body, func(nd ast.Node) bool {
			ifs, ok := nd.(*ast.IfStmt)
			if !ok {
				return true
			}
			atoms := andAtoms(ifs.Cond)
			isErr := false
			for _, a := range atoms {
				if b, ok := unparen(a).(*ast.BinaryExpr); ok && b.Op == token.EQL && objQName(usedObj(info, b.Y)) == "unicode/utf8.RuneError" {
					isErr = true
				}
			}
			if !isErr {
				return true
			}
			n++
			width := false
			for _, a := range atoms {
				if b, ok := unparen(a).(*ast.BinaryExpr); ok && b.Op == token.EQL {
					if v, isC := constInt(info, b.Y); isC && v == 1 && identOf(b.X) != nil {
						width = true
					}
				}
			}
			c.Ob(rule, fmt.Sprintf("%s/rune-error#%d", funcKey(pk, fd), n), ifs, width, "RuneError means an illegal encoding only together with width 1 (a literal U+FFFD decodes to the same rune with width 3)")
			return true
		})
	}
	if n == 0 {
		c.Ob(rule, "go/scanner", nil, false, "no test against utf8.RuneError found: anchor missing")
	}
}

// ruleCtiPrimitiveName (G7): the container method cti<M> of the generic-contract tables is implemented by the reflect
// method of the same name when reflect.Value has a niladic method M (Len, Cap): ctiCap must not answer with Len.
func ruleCtiPrimitiveName(c *Ctx, rule string) {
	pk := c.P.Pkg("xreflect")
	info := pk.TypesInfo
	n := 0
	for _, fd := range c.P.FuncsOf("xreflect") {
		if fd.Body == nil || fd.Recv != nil || !strings.HasPrefix(fd.Name.Name, "cti") || baseName(c.P.Fset, fd) != "cti_method.go" {
			continue
		}
		want := strings.TrimPrefix(fd.Name.Name, "cti")
		if want != "Len" && want != "Cap" {
			continue
		}
		n++
		other := map[string]string{"Len": "Cap", "Cap": "Len"}[want]
		hasWant, hasOther := false, false
		inspectCalls(fd.Body, func(call *ast.CallExpr) {
			if s, ok := unparen(call.Fun).(*ast.SelectorExpr); ok && len(call.Args) == 0 && isReflectValue(info.TypeOf(s.X)) {
				if s.Sel.Name == want {
					hasWant = true
				}
				if s.Sel.Name == other {
					hasOther = true
				}
			}
		})
		c.Ob(rule, "xreflect."+fd.Name.Name, fd, hasWant && !hasOther, "the container method "+want+" is answered by reflect.Value."+want+", not by "+other)
	}
	if n < 2 {
		c.Ob(rule, "xreflect/cti_method.go", nil, false, "ctiLen / ctiCap not found: anchor missing")
	}
}

// ruleArmTypeAgreement (A1c): in the kind arms of the classic interpreter's operator evaluators, an accessor result is
// converted to the Go type of the arm's kind: `case r.Int: x := int(xv.Int())`. A conversion to another type of the
// same category (int32 in the Int arm) truncates.
func ruleArmTypeAgreement(c *Ctx, rule string, short string, files []string) {
	pk := c.P.Pkg(short)
	if pk == nil {
		c.Fatal("package %s not loaded", short)
		return
	}
	info := pk.TypesInfo
	fileSet := map[string]bool{}
	for _, f := range files {
		fileSet[f] = true
	}
	type res struct {
		n     int
		bad   string
		first ast.Node
	}
	per := map[string]*res{}
	for _, fd := range c.P.FuncsOf(short) {
		if fd.Body == nil || !fileSet[baseName(c.P.Fset, fd)] {
			continue
		}
		fkey := funcKey(pk, fd)
		ast.Inspect(fd.Body, func(nd ast.Node) bool {
			cl, ok := nd.(*ast.CaseClause)
			if !ok || len(cl.List) != 1 {
				return true
			}
			o := usedObj(info, cl.List[0])
			if o == nil || o.Pkg() == nil || o.Pkg().Path() != "reflect" || !isReflectKind(o.Type()) {
				return true
			}
			bk, ok := kindToBasic[o.Name()]
			if !ok {
				return true
			}
			want := types.Typ[bk]
			for _, st := range cl.Body {
				ast.Inspect(st, func(m ast.Node) bool {
					if _, isCase := m.(*ast.CaseClause); isCase {
						return false
					}
					conv, ok := m.(*ast.CallExpr)
					if !ok || len(conv.Args) != 1 {
						return true
					}
					tv, ok := info.Types[conv.Fun]
					if !ok || !tv.IsType() {
						return true
					}
					acc, ok := unparen(conv.Args[0]).(*ast.CallExpr)
					if !ok {
						return true
					}
					s, ok := unparen(acc.Fun).(*ast.SelectorExpr)
					if !ok || !isReflectValue(info.TypeOf(s.X)) {
						return true
					}
					if _, isAcc := getAccessors[s.Sel.Name]; !isAcc || len(acc.Args) != 0 {
						return true
					}
					r := per[fkey]
					if r == nil {
						r = &res{first: conv}
						per[fkey] = r
					}
					r.n++
					if !types.Identical(tv.Type, want) && r.bad == "" {
						r.bad = fmt.Sprintf("%s: %s in the arm of kind %s", c.pos(conv), exprString(conv), o.Name())
						r.first = conv
					}
					return true
				})
			}
			return true
		})
	}
	var keys []string
	for k := range per {
		keys = append(keys, k)
	}
	sort.Strings(keys)
	total := 0
	for _, k := range keys {
		r := per[k]
		total += r.n
		c.Ob(rule, k, r.first, r.bad == "", fmt.Sprintf("%d conversions of accessor results inside kind arms have the Go type of their arm%s", r.n, sep(r.bad)))
	}
	if total < 8 {
		c.Ob(rule, short+"/kind-arms", nil, false, fmt.Sprintf("%d conversions in kind arms found, at least 8 expected", total))
	}
}

// ruleRangeLenSnapshot (G3c): the range expression of a for-range over a slice is evaluated once: the number of
// iterations is fixed before the first one. In the classic interpreter's evalForRange* functions no loop condition
// contains a call (the length is a local snapshot).
func ruleRangeLenSnapshot(c *Ctx, rule string) {
	pk := c.P.Pkg("classic")
	n := 0
	for _, fd := range c.P.FuncsOf("classic") {
		if fd.Body == nil || !strings.HasPrefix(fd.Name.Name, "evalForRange") {
			continue
		}
		ast.Inspect(fd.Body, func(nd ast.Node) bool {
			fs, ok := nd.(*ast.ForStmt)
			if !ok || fs.Cond == nil {
				return true
			}
			n++
			hasCall := false
			ast.Inspect(fs.Cond, func(m ast.Node) bool {
				if _, ok := m.(*ast.CallExpr); ok {
					hasCall = true
				}
				return true
			})
			c.Ob(rule, fmt.Sprintf("%s/loop#%d", funcKey(pk, fd), n), fs, !hasCall, "the loop bound is a snapshot taken before the first iteration ("+exprString(fs.Cond)+")")
			return true
		})
	}
	if n < 2 {
		c.Ob(rule, "classic/evalForRange", nil, false, fmt.Sprintf("%d counted loops found in the range evaluators, at least 2 expected", n))
	}
}

// ruleDebugLookupConjunction (L6d): a debugger command is selected by its first letter and must then match the whole
// prefix typed: in debug.Cmds.Lookup every alternative of the accepting condition contains the Match call.
func ruleDebugLookupConjunction(c *Ctx, rule string) {
	pk := c.P.Pkg("fast/debug")
	if pk == nil {
		c.Fatal("package fast/debug not loaded")
		return
	}
	info := pk.TypesInfo
	fd := c.P.Func("fast/debug.Cmds.Lookup")
	if fd == nil || fd.Body == nil {
		c.Ob(rule, "fast/debug.Cmds.Lookup", nil, false, "anchor function not found")
		return
	}
	n := 0
	ast.Inspect(fd.Body, func(nd ast.Node) bool {
		ifs, ok := nd.(*ast.IfStmt)
		if !ok {
			return true
		}
		accepts := false
		for _, st := range ifs.Body.List {
			if r, ok := st.(*ast.ReturnStmt); ok && len(r.Results) == 2 {
				if tv, ok := info.Types[r.Results[1]]; ok && tv.Value != nil && tv.Value.String() == "true" {
					accepts = true
				}
			}
		}
		if !accepts {
			return true
		}
		n++
		good := true
		for _, d := range orAtoms(ifs.Cond) {
			has := false
			for _, a := range andAtoms(d) {
				if call, ok := unparen(a).(*ast.CallExpr); ok {
					if fn := calleeOf(info, call); fn != nil && fn.Name() == "Match" {
						has = true
					}
				}
			}
			if !has {
				good = false
			}
		}
		c.Ob(rule, "fast/debug.Cmds.Lookup/accept", ifs, good, "a command is accepted only if it matches the typed prefix in every alternative of the condition ("+exprString(ifs.Cond)+")")
		return true
	})
	if n == 0 {
		c.Ob(rule, "fast/debug.Cmds.Lookup", fd, false, "accepting branch not found: anchor missing")
	}
}

// ruleForceEvalMasksAgree (X8m): both interpreters suspend the same options for a forced evaluation: the constant
// masks named todisable in fast.cmdOptForceEval and classic.Interp.parseEvalPrint have the same value, and it
// contains OptMacroExpandOnly, OptCollectDeclarations and OptCollectStatements.
func ruleForceEvalMasksAgree(c *Ctx, rule string) {
	vals := map[string]string{}
	var at ast.Node
	for _, fk := range []string{"fast.cmdOptForceEval", "classic.Interp.parseEvalPrint"} {
		pk := c.P.PkgOfFunc(fk)
		fd := c.P.Func(fk)
		if fd == nil || pk == nil || fd.Body == nil {
			c.Ob(rule, fk, nil, false, "anchor function not found")
			return
		}
		info := pk.TypesInfo
		ast.Inspect(fd.Body, func(nd ast.Node) bool {
			vs, ok := nd.(*ast.ValueSpec)
			if !ok {
				return true
			}
			for _, nm := range vs.Names {
				if k, ok := info.Defs[nm].(*types.Const); ok {
					vals[fk] = k.Val().ExactString()
					at = vs
				}
			}
			return true
		})
	}
	// expected bits from package base
	want := ""
	if bp := c.P.Pkg("base"); bp != nil {
		var sum uint64
		okAll := true
		for _, nm := range []string{"OptMacroExpandOnly", "OptCollectDeclarations", "OptCollectStatements"} {
			k, ok := bp.Types.Scope().Lookup(nm).(*types.Const)
			if !ok {
				okAll = false
				continue
			}
			var v uint64
			fmt.Sscan(k.Val().ExactString(), &v)
			sum |= v
		}
		if okAll {
			want = fmt.Sprint(sum)
		}
	}
	a, b := vals["fast.cmdOptForceEval"], vals["classic.Interp.parseEvalPrint"]
	c.Ob(rule, "fast,classic/todisable", at, a != "" && a == b && a == want, fmt.Sprintf("the options suspended for a forced evaluation are MacroExpandOnly, CollectDeclarations and CollectStatements in both interpreters (fast %s, classic %s, expected %s)", a, b, want))
}

// ruleLoadBindsClassOrder (T6o): an entry of an import table that is addressable and settable is a variable, whatever
// its kind: the test for a variable comes first in the chain that classifies the entry (a variable of basic kind
// classified as a constant would be snapshotted at import time).
func ruleLoadBindsClassOrder(c *Ctx, rule string) {
	pk := c.P.Pkg("fast")
	info := pk.TypesInfo
	fd := c.P.Func("fast.Import.loadBinds")
	if fd == nil || fd.Body == nil {
		c.Ob(rule, "fast.Import.loadBinds", nil, false, "anchor function not found")
		return
	}
	found := false
	ast.Inspect(fd.Body, func(nd ast.Node) bool {
		ifs, ok := nd.(*ast.IfStmt)
		if !ok || found {
			return true
		}
		// the chain whose arms assign class = VarBind / ConstBind
		assigns := func(b *ast.BlockStmt) string {
			for _, st := range b.List {
				if as, ok := st.(*ast.AssignStmt); ok && len(as.Lhs) == 1 && len(as.Rhs) == 1 {
					if q := objQName(usedObj(info, as.Rhs[0])); q == "fast.VarBind" || q == "fast.ConstBind" {
						return strings.TrimPrefix(q, "fast.")
					}
				}
			}
			return ""
		}
		first := assigns(ifs.Body)
		if first == "" {
			return true
		}
		second := ""
		if ei, ok := ifs.Else.(*ast.IfStmt); ok {
			second = assigns(ei.Body)
		}
		if second == "" {
			return true
		}
		found = true
		mentions := false
		ast.Inspect(ifs.Cond, func(m ast.Node) bool {
			if call, ok := m.(*ast.CallExpr); ok {
				if s, ok := unparen(call.Fun).(*ast.SelectorExpr); ok && (s.Sel.Name == "CanSet" || s.Sel.Name == "CanAddr") {
					mentions = true
				}
			}
			return true
		})
		c.Ob(rule, "fast.Import.loadBinds/class", ifs, first == "VarBind" && mentions, "the classification of a table entry tests addressable-and-settable first (first arm assigns "+first+", second "+second+")")
		return true
	})
	if !found {
		c.Ob(rule, "fast.Import.loadBinds", fd, false, "classification chain not found: anchor missing")
	}
}

// ruleUnmarshalArgUnmodified (M7u): the text of an untyped constant reaches untyped.Unmarshal as it stands in the
// table: a string constant may begin or end with blanks. In parseUntyped the argument of Unmarshal is the parameter
// itself.
func ruleUnmarshalArgUnmodified(c *Ctx, rule string) {
	pk := c.P.Pkg("fast")
	info := pk.TypesInfo
	fd := c.P.Func("fast.CompGlobals.parseUntyped")
	if fd == nil || fd.Body == nil {
		c.Ob(rule, "fast.CompGlobals.parseUntyped", nil, false, "anchor function not found")
		return
	}
	var param types.Object
	for _, f := range fd.Type.Params.List {
		for _, nm := range f.Names {
			param = info.Defs[nm]
		}
	}
	n := 0
	inspectCalls(fd.Body, func(call *ast.CallExpr) {
		if fn := calleeOf(info, call); fn == nil || fn.Name() != "Unmarshal" || len(call.Args) != 1 {
			return
		}
		n++
		c.Ob(rule, "fast.CompGlobals.parseUntyped/arg", call, identOf(call.Args[0]) != nil && usedObj(info, call.Args[0]) == param, "the marshalled text is handed to Unmarshal unmodified ("+exprString(call.Args[0])+")")
	})
	if n == 0 {
		c.Ob(rule, "fast.CompGlobals.parseUntyped", fd, false, "no Unmarshal call: anchor missing")
	}
}
