package main

// Syntax-field provenance: which field of the source syntax node (node.X, node.Index,
// node.Low, node.Args[1] ...) a compile-time value derives from. Used to decide that the
// operand fed to a slot of a run-time primitive is the operand the Go expression puts there.
//
// prov(e) is the set of field tokens reachable from e by following
//   - all definitions of local variables (flow-insensitive),
//   - call arguments and non-compiler receivers (a value derived from a call derives from its inputs),
//   - captured variables of function literals,
//   - parameters to the corresponding arguments of every static caller in the package (bounded depth).
// A selector n.F where n has a pointer-to-go/ast-struct type yields the token F; indexing it with a
// constant K yields F[K], with a variable i yields F[i].

import (
	"go/ast"
	"go/token"
	"go/types"
	"sort"
	"strings"

	"golang.org/x/tools/go/packages"
)

type provEngine struct {
	pk      *packages.Package
	info    *types.Info
	dis     map[*ast.FuncDecl]*defIndex
	callers map[types.Object][]provCall // function object -> call sites
	declOf  map[types.Object]*ast.FuncDecl
	// indexTokens: an index expression with constant index K over a value of empty provenance yields #K;
	// parameters are not followed to callers
	indexTokens bool
}

type provCall struct {
	fd   *ast.FuncDecl
	call *ast.CallExpr
}

func newProvEngine(pk *packages.Package) *provEngine {
	p := &provEngine{pk: pk, info: pk.TypesInfo, dis: map[*ast.FuncDecl]*defIndex{}, callers: map[types.Object][]provCall{}, declOf: map[types.Object]*ast.FuncDecl{}}
	for _, f := range pk.Syntax {
		for _, d := range f.Decls {
			fd, ok := d.(*ast.FuncDecl)
			if !ok || fd.Body == nil {
				continue
			}
			if o := p.info.Defs[fd.Name]; o != nil {
				p.declOf[o] = fd
			}
			inspectCalls(fd.Body, func(call *ast.CallExpr) {
				if fn := calleeOf(p.info, call); fn != nil && fn.Pkg() == pk.Types {
					p.callers[fn] = append(p.callers[fn], provCall{fd, call})
				}
			})
		}
	}
	return p
}

func (p *provEngine) di(fd *ast.FuncDecl) *defIndex {
	d := p.dis[fd]
	if d == nil {
		d = buildDefIndex(p.info, fd)
		p.dis[fd] = d
	}
	return d
}

func isAstNodePtr(t types.Type) bool {
	pt, ok := t.(*types.Pointer)
	if !ok {
		return false
	}
	n, ok := pt.Elem().(*types.Named)
	return ok && n.Obj().Pkg() != nil && n.Obj().Pkg().Path() == "go/ast"
}

func isCompPtr(t types.Type) bool {
	return t != nil && isPtr(t) && (isNamedType(t, "fast", "Comp") || isNamedType(t, "fast", "Interp"))
}

type provSeen struct {
	objs  map[types.Object]bool
	depth int
}

func (p *provEngine) Prov(fd *ast.FuncDecl, e ast.Expr) map[string]bool {
	out := map[string]bool{}
	p.prov(fd, e, out, &provSeen{objs: map[types.Object]bool{}})
	return out
}

func provString(m map[string]bool) string {
	var l []string
	for k := range m {
		l = append(l, k)
	}
	sort.Strings(l)
	return "{" + strings.Join(l, ",") + "}"
}

// provOf restricts a provenance set to the fields of one syntax node type.
func provOf(m map[string]bool, nodeType string) map[string]bool {
	out := map[string]bool{}
	for t := range m {
		if strings.HasPrefix(t, nodeType+".") {
			out[strings.TrimPrefix(t, nodeType+".")] = true
		}
	}
	return out
}

func provIs(m map[string]bool, toks ...string) bool {
	if len(m) != len(toks) {
		return false
	}
	for _, t := range toks {
		if !m[t] {
			return false
		}
	}
	return true
}

func (p *provEngine) prov(fd *ast.FuncDecl, e ast.Expr, out map[string]bool, seen *provSeen) {
	if e == nil {
		return
	}
	switch x := unparen(e).(type) {
	case *ast.Ident:
		o := p.info.Uses[x]
		if o == nil {
			o = p.info.Defs[x]
		}
		v, ok := o.(*types.Var)
		if !ok || seen.objs[o] {
			return
		}
		if isCompPtr(v.Type()) {
			return
		}
		seen.objs[o] = true
		di := p.di(fd)
		for _, d := range di.defs[o] {
			if d != nil {
				p.prov(fd, d, out, seen)
			}
		}
		// range variables: provenance of the ranged expression
		ast.Inspect(fd.Body, func(n ast.Node) bool {
			if rs, ok := n.(*ast.RangeStmt); ok {
				for _, l := range []ast.Expr{rs.Key, rs.Value} {
					if id := identOf(l); id != nil && (p.info.Defs[id] == o || p.info.Uses[id] == o) {
						p.prov(fd, rs.X, out, seen)
					}
				}
			}
			return true
		})
		// parameter: the corresponding argument of every static caller
		if idx := paramIdxOf(p.info, fd, o); idx >= 0 && seen.depth < 3 && !p.indexTokens {
			fo := p.info.Defs[fd.Name]
			for _, cs := range p.callers[fo] {
				if idx < len(cs.call.Args) {
					sub := &provSeen{objs: map[types.Object]bool{}, depth: seen.depth + 1}
					p.prov(cs.fd, cs.call.Args[idx], out, sub)
				}
			}
		}
	case *ast.SelectorExpr:
		if t := p.info.TypeOf(x.X); t != nil && isAstNodePtr(t) {
			out[t.(*types.Pointer).Elem().(*types.Named).Obj().Name()+"."+x.Sel.Name] = true
			return
		}
		if _, isPkg := p.info.Uses[identOf(x.X)].(*types.PkgName); isPkg {
			return
		}
		p.prov(fd, x.X, out, seen)
	case *ast.IndexExpr:
		sub := map[string]bool{}
		// element K of a local positional composite literal
		if k, isC := constInt(p.info, x.Index); isC {
			if id := identOf(x.X); id != nil {
				if o := p.info.Uses[id]; o != nil {
					if d := p.di(fd).single(o); d != nil {
						if cl, ok := unparen(d).(*ast.CompositeLit); ok && int(k) < len(cl.Elts) {
							if _, isKV := cl.Elts[k].(*ast.KeyValueExpr); !isKV {
								p.prov(fd, cl.Elts[k], out, seen)
								return
							}
						}
					}
				}
			}
		}
		p.prov(fd, x.X, sub, &provSeen{objs: map[types.Object]bool{}, depth: seen.depth})
		suffix := "[" + exprString(x.Index) + "]"
		if len(sub) == 0 && p.indexTokens {
			if _, isC := constInt(p.info, x.Index); isC {
				out["#"+exprString(x.Index)] = true
			}
			return
		}
		for t := range sub {
			if strings.Contains(t, "[") || strings.HasPrefix(t, "#") {
				out[t] = true
			} else {
				out[t+suffix] = true
			}
		}
	case *ast.SliceExpr:
		sub := map[string]bool{}
		p.prov(fd, x.X, sub, &provSeen{objs: map[types.Object]bool{}, depth: seen.depth})
		if len(sub) == 0 && p.indexTokens && x.Low != nil {
			if _, isC := constInt(p.info, x.Low); isC {
				out["#"+exprString(x.Low)+":"] = true
			}
			return
		}
		for t := range sub {
			out[t] = true
		}
	case *ast.CallExpr:
		if tv, ok := p.info.Types[x.Fun]; ok && tv.IsType() {
			for _, a := range x.Args {
				p.prov(fd, a, out, seen)
			}
			return
		}
		switch funcFullName(calleeOf(p.info, x)) {
		case "xreflect.Zero", "reflect.Zero":
			// the zero value of a type is a constant: it carries no operand of the source expression
			// (its type argument may well derive from an operand's type)
			return
		}
		switch f := unparen(x.Fun).(type) {
		case *ast.SelectorExpr:
			if _, isPkg := p.info.Uses[identOf(f.X)].(*types.PkgName); !isPkg {
				if t := p.info.TypeOf(f.X); !isCompPtr(t) {
					p.prov(fd, f.X, out, seen)
				}
			}
		case *ast.Ident:
			if _, isVar := p.info.Uses[f].(*types.Var); isVar {
				p.prov(fd, f, out, seen)
			}
		default:
			p.prov(fd, x.Fun, out, seen)
		}
		for _, a := range x.Args {
			p.prov(fd, a, out, seen)
		}
	case *ast.FuncLit:
		ast.Inspect(x.Body, func(n ast.Node) bool {
			if id, ok := n.(*ast.Ident); ok {
				if o, ok := p.info.Uses[id].(*types.Var); ok && !o.IsField() && (o.Pos() < x.Pos() || o.Pos() > x.End()) {
					p.prov(fd, id, out, seen)
				}
			}
			return true
		})
	case *ast.TypeAssertExpr:
		p.prov(fd, x.X, out, seen)
	case *ast.StarExpr:
		p.prov(fd, x.X, out, seen)
	case *ast.UnaryExpr:
		p.prov(fd, x.X, out, seen)
	case *ast.BinaryExpr:
		p.prov(fd, x.X, out, seen)
		p.prov(fd, x.Y, out, seen)
	case *ast.CompositeLit:
		for _, el := range x.Elts {
			if kv, ok := el.(*ast.KeyValueExpr); ok {
				el = kv.Value
			}
			p.prov(fd, el, out, seen)
		}
	case *ast.KeyValueExpr:
		p.prov(fd, x.Value, out, seen)
	}
}

func paramIdxOf(info *types.Info, fd *ast.FuncDecl, o types.Object) int {
	i := 0
	for _, f := range fd.Type.Params.List {
		if len(f.Names) == 0 {
			i++
			continue
		}
		for _, nm := range f.Names {
			if info.Defs[nm] == o {
				return i
			}
			i++
		}
	}
	return -1
}

var _ = token.NoPos
