package main

// Small structural rules added after the third batch of second-round seeds. Each states one shape fact.

import (
	"fmt"
	"go/ast"
	"go/constant"
	"go/token"
	"go/types"
	"sort"
	"strings"
)

// ruleFlagSetters (F1s): a setter of one bit touches that bit only. For every method `Set<X>(flag bool)` of a named
// unsigned-integer flag type whose body is `if flag { *r |= C } else { *r &^= C' }`: C and C' are the same constant
// and no other operator is applied to the receiver (`&= C` would clear every other flag).
func ruleFlagSetters(c *Ctx, rule string, short, typeName string, min int) {
	pk := c.P.Pkg(short)
	if pk == nil {
		c.Fatal("package %s not loaded", short)
		return
	}
	info := pk.TypesInfo
	n := 0
	for _, fd := range c.P.FuncsOf(short) {
		if fd.Body == nil || recvTypeName(fd) != typeName || !strings.HasPrefix(fd.Name.Name, "Set") || fd.Type.Params == nil || len(fd.Type.Params.List) != 1 {
			continue
		}
		if b, ok := info.TypeOf(fd.Type.Params.List[0].Type).(*types.Basic); !ok || b.Kind() != types.Bool {
			continue
		}
		n++
		var sets, clears []types.Object
		other := ""
		ast.Inspect(fd.Body, func(nd ast.Node) bool {
			as, ok := nd.(*ast.AssignStmt)
			if !ok || len(as.Rhs) != 1 {
				return true
			}
			switch as.Tok {
			case token.OR_ASSIGN:
				sets = append(sets, usedObj(info, as.Rhs[0]))
			case token.AND_NOT_ASSIGN:
				clears = append(clears, usedObj(info, as.Rhs[0]))
			case token.DEFINE:
			default:
				other = as.Tok.String()
			}
			return true
		})
		good := other == "" && len(sets) == 1 && len(clears) == 1 && sets[0] != nil && sets[0] == clears[0]
		c.Ob(rule, funcKey(pk, fd), fd, good, "the setter raises its flag with |= C and lowers it with &^= C for the same constant C, and applies no other operator to the flag word"+sep(map[bool]string{true: "", false: "found operator " + other}[other == ""]))
	}
	if n < min {
		c.Ob(rule, short+"."+typeName, nil, false, fmt.Sprintf("%d flag setters found, at least %d expected", n, min))
	}
}

// ruleParallelFields (P1p): two slices of one struct that are indexed in parallel are written together: every
// function that assigns one of the fields (outside composite literals) also assigns the other.
func ruleParallelFields(c *Ctx, rule, short, typeName, f1, f2 string) {
	w1 := fieldWriters(c, short, typeName, f1)
	w2 := fieldWriters(c, short, typeName, f2)
	keys := map[string]bool{}
	for k := range w1 {
		if !strings.Contains(k, "#") {
			keys[k] = true
		}
	}
	for k := range w2 {
		if !strings.Contains(k, "#") {
			keys[k] = true
		}
	}
	var ks []string
	for k := range keys {
		ks = append(ks, k)
	}
	sort.Strings(ks)
	for _, k := range ks {
		var at ast.Node
		if len(w1[k]) > 0 {
			at = w1[k][0]
		} else if len(w2[k]) > 0 {
			at = w2[k][0]
		}
		c.Ob(rule, k+"/"+f1+"+"+f2, at, len(w1[k]) > 0 && len(w2[k]) > 0, fmt.Sprintf("%s.%s and %s.%s are parallel: a function that assigns one assigns the other (%d / %d assignments)", typeName, f1, typeName, f2, len(w1[k]), len(w2[k])))
		// when both assignments are guarded, the guards are the same test on their own field
		if fd := c.P.Func(k); fd != nil && fd.Body != nil && len(w1[k]) == 1 && len(w2[k]) == 1 {
			guard := func(n ast.Node, field string) string {
				for _, st := range fd.Body.List {
					if ifs, ok := st.(*ast.IfStmt); ok && containsNode(ifs.Body, n) {
						return strings.ReplaceAll(exprString(ifs.Cond), field, "$F")
					}
				}
				return ""
			}
			g1, g2 := guard(w1[k][0], f1), guard(w2[k][0], f2)
			if g1 != "" || g2 != "" {
				c.Ob(rule, k+"/"+f1+"+"+f2+"/guards", w2[k][0], g1 == g2, fmt.Sprintf("the two parallel assignments are made under the same test on their own field (`%s` / `%s`)", g1, g2))
			}
		}
	}
	if len(ks) < 2 {
		c.Ob(rule, short+"."+typeName, nil, false, "fewer than 2 functions write the parallel fields: anchor missing")
	}
}

// ruleFlagEnumInjective (E14f): the constants of a flag type are pairwise distinct unless one is declared as an
// explicit alias of another (`AllErrors = SpuriousErrors`). An implicit repetition that lands on the value of another
// constant (a line moved inside an iota block) merges two options.
func ruleFlagEnumInjective(c *Ctx, rule, short, typeName string) {
	pk := c.P.Pkg(short)
	if pk == nil {
		c.Fatal("package %s not loaded", short)
		return
	}
	info := pk.TypesInfo
	type cst struct {
		name     string
		val      string
		explicit bool // declared with an expression that is a single identifier (alias) or a non-iota literal
		at       ast.Node
	}
	var cs []cst
	for _, f := range pk.Syntax {
		for _, d := range f.Decls {
			gd, ok := d.(*ast.GenDecl)
			if !ok || gd.Tok != token.CONST {
				continue
			}
			for _, sp := range gd.Specs {
				vs := sp.(*ast.ValueSpec)
				for i, nm := range vs.Names {
					o, ok := info.Defs[nm].(*types.Const)
					if !ok || !isNamedType(o.Type(), short, typeName) || nm.Name == "_" {
						continue
					}
					alias := false
					if i < len(vs.Values) {
						if id := identOf(vs.Values[i]); id != nil {
							if _, isC := info.Uses[id].(*types.Const); isC && id.Name != "iota" {
								alias = true
							}
						}
					}
					cs = append(cs, cst{nm.Name, o.Val().ExactString(), alias, nm})
				}
			}
		}
	}
	n := 0
	for i, a := range cs {
		if a.explicit {
			continue
		}
		n++
		dup := ""
		for j, b := range cs {
			if i != j && !b.explicit && a.val == b.val && a.val != "0" {
				dup = b.name
			}
		}
		c.Ob(rule, short+"."+typeName+"/"+a.name, a.at, dup == "", fmt.Sprintf("option %s has value %s, shared with no other option that is not its declared alias%s", a.name, a.val, sep(map[bool]string{true: "", false: "same value as " + dup}[dup == ""])))
	}
	if n < 3 {
		c.Ob(rule, short+"."+typeName, nil, false, fmt.Sprintf("%d constants of the flag type found: anchor missing", n))
	}
}

// ruleTombstoneScan (Y6): typeutil.Map keeps deleted entries as holes (key == nil) so that iterators are not
// disturbed; a hole never ends the scan of a bucket. Decided: in every loop of map.go over a bucket, no break or
// return is executed under a condition whose only test is `e.key == nil`.
func ruleTombstoneScan(c *Ctx, rule string) {
	pk := c.P.Pkg("go/typeutil")
	if pk == nil {
		c.Fatal("package go/typeutil not loaded")
		return
	}
	info := pk.TypesInfo
	n := 0
	for _, fd := range c.P.FuncsOf("go/typeutil") {
		if fd.Body == nil || recvTypeName(fd) != "Map" {
			continue
		}
		ast.Inspect(fd.Body, func(nd ast.Node) bool {
			rs, ok := nd.(*ast.RangeStmt)
			if !ok {
				return true
			}
			// loops whose element has a field key
			hasKey := false
			ast.Inspect(rs.Body, func(m ast.Node) bool {
				if e, ok := m.(ast.Expr); ok {
					if _, is := fieldSel(info, e, "key"); is {
						hasKey = true
					}
				}
				return true
			})
			if !hasKey {
				return true
			}
			n++
			bad := ""
			ast.Inspect(rs.Body, func(m ast.Node) bool {
				ifs, ok := m.(*ast.IfStmt)
				if !ok {
					return true
				}
				b, ok := unparen(ifs.Cond).(*ast.BinaryExpr)
				if !ok || b.Op != token.EQL {
					return true
				}
				if _, isK := fieldSel(info, b.X, "key"); !isK || identOf(b.Y) == nil || identOf(b.Y).Name != "nil" {
					return true
				}
				for _, st := range ifs.Body.List {
					switch x := st.(type) {
					case *ast.BranchStmt:
						if x.Tok == token.BREAK {
							bad = "break"
						}
					case *ast.ReturnStmt:
						bad = "return"
					}
				}
				return true
			})
			c.Ob(rule, fmt.Sprintf("%s/bucket-scan#%d", funcKey(pk, fd), n), rs, bad == "", "an unused entry (key == nil) is skipped, it does not end the scan of the bucket"+sep(bad))
			return true
		})
	}
	if n < 3 {
		c.Ob(rule, "go/typeutil.Map", nil, false, fmt.Sprintf("%d bucket scans found, at least 3 expected (Delete, At, Set)", n))
	}
}

// ruleTwoSidedNilGuard (Y7): a symmetric predicate treats its two operands alike. In the functions of
// predicates.go that take two parameters of the same pointer or interface type, a condition that tests one parameter
// against nil tests the other one too (`if v == nil || w == nil { return v == w }`): a one-sided guard makes
// p(x, nil) dereference nil while p(nil, x) answers.
func ruleTwoSidedNilGuard(c *Ctx, rule string) {
	pk := c.P.Pkg("go/typeutil")
	info := pk.TypesInfo
	n := 0
	for _, fd := range c.P.FuncsOf("go/typeutil") {
		if fd.Body == nil || baseName(c.P.Fset, fd) != "predicates.go" || fd.Type.Params == nil {
			continue
		}
		var ps []types.Object
		for _, f := range fd.Type.Params.List {
			for _, nm := range f.Names {
				ps = append(ps, info.Defs[nm])
			}
		}
		if len(ps) < 2 || ps[0] == nil || ps[1] == nil || !types.Identical(ps[0].Type(), ps[1].Type()) {
			continue
		}
		a, b := ps[0], ps[1]
		seq := 0
		ast.Inspect(fd.Body, func(nd ast.Node) bool {
			ifs, ok := nd.(*ast.IfStmt)
			if !ok {
				return true
			}
			ta, tb := false, false
			ast.Inspect(ifs.Cond, func(m ast.Node) bool {
				be, ok := m.(*ast.BinaryExpr)
				if !ok || (be.Op != token.EQL && be.Op != token.NEQ) || identOf(be.Y) == nil || identOf(be.Y).Name != "nil" {
					return true
				}
				switch usedObj(info, be.X) {
				case a:
					ta = true
				case b:
					tb = true
				}
				return true
			})
			if !ta && !tb {
				return true
			}
			n++
			seq++
			c.Ob(rule, fmt.Sprintf("%s/nil-guard#%d", funcKey(pk, fd), seq), ifs, ta && tb, "a nil test on one operand of the symmetric predicate is accompanied by the same test on the other ("+exprString(ifs.Cond)+")")
			return true
		})
	}
	if n == 0 {
		c.Ob(rule, "go/typeutil/predicates.go", nil, false, "no nil guard on the operands of a symmetric predicate found: anchor missing")
	}
}

// ruleReflectTypeEqualityNeedsIdentity (L6g): two interpreter types with the same reflect.Type need not be
// identical (named types declared by interpreted code share the reflect type of their underlying type). Wherever
// the generic machinery compares X.ReflectType() with Y.ReflectType() for equality, the same condition — or the
// statement's right-hand side — also asks IdenticalTo.
func ruleReflectTypeEqualityNeedsIdentity(c *Ctx, rule string, files []string) {
	pk := c.P.Pkg("fast")
	fileSet := map[string]bool{}
	for _, f := range files {
		fileSet[f] = true
	}
	n := 0
	isRT := func(e ast.Expr) bool {
		call, ok := unparen(e).(*ast.CallExpr)
		if !ok {
			return false
		}
		s, ok := unparen(call.Fun).(*ast.SelectorExpr)
		return ok && s.Sel.Name == "ReflectType" && len(call.Args) == 0
	}
	for _, fd := range c.P.FuncsOf("fast") {
		if fd.Body == nil || !fileSet[baseName(c.P.Fset, fd)] {
			continue
		}
		var stack []ast.Node
		ast.Inspect(fd.Body, func(nd ast.Node) bool {
			if nd == nil {
				stack = stack[:len(stack)-1]
				return true
			}
			stack = append(stack, nd)
			b, ok := nd.(*ast.BinaryExpr)
			if !ok || (b.Op != token.EQL && b.Op != token.NEQ) || !isRT(b.X) || !isRT(b.Y) {
				return true
			}
			n++
			// outermost expression containing the comparison
			var top ast.Node = b
			for i := len(stack) - 2; i >= 0; i-- {
				if _, isE := stack[i].(ast.Expr); isE {
					top = stack[i]
				} else {
					break
				}
			}
			ident := false
			ast.Inspect(top, func(m ast.Node) bool {
				if call, ok := m.(*ast.CallExpr); ok {
					if s, ok := unparen(call.Fun).(*ast.SelectorExpr); ok && s.Sel.Name == "IdenticalTo" {
						ident = true
					}
				}
				return true
			})
			c.Ob(rule, fmt.Sprintf("%s/reflect-type-equality#%d", funcKey(pk, fd), n), b, ident, "equality of two ReflectType() results decides nothing about interpreter types on its own: the same expression must also ask IdenticalTo")
			return true
		})
	}
	if n == 0 {
		c.ObTrivial(rule, "fast/generic", nil, true, "no comparison of two ReflectType() results in the generic machinery (type identity is asked with IdenticalTo)")
	}
}

// ruleReadKeepsPartialLine (R10): a Readline returns what it read together with the error: the last line of an
// input that does not end in a newline arrives with io.EOF and must not be dropped. Decided for the implementations
// of Readline.Read in package base that call a bufio reader: after the call no return statement yields a nil first
// result, and some return yields the bytes read.
func ruleReadKeepsPartialLine(c *Ctx, rule string) {
	pk := c.P.Pkg("base")
	info := pk.TypesInfo
	n := 0
	for _, fd := range c.P.FuncsOf("base") {
		if fd.Body == nil || fd.Name.Name != "Read" || fd.Recv == nil {
			continue
		}
		var readPos token.Pos
		var lineObj types.Object
		ast.Inspect(fd.Body, func(nd ast.Node) bool {
			as, ok := nd.(*ast.AssignStmt)
			if !ok || len(as.Rhs) != 1 || len(as.Lhs) != 2 {
				return true
			}
			call, ok := unparen(as.Rhs[0]).(*ast.CallExpr)
			if !ok {
				return true
			}
			if fn := calleeOf(info, call); fn != nil && fn.Pkg() != nil && fn.Pkg().Path() == "bufio" && (fn.Name() == "ReadBytes" || fn.Name() == "ReadString" || fn.Name() == "ReadLine") {
				readPos = as.Pos()
				if id := identOf(as.Lhs[0]); id != nil {
					lineObj = info.Defs[id]
					if lineObj == nil {
						lineObj = info.Uses[id]
					}
				}
			}
			return true
		})
		if readPos == token.NoPos {
			continue
		}
		n++
		dropsOnErr, returnsLine := false, false
		var stack []ast.Node
		ast.Inspect(fd.Body, func(nd ast.Node) bool {
			if nd == nil {
				stack = stack[:len(stack)-1]
				return true
			}
			stack = append(stack, nd)
			r, ok := nd.(*ast.ReturnStmt)
			if !ok || r.Pos() < readPos || len(r.Results) != 2 {
				return true
			}
			if id := identOf(r.Results[0]); id != nil && id.Name == "nil" {
				// under a test of the error?
				for _, a := range stack {
					if ifs, ok := a.(*ast.IfStmt); ok && containsNode(ifs.Body, r) {
						if b, ok := unparen(ifs.Cond).(*ast.BinaryExpr); ok && b.Op == token.NEQ && identOf(b.Y) != nil && identOf(b.Y).Name == "nil" {
							if t := info.TypeOf(b.X); t != nil && t.String() == "error" {
								dropsOnErr = true
							}
						}
					}
				}
			}
			if o := usedObj(info, r.Results[0]); o != nil && lineObj != nil && (o == lineObj) {
				returnsLine = true
			}
			return true
		})
		c.Ob(rule, funcKey(pk, fd), fd, !dropsOnErr && returnsLine, "the bytes read are returned together with the error (a last line without newline arrives with io.EOF)")
	}
	if n == 0 {
		c.Ob(rule, "base/Readline.Read", nil, false, "no Readline implementation over a bufio reader found: anchor missing")
	}
}

// ruleCompletionShape (Q7): two shape facts of Interp.CompleteWords / Comp.CompleteWords.
//
//	(a) the part of the line kept in front of the completions is cut from one string: in `len(A) - len(TailIdentifier(B))`
//	    A and B are the same variable;
//	(b) the first word of a dotted chain is resolved by the functions that walk the enclosing scopes (TryResolve,
//	    TryResolveType ...), never by indexing the Binds / Types map of the current scope alone.
func ruleCompletionShape(c *Ctx, rule string) {
	pk := c.P.Pkg("fast")
	info := pk.TypesInfo
	na, nb := 0, 0
	for _, fk := range []string{"fast.Interp.CompleteWords", "fast.Comp.CompleteWords"} {
		fd := c.P.Func(fk)
		if fd == nil || fd.Body == nil {
			c.Ob(rule, fk, nil, false, "anchor function not found")
			continue
		}
		ast.Inspect(fd.Body, func(nd ast.Node) bool {
			switch x := nd.(type) {
			case *ast.BinaryExpr:
				if x.Op != token.SUB {
					return true
				}
				lenArg := func(e ast.Expr) ast.Expr {
					call, ok := unparen(e).(*ast.CallExpr)
					if !ok || identOf(call.Fun) == nil || identOf(call.Fun).Name != "len" || len(call.Args) != 1 {
						return nil
					}
					return call.Args[0]
				}
				a, b := lenArg(x.X), lenArg(x.Y)
				if a == nil || b == nil {
					return true
				}
				inner, ok := unparen(b).(*ast.CallExpr)
				if !ok || len(inner.Args) != 1 {
					return true
				}
				if fn := calleeOf(info, inner); fn == nil || !strings.Contains(fn.Name(), "Identifier") {
					return true
				}
				na++
				c.Ob(rule, fmt.Sprintf("%s/cut#%d", fk, na), x, usedObj(info, a) != nil && usedObj(info, a) == usedObj(info, inner.Args[0]), "the partial identifier is trimmed from the string whose length it is subtracted from ("+exprString(x)+")")
			case *ast.IndexExpr:
				for _, f := range []string{"Types", "Binds"} {
					if _, is := fieldSel(info, x.X, f); is {
						if ix, ok := unparen(x.Index).(*ast.IndexExpr); ok {
							if v, isC := constInt(info, ix.Index); isC && v == 0 {
								nb++
								c.Ob(rule, fmt.Sprintf("%s/first-word#%d", fk, nb), x, false, "the first word of the chain is looked up in the "+f+" of the current scope only: names of enclosing scopes are not found (use the scope walk)")
							}
						}
					}
				}
			}
			return true
		})
	}
	if na == 0 {
		c.Ob(rule, "fast.Interp.CompleteWords/cut", nil, false, "no `len(x) - len(TailIdentifier(x))` found: anchor missing")
	}
	if nb == 0 {
		c.ObTrivial(rule, "fast.Comp.CompleteWords/first-word", nil, true, "the first word of a chain is never resolved by indexing one scope's map")
	}
}

// ruleMakerScope (M6): a generic function or type is instantiated in the scope that declared it, whatever scope the
// instantiation is requested from (its body's free identifiers must resolve where the declaration stands, and the
// instance is memoised for everybody). Decided: in every composite literal of genericMaker inside a method of Comp,
// the `comp` field is not the method's own receiver.
func ruleMakerScope(c *Ctx, rule string) {
	pk := c.P.Pkg("fast")
	info := pk.TypesInfo
	n := 0
	for _, fd := range c.P.FuncsOf("fast") {
		if fd.Body == nil || fd.Recv == nil || len(fd.Recv.List) != 1 || len(fd.Recv.List[0].Names) != 1 {
			continue
		}
		recv := info.Defs[fd.Recv.List[0].Names[0]]
		ast.Inspect(fd.Body, func(nd ast.Node) bool {
			cl, ok := nd.(*ast.CompositeLit)
			if !ok || !isNamedType(typeOrInvalid(info, cl), "fast", "genericMaker") {
				return true
			}
			// index of the field comp for positional literals
			compIdx := -1
			if st, ok := typeOrInvalid(info, cl).Underlying().(*types.Struct); ok {
				for i := 0; i < st.NumFields(); i++ {
					if st.Field(i).Name() == "comp" {
						compIdx = i
					}
				}
			} else if pt, ok := typeOrInvalid(info, cl).(*types.Pointer); ok {
				if st, ok := pt.Elem().Underlying().(*types.Struct); ok {
					for i := 0; i < st.NumFields(); i++ {
						if st.Field(i).Name() == "comp" {
							compIdx = i
						}
					}
				}
			}
			for i, el := range cl.Elts {
				var val ast.Expr
				if kv, ok := el.(*ast.KeyValueExpr); ok {
					if identOf(kv.Key) == nil || identOf(kv.Key).Name != "comp" {
						continue
					}
					val = kv.Value
				} else if i == compIdx {
					val = el
				} else {
					continue
				}
				n++
				c.Ob(rule, fmt.Sprintf("%s/maker#%d", funcKey(pk, fd), n), el, usedObj(info, val) != recv, "the instantiation scope handed to the maker is the scope of the generic's declaration (found "+exprString(val)+"), not the scope of the call")
			}
			return true
		})
	}
	if n < 2 {
		c.Ob(rule, "fast/genericMaker", nil, false, fmt.Sprintf("%d genericMaker literals with a comp field found, at least 2 expected", n))
	}
}

// rulePlusMinusContinuation (R11): a '+' or '-' that is not part of ++ / -- is a binary or unary operator: the
// statement continues on the next line. Decided: in the look-ahead arm of the reader for mPlus / mMinus, the
// assignment ignorenl = true is a statement of the arm itself, not nested under a condition.
func rulePlusMinusContinuation(c *Ctx, rule string) {
	pk := c.P.Pkg("base")
	info := pk.TypesInfo
	fd := c.P.Func("base.ReadMultiline")
	if fd == nil || fd.Body == nil {
		c.Ob(rule, "base.ReadMultiline", nil, false, "anchor function not found")
		return
	}
	n := 0
	ast.Inspect(fd.Body, func(nd ast.Node) bool {
		cl, ok := nd.(*ast.CaseClause)
		if !ok {
			return true
		}
		isPM := false
		for _, e := range cl.List {
			if o := usedObj(info, e); o != nil && (o.Name() == "mPlus" || o.Name() == "mMinus") {
				isPM = true
			}
		}
		if !isPM {
			return true
		}
		n++
		top := false
		for _, st := range cl.Body {
			if as, ok := st.(*ast.AssignStmt); ok && len(as.Lhs) == 1 && identOf(as.Lhs[0]) != nil && identOf(as.Lhs[0]).Name == "ignorenl" && exprString(as.Rhs[0]) == "true" {
				top = true
			}
		}
		c.Ob(rule, "base.ReadMultiline/mPlus,mMinus", cl, top, "after a '+' or '-' that is not doubled, the newline is ignored unconditionally (the operator continues the statement whatever character follows)")
		return true
	})
	if n == 0 {
		c.Ob(rule, "base.ReadMultiline/mPlus,mMinus", fd, false, "arm for mPlus / mMinus not found: anchor missing")
	}
}

// ruleSiblingVerbs (N5): the three places of Interp.afterEval / the REPL that print a recovered panic value format
// it with the same verb, with or without the stack trace option (an option that only adds output must not change how
// the value itself is printed).
func ruleSiblingVerbs(c *Ctx, rule string) {
	pk := c.P.Pkg("fast")
	info := pk.TypesInfo
	fd := c.P.Func("fast.Interp.afterEval")
	if fd == nil || fd.Body == nil {
		c.Ob(rule, "fast.Interp.afterEval", nil, false, "anchor function not found")
		return
	}
	// the recovered value: a local assigned from recover()
	var rec types.Object
	ast.Inspect(fd.Body, func(nd ast.Node) bool {
		as, ok := nd.(*ast.AssignStmt)
		if !ok || len(as.Rhs) != 1 || len(as.Lhs) != 1 {
			return true
		}
		if call, ok := unparen(as.Rhs[0]).(*ast.CallExpr); ok && identOf(call.Fun) != nil && identOf(call.Fun).Name == "recover" {
			if id := identOf(as.Lhs[0]); id != nil {
				rec = info.Defs[id]
				if rec == nil {
					rec = info.Uses[id]
				}
			}
		}
		return true
	})
	verbs := map[string]int{}
	var sites []ast.Node
	inspectCalls(fd.Body, func(call *ast.CallExpr) {
		fn := calleeOf(info, call)
		if fn == nil || !strings.HasSuffix(fn.Name(), "printf") && fn.Name() != "Fprintf" && fn.Name() != "Printf" {
			return
		}
		// format string argument: the first constant string argument
		fi := -1
		for i, a := range call.Args {
			if tv, ok := info.Types[a]; ok && tv.Value != nil && tv.Value.Kind() == constant.String {
				fi = i
				break
			}
		}
		if fi < 0 {
			return
		}
		format := constant.StringVal(info.Types[call.Args[fi]].Value)
		var vs []string
		for i := 0; i+1 < len(format); i++ {
			if format[i] == '%' {
				if format[i+1] == '%' {
					i++
					continue
				}
				j := i + 1
				for j < len(format) && strings.ContainsRune("+-# 0123456789.", rune(format[j])) {
					j++
				}
				if j < len(format) {
					vs = append(vs, format[i:j+1])
				}
				i = j
			}
		}
		for k, a := range call.Args[fi+1:] {
			if rec != nil && usedObj(info, a) == rec && k < len(vs) {
				verbs[vs[k]]++
				sites = append(sites, call)
			}
		}
	})
	var vl []string
	for v := range verbs {
		vl = append(vl, v)
	}
	sort.Strings(vl)
	var at ast.Node = fd
	if len(sites) > 0 {
		at = sites[0]
	}
	c.Ob(rule, "fast.Interp.afterEval/panic-verbs", at, len(sites) >= 2 && len(vl) == 1, fmt.Sprintf("every report of the recovered panic value uses the same format verb (%d reports, verbs %v)", len(sites), vl))
}

// ruleQuoteOpPos (L4q): the position recorded for a quote / unquote operator is the position the parser saw it at:
// in MakeQuote the OpPos of the UnaryExpr it builds is the function's position parameter, and that parameter is never
// assigned in the function.
func ruleQuoteOpPos(c *Ctx, rule string) {
	pk := c.P.Pkg("go/parser")
	if pk == nil {
		c.Fatal("package go/parser not loaded")
		return
	}
	info := pk.TypesInfo
	fd := c.P.Func("go/parser.MakeQuote")
	if fd == nil || fd.Body == nil {
		c.Ob(rule, "go/parser.MakeQuote", nil, false, "anchor function not found")
		return
	}
	var posParams []types.Object
	for _, f := range fd.Type.Params.List {
		for _, nm := range f.Names {
			if o := info.Defs[nm]; o != nil && isNamedType(o.Type(), "", "Pos") || o != nil && strings.HasSuffix(o.Type().String(), "token.Pos") {
				posParams = append(posParams, o)
			}
		}
	}
	isParam := func(o types.Object) bool {
		for _, p := range posParams {
			if p == o {
				return true
			}
		}
		return false
	}
	assigned := false
	ast.Inspect(fd.Body, func(nd ast.Node) bool {
		if as, ok := nd.(*ast.AssignStmt); ok && as.Tok != token.DEFINE {
			for _, l := range as.Lhs {
				if isParam(usedObj(info, l)) {
					assigned = true
				}
			}
		}
		return true
	})
	n, good := 0, true
	ast.Inspect(fd.Body, func(nd ast.Node) bool {
		kv, ok := nd.(*ast.KeyValueExpr)
		if !ok || identOf(kv.Key) == nil || identOf(kv.Key).Name != "OpPos" {
			return true
		}
		n++
		if !isParam(usedObj(info, kv.Value)) {
			good = false
		}
		return true
	})
	c.Ob(rule, "go/parser.MakeQuote/OpPos", fd, n > 0 && good && !assigned, fmt.Sprintf("the operator position of the quote expression is the position parameter of MakeQuote, which is never assigned (%d OpPos fields)", n))
}

// ruleDepMapPerName (D14): the dependency set of a name is built once per name: in DeclMap.depMap the store
// `ret[name] = set` is a statement of the loop over names, not of the loop over the declarations of one name
// (several declarations may share a name — `_` — and their dependencies accumulate).
func ruleDepMapPerName(c *Ctx, rule string) {
	pk := c.P.Pkg("base/dep")
	info := pk.TypesInfo
	fd := c.P.Func("base/dep.DeclMap.depMap")
	if fd == nil || fd.Body == nil {
		c.Ob(rule, "base/dep.DeclMap.depMap", nil, false, "anchor function not found")
		return
	}
	var ret types.Object
	if fd.Type.Results != nil && len(fd.Type.Results.List) == 1 && len(fd.Type.Results.List[0].Names) == 1 {
		ret = info.Defs[fd.Type.Results.List[0].Names[0]]
	}
	depth := -1
	var loops int
	var walk func(n ast.Node, d int)
	walk = func(n ast.Node, d int) {
		ast.Inspect(n, func(m ast.Node) bool {
			switch x := m.(type) {
			case *ast.RangeStmt:
				if m != n {
					loops++
					walk(x.Body, d+1)
					return false
				}
			case *ast.AssignStmt:
				for _, l := range x.Lhs {
					if ix, ok := unparen(l).(*ast.IndexExpr); ok {
						o := usedObj(info, ix.X)
						if o != nil && (o == ret || ret == nil && o.Name() == "ret") {
							depth = d
						}
					}
				}
			}
			return true
		})
	}
	walk(fd.Body, 0)
	c.Ob(rule, "base/dep.DeclMap.depMap", fd, depth == 1 && loops >= 2, fmt.Sprintf("the set of a name is stored at the level of the loop over names (nesting depth %d), so that the dependencies of all declarations sharing the name accumulate in it", depth))
}

// ruleExactOptionRestore (X8b): options suspended for one forced evaluation are restored exactly: what is or-ed back
// into Options afterwards is the set of bits that was set before (a variable defined as `Options & mask`), never the
// constant mask itself, which would switch on options the user never asked for.
func ruleExactOptionRestore(c *Ctx, rule string) {
	n := 0
	for _, short := range []string{"fast", "classic"} {
		pk := c.P.Pkg(short)
		if pk == nil {
			continue
		}
		info := pk.TypesInfo
		isSavedBits := func(fd *ast.FuncDecl, e ast.Expr) (bool, string) {
			if tv, ok := info.Types[e]; ok && tv.Value != nil {
				return false, "a constant mask"
			}
			id := identOf(e)
			if id == nil {
				return false, exprString(e)
			}
			o := info.Uses[id]
			di := buildDefIndex(info, fd)
			for _, d := range di.defs[o] {
				if d == nil {
					continue
				}
				// direct: set := g.Options & mask
				if b, ok := unparen(d).(*ast.BinaryExpr); ok && b.Op == token.AND {
					if _, is := fieldSel(info, b.X, "Options"); is {
						return true, ""
					}
					if _, is := fieldSel(info, b.Y, "Options"); is {
						return true, ""
					}
				}
				// through the helper: v := cmdOptForceEval(...), judged where the helper returns
				if call, ok := unparen(d).(*ast.CallExpr); ok {
					if fn := calleeOf(info, call); fn != nil && fn.Name() == "cmdOptForceEval" {
						return true, ""
					}
				}
			}
			return false, "the variable " + id.Name + " is not defined as Options & mask"
		}
		for _, fd := range c.P.FuncsOf(short) {
			if fd.Body == nil {
				continue
			}
			fkey := funcKey(pk, fd)
			// (a) Options |= X inside a deferred function literal
			ast.Inspect(fd.Body, func(nd ast.Node) bool {
				ds, ok := nd.(*ast.DeferStmt)
				if !ok {
					return true
				}
				lit, ok := ds.Call.Fun.(*ast.FuncLit)
				if !ok {
					return true
				}
				ast.Inspect(lit.Body, func(m ast.Node) bool {
					as, ok := m.(*ast.AssignStmt)
					if !ok || as.Tok != token.OR_ASSIGN || len(as.Lhs) != 1 {
						return true
					}
					if _, is := fieldSel(info, as.Lhs[0], "Options"); !is {
						return true
					}
					n++
					good, why := isSavedBits(fd, as.Rhs[0])
					c.Ob(rule, fmt.Sprintf("%s/restore#%d", fkey, n), as, good, "the options or-ed back after the forced evaluation are the bits that were set before it"+sep(why))
					return true
				})
				return true
			})
			// (b) the helper returns the saved bits
			if fd.Name.Name == "cmdOptForceEval" {
				ast.Inspect(fd.Body, func(nd ast.Node) bool {
					r, ok := nd.(*ast.ReturnStmt)
					if !ok || len(r.Results) != 1 {
						return true
					}
					if v, isC := constInt(info, r.Results[0]); isC && v == 0 {
						return true
					}
					n++
					good, why := isSavedBits(fd, r.Results[0])
					c.Ob(rule, fmt.Sprintf("%s/return#%d", fkey, n), r, good, "the helper reports the bits that were set and that it cleared"+sep(why))
					return true
				})
			}
		}
	}
	if n < 2 {
		c.Ob(rule, "fast,classic/forced-evaluation", nil, false, fmt.Sprintf("%d restore sites found, at least 2 expected", n))
	}
}

// ruleCommandCharRemoval (L5c): an unknown ':'-prefixed input is evaluated as code with the command character
// removed. The character is found in the trimmed input; it must be removed from where it is: in the branch of
// Interp.Cmd guarded by `X[0] == ReplCmdChar`, every slice expression `Y[1:]` slices that same X.
func ruleCommandCharRemoval(c *Ctx, rule string) {
	n := 0
	for _, fk := range []string{"fast.Interp.Cmd", "classic.Interp.Cmd"} {
		pk := c.P.PkgOfFunc(fk)
		fd := c.P.Func(fk)
		if fd == nil || pk == nil || fd.Body == nil {
			c.Ob(rule, fk, nil, false, "anchor function not found")
			continue
		}
		info := pk.TypesInfo
		ast.Inspect(fd.Body, func(nd ast.Node) bool {
			ifs, ok := nd.(*ast.IfStmt)
			if !ok {
				return true
			}
			var tested types.Object
			for _, a := range andAtoms(ifs.Cond) {
				b, ok := unparen(a).(*ast.BinaryExpr)
				if !ok || b.Op != token.EQL {
					continue
				}
				if _, is := fieldSel(info, b.Y, "ReplCmdChar"); !is {
					continue
				}
				if ix, ok := unparen(b.X).(*ast.IndexExpr); ok {
					if v, isC := constInt(info, ix.Index); isC && v == 0 {
						tested = usedObj(info, ix.X)
					}
				}
			}
			if tested == nil {
				return true
			}
			ast.Inspect(ifs.Body, func(m ast.Node) bool {
				se, ok := m.(*ast.SliceExpr)
				if !ok || se.Low == nil || se.High != nil {
					return true
				}
				if v, isC := constInt(info, se.Low); !isC || v != 1 {
					return true
				}
				n++
				c.Ob(rule, fmt.Sprintf("%s/skip-char#%d", fk, n), se, usedObj(info, se.X) == tested, "the string whose first character is dropped is the string whose first character was tested against the command character ("+exprString(se)+" vs "+tested.Name()+"[0])")
				return true
			})
			return false
		})
	}
	if n < 2 {
		c.Ob(rule, "fast,classic/Interp.Cmd", nil, false, fmt.Sprintf("%d removals of the command character found, at least 2 expected", n))
	}
}

// ruleNoDuplicateOperands (Z1): `a || a` and `a && a` test one thing twice where two things were meant (Engler et al.:
// redundancy as a sign of error). In the comparison compilers the instance is `!xe.Type.Comparable() ||
// !xe.Type.Comparable()`: the right operand's comparability is never tested. Decided over the listed packages: no
// || or && has two textually identical operands.
func ruleNoDuplicateOperands(c *Ctx, rule string, shorts ...string) {
	total := 0
	for _, short := range shorts {
		pk := c.P.Pkg(short)
		if pk == nil {
			continue
		}
		for _, fd := range c.P.FuncsOf(short) {
			if fd.Body == nil {
				continue
			}
			n := 0
			ast.Inspect(fd.Body, func(nd ast.Node) bool {
				b, ok := nd.(*ast.BinaryExpr)
				if !ok || (b.Op != token.LOR && b.Op != token.LAND) {
					return true
				}
				total++
				if exprString(b.X) == exprString(b.Y) {
					n++
					c.Ob(rule, fmt.Sprintf("%s/dup#%d", funcKey(pk, fd), n), b, false, "both operands of "+b.Op.String()+" are `"+exprString(b.X)+"`: one of the two things meant is never tested")
				}
				return true
			})
		}
	}
	c.Ob(rule, strings.Join(shorts, ",")+"/all", nil, total > 100, fmt.Sprintf("%d && / || expressions examined: none has two identical operands (or each is reported separately)", total))
}
