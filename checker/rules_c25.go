package main

// C25: the forked printer covers every node the forked parser and the macro machinery can build.

import (
	"fmt"
	"go/ast"
	"go/types"
	"sort"
	"strings"
)

// typeSwitchCases returns the case types (as strings "*ast.X") of the outermost type switch in fd, and whether its
// default clause panics.
func typeSwitchCases(info *types.Info, fd *ast.FuncDecl) (map[string]bool, bool) {
	cases := map[string]bool{}
	defaultPanics := false
	var ts *ast.TypeSwitchStmt
	ast.Inspect(fd.Body, func(nd ast.Node) bool {
		if t, ok := nd.(*ast.TypeSwitchStmt); ok && ts == nil {
			ts = t
			return false
		}
		return true
	})
	if ts == nil {
		return cases, false
	}
	for _, cc := range ts.Body.List {
		cl := cc.(*ast.CaseClause)
		if cl.List == nil {
			inspectCalls(cl, func(call *ast.CallExpr) {
				if id := identOf(call.Fun); id != nil && id.Name == "panic" {
					defaultPanics = true
				}
			})
			continue
		}
		// a case whose body panics unconditionally does not count
		panics := false
		if len(cl.Body) >= 1 {
			if es, ok := cl.Body[0].(*ast.ExprStmt); ok {
				if call, ok := es.X.(*ast.CallExpr); ok {
					if id := identOf(call.Fun); id != nil && id.Name == "panic" {
						panics = true
					}
				}
			}
		}
		for _, e := range cl.List {
			if t := info.TypeOf(e); t != nil && !panics {
				cases[types.TypeString(t, func(p *types.Package) string { return p.Name() })] = true
			}
		}
	}
	return cases, defaultPanics
}

func rulePrinterCoverage(c *Ctx, rule string) {
	ppk := c.P.Pkg("go/printer")
	if ppk == nil {
		c.Ob(rule, "go/printer", nil, false, "package not loaded")
		return
	}
	astPk := ppk.Imports["go/ast"]
	if astPk == nil {
		c.Ob(rule, "go/ast", nil, false, "go/ast not imported by the printer")
		return
	}
	iface := func(name string) *types.Interface {
		if tn, ok := astPk.Types.Scope().Lookup(name).(*types.TypeName); ok {
			it, _ := tn.Type().Underlying().(*types.Interface)
			return it
		}
		return nil
	}
	cats := []struct{ iface, fn string }{{"Expr", "go/printer.printer.expr1"}, {"Stmt", "go/printer.printer.stmt"}, {"Spec", "go/printer.printer.spec"}, {"Decl", "go/printer.printer.decl"}}
	// node types allocated by the forked parser and the macro / quote machinery
	allocated := map[string][]string{} // "*ast.X" -> allocation sites (package short names)
	for _, short := range []string{"go/parser", "ast2", "base", "fast", "classic", "go/types"} {
		pk := c.P.Pkg(short)
		if pk == nil || short == "go/types" {
			continue
		}
		info := pk.TypesInfo
		for _, f := range pk.Syntax {
			ast.Inspect(f, func(nd ast.Node) bool {
				cl, ok := nd.(*ast.CompositeLit)
				if !ok {
					return true
				}
				t := info.TypeOf(cl)
				n, ok := t.(*types.Named)
				if !ok || n.Obj().Pkg() != astPk.Types {
					return true
				}
				if _, isStruct := n.Underlying().(*types.Struct); !isStruct {
					return true
				}
				key := "*ast." + n.Obj().Name()
				allocated[key] = append(allocated[key], short)
				return true
			})
		}
	}
	if len(allocated) < 40 {
		c.Ob(rule, "allocated-node-types", nil, false, fmt.Sprintf("%d go/ast node types allocated by the parser and macro machinery, at least 40 expected", len(allocated)))
	}
	var names []string
	for k := range allocated {
		names = append(names, k)
	}
	sort.Strings(names)
	for _, cat := range cats {
		it := iface(cat.iface)
		fd := c.P.Func(cat.fn)
		if it == nil || fd == nil {
			c.Ob(rule, cat.fn, nil, false, "printer function or go/ast interface not found")
			continue
		}
		cases, defPanics := typeSwitchCases(ppk.TypesInfo, fd)
		c.ObTrivial(rule, cat.fn+"/default", fd, true, fmt.Sprintf("default clause panics: %v", defPanics))
		n := 0
		for _, name := range names {
			tn, _ := astPk.Types.Scope().Lookup(strings.TrimPrefix(name, "*ast.")).(*types.TypeName)
			if tn == nil || !types.Implements(types.NewPointer(tn.Type()), it) {
				continue
			}
			n++
			c.Ob(rule, cat.fn+"/"+name, fd, cases[name], fmt.Sprintf("%s (an ast.%s, allocated in %s) has a printing case", name, cat.iface, strings.Join(uniqStrings(allocated[name]), ", ")))
		}
		if n == 0 {
			c.Ob(rule, cat.fn+"/types", fd, false, "no allocated node type of this category found")
		}
	}
}

// ruleQuoteTokenAgreement: the tokens the parser turns into `op func() { body }` unary expressions are the tokens the
// printer prints back as `op { body }`; tokens are printed through etoken.String, whose table names every token the
// scanner can produce.
func ruleQuoteTokenAgreement(c *Ctx, rule string) {
	ppk := c.P.Pkg("go/parser")
	prk := c.P.Pkg("go/printer")
	epk := c.P.Pkg("go/etoken")
	if ppk == nil || prk == nil || epk == nil {
		c.Ob(rule, "packages", nil, false, "go/parser, go/printer or go/etoken not loaded")
		return
	}
	ext := func(info *types.Info, e ast.Expr) string {
		if o := usedObj(info, e); o != nil && o.Pkg() != nil && strings.HasSuffix(o.Pkg().Path(), "/etoken") {
			return o.Name()
		}
		return ""
	}
	// parser: case clauses whose body calls parseQuote
	parsed := map[string]bool{}
	for _, fd := range c.P.FuncsOf("go/parser") {
		if fd.Body == nil {
			continue
		}
		ast.Inspect(fd.Body, func(nd ast.Node) bool {
			cl, ok := nd.(*ast.CaseClause)
			if !ok || cl.List == nil {
				return true
			}
			calls := false
			for _, st := range cl.Body {
				inspectCalls(st, func(call *ast.CallExpr) {
					if fn := calleeOf(ppk.TypesInfo, call); fn != nil && fn.Name() == "parseQuote" {
						calls = true
					}
				})
			}
			if calls {
				for _, e := range cl.List {
					if n := ext(ppk.TypesInfo, e); n != "" {
						parsed[n] = true
					}
				}
			}
			return true
		})
	}
	// printer: in expr1, the clause listing extension tokens whose body prints the block of a FuncLit operand
	printed := map[string]bool{}
	if e1 := c.P.Func("go/printer.printer.expr1"); e1 != nil {
		ast.Inspect(e1.Body, func(nd ast.Node) bool {
			cl, ok := nd.(*ast.CaseClause)
			if !ok || cl.List == nil {
				return true
			}
			blk := false
			for _, st := range cl.Body {
				inspectCalls(st, func(call *ast.CallExpr) {
					if fn := calleeOf(prk.TypesInfo, call); fn != nil && fn.Name() == "block" {
						blk = true
					}
				})
			}
			if blk {
				for _, e := range cl.List {
					if n := ext(prk.TypesInfo, e); n != "" {
						printed[n] = true
					}
				}
			}
			return true
		})
	}
	keys := func(m map[string]bool) string {
		var l []string
		for k := range m {
			l = append(l, k)
		}
		sort.Strings(l)
		return strings.Join(l, " ")
	}
	c.Ob(rule, "quote-tokens parser~printer", nil, len(parsed) >= 4 && keys(parsed) == keys(printed), fmt.Sprintf("the parser builds the closure form for {%s}; the printer prints `op { body }` for {%s}", keys(parsed), keys(printed)))
	// tokens are printed through etoken.String
	okStr := false
	if pf := c.P.Func("go/printer.printer.print"); pf != nil {
		ast.Inspect(pf.Body, func(nd ast.Node) bool {
			cl, ok := nd.(*ast.CaseClause)
			if !ok || len(cl.List) != 1 {
				return true
			}
			if t := prk.TypesInfo.TypeOf(cl.List[0]); t == nil || !isTokenType(t) {
				return true
			}
			for _, st := range cl.Body {
				inspectCalls(st, func(call *ast.CallExpr) {
					if fn := calleeOf(prk.TypesInfo, call); fn != nil && funcFullName(fn) == "go/etoken.String" {
						okStr = true
					}
				})
			}
			return true
		})
	}
	c.Ob(rule, "go/printer.printer.print/token-text", nil, okStr, "a token is printed with etoken.String, which knows the extension tokens")
	// etoken.tokens names every token the scanner produces (constants before the first E_ one), and the keyword table is
	// built from it by dropping the leading character
	einfo := epk.TypesInfo
	var scannerToks []string
	for _, f := range epk.Syntax {
		for _, d := range f.Decls {
			gd, ok := d.(*ast.GenDecl)
			if !ok {
				continue
			}
			for _, sp := range gd.Specs {
				vs, ok := sp.(*ast.ValueSpec)
				if !ok {
					continue
				}
				for _, nm := range vs.Names {
					if cst, ok := einfo.Defs[nm].(*types.Const); ok && isTokenType(cst.Type()) && !strings.HasPrefix(nm.Name, "E_") {
						scannerToks = append(scannerToks, nm.Name)
					}
				}
			}
		}
	}
	named := map[string]bool{}
	inv := false
	for _, fd := range c.P.FuncsOf("go/etoken") {
		if fd.Name.Name != "init" || fd.Body == nil {
			continue
		}
		ast.Inspect(fd.Body, func(nd ast.Node) bool {
			switch x := nd.(type) {
			case *ast.CompositeLit:
				for _, el := range x.Elts {
					if kv, ok := el.(*ast.KeyValueExpr); ok {
						if n := ext(einfo, kv.Key); n != "" {
							named[n] = true
						}
					}
				}
			case *ast.AssignStmt:
				// tokens[X] = "..."
				if len(x.Lhs) == 1 {
					if ix, ok := unparen(x.Lhs[0]).(*ast.IndexExpr); ok && exprString(ix.X) == "tokens" {
						if n := ext(einfo, ix.Index); n != "" {
							named[n] = true
						}
					}
					// keywords[v[1:]] = k inside `for k, v := range tokens`
					if ix, ok := unparen(x.Lhs[0]).(*ast.IndexExpr); ok && exprString(ix.X) == "keywords" {
						if sl, ok := unparen(ix.Index).(*ast.SliceExpr); ok && sl.High == nil && exprString(sl.Low) == "1" {
							inv = true
						}
					}
				}
			}
			return true
		})
	}
	var missing []string
	for _, t := range scannerToks {
		if !named[t] {
			missing = append(missing, t)
		}
	}
	c.Ob(rule, "go/etoken.tokens/complete", nil, len(scannerToks) >= 8 && len(missing) == 0, fmt.Sprintf("every extension token the scanner can produce has a printed form (missing %v)", missing))
	c.Ob(rule, "go/etoken.keywords/inverse", nil, inv, "the keyword table read by the scanner is the printed form without its first character: printing then scanning an extension keyword gives the same token")
}

func init() {
	register(&PropDef{
		ID:    "C25",
		Title: "Printing a syntax tree and reparsing it yields the same tree",
		Explanation: "Decided (exhaustiveness and table agreement only): P1 every go/ast node type allocated (composite literal) by the forked parser, the ast2 wrappers, base, fast or classic that is an ast.Expr / ast.Stmt / ast.Spec / ast.Decl has a non-panicking case in the forked printer's expr1 / stmt / spec / decl type switch (so macro output and collected declarations can always be printed); " +
			"P2 the set of tokens for which the parser builds the quote form `op func() { body }` equals the set the printer prints back as `op { body }`; tokens are printed through etoken.String; every extension token the scanner can produce has an entry in etoken's name table, and the scanner's keyword table is derived from that table by dropping the first character (print then scan gives the same token). " +
			"Not decided: the round trip itself (layout, parenthesisation, comments), which needs the parser and printer to be inverse on all trees.",
		Assumptions: []string{"go/ast as type-checked by the installed toolchain"},
		Rules: []func(*Ctx){func(c *Ctx) {
			rulePrinterCoverage(c, "P1-printer-coverage")
			ruleQuoteTokenAgreement(c, "P2-token-agreement")
			c.Floor("P1-printer-coverage", 45)
		}},
		Technique: "AST/type-resolved custom analysis: exhaustiveness of type switches over the set of allocated node types (from go/types), agreement of token tables between parser, printer and scanner",
		Mutants: []Mutant{
			{Name: "printer-loses-unquote-splice-form", File: "go/printer/nodes.go", Old: "case etoken.QUOTE, etoken.QUASIQUOTE, etoken.UNQUOTE, etoken.UNQUOTE_SPLICE:", New: "case etoken.QUOTE, etoken.QUASIQUOTE, etoken.UNQUOTE:", Canary: true},
			{Name: "printer-cannot-print-send-statement", File: "go/printer/nodes.go", Old: "\tcase *ast.SendStmt:\n\t\tconst depth = 1\n", New: "\tcase *ast.SendStmt:\n\t\tpanic(\"unreachable\")\n\t\tconst depth = 1\n"},
			{Name: "typecase-has-no-name", File: "go/etoken/token.go", Old: "\t\tTYPECASE:       \"~typecase\",\n", New: ""},
			{Name: "tokens-printed-with-standard-names", File: "go/printer/printer.go", Old: "s := etoken.String(x)", New: "s := x.String()\n\t\t\t_ = etoken.HASH", Canary: true},
		},
	})
}
