package main

// C29: canonical interpreter types.

import (
	"fmt"
	"go/ast"
	"go/token"
	"go/types"
	"sort"
	"strings"
)

func ruleTypeCanonical(c *Ctx, rule string) {
	pk := c.P.Pkg("xreflect")
	if pk == nil {
		c.Ob(rule, "xreflect", nil, false, "package not loaded")
		return
	}
	info := pk.TypesInfo
	// K1: who may allocate an xtype
	alloc := map[string]int{}
	for _, fd := range c.P.FuncsOf("xreflect") {
		if fd.Body == nil {
			continue
		}
		fk := funcKey(pk, fd)
		ast.Inspect(fd.Body, func(nd ast.Node) bool {
			if cl, ok := nd.(*ast.CompositeLit); ok && isNamedType(info.TypeOf(cl), "xreflect", "xtype") {
				alloc[fk]++
			}
			return true
		})
	}
	var keys []string
	for k := range alloc {
		keys = append(keys, k)
	}
	sort.Strings(keys)
	for _, k := range keys {
		fd := c.P.Func(k)
		inInit := fd != nil && baseName(c.P.Fset, fd) == "init.go"
		c.Ob(rule, "alloc in "+k, fd, k == "xreflect.Universe.maketype4" || inInit, "an interpreter type is allocated only by the caching constructor maketype4, or while the universe's basic types are created (init.go)")
	}
	if alloc["xreflect.Universe.maketype4"] != 1 {
		c.Ob(rule, "xreflect.Universe.maketype4/alloc", nil, false, "maketype4 does not allocate exactly one xtype: anchor missing")
	}
	// K2: lookup ≺ allocation ≺ add, in maketype4
	mt := c.P.Func("xreflect.Universe.maketype4")
	if mt == nil {
		c.Ob(rule, "xreflect.Universe.maketype4", nil, false, "anchor function not found")
		return
	}
	var gparam types.Object
	for _, f := range mt.Type.Params.List {
		for _, nm := range f.Names {
			if o := info.Defs[nm]; o != nil && strings.HasSuffix(types.TypeString(o.Type(), nil), "types.Type") {
				gparam = o
			}
		}
	}
	lookupPos, allocPos, addPos := token.NoPos, token.NoPos, token.NoPos
	var lookupVar types.Object
	var allocVar types.Object
	ast.Inspect(mt.Body, func(nd ast.Node) bool {
		switch x := nd.(type) {
		case *ast.AssignStmt:
			if len(x.Rhs) == 1 && len(x.Lhs) == 1 {
				if call, ok := unparen(x.Rhs[0]).(*ast.CallExpr); ok {
					if s, ok := unparen(call.Fun).(*ast.SelectorExpr); ok && s.Sel.Name == "At" && len(call.Args) == 1 {
						if _, isG := fieldSel(info, s.X, "gmap"); isG && identOf(call.Args[0]) != nil && info.Uses[identOf(call.Args[0])] == gparam {
							lookupPos = x.Pos()
							lookupVar = info.Defs[identOf(x.Lhs[0])]
						}
					}
				}
				e := unparen(x.Rhs[0])
				if u, ok := e.(*ast.UnaryExpr); ok {
					e = u.X
				}
				if cl, ok := e.(*ast.CompositeLit); ok && isNamedType(info.TypeOf(cl), "xreflect", "xtype") {
					allocPos = x.Pos()
					allocVar = info.Defs[identOf(x.Lhs[0])]
					// the new type records the key it is cached under
					okKey := false
					for _, el := range cl.Elts {
						if kv, ok := el.(*ast.KeyValueExpr); ok && exprString(kv.Key) == "gtype" && identOf(kv.Value) != nil && info.Uses[identOf(kv.Value)] == gparam {
							okKey = true
						}
					}
					c.Ob(rule, "xreflect.Universe.maketype4/gtype", cl, okKey, "the new type records the go/types type it was looked up with")
				}
			}
		case *ast.CallExpr:
			if fn := calleeOf(info, x); fn != nil && fn.Name() == "add" && len(x.Args) == 1 {
				addPos = x.Pos()
			}
		}
		return true
	})
	_ = allocVar
	c.Ob(rule, "xreflect.Universe.maketype4/order", mt, lookupPos != token.NoPos && lookupPos < allocPos && allocPos < addPos, "the type cache is consulted with the go/types key before a new type is allocated, and the new type is added to the cache")
	// a cache hit is returned (not re-allocated) when the reflect type agrees or was a forward placeholder
	hitReturns := 0
	ast.Inspect(mt.Body, func(nd ast.Node) bool {
		ifs, ok := nd.(*ast.IfStmt)
		if !ok {
			return true
		}
		b, ok := unparen(ifs.Cond).(*ast.BinaryExpr)
		if !ok || b.Op != token.NEQ || identOf(b.X) == nil || info.Uses[identOf(b.X)] != lookupVar || exprString(b.Y) != "nil" {
			return true
		}
		ast.Inspect(ifs.Body, func(m ast.Node) bool {
			if r, ok := m.(*ast.ReturnStmt); ok && len(r.Results) == 1 {
				hitReturns++
			}
			return true
		})
		return false
	})
	c.Ob(rule, "xreflect.Universe.maketype4/hit", mt, hitReturns >= 2, fmt.Sprintf("a cached type is returned as is when its reflect type agrees, or completed in place when it was a forward placeholder (%d returns under the hit)", hitReturns))
	// Types.add stores under the type's own gtype
	ad := c.P.Func("xreflect.Types.add")
	okAdd := false
	if ad != nil {
		inspectCalls(ad.Body, func(call *ast.CallExpr) {
			if s, ok := unparen(call.Fun).(*ast.SelectorExpr); ok && s.Sel.Name == "Set" && len(call.Args) == 2 {
				if _, isG := fieldSel(info, s.X, "gmap"); isG {
					if _, isGT := fieldSel(info, call.Args[0], "gtype"); isGT {
						okAdd = true
					}
				}
			}
		})
	}
	c.Ob(rule, "xreflect.Types.add/key", ad, okAdd, "a type is cached under its own go/types type")
	// the cache is keyed by type identity: gmap is a typeutil.Map
	okMap := false
	if tn, ok := pk.Types.Scope().Lookup("Types").(*types.TypeName); ok {
		if st, ok := tn.Type().Underlying().(*types.Struct); ok {
			for i := 0; i < st.NumFields(); i++ {
				if st.Field(i).Name() == "gmap" && strings.HasSuffix(types.TypeString(st.Field(i).Type(), nil), "typeutil.Map") {
					okMap = true
				}
			}
		}
	}
	c.Ob(rule, "xreflect.Types.gmap", nil, okMap, "the type cache is a typeutil.Map, keyed by type identity (C28)")
}

// ruleTypeConstructors (K4): composite constructors build the go/types side and the reflect side from the same
// components, with the matching constructor, through the caching MakeType.
func ruleTypeConstructors(c *Ctx, rule string) {
	pk := c.P.Pkg("xreflect")
	info := pk.TypesInfo
	pairs := map[string][2]string{
		"ArrayOf": {"NewArray", "ArrayOf"}, "ChanOf": {"NewChan", "ChanOf"}, "MapOf": {"NewMap", "MapOf"}, "PtrTo": {"NewPointer", "PtrTo"}, "SliceOf": {"NewSlice", "SliceOf"},
	}
	var names []string
	for n := range pairs {
		names = append(names, n)
	}
	sort.Strings(names)
	for _, name := range names {
		fd := c.P.Func("xreflect.Universe." + name)
		if fd == nil {
			c.Ob(rule, "xreflect.Universe."+name, nil, false, "constructor not found")
			continue
		}
		// parameter -> unwrapped local
		di := buildDefIndex(info, fd)
		paramOf := func(e ast.Expr) int {
			root := di.rootOf(info, e, 0)
			if idx := paramIdxOf(info, fd, root); idx >= 0 {
				return idx
			}
			// the parameter of a literal handed to propagateFwd(x, func(rt) ...) stands for x's reflect type
			res := -1
			ast.Inspect(fd.Body, func(nd ast.Node) bool {
				call, ok := nd.(*ast.CallExpr)
				if !ok || len(call.Args) != 2 {
					return true
				}
				lit, ok := unparen(call.Args[1]).(*ast.FuncLit)
				if !ok {
					return true
				}
				for _, f := range lit.Type.Params.List {
					for _, nm := range f.Names {
						if info.Defs[nm] == root {
							res = paramIdxOf(info, fd, di.rootOf(info, call.Args[0], 0))
						}
					}
				}
				return true
			})
			return res
		}
		var gcall, rcall *ast.CallExpr
		viaMake := false
		ast.Inspect(fd.Body, func(nd ast.Node) bool {
			call, ok := nd.(*ast.CallExpr)
			if !ok {
				return true
			}
			fn := calleeOf(info, call)
			if fn == nil {
				return true
			}
			if fn.Name() == pairs[name][0] && fn.Pkg() != nil && strings.HasSuffix(fn.Pkg().Path(), "go/types") {
				gcall = call
			}
			if fn.Pkg() != nil && fn.Pkg().Path() == "reflect" && fn.Name() == pairs[name][1] {
				rcall = call
			}
			if fn.Name() == "MakeType" || fn.Name() == "maketype" {
				viaMake = true
			}
			return true
		})
		// reflect constructor passed as a function value: propagateFwd(e, r.PtrTo)
		rAsValue := false
		if rcall == nil {
			ast.Inspect(fd.Body, func(nd ast.Node) bool {
				if s, ok := nd.(*ast.SelectorExpr); ok {
					if o, ok := info.Uses[s.Sel].(*types.Func); ok && o.Pkg() != nil && o.Pkg().Path() == "reflect" && o.Name() == pairs[name][1] {
						rAsValue = true
					}
				}
				return true
			})
		}
		okPair := gcall != nil && (rcall != nil || rAsValue) && viaMake
		// component order: type-valued arguments come from the same parameters in the same order
		order := func(call *ast.CallExpr) []int {
			var out []int
			for _, a := range call.Args {
				t := info.TypeOf(a)
				if t == nil {
					continue
				}
				ts := types.TypeString(t, nil)
				if strings.HasSuffix(ts, "types.Type") || ts == "reflect.Type" {
					out = append(out, paramOf(a))
				}
			}
			return out
		}
		okOrder := true
		detail := ""
		if gcall != nil && rcall != nil {
			g, r := order(gcall), order(rcall)
			detail = fmt.Sprintf("go/types side from parameters %v, reflect side from parameters %v", g, r)
			if len(g) != len(r) {
				okOrder = false
			}
			for i := range g {
				if i < len(r) && (g[i] != r[i] || g[i] < 0) {
					okOrder = false
				}
			}
		}
		c.Ob(rule, "xreflect.Universe."+name, fd, okPair && okOrder, fmt.Sprintf("built with types.%s and reflect.%s from the same component types in the same order, through the caching MakeType; %s", pairs[name][0], pairs[name][1], detail))
	}
}

// ruleTypePredicates (K3): properties of a type are answered by the reflect type or by go/types on (receiver, argument) in that order.
func ruleTypePredicates(c *Ctx, rule string) {
	pk := c.P.Pkg("xreflect")
	info := pk.TypesInfo
	// layout answers come from the reflect type's method of the same name
	for _, m := range []string{"Size", "Align", "FieldAlign", "Bits"} {
		fd := c.P.Func("xreflect.xtype." + m)
		ok := false
		if fd != nil && len(fd.Body.List) == 1 {
			if r, isR := fd.Body.List[0].(*ast.ReturnStmt); isR && len(r.Results) == 1 {
				if call, isC := unparen(r.Results[0]).(*ast.CallExpr); isC {
					if s, isS := unparen(call.Fun).(*ast.SelectorExpr); isS && s.Sel.Name == m {
						if _, isRT := fieldSel(info, s.X, "rtype"); isRT {
							ok = true
						}
					}
				}
			}
		}
		c.Ob(rule, "xreflect.xtype."+m, fd, ok, m+"() is the reflect type's "+m+"()")
	}
	// binary predicates: go/types predicate applied to (receiver.gtype, argument.gtype), reflect predicate to (receiver.rtype, argument.rtype)
	for _, m := range []string{"AssignableTo", "ConvertibleTo"} {
		fd := c.P.Func("xreflect.xtype." + m)
		if fd == nil {
			c.Ob(rule, "xreflect.xtype."+m, nil, false, "method not found")
			continue
		}
		recv := info.Defs[fd.Recv.List[0].Names[0]]
		di := buildDefIndex(info, fd)
		isRecvSide := func(e ast.Expr) bool { return di.rootOf(info, e, 0) == recv }
		nG, nR := 0, 0
		okOrder := true
		inspectCalls(fd.Body, func(call *ast.CallExpr) {
			fn := calleeOf(info, call)
			if fn == nil || fn.Name() != m {
				return
			}
			if fn.Pkg() != nil && strings.HasSuffix(fn.Pkg().Path(), "go/types") && len(call.Args) == 2 {
				nG++
				if !isRecvSide(call.Args[0]) || isRecvSide(call.Args[1]) {
					okOrder = false
				}
			}
			if s, ok := unparen(call.Fun).(*ast.SelectorExpr); ok && fn.Pkg() != nil && fn.Pkg().Path() == "reflect" && len(call.Args) == 1 {
				nR++
				if !isRecvSide(s.X) || isRecvSide(call.Args[0]) {
					okOrder = false
				}
			}
		})
		c.Ob(rule, "xreflect.xtype."+m, fd, nG == 1 && nR == 1 && okOrder, fmt.Sprintf("t.%s(u) asks reflect and go/types with t first and u second (%d go/types calls, %d reflect calls)", m, nG, nR))
	}
	// Comparable, IdenticalTo
	if fd := c.P.Func("xreflect.xtype.Comparable"); fd != nil {
		ok := false
		inspectCalls(fd.Body, func(call *ast.CallExpr) {
			if fn := calleeOf(info, call); fn != nil && fn.Name() == "Comparable" && len(call.Args) == 1 {
				if _, isG := fieldSel(info, call.Args[0], "gtype"); isG {
					ok = true
				}
			}
		})
		c.Ob(rule, "xreflect.xtype.Comparable", fd, ok, "Comparable() is go/types' Comparable of the type's go/types type")
	}
	if fd := c.P.Func("xreflect.xtype.identicalTo"); fd != nil {
		ok := false
		recv := info.Defs[fd.Recv.List[0].Names[0]]
		inspectCalls(fd.Body, func(call *ast.CallExpr) {
			if fn := calleeOf(info, call); fn != nil && fn.Name() == "Identical" && len(call.Args) == 2 {
				a, b := buildDefIndex(info, fd).rootOf(info, call.Args[0], 0), buildDefIndex(info, fd).rootOf(info, call.Args[1], 0)
				ok = (a == recv) != (b == recv)
			}
		})
		c.Ob(rule, "xreflect.xtype.identicalTo", fd, ok, "identity of two interpreter types is typeutil.Identical of their two go/types types")
	}
	// Kind and String
	if fd := c.P.Func("xreflect.Universe.maketype"); fd != nil {
		ok := false
		inspectCalls(fd.Body, func(call *ast.CallExpr) {
			if fn := calleeOf(info, call); fn != nil && fn.Name() == "maketype4" && len(call.Args) == 4 {
				if k, isC := unparen(call.Args[0]).(*ast.CallExpr); isC {
					if kf := calleeOf(info, k); kf != nil && kf.Name() == "gtypeToKind" && len(k.Args) == 2 && exprString(k.Args[1]) == exprString(call.Args[1]) {
						ok = true
					}
				}
			}
		})
		c.Ob(rule, "xreflect.Universe.maketype/kind", fd, ok, "the kind of a new type is derived from the same go/types type it is cached under")
	}
}

// ruleChanDirTable: reflect.ChanDir -> types.ChanDir.
func ruleChanDirTable(c *Ctx, rule string) {
	pk := c.P.Pkg("xreflect")
	info := pk.TypesInfo
	fd := c.P.Func("xreflect.dirToGdir")
	if fd == nil {
		c.Ob(rule, "xreflect.dirToGdir", nil, false, "anchor function not found")
		return
	}
	want := map[string]string{"RecvDir": "RecvOnly", "SendDir": "SendOnly", "BothDir": "SendRecv"}
	got := map[string]string{}
	ast.Inspect(fd.Body, func(nd ast.Node) bool {
		cl, ok := nd.(*ast.CaseClause)
		if !ok || len(cl.List) != 1 {
			return true
		}
		k := usedObj(info, cl.List[0])
		for _, st := range cl.Body {
			switch x := st.(type) {
			case *ast.AssignStmt:
				if v := usedObj(info, x.Rhs[0]); k != nil && v != nil {
					got[k.Name()] = v.Name()
				}
			case *ast.ReturnStmt:
				if len(x.Results) == 1 {
					if v := usedObj(info, x.Results[0]); k != nil && v != nil {
						got[k.Name()] = v.Name()
					}
				}
			}
		}
		return true
	})
	ok := len(got) == len(want)
	for k, v := range want {
		if got[k] != v {
			ok = false
		}
	}
	c.Ob(rule, "xreflect.dirToGdir", fd, ok, fmt.Sprintf("channel directions map RecvDir->RecvOnly, SendDir->SendOnly, BothDir->SendRecv (found %v)", got))
}

func init() {
	register(&PropDef{
		ID:    "C29",
		Title: "Interpreter types are canonical and agree with reflect and Go typing rules",
		Explanation: "Decided (structural clauses): K1 an xtype is allocated only in Universe.maketype4 and while the basic types of a universe are created (init.go); K2 in maketype4 the identity-keyed cache (a typeutil.Map, C28) is consulted with the go/types key before the allocation, the new type records that key, is added to the cache (Types.add stores it under its own gtype), and a cache hit is returned as is or completed in place; " +
			"K3 Size/Align/FieldAlign/Bits are the reflect type's answers, AssignableTo/ConvertibleTo ask reflect and go/types with the receiver first and the argument second, Comparable and identity are go/types' on the types' gtype, the kind is derived from the cached gtype; " +
			"K4 ArrayOf, ChanOf, MapOf, PtrTo, SliceOf build the go/types side with types.NewX and the reflect side with reflect.XOf from the same component types in the same order, through the caching MakeType; the channel direction table maps RecvDir, SendDir, BothDir to RecvOnly, SendOnly, SendRecv. " +
			"K5s a signature rebuilt from the parameters and results of another keeps its variadic flag; K6f a struct field translated from reflect sets every field xreflect.StructField shares with reflect.StructField (the tag included); Z1 no && / || with identical operands (found F50). " +
			"Not decided: that maketype4 never creates a second type for a cached key whose reflect type disagrees (it does, by design of its default arm), struct/func/interface/named constructors, field and method lookup, agreement with reflect on every type of the import tables.",
		Assumptions: []string{"typeutil.Map keys by type identity (C28)", "go/types predicates implement the Go specification"},
		Rules: []func(*Ctx){func(c *Ctx) {
			ruleTypeCanonical(c, "K1-canonical-cache")
			ruleTypePredicates(c, "K3-predicates")
			ruleTypeConstructors(c, "K4-constructors")
			ruleChanDirTable(c, "K4-constructors")
			ruleCloneSignature(c, "K5s-clone-signature", "xreflect")
			ruleFieldFromReflect(c, "K6f-field-from-reflect")
			ruleNoDuplicateOperands(c, "Z1-no-duplicate-operands", "fast", "xreflect", "base/untyped", "base/reflect")
		}},
		Technique: "AST/type-resolved custom analysis: who-may-allocate, lookup-before-allocate-before-store order, delegation and operand-order checks",
		Mutants: []Mutant{
			{Name: "cloned-signature-loses-variadic", File: "xreflect/interface.go", Old: "return types.NewSignature(gsig.Recv(), gsig.Params(), gsig.Results(), gsig.Variadic())", New: "return types.NewSignature(gsig.Recv(), gsig.Params(), gsig.Results(), false)"},
			{Name: "reflect-field-loses-tag", File: "xreflect/fromreflect.go", Old: "\t\tTag:       rfield.Tag,\n", New: ""},
			{Name: "new-type-not-cached", File: "xreflect/type.go", Old: "\tt := wrap(xt)\n\tv.add(t)\n", New: "\tt := wrap(xt)\n", Canary: true},
			{Name: "assignable-operands-swapped", File: "xreflect/type.go", Old: "(types.AssignableTo(t.gtype, xu.gtype) &&", New: "(types.AssignableTo(xu.gtype, t.gtype) &&", Canary: true},
			{Name: "map-key-elem-swapped-on-reflect-side", File: "xreflect/composite.go", Old: "r.MapOf(k.approxReflectType(), e.approxReflectType())", New: "r.MapOf(e.approxReflectType(), k.approxReflectType())"},
			{Name: "send-only-channel-becomes-receive-only", File: "xreflect/util.go", Old: "\tcase r.SendDir:\n\t\tret = types.SendOnly", New: "\tcase r.SendDir:\n\t\tret = types.RecvOnly"},
			{Name: "type-allocated-outside-cache", File: "xreflect/composite.go", Old: "func (v *Universe) SliceOf(elem Type) Type {\n\te := unwrap(elem)\n\treturn v.MakeType(", New: "func (v *Universe) SliceOf(elem Type) Type {\n\te := unwrap(elem)\n\tif e.kind == r.Invalid {\n\t\treturn wrap(&xtype{kind: r.Slice, gtype: types.NewSlice(e.gtype), rtype: rTypeOfForward, universe: v})\n\t}\n\treturn v.MakeType("},
			{Name: "size-from-alignment", File: "xreflect/type.go", Old: "\treturn t.rtype.Size()", New: "\treturn uintptr(t.rtype.Align())"},
			{Name: "convertible-asks-reflect-backwards", File: "xreflect/type.go", Old: "rt != nil && ru != nil && rt.ConvertibleTo(ru) {", New: "rt != nil && ru != nil && ru.ConvertibleTo(rt) {"},
			{Name: "cached-under-other-key", File: "xreflect/type.go", Old: "\t\tgtype:    gtype,\n", New: "\t\tgtype:    gtype.Underlying(),\n"},
		},
	})
}
