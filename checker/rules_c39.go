package main

// C39: preprocessor mode (macro expansion only + declaration collection + file writer).

import (
	"fmt"
	"go/ast"
	"go/token"
	"go/types"
	"sort"
	"strings"
)

// appendTarget: `g.F = append(g.F, X)` -> (F, X)
func appendTarget(info *types.Info, st ast.Stmt) (field string, val ast.Expr, ok bool) {
	as, isA := st.(*ast.AssignStmt)
	if !isA || len(as.Lhs) != 1 || len(as.Rhs) != 1 {
		return
	}
	l, isS := unparen(as.Lhs[0]).(*ast.SelectorExpr)
	call, isC := unparen(as.Rhs[0]).(*ast.CallExpr)
	if !isS || !isC || len(call.Args) != 2 {
		return
	}
	if id := identOf(call.Fun); id == nil || id.Name != "append" {
		return
	} else if _, isB := info.Uses[id].(*types.Builtin); !isB {
		return
	}
	if exprString(call.Args[0]) != exprString(l) {
		return
	}
	return l.Sel.Name, call.Args[1], true
}

// ruleCollectRouting: CollectNode routes every kind of top-level form to the list the writer emits it from.
func ruleCollectRouting(c *Ctx, rule string) {
	pk := c.P.Pkg("base")
	fd := c.P.Func("base.Globals.CollectNode")
	if pk == nil || fd == nil {
		c.Ob(rule, "base.Globals.CollectNode", nil, false, "anchor function not found")
		return
	}
	info := pk.TypesInfo
	// flag variables: collectDecl := g.Options&OptCollectDeclarations != 0
	flagOf := map[types.Object]string{}
	ast.Inspect(fd.Body, func(n ast.Node) bool {
		as, ok := n.(*ast.AssignStmt)
		if !ok || as.Tok != token.DEFINE || len(as.Lhs) != 1 {
			return true
		}
		b, ok := unparen(as.Rhs[0]).(*ast.BinaryExpr)
		if !ok || b.Op != token.NEQ {
			return true
		}
		var opts []string
		ast.Inspect(b.X, func(m ast.Node) bool {
			if id, ok := m.(*ast.Ident); ok {
				if cst, ok := info.Uses[id].(*types.Const); ok && strings.HasPrefix(cst.Name(), "Opt") {
					opts = append(opts, cst.Name())
				}
			}
			return true
		})
		if len(opts) == 1 {
			flagOf[info.Defs[as.Lhs[0].(*ast.Ident)]] = opts[0]
		}
		return true
	})
	var tsw *ast.TypeSwitchStmt
	for _, st := range fd.Body.List {
		if t, ok := st.(*ast.TypeSwitchStmt); ok {
			tsw = t
		}
	}
	if tsw == nil {
		c.Ob(rule, "base.Globals.CollectNode/switch", fd, false, "type switch over the node not found")
		return
	}
	// the switched variable per clause
	type route struct {
		field, guard string
		val          ast.Expr
		at           ast.Node
		tok          string
	}
	routes := map[string][]route{} // arm label -> routes
	var walk func(arm, tok string, guard string, list []ast.Stmt, cc *ast.CaseClause)
	walk = func(arm, tok string, guard string, list []ast.Stmt, cc *ast.CaseClause) {
		for _, st := range list {
			switch x := st.(type) {
			case *ast.IfStmt:
				g := guard
				if id := identOf(x.Cond); id != nil {
					if f, ok := flagOf[info.Uses[id]]; ok {
						g = f
					}
				} else {
					for _, a := range andAtoms(x.Cond) {
						if id := identOf(a); id != nil {
							if f, ok := flagOf[info.Uses[id]]; ok {
								g = f
							}
						}
					}
				}
				walk(arm, tok, g, x.Body.List, cc)
				if x.Else != nil {
					if eb, ok := x.Else.(*ast.BlockStmt); ok {
						walk(arm, tok+"!", guard, eb.List, cc)
					} else {
						walk(arm, tok+"!", guard, []ast.Stmt{x.Else}, cc)
					}
				}
			case *ast.SwitchStmt:
				for _, c2 := range x.Body.List {
					cl := c2.(*ast.CaseClause)
					var toks []string
					for _, e := range cl.List {
						if o := usedObj(info, e); o != nil {
							toks = append(toks, o.Name())
						}
					}
					t := strings.Join(toks, ",")
					if cl.List == nil {
						t = "default"
					}
					walk(arm, t, guard, cl.Body, cc)
				}
			case *ast.BlockStmt:
				walk(arm, tok, guard, x.List, cc)
			default:
				if f, v, ok := appendTarget(info, st); ok {
					routes[arm] = append(routes[arm], route{f, guard, v, st, tok})
				} else if as, ok := st.(*ast.AssignStmt); ok && len(as.Lhs) == 1 {
					if s, ok := unparen(as.Lhs[0]).(*ast.SelectorExpr); ok && s.Sel.Name == "PackagePath" {
						routes[arm] = append(routes[arm], route{"PackagePath", guard, as.Rhs[0], st, tok})
					}
				}
			}
		}
	}
	armObj := map[string]types.Object{}
	for _, cc := range tsw.Body.List {
		cl := cc.(*ast.CaseClause)
		var ls []string
		for _, e := range cl.List {
			ls = append(ls, exprString(e))
		}
		arm := strings.Join(ls, ",")
		if cl.List == nil {
			arm = "default"
		}
		armObj[arm] = info.Implicits[cl]
		walk(arm, "", "", cl.Body, cl)
	}
	// expectation table (from the property: same imports, declarations, statements)
	type want struct {
		arm, tok, field, guard string
		self                   bool // the appended value is the node itself
	}
	wants := []want{
		{"*ast.GenDecl", "IMPORT", "Imports", "OptCollectDeclarations", true},
		{"*ast.GenDecl", "TYPE,VAR,CONST", "Declarations", "OptCollectDeclarations", true},
		{"*ast.GenDecl", "PACKAGE", "PackagePath", "OptCollectDeclarations", false},
		{"*ast.FuncDecl", "", "Declarations", "OptCollectDeclarations", true},
		{"ast.Decl", "", "Declarations", "OptCollectDeclarations", true},
		{"ast.Stmt", "", "Statements", "OptCollectStatements", true},
		{"*ast.AssignStmt", "!", "Statements", "OptCollectStatements", true},
		{"*ast.AssignStmt", "", "Declarations", "OptCollectDeclarations", false},
		{"ast.Expr", "", "Statements", "OptCollectStatements", false},
		{"ast.Expr", "", "PackagePath", "OptCollectDeclarations", false}, // the `package foo` clause parsed as an expression
	}
	sameToks := func(a, b string) bool {
		x, y := strings.Split(a, ","), strings.Split(b, ",")
		sort.Strings(x)
		sort.Strings(y)
		return strings.Join(x, ",") == strings.Join(y, ",")
	}
	for _, w := range wants {
		var found *route
		for i, r := range routes[w.arm] {
			if r.field == w.field && (w.tok == "" || sameToks(r.tok, w.tok) || w.tok == "!" && strings.HasSuffix(r.tok, "!")) {
				found = &routes[w.arm][i]
			}
		}
		key := fmt.Sprintf("%s/%s->%s", w.arm, w.tok, w.field)
		if found == nil {
			c.Ob(rule, key, fd, false, "route not found: forms of this kind are not collected into "+w.field)
			continue
		}
		okSelf := true
		if w.self {
			id := identOf(found.val)
			okSelf = id != nil && info.Uses[id] == armObj[w.arm]
		}
		c.Ob(rule, key, found.at, found.guard == w.guard && okSelf, fmt.Sprintf("%s forms (%s) are collected into %s under %s (found guard %q, value %s)", w.arm, w.tok, w.field, w.guard, found.guard, exprString(found.val)))
	}
	// no route sends anything to an unexpected list
	for arm, rs := range routes {
		for _, r := range rs {
			ok := false
			for _, w := range wants {
				if w.arm == arm && w.field == r.field {
					ok = true
				}
			}
			c.Ob(rule, fmt.Sprintf("%s/%s->%s/expected", arm, r.tok, r.field), r.at, ok, "every collection route is one of the expected ones")
		}
	}
	// the define form `a, b := x, y` becomes `var a, b = x, y` with names and values in order
	for _, r := range routes["*ast.AssignStmt"] {
		if r.field != "Declarations" {
			continue
		}
		decl := unparen(r.val)
		if id := identOf(decl); id != nil {
			if d := buildDefIndex(info, fd).single(info.Uses[id]); d != nil {
				decl = unparen(d)
			}
		}
		okD := false
		var detail []string
		if u, ok := decl.(*ast.UnaryExpr); ok {
			decl = u.X
		}
		if cl, ok := decl.(*ast.CompositeLit); ok {
			vals := map[string]string{}
			ast.Inspect(cl, func(n ast.Node) bool {
				if kv, ok := n.(*ast.KeyValueExpr); ok {
					vals[exprString(kv.Key)] = exprString(kv.Value)
				}
				return true
			})
			detail = append(detail, fmt.Sprintf("Tok=%s Values=%s Names=%s", vals["Tok"], vals["Values"], vals["Names"]))
			okD = vals["Tok"] == "token.VAR" && strings.HasSuffix(vals["Values"], ".Rhs") && vals["Names"] != ""
		}
		c.Ob(rule, "*ast.AssignStmt/define-becomes-var", r.at, okD, "a := b is written as var a = b: "+strings.Join(detail, " "))
	}
	// CollectAst reaches every element of a list form
	ca := c.P.Func("base.Globals.CollectAst")
	okCA := false
	if ca != nil {
		ast.Inspect(ca.Body, func(n ast.Node) bool {
			f, ok := n.(*ast.ForStmt)
			if !ok {
				return true
			}
			// for i := 0; i < n; i++ { g.CollectAst(form.Get(i)) } with n := form.Size()
			init, _ := f.Init.(*ast.AssignStmt)
			cond, _ := f.Cond.(*ast.BinaryExpr)
			post, _ := f.Post.(*ast.IncDecStmt)
			if init == nil || cond == nil || post == nil || cond.Op != token.LSS || post.Tok != token.INC {
				return true
			}
			if v, isC := constInt(info, init.Rhs[0]); !isC || v != 0 {
				return true
			}
			rec := false
			inspectCalls(f.Body, func(call *ast.CallExpr) {
				if fn := calleeOf(info, call); fn != nil && fn.Name() == "CollectAst" && len(call.Args) == 1 {
					if g, ok := unparen(call.Args[0]).(*ast.CallExpr); ok && len(g.Args) == 1 && exprString(g.Args[0]) == exprString(init.Lhs[0]) {
						if s, ok := unparen(g.Fun).(*ast.SelectorExpr); ok && s.Sel.Name == "Get" {
							rec = true
						}
					}
				}
			})
			bound := false
			if id := identOf(cond.Y); id != nil {
				if d := buildDefIndex(info, ca).single(info.Uses[id]); d != nil && strings.HasSuffix(exprString(d), ".Size()") {
					bound = true
				}
			}
			if rec && bound {
				okCA = true
			}
			return true
		})
	}
	c.Ob(rule, "base.Globals.CollectAst/all-elements", ca, okCA, "a list form is collected element by element, from index 0 to Size()-1")
}

// ruleDeclWriter: the writer emits the package clause, then every import, every declaration, every statement.
func ruleDeclWriter(c *Ctx, rule string) {
	pk := c.P.Pkg("base/output")
	fd := c.P.Func("base/output.Output.WriteDeclsToStream")
	if pk == nil || fd == nil {
		c.Ob(rule, "base/output.Output.WriteDeclsToStream", nil, false, "anchor function not found")
		return
	}
	info := pk.TypesInfo
	params := map[types.Object]string{}
	for _, f := range fd.Type.Params.List {
		for _, nm := range f.Names {
			params[info.Defs[nm]] = nm.Name
		}
	}
	type emit struct {
		pos  token.Pos
		what string
	}
	var emits []emit
	var loops []*ast.RangeStmt
	ast.Inspect(fd.Body, func(n ast.Node) bool {
		switch x := n.(type) {
		case *ast.RangeStmt:
			if id := identOf(x.X); id != nil {
				if name, ok := params[info.Uses[id]]; ok {
					loops = append(loops, x)
					// body: prints the element, nothing else
					val := identOf(x.Value)
					prints, clean := false, true
					for _, st := range x.Body.List {
						es, ok := st.(*ast.ExprStmt)
						if !ok {
							clean = false
							continue
						}
						call, ok := es.X.(*ast.CallExpr)
						if !ok {
							clean = false
							continue
						}
						if fn := calleeOf(info, call); fn != nil && fn.Pkg() != nil && fn.Pkg().Path() == "fmt" && strings.HasPrefix(fn.Name(), "Fprint") {
							uses := false
							ast.Inspect(call, func(m ast.Node) bool {
								if id, ok := m.(*ast.Ident); ok && val != nil && info.Uses[id] == info.Defs[val] {
									uses = true
								}
								return true
							})
							if uses {
								prints = true
							}
						} else {
							clean = false
						}
					}
					c.Ob(rule, "WriteDeclsToStream/every-"+name, x, prints && clean, "the loop over "+name+" prints each element and does nothing else (no filter, no early exit)")
					emits = append(emits, emit{x.Pos(), name})
				}
			}
		case *ast.CallExpr:
			if fn := calleeOf(info, x); fn != nil && fn.Pkg() != nil && fn.Pkg().Path() == "fmt" && strings.HasPrefix(fn.Name(), "Fprint") {
				for _, a := range x.Args {
					if s, ok := constString(info, a); ok {
						if strings.HasPrefix(s, "package ") {
							uses := false
							for _, b := range x.Args {
								if id := identOf(b); id != nil && params[info.Uses[id]] == "packagePath" {
									uses = true
								}
							}
							if uses {
								emits = append(emits, emit{x.Pos(), "package"})
							}
						}
						if strings.Contains(s, "func init() {") {
							emits = append(emits, emit{x.Pos(), "init{"})
						}
						if s == "}\n" {
							emits = append(emits, emit{x.Pos(), "}"})
						}
					}
				}
			}
		}
		return true
	})
	sort.Slice(emits, func(i, j int) bool { return emits[i].pos < emits[j].pos })
	var seq []string
	for _, e := range emits {
		seq = append(seq, e.what)
	}
	got := strings.Join(seq, " ")
	c.Ob(rule, "WriteDeclsToStream/order", fd, got == "package imports declarations init{ statements }", "emission order is: package clause, imports, declarations, func init() { statements } (found: "+got+")")
	c.Ob(rule, "WriteDeclsToStream/loops", fd, len(loops) == 3, fmt.Sprintf("one loop per list (%d found)", len(loops)))
}

// rulePreprocessorMode: macro-expand-only evaluation compiles and runs nothing; collection sees expanded code.
func rulePreprocessorMode(c *Ctx, rule string) {
	pk := c.P.Pkg("fast")
	info := pk.TypesInfo
	fd := c.P.Func("fast.Interp.CompileAst")
	ok1 := false
	if fd != nil {
		// a top-level `if Options&OptMacroExpandOnly != 0 { ...; return }` precedes every call that compiles
		guardEnd := token.NoPos
		for _, st := range fd.Body.List {
			ifs, ok := st.(*ast.IfStmt)
			if !ok || ifs.Else != nil || len(ifs.Body.List) == 0 {
				continue
			}
			b, ok := unparen(ifs.Cond).(*ast.BinaryExpr)
			if !ok || b.Op != token.NEQ {
				continue
			}
			mentions := false
			ast.Inspect(b.X, func(n ast.Node) bool {
				if id, ok := n.(*ast.Ident); ok {
					if cst, ok := info.Uses[id].(*types.Const); ok && cst.Name() == "OptMacroExpandOnly" {
						mentions = true
					}
				}
				return true
			})
			if v, isC := constInt(info, b.Y); !mentions || !isC || v != 0 {
				continue
			}
			if _, isRet := ifs.Body.List[len(ifs.Body.List)-1].(*ast.ReturnStmt); isRet {
				compiles := false
				inspectCalls(ifs.Body, func(call *ast.CallExpr) {
					if fn := calleeOf(info, call); fn != nil && (fn.Name() == "Compile" || fn.Name() == "RunExpr" || fn.Name() == "RunExpr1") {
						compiles = true
					}
				})
				if !compiles {
					guardEnd = ifs.End()
				}
			}
		}
		first := token.NoPos
		inspectCalls(fd.Body, func(call *ast.CallExpr) {
			if fn := calleeOf(info, call); fn != nil && funcFullName(fn) == "fast.Comp.Compile" {
				if first == token.NoPos || call.Pos() < first {
					first = call.Pos()
				}
			}
		})
		ok1 = guardEnd != token.NoPos && first != token.NoPos && guardEnd < first
	}
	c.Ob(rule, "fast.Interp.CompileAst/expand-only-returns-first", fd, ok1, "under OptMacroExpandOnly CompileAst returns the expanded form before Comp.Compile is reached: nothing is compiled or run")
	// Interp.Parse: the collected form is the result of Comp.Parse
	pf := c.P.Func("fast.Interp.Parse")
	ok2 := false
	if pf != nil {
		di := buildDefIndex(info, pf)
		inspectCalls(pf.Body, func(call *ast.CallExpr) {
			if fn := calleeOf(info, call); fn != nil && fn.Name() == "CollectAst" && len(call.Args) == 1 {
				if id := identOf(call.Args[0]); id != nil {
					if d := di.single(info.Uses[id]); d != nil {
						if dc, ok := unparen(d).(*ast.CallExpr); ok {
							if f2 := calleeOf(info, dc); f2 != nil && funcFullName(f2) == "fast.Comp.Parse" {
								ok2 = true
							}
						}
					}
				}
			}
		})
	}
	c.Ob(rule, "fast.Interp.Parse/collects-parsed-form", pf, ok2, "the form handed to the collector is the one returned by Comp.Parse")
	// Comp.Parse returns the macro-expanded forms
	cp := c.P.Func("fast.Comp.Parse")
	ok3 := false
	if cp != nil {
		var ret *ast.ReturnStmt
		for _, st := range cp.Body.List {
			if r, ok := st.(*ast.ReturnStmt); ok {
				ret = r
			}
		}
		if ret != nil && len(ret.Results) == 1 {
			if id := identOf(ret.Results[0]); id != nil {
				o := info.Uses[id]
				// last assignment to the returned variable before the return
				var last ast.Expr
				ast.Inspect(cp.Body, func(n ast.Node) bool {
					if as, ok := n.(*ast.AssignStmt); ok && as.Pos() < ret.Pos() {
						for _, l := range as.Lhs {
							if lid := identOf(l); lid != nil && (info.Uses[lid] == o || info.Defs[lid] == o) && len(as.Rhs) == 1 {
								last = as.Rhs[0]
							}
						}
					}
					return true
				})
				if call, ok := unparen(last).(*ast.CallExpr); ok {
					if fn := calleeOf(info, call); fn != nil && fn.Name() == "MacroExpandCodewalk" && len(call.Args) == 1 && identOf(call.Args[0]) != nil && info.Uses[identOf(call.Args[0])] == o {
						ok3 = true
					}
				}
			}
		}
	}
	c.Ob(rule, "fast.Comp.Parse/returns-expanded", cp, ok3, "Comp.Parse returns the result of MacroExpandCodewalk applied to the parsed forms: collection sees macro-expanded code")
}

func init() {
	register(&PropDef{
		ID:    "C39",
		Title: "Preprocessor mode writes collected declarations as equivalent, compilable Go",
		Explanation: "Decided (the structural part): R1 collection routing: Globals.CollectNode sends import declarations to Imports, type/var/const declarations, function and method declarations (macros excluded by the receiver guard) and other declarations to Declarations, statements and expressions to Statements, `a := b` to a `var a = b` declaration, each under the option that governs it (OptCollectDeclarations / OptCollectStatements) and each appending the node itself; no route sends a form anywhere else; CollectAst visits every element of a list form; " +
			"R2 writer: Output.WriteDeclsToStream emits the package clause from its package argument, then one loop each over imports, declarations and statements that prints every element and does nothing else, in that order, the statements inside func init() { }; " +
			"R3 mode: under OptMacroExpandOnly Interp.CompileAst returns before Comp.Compile (nothing is compiled or run); the form handed to the collector is the result of Comp.Parse, which returns the result of MacroExpandCodewalk (so the file holds macro-expanded code); R4 every list the collector appends to (Imports, Declarations, Statements: derived from CollectNode) is emptied before a file is evaluated by the function that writes the output file. " +
			"X8m both interpreters suspend the same three options (MacroExpandOnly, CollectDeclarations, CollectStatements) for a forced evaluation. " +
			"Not decided: that the written file compiles and behaves like the source (depends on the printer, C25, and on the Go toolchain).",
		Assumptions: []string{"the forked printer prints each collected node as valid Go (C25, not decided here)"},
		Rules: []func(*Ctx){func(c *Ctx) {
			ruleCollectRouting(c, "R1-collect-routing")
			ruleDeclWriter(c, "R2-decl-writer")
			rulePreprocessorMode(c, "R3-preprocessor-mode")
			ruleCollectorReset(c, "R4-collector-reset")
			ruleForceEvalMasksAgree(c, "X8m-force-eval-masks-agree")
			c.Floor("R1-collect-routing", 15)
		}},
		Technique: "AST/type-resolved custom analysis: routing table of a type switch against an expectation table, emission-order and loop-shape check of the writer, must-return-before and def-use checks on the mode entry points",
		Mutants: []Mutant{
			{Name: "forced-evaluation-still-collects-statements", File: "fast/repl.go", Old: "const todisable = base.OptMacroExpandOnly | base.OptCollectDeclarations | base.OptCollectStatements", New: "const todisable = base.OptMacroExpandOnly | base.OptCollectDeclarations"},
			{Name: "imports-collected-as-declarations", File: "base/global.go", Old: "g.Imports = append(g.Imports, node)", New: "g.Declarations = append(g.Declarations, node)", Canary: true},
			{Name: "const-declarations-not-collected", File: "base/global.go", Old: "case token.TYPE, token.VAR, token.CONST:\n\t\t\t\tg.Declarations", New: "case token.CONST:\n\t\t\tcase token.TYPE, token.VAR:\n\t\t\t\tg.Declarations"},
			{Name: "statements-under-declaration-flag", File: "base/global.go", Old: "\tcase ast.Stmt:\n\t\tif collectStmt {", New: "\tcase ast.Stmt:\n\t\tif collectDecl {"},
			{Name: "expand-only-guard-inverted", File: "fast/repl.go", Old: "if g.Options&base.OptMacroExpandOnly != 0 {\n\t\tx := form.Interface()", New: "if g.Options&base.OptMacroExpandOnly == 0 {\n\t\tx := form.Interface()", Canary: true},
			{Name: "collects-unexpanded-code", File: "fast/compile.go", Old: "forms, _ = c.MacroExpandCodewalk(forms)", New: "expanded, _ := c.MacroExpandCodewalk(forms)\n\t_ = expanded"},
			{Name: "first-list-element-skipped", File: "base/global.go", Old: "for i := 0; i < n; i++ {\n\t\t\tg.CollectAst(form.Get(i))", New: "for i := 1; i < n; i++ {\n\t\t\tg.CollectAst(form.Get(i))"},
			{Name: "writer-skips-first-declaration", File: "base/output/write_decl.go", Old: "for _, decl := range declarations {", New: "for _, decl := range declarations[1:] {"},
			{Name: "writer-declarations-before-imports", File: "base/output/write_decl.go", Old: "\tfor _, imp := range imports {\n\t\tfmt.Fprintln(out, o.toPrintable(\"%v\", imp))\n\t}\n", New: "\tfor _, decl := range declarations {\n\t\tfmt.Fprintln(out, o.toPrintable(\"%v\", decl))\n\t}\n\tfor _, imp := range imports {\n\t\tfmt.Fprintln(out, o.toPrintable(\"%v\", imp))\n\t}\n"},
			{Name: "imports-leak-between-files", File: "cmd/cmd.go", Old: "\tg.Imports = nil\n\tg.Declarations = nil\n", New: "\tg.Declarations = nil\n"},
			{Name: "define-values-dropped", File: "base/global.go", Old: "Values: node.Rhs,", New: "Values: nil,"},
		},
	})
}

// ruleCollectorReset (R4): every list the collector appends to (derived from CollectNode) is emptied before a file is
// evaluated by a function that goes on to write the collected declarations, so one file's output never contains what
// was collected from another.
func ruleCollectorReset(c *Ctx, rule string) {
	bpk := c.P.Pkg("base")
	cn := c.P.Func("base.Globals.CollectNode")
	if bpk == nil || cn == nil {
		c.Ob(rule, "base.Globals.CollectNode", nil, false, "anchor function not found")
		return
	}
	binfo := bpk.TypesInfo
	lists := map[string]bool{}
	ast.Inspect(cn.Body, func(nd ast.Node) bool {
		if st, ok := nd.(ast.Stmt); ok {
			if f, _, ok := appendTarget(binfo, st); ok {
				lists[f] = true
			}
		}
		return true
	})
	var names []string
	for f := range lists {
		names = append(names, f)
	}
	sort.Strings(names)
	if len(names) < 3 {
		c.Ob(rule, "base.Globals.CollectNode/lists", cn, false, fmt.Sprintf("collector lists found: %v, at least 3 expected", names))
		return
	}
	n := 0
	for _, pk := range c.P.All {
		if !strings.HasPrefix(pk.PkgPath, modPath) || pk == bpk {
			continue
		}
		info := pk.TypesInfo
		for _, f := range pk.Syntax {
			for _, d := range f.Decls {
				fd, ok := d.(*ast.FuncDecl)
				if !ok || fd.Body == nil {
					continue
				}
				writes := token.NoPos
				inspectCalls(fd.Body, func(call *ast.CallExpr) {
					if fn := calleeOf(info, call); fn != nil && (fn.Name() == "WriteDeclsToFile" || fn.Name() == "WriteDeclsToStream") {
						writes = call.Pos()
					}
				})
				if writes == token.NoPos {
					continue
				}
				// the evaluation call: the first call of an Eval* method before the write
				eval := token.NoPos
				inspectCalls(fd.Body, func(call *ast.CallExpr) {
					if fn := calleeOf(info, call); fn != nil && strings.HasPrefix(fn.Name(), "Eval") && call.Pos() < writes && (eval == token.NoPos || call.Pos() < eval) {
						eval = call.Pos()
					}
				})
				if eval == token.NoPos {
					continue
				}
				n++
				for _, name := range names {
					reset := false
					ast.Inspect(fd.Body, func(nd ast.Node) bool {
						as, ok := nd.(*ast.AssignStmt)
						if !ok || as.Pos() > eval {
							return true
						}
						for i, l := range as.Lhs {
							if _, isF := fieldSel(info, l, name); isF {
								r := as.Rhs[0]
								if len(as.Rhs) == len(as.Lhs) {
									r = as.Rhs[i]
								}
								if exprString(r) == "nil" {
									reset = true
								}
							}
						}
						return true
					})
					c.Ob(rule, funcKey(pk, fd)+"/"+name, fd, reset, "Globals."+name+" is emptied before the file is evaluated, so the written file holds only what was collected from it")
				}
			}
		}
	}
	if n == 0 {
		c.Ob(rule, "writers", nil, false, "no function that evaluates a file and writes the collected declarations found: anchor missing")
	}
}
