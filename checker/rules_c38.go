package main

// C38: classic interpreter — in every switch over a token, an arm that computes with one Go
// operator uses the operator of its own tokens, operands in order.

import (
	"fmt"
	"go/ast"
	"go/token"
	"go/types"
	"strings"
)

func ruleTokenArmOperators(c *Ctx, short string, files []string, rule string) {
	pk := c.P.Pkg(short)
	if pk == nil {
		c.Fatal("package %s not loaded", short)
		return
	}
	info := pk.TypesInfo
	fileSet := map[string]bool{}
	for _, f := range files {
		fileSet[f] = true
	}
	n := 0
	for _, a := range dispatchArms(pk) {
		if len(files) > 0 && !fileSet[baseName(c.P.Fset, a.sw)] {
			continue
		}
		plain := map[string]bool{}
		for _, t := range a.tokens {
			plain[plainToken(t)] = true
		}
		if len(plain) != 1 {
			continue
		}
		var want token.Token
		okTok := false
		for p := range plain {
			want, okTok = constNameToToken[p]
		}
		if !okTok || want == token.ASSIGN || want == token.ARROW || want == token.DEFINE {
			continue
		}
		// operator occurrences directly in the arm (not inside nested token switches or literals)
		type occ struct {
			op   string
			node ast.Node
		}
		var occs []occ
		for _, st := range a.clause.Body {
			ast.Inspect(st, func(nd ast.Node) bool {
				switch x := nd.(type) {
				case *ast.FuncLit:
					return false
				case *ast.SwitchStmt:
					if x.Tag != nil && isTokenType(info.TypeOf(x.Tag)) {
						return false
					}
				case *ast.IfStmt:
					// conditions of guards (y == 0, shift count checks) are not the computed operation
					for _, b := range x.Body.List {
						ast.Inspect(b, func(m ast.Node) bool { return true })
					}
				case *ast.BinaryExpr:
					switch x.Op {
					case token.LAND, token.LOR:
						if want != token.LAND && want != token.LOR {
							return true
						}
					}
					occs = append(occs, occ{x.Op.String(), x})
				case *ast.UnaryExpr:
					if _, isLit := unparen(x.X).(*ast.BasicLit); isLit {
						return true
					}
					if x.Op == token.SUB || x.Op == token.XOR || x.Op == token.NOT || x.Op == token.ADD {
						occs = append(occs, occ{"unary" + x.Op.String(), x})
					}
				case *ast.AssignStmt:
					if x.Tok != token.ASSIGN && x.Tok != token.DEFINE {
						occs = append(occs, occ{strings.TrimSuffix(x.Tok.String(), "="), x})
					}
				}
				return true
			})
		}
		if len(occs) != 1 {
			continue // arms that delegate, or compute with several operators (guards, fix-ups), are not judged
		}
		n++
		o := occs[0]
		okOp := o.op == want.String() || o.op == "unary"+want.String()
		key := fmt.Sprintf("%s/%s", a.fkey, strings.Join(a.tokens, ","))
		detail := fmt.Sprintf("arm for %s computes with %s", strings.Join(a.tokens, ","), o.op)
		// operand order for binary operators
		if be, isB := o.node.(*ast.BinaryExpr); isB && okOp {
			di := buildDefIndex(info, a.fd)
			var vals []types.Object
			for _, f := range a.fd.Type.Params.List {
				for _, nm := range f.Names {
					if ob := info.Defs[nm]; ob != nil && !isTokenType(ob.Type()) {
						vals = append(vals, ob)
					}
				}
			}
			if len(vals) >= 2 {
				lr, rr := exprRoots(info, di, be.X), exprRoots(info, di, be.Y)
				first, last := vals[len(vals)-2], vals[len(vals)-1]
				if (lr[last] && !lr[first]) && (rr[first] && !rr[last]) {
					okOp = false
					detail += "; operands are swapped"
				}
			}
		}
		c.Ob(rule, key, o.node, okOp, detail)
	}
	if n < 30 {
		c.Ob(rule, short+"/token-switches", nil, false, fmt.Sprintf("only %d single-operator arms found: anchor missing", n))
	}
}
