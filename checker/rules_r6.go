package main

import (
	"fmt"
	"go/ast"
	"go/token"
	"go/types"
	"strings"
)

// rulePartialOverwrite (F2p): storing a keyed struct literal into existing storage (`x.f = T{A: a}` or
// `*p = T{A: a}`) resets every field the literal does not name. For the state records named in tracked (the
// signal pair of a Run, the code buffer of a Comp) a literal that names some but not all fields is a silent reset
// of the others -- a pending asynchronous signal, the "has defers" flag -- and is reported; the empty literal
// (a deliberate reset) and a literal naming all fields are accepted.
func rulePartialOverwrite(c *Ctx, rule string, short string, tracked []string) {
	pk := c.P.Pkg(short)
	if pk == nil {
		c.Fatal("package %s not loaded", short)
		return
	}
	info := pk.TypesInfo
	isTracked := func(t types.Type) (string, *types.Struct) {
		nt, ok := t.(*types.Named)
		if !ok {
			return "", nil
		}
		st, ok := nt.Underlying().(*types.Struct)
		if !ok || nt.Obj().Pkg() == nil {
			return "", nil
		}
		q := shortPkg(nt.Obj().Pkg().Path()) + "." + nt.Obj().Name()
		for _, w := range tracked {
			if w == q {
				return q, st
			}
		}
		return "", nil
	}
	// the tracked records must exist (a rule that matches nothing passes forever)
	for _, w := range tracked {
		i := strings.LastIndex(w, ".")
		found := false
		if p2 := c.P.Pkg(w[:i]); p2 != nil {
			if tn, ok := p2.Types.Scope().Lookup(w[i+1:]).(*types.TypeName); ok {
				if _, isStruct := tn.Type().Underlying().(*types.Struct); isStruct {
					found = true
				}
			}
		}
		c.Ob(rule, "tracked/"+w, nil, found, "the tracked record type exists and is a struct")
	}
	n := 0
	for _, fd := range c.P.FuncsOf(short) {
		if fd.Body == nil {
			continue
		}
		k := 0
		ast.Inspect(fd.Body, func(nd ast.Node) bool {
			as, ok := nd.(*ast.AssignStmt)
			if !ok || as.Tok != token.ASSIGN || len(as.Lhs) != len(as.Rhs) {
				return true
			}
			for i, rhs := range as.Rhs {
				cl, ok := unparen(rhs).(*ast.CompositeLit)
				if !ok {
					continue
				}
				q, st := isTracked(info.TypeOf(cl))
				if st == nil {
					continue
				}
				switch unparen(as.Lhs[i]).(type) {
				case *ast.SelectorExpr, *ast.StarExpr, *ast.IndexExpr:
				default:
					continue
				}
				n++
				k++
				named := len(cl.Elts)
				good := named == 0 || named == st.NumFields()
				c.Ob(rule, fmt.Sprintf("%s/%s#%d", funcKey(pk, fd), q, k), as, good, fmt.Sprintf("a %s literal stored into %s names %d of %d fields (none = reset, all = replacement; some = the others are silently cleared)", q, exprString(as.Lhs[i]), named, st.NumFields()))
			}
			return true
		})
	}
	c.Extra(rule+"_stores_examined", n)
}

// ruleFreeNotDeferred (N1d): the frame of a function is returned to the pool by a plain call after the body
// returned. Deferring that call would recycle the frame also when the body panics, while Run.PanicFun and the
// unwinding deferred calls still refer to it: freeEnv4Func is never the call of a defer statement.
func ruleFreeNotDeferred(c *Ctx, rule string) {
	pk := c.P.Pkg("fast")
	if pk == nil {
		c.Fatal("package fast not loaded")
		return
	}
	info := pk.TypesInfo
	total := 0
	for _, fd := range c.P.FuncsOf("fast") {
		if fd.Body == nil {
			continue
		}
		n, bad := 0, 0
		var first ast.Node
		ast.Inspect(fd.Body, func(nd ast.Node) bool {
			switch x := nd.(type) {
			case *ast.DeferStmt:
				if funcFullName(calleeOf(info, x.Call)) == "fast.Env.freeEnv4Func" {
					bad++
					if first == nil {
						first = x
					}
				}
			case *ast.CallExpr:
				if funcFullName(calleeOf(info, x)) == "fast.Env.freeEnv4Func" {
					n++
				}
			}
			return true
		})
		if n == 0 {
			continue
		}
		total += n
		if bad > 0 {
			c.Ob(rule, funcKey(pk, fd), first, false, fmt.Sprintf("%d of %d releases of a function frame are deferred: the frame is recycled while a panic that started in it is still unwinding", bad, n))
		} else {
			c.Ob(rule, funcKey(pk, fd), fd, true, fmt.Sprintf("%d releases of a function frame, none deferred", n))
		}
	}
	if total < 100 {
		c.Ob(rule, "fast/releases", nil, false, fmt.Sprintf("%d releases of function frames found, at least 100 expected", total))
	}
}

// ruleRecoverOwner (R3o): recover() returns the panic value only in a deferred call of the frame that is
// panicking. callRecover compares Run.DeferOfFun with Run.PanicFun (a != test whose branch returns the nil
// interface); pushDefer records the panicking frame in PanicFun under the bare condition `panicking`.
func ruleRecoverOwner(c *Ctx, rule string) {
	pk := c.P.Pkg("fast")
	if pk == nil {
		c.Fatal("package fast not loaded")
		return
	}
	info := pk.TypesInfo
	isRunField := func(e ast.Expr, name string) bool {
		return fieldOfStruct(info, e, "fast", "Run") == name
	}
	if fd := c.P.Func("fast.callRecover"); fd == nil || fd.Body == nil {
		c.Ob(rule, "fast.callRecover", nil, false, "anchor function not found")
	} else {
		found := false
		var at ast.Node = fd
		ast.Inspect(fd.Body, func(nd ast.Node) bool {
			ifs, ok := nd.(*ast.IfStmt)
			if !ok || len(ifs.Body.List) == 0 {
				return true
			}
			if _, isRet := ifs.Body.List[len(ifs.Body.List)-1].(*ast.ReturnStmt); !isRet {
				return true
			}
			for _, a := range orAtoms(ifs.Cond) {
				be, ok := unparen(a).(*ast.BinaryExpr)
				if !ok || be.Op != token.NEQ {
					continue
				}
				if (isRunField(be.X, "DeferOfFun") && isRunField(be.Y, "PanicFun")) || (isRunField(be.X, "PanicFun") && isRunField(be.Y, "DeferOfFun")) {
					found = true
					at = ifs
				}
			}
			return true
		})
		c.Ob(rule, "fast.callRecover/owner-test", at, found, "recover() gives up (returns the nil interface) when Run.DeferOfFun != Run.PanicFun: only a deferred call of the panicking frame sees the panic")
	}
	if fd := c.P.Func("fast.pushDefer"); fd == nil || fd.Body == nil {
		c.Ob(rule, "fast.pushDefer", nil, false, "anchor function not found")
	} else {
		var boolParams []types.Object
		for _, f := range fd.Type.Params.List {
			for _, nm := range f.Names {
				if o := info.Defs[nm]; o != nil && isBoolType(o.Type()) {
					boolParams = append(boolParams, o)
				}
			}
		}
		n := 0
		ast.Inspect(fd.Body, func(nd ast.Node) bool {
			ifs, ok := nd.(*ast.IfStmt)
			if !ok {
				return true
			}
			for _, st := range ifs.Body.List {
				as, ok := st.(*ast.AssignStmt)
				if !ok || len(as.Lhs) != 1 || !isRunField(as.Lhs[0], "PanicFun") {
					continue
				}
				n++
				bare := false
				if id, ok := unparen(ifs.Cond).(*ast.Ident); ok {
					for _, p := range boolParams {
						if info.Uses[id] == p {
							bare = true
						}
					}
				}
				c.Ob(rule, fmt.Sprintf("fast.pushDefer/record#%d", n), ifs, bare, "the panicking frame is recorded in Run.PanicFun whenever the caller says it is panicking (condition: "+exprString(ifs.Cond)+")")
			}
			return true
		})
		if n == 0 {
			c.Ob(rule, "fast.pushDefer/record", fd, false, "no conditional recording of Run.PanicFun found")
		}
	}
}

// ruleChanDirAssertion (D6): the specialised receive and send closures assert the channel's Go type. Under the flag
// that says the channel type is receive-only (`x.ChanDir() == RecvDir`) the asserted type is `<-chan T`, under the
// send-only flag `chan<- T`, and in the else branch of such a test a bidirectional `chan T`: asserting another
// direction panics at run time for exactly that direction.
func ruleChanDirAssertion(c *Ctx, rule string, files []string) {
	pk := c.P.Pkg("fast")
	if pk == nil {
		c.Fatal("package fast not loaded")
		return
	}
	info := pk.TypesInfo
	want := map[string]bool{}
	for _, f := range files {
		want[f] = true
	}
	dirName := map[types.ChanDir]string{types.SendRecv: "chan T", types.SendOnly: "chan<- T", types.RecvOnly: "<-chan T"}
	total := 0
	for _, fd := range c.P.FuncsOf("fast") {
		if fd.Body == nil || !want[baseName(pk.Fset, fd)] {
			continue
		}
		di := buildDefIndex(info, fd)
		flagDir := func(e ast.Expr) (types.ChanDir, bool) {
			id, ok := unparen(e).(*ast.Ident)
			if !ok {
				return 0, false
			}
			d := di.single(info.Uses[id])
			if d == nil {
				return 0, false
			}
			be, ok := unparen(d).(*ast.BinaryExpr)
			if !ok || be.Op != token.EQL {
				return 0, false
			}
			for _, pr := range [][2]ast.Expr{{be.X, be.Y}, {be.Y, be.X}} {
				call, ok := unparen(pr[0]).(*ast.CallExpr)
				if !ok {
					continue
				}
				se, ok := unparen(call.Fun).(*ast.SelectorExpr)
				if !ok || se.Sel.Name != "ChanDir" {
					continue
				}
				if o := usedObj(info, pr[1]); o != nil {
					switch o.Name() {
					case "RecvDir":
						return types.RecvOnly, true
					case "SendDir":
						return types.SendOnly, true
					}
				}
			}
			return 0, false
		}
		parent := map[ast.Node]ast.Node{}
		var stack []ast.Node
		ast.Inspect(fd.Body, func(m ast.Node) bool {
			if m == nil {
				stack = stack[:len(stack)-1]
				return true
			}
			if len(stack) > 0 {
				parent[m] = stack[len(stack)-1]
			}
			stack = append(stack, m)
			return true
		})
		n, bad := 0, 0
		var first ast.Node
		why := ""
		ast.Inspect(fd.Body, func(nd ast.Node) bool {
			ta, ok := nd.(*ast.TypeAssertExpr)
			if !ok || ta.Type == nil {
				return true
			}
			ct, ok := info.TypeOf(ta.Type).Underlying().(*types.Chan)
			if !ok {
				return true
			}
			// nearest enclosing if on a direction flag
			for p := ast.Node(ta); p != nil; p = parent[p] {
				ifs, ok := parent[p].(*ast.IfStmt)
				if !ok {
					continue
				}
				dir, isFlag := flagDir(ifs.Cond)
				if !isFlag {
					continue
				}
				expected := types.SendRecv
				if p == ast.Node(ifs.Body) {
					expected = dir
				} else if p != ifs.Else {
					continue
				}
				n++
				if ct.Dir() != expected {
					bad++
					if first == nil {
						first = ta
						why = fmt.Sprintf("asserts %s where the flag %s selects %s", dirName[ct.Dir()], exprString(ifs.Cond), dirName[expected])
					}
				}
				break
			}
			return true
		})
		if n == 0 {
			continue
		}
		total += n
		if bad == 0 {
			c.Ob(rule, funcKey(pk, fd), fd, true, fmt.Sprintf("%d channel type assertions agree with the direction flag they sit under", n))
		} else {
			c.Ob(rule, funcKey(pk, fd), first, false, fmt.Sprintf("%d of %d channel type assertions disagree with their direction flag: %s", bad, n, why))
		}
	}
	if total < 50 {
		c.Ob(rule, "fast/chan-assertions", nil, false, fmt.Sprintf("%d channel type assertions under a direction flag found, at least 50 expected", total))
	}
}

var _ = strings.HasPrefix

// ruleBlockingChannelOps (B6): a receive or send compiled outside select blocks until it can proceed (or the
// channel is closed). The generic closures go through reflect's Recv / Send; the non-blocking TryRecv / TrySend
// return at once on an open, momentarily empty (full) channel and would end a `for range ch` early. They are
// called nowhere in the channel, range and select compilers (select goes through reflect.Select).
func ruleBlockingChannelOps(c *Ctx, rule string, files []string) {
	pk := c.P.Pkg("fast")
	if pk == nil {
		c.Fatal("package fast not loaded")
		return
	}
	info := pk.TypesInfo
	want := map[string]bool{}
	for _, f := range files {
		want[f] = true
	}
	blocking := 0
	for _, fd := range c.P.FuncsOf("fast") {
		if fd.Body == nil || !want[baseName(pk.Fset, fd)] {
			continue
		}
		n := 0
		inspectCalls(fd.Body, func(call *ast.CallExpr) {
			fn := calleeOf(info, call)
			if fn == nil {
				return
			}
			sig, _ := fn.Type().(*types.Signature)
			if sig == nil || sig.Recv() == nil {
				return
			}
			rt := sig.Recv().Type().String()
			if !strings.HasSuffix(rt, "reflect.Value") {
				return
			}
			switch fn.Name() {
			case "Recv", "Send":
				blocking++
			case "TryRecv", "TrySend":
				n++
				c.Ob(rule, fmt.Sprintf("%s/%s#%d", funcKey(pk, fd), fn.Name(), n), call, false, "a non-blocking "+fn.Name()+" stands where the statement must wait for the channel")
			}
		})
	}
	c.Ob(rule, "fast/blocking-ops", nil, blocking >= 4, fmt.Sprintf("%d reflect-level channel operations in the channel / range compilers, all blocking (Recv, Send)", blocking))
}

// ruleUnconditionalRestore (X9): a function that saves a field in a local (`save := g.F`), changes the field and
// restores it in a deferred closure (`g.F = save`) must restore on every path through that closure, the panicking
// one included: the restoring assignment is a direct statement of the deferred closure's body and no `return`
// precedes it inside the closure.
func ruleUnconditionalRestore(c *Ctx, rule string, shorts ...string) {
	total := 0
	for _, short := range shorts {
		pk := c.P.Pkg(short)
		if pk == nil {
			continue
		}
		info := pk.TypesInfo
		for _, fd := range c.P.FuncsOf(short) {
			if fd.Body == nil {
				continue
			}
			// save idiom: local := <selector>
			saves := map[types.Object]string{}
			for _, st := range fd.Body.List {
				as, ok := st.(*ast.AssignStmt)
				if !ok || as.Tok != token.DEFINE || len(as.Lhs) != len(as.Rhs) {
					continue
				}
				for i, l := range as.Lhs {
					id, ok := l.(*ast.Ident)
					if !ok {
						continue
					}
					if se, ok := unparen(as.Rhs[i]).(*ast.SelectorExpr); ok {
						if v, ok := info.Uses[se.Sel].(*types.Var); ok && v.IsField() {
							saves[info.Defs[id]] = exprString(se)
						}
					}
				}
			}
			if len(saves) == 0 {
				continue
			}
			k := 0
			ast.Inspect(fd.Body, func(nd ast.Node) bool {
				ds, ok := nd.(*ast.DeferStmt)
				if !ok {
					return true
				}
				lit, ok := unparen(ds.Call.Fun).(*ast.FuncLit)
				if !ok {
					return true
				}
				firstReturn := token.NoPos
				ast.Inspect(lit.Body, func(m ast.Node) bool {
					if _, isLit := m.(*ast.FuncLit); isLit {
						return false
					}
					if r, ok := m.(*ast.ReturnStmt); ok && (firstReturn == token.NoPos || r.Pos() < firstReturn) {
						firstReturn = r.Pos()
					}
					return true
				})
				direct := map[ast.Stmt]bool{}
				for _, st := range lit.Body.List {
					direct[st] = true
				}
				ast.Inspect(lit.Body, func(m ast.Node) bool {
					as, ok := m.(*ast.AssignStmt)
					if !ok || as.Tok != token.ASSIGN || len(as.Lhs) != len(as.Rhs) {
						return true
					}
					for i, r := range as.Rhs {
						id, ok := unparen(r).(*ast.Ident)
						if !ok {
							continue
						}
						field, isSave := saves[info.Uses[id]]
						if !isSave || exprString(as.Lhs[i]) != field {
							continue
						}
						k++
						total++
						good := direct[as] && (firstReturn == token.NoPos || as.Pos() < firstReturn)
						detail := field + " is restored on every path through the deferred closure"
						if !good {
							detail = field + " is restored only on some paths through the deferred closure (nested in a branch, or after a return): an evaluation aborted by a panic leaves the changed value behind"
						}
						c.Ob(rule, fmt.Sprintf("%s/restore#%d", funcKey(pk, fd), k), as, good, detail)
					}
					return true
				})
				return true
			})
		}
	}
	if total < 2 {
		c.Ob(rule, strings.Join(shorts, ",")+"/restores", nil, false, fmt.Sprintf("%d deferred restores of a saved field found, at least 2 expected", total))
	}
}

// ruleNoPrecisionCap (K8): an untyped constant handed out as *big.Float keeps every bit go/constant kept: the
// conversions in base/untyped let math/big choose the precision from the operand (SetInt, SetRat, Set on a zero
// Float) and never fix one with SetPrec (or a rounding mode with SetMode) before the value is set.
func ruleNoPrecisionCap(c *Ctx, rule string) {
	pk := c.P.Pkg("base/untyped")
	if pk == nil {
		c.Fatal("package base/untyped not loaded")
		return
	}
	info := pk.TypesInfo
	sets := 0
	for _, fd := range c.P.FuncsOf("base/untyped") {
		if fd.Body == nil {
			continue
		}
		n := 0
		inspectCalls(fd.Body, func(call *ast.CallExpr) {
			fn := calleeOf(info, call)
			if fn == nil || fn.Pkg() == nil || fn.Pkg().Path() != "math/big" {
				return
			}
			sig, _ := fn.Type().(*types.Signature)
			if sig == nil || sig.Recv() == nil || !strings.HasSuffix(sig.Recv().Type().String(), "big.Float") {
				return
			}
			switch fn.Name() {
			case "SetPrec", "SetMode":
				n++
				c.Ob(rule, fmt.Sprintf("%s/%s#%d", funcKey(pk, fd), fn.Name(), n), call, false, "the precision (or rounding mode) of a constant's *big.Float is fixed by hand: constants with more significant bits are silently rounded")
			case "SetInt", "SetRat", "Set", "SetInt64", "SetUint64", "SetFloat64":
				sets++
			}
		})
	}
	c.Ob(rule, "base/untyped/big-float-sets", nil, sets >= 3, fmt.Sprintf("%d assignments to a *big.Float in the constant conversions, none preceded by a hand-set precision", sets))
}

// ruleCategoryChain (Z3): `c := Category(k)` maps a kind to the representative of its category (Uint for uint8 ...
// uintptr). A disjunction that compares both a kind variable and the category computed from that same variable with
// constants mixes the two levels: `cto == Int || kto == Uint` tests the exact kind uint where every unsigned kind is
// meant. Reported for every && / || chain in which an atom tests v and another tests Category(v).
func ruleCategoryChain(c *Ctx, rule string, shorts ...string) {
	total := 0
	for _, short := range shorts {
		pk := c.P.Pkg(short)
		if pk == nil {
			continue
		}
		info := pk.TypesInfo
		for _, fd := range c.P.FuncsOf(short) {
			if fd.Body == nil {
				continue
			}
			catOf := map[types.Object]types.Object{} // category variable -> kind variable
			ast.Inspect(fd.Body, func(nd ast.Node) bool {
				as, ok := nd.(*ast.AssignStmt)
				if !ok || len(as.Lhs) != len(as.Rhs) {
					return true
				}
				for i, r := range as.Rhs {
					call, ok := unparen(r).(*ast.CallExpr)
					if !ok || len(call.Args) != 1 {
						continue
					}
					if fn := calleeOf(info, call); fn == nil || fn.Name() != "Category" {
						continue
					}
					lid, ok1 := as.Lhs[i].(*ast.Ident)
					aid, ok2 := unparen(call.Args[0]).(*ast.Ident)
					if ok1 && ok2 && info.ObjectOf(lid) != nil && info.Uses[aid] != nil {
						catOf[info.ObjectOf(lid)] = info.Uses[aid]
					}
				}
				return true
			})
			if len(catOf) == 0 {
				continue
			}
			k := 0
			seenTop := map[ast.Node]bool{}
			ast.Inspect(fd.Body, func(nd ast.Node) bool {
				be, ok := nd.(*ast.BinaryExpr)
				if !ok || (be.Op != token.LOR && be.Op != token.LAND) || seenTop[be] {
					return true
				}
				// mark the nested chain members so that each chain is judged once
				var atoms []ast.Expr
				var flat func(e ast.Expr)
				flat = func(e ast.Expr) {
					if b, ok := unparen(e).(*ast.BinaryExpr); ok && (b.Op == token.LOR || b.Op == token.LAND) {
						seenTop[b] = true
						flat(b.X)
						flat(b.Y)
						return
					}
					atoms = append(atoms, e)
				}
				flat(be)
				tested := map[types.Object]bool{}
				for _, a := range atoms {
					cmp, ok := unparen(a).(*ast.BinaryExpr)
					if !ok || (cmp.Op != token.EQL && cmp.Op != token.NEQ) {
						continue
					}
					for _, pr := range [][2]ast.Expr{{cmp.X, cmp.Y}, {cmp.Y, cmp.X}} {
						id, ok := unparen(pr[0]).(*ast.Ident)
						if !ok {
							continue
						}
						if _, isConst := usedObj(info, pr[1]).(*types.Const); isConst && info.Uses[id] != nil {
							tested[info.Uses[id]] = true
						}
					}
				}
				involved := false
				mixed := ""
				for cat, kind := range catOf {
					if tested[cat] {
						involved = true
						if tested[kind] {
							mixed = kind.Name() + " and " + cat.Name() + " = Category(" + kind.Name() + ")"
						}
					}
				}
				if !involved {
					return true
				}
				k++
				total++
				c.Ob(rule, fmt.Sprintf("%s/chain#%d", funcKey(pk, fd), k), be, mixed == "", "a chain of tests on a category variable does not also test the kind it was computed from ("+exprString(be)+")"+map[bool]string{true: "", false: ": mixes " + mixed}[mixed == ""])
				return true
			})
		}
	}
	if total < 2 {
		c.Ob(rule, strings.Join(shorts, ",")+"/chains", nil, false, fmt.Sprintf("%d chains of category tests found, at least 2 expected", total))
	}
}

// ruleShortcutDirection (T7): xtype.ConvertibleTo / AssignableTo / Implements first ask reflect the same question
// about the two reflect types. The question has a direction: the receiver of the reflect call derives from the
// method's receiver and its argument from the method's parameter.
func ruleShortcutDirection(c *Ctx, rule string) {
	pk := c.P.Pkg("xreflect")
	if pk == nil {
		c.Fatal("package xreflect not loaded")
		return
	}
	info := pk.TypesInfo
	n := 0
	for _, fd := range c.P.FuncsOf("xreflect") {
		if fd.Body == nil || fd.Recv == nil || len(fd.Recv.List) != 1 || len(fd.Recv.List[0].Names) != 1 {
			continue
		}
		switch fd.Name.Name {
		case "ConvertibleTo", "AssignableTo", "Implements":
		default:
			continue
		}
		if fd.Type.Params.NumFields() != 1 || len(fd.Type.Params.List[0].Names) != 1 {
			continue
		}
		recv := info.Defs[fd.Recv.List[0].Names[0]]
		param := info.Defs[fd.Type.Params.List[0].Names[0]]
		// derivation: follow identifiers to their definitions inside the function (including if-init and
		// parallel definitions), through selectors and calls with one argument
		defs := map[types.Object]ast.Expr{}
		ast.Inspect(fd.Body, func(nd ast.Node) bool {
			as, ok := nd.(*ast.AssignStmt)
			if !ok || len(as.Lhs) != len(as.Rhs) {
				return true
			}
			for i, l := range as.Lhs {
				if id, ok := l.(*ast.Ident); ok && info.Defs[id] != nil {
					defs[info.Defs[id]] = as.Rhs[i]
				}
			}
			return true
		})
		var root func(e ast.Expr, depth int) types.Object
		root = func(e ast.Expr, depth int) types.Object {
			if depth > 8 {
				return nil
			}
			switch x := unparen(e).(type) {
			case *ast.Ident:
				o := info.Uses[x]
				if o == recv || o == param {
					return o
				}
				if d, ok := defs[o]; ok {
					return root(d, depth+1)
				}
			case *ast.SelectorExpr:
				return root(x.X, depth+1)
			case *ast.CallExpr:
				if len(x.Args) == 1 {
					return root(x.Args[0], depth+1)
				}
				if se, ok := unparen(x.Fun).(*ast.SelectorExpr); ok && len(x.Args) == 0 {
					return root(se.X, depth+1)
				}
			case *ast.StarExpr:
				return root(x.X, depth+1)
			case *ast.TypeAssertExpr:
				return root(x.X, depth+1)
			}
			return nil
		}
		k := 0
		inspectCalls(fd.Body, func(call *ast.CallExpr) {
			se, ok := unparen(call.Fun).(*ast.SelectorExpr)
			if !ok || se.Sel.Name != fd.Name.Name || len(call.Args) != 1 {
				return
			}
			ra, rb := root(se.X, 0), root(call.Args[0], 0)
			if ra == nil || rb == nil {
				return
			}
			n++
			k++
			c.Ob(rule, fmt.Sprintf("%s/%s#%d", funcKey(pk, fd), se.Sel.Name, k), call, ra == recv && rb == param, fmt.Sprintf("the delegated question %s keeps the direction of the method: receiver from %s, argument from %s", exprString(call), ra.Name(), rb.Name()))
		})
	}
	if n < 3 {
		c.Ob(rule, "xreflect/shortcuts", nil, false, fmt.Sprintf("%d delegated type questions found in xtype.ConvertibleTo / AssignableTo / Implements, at least 3 expected", n))
	}
}

// ruleConstantAccessorGuard (A2u): reflect's Int / Uint / Float / Complex / Bool accessors panic on a Value of
// another category. An accessor applied directly to the Value of a constant (`xr.ValueOf(e.Value).Uint()`) is
// accepted only where the category is established: in an arm of a switch over a Kind() / Category() expression, in
// the body of an `if` whose condition asks for the kind or category, or after an early exit on such a test.
func ruleConstantAccessorGuard(c *Ctx, rule string, short string) {
	pk := c.P.Pkg(short)
	if pk == nil {
		c.Fatal("package %s not loaded", short)
		return
	}
	info := pk.TypesInfo
	accessors := map[string]bool{"Int": true, "Uint": true, "Float": true, "Complex": true, "Bool": true}
	asksKind := func(e ast.Node) bool {
		if e == nil {
			return false
		}
		found := false
		ast.Inspect(e, func(m ast.Node) bool {
			if call, ok := m.(*ast.CallExpr); ok {
				switch f := unparen(call.Fun).(type) {
				case *ast.SelectorExpr:
					switch f.Sel.Name {
					case "Kind", "Category", "IsCategory", "KindToCategory":
						found = true
					}
				case *ast.Ident:
					switch f.Name {
					case "Category", "IsCategory":
						found = true
					}
				}
			}
			return true
		})
		return found
	}
	total, guarded := 0, 0
	for _, fd := range c.P.FuncsOf(short) {
		if fd.Body == nil {
			continue
		}
		var di *defIndex
		parent := map[ast.Node]ast.Node{}
		var stack []ast.Node
		built := false
		build := func() {
			if built {
				return
			}
			built = true
			ast.Inspect(fd.Body, func(m ast.Node) bool {
				if m == nil {
					stack = stack[:len(stack)-1]
					return true
				}
				if len(stack) > 0 {
					parent[m] = stack[len(stack)-1]
				}
				stack = append(stack, m)
				return true
			})
		}
		k := 0
		inspectCalls(fd.Body, func(call *ast.CallExpr) {
			se, ok := unparen(call.Fun).(*ast.SelectorExpr)
			if !ok || !accessors[se.Sel.Name] || len(call.Args) != 0 {
				return
			}
			inner, ok := unparen(se.X).(*ast.CallExpr)
			if !ok || len(inner.Args) != 1 {
				return
			}
			switch funcFullName(calleeOf(info, inner)) {
			case "xreflect.ValueOf", "reflect.ValueOf":
			default:
				return
			}
			vs, ok := unparen(inner.Args[0]).(*ast.SelectorExpr)
			if !ok || vs.Sel.Name != "Value" || !isNamedType(info.TypeOf(vs.X), "fast", "Expr") {
				return
			}
			total++
			build()
			if di == nil {
				di = buildDefIndex(info, fd)
			}
			// the test must be about this constant: it mentions the expression the Value is taken from, or a
			// local computed from it (yet := ye.DefaultType())
			rootID, _ := unparen(vs.X).(*ast.Ident)
			var rootObj types.Object
			if rootID != nil {
				rootObj = info.Uses[rootID]
			}
			var about func(e ast.Node, depth int) bool
			about = func(e ast.Node, depth int) bool {
				if e == nil || rootObj == nil {
					return rootObj == nil
				}
				found := false
				ast.Inspect(e, func(m ast.Node) bool {
					id, ok := m.(*ast.Ident)
					if !ok || found {
						return !found
					}
					o := info.Uses[id]
					if o == rootObj {
						found = true
					} else if depth < 3 && o != nil {
						for _, d := range di.defs[o] {
							if d != nil && about(d, depth+1) {
								found = true
							}
						}
					}
					return !found
				})
				return found
			}
			// operands: the parameters of type *Expr. A test about another operand says nothing about this one;
			// when the constant is not itself an operand parameter (call arguments converted to the callee's
			// parameter types) any kind test on the way is accepted
			isOperand := false
			for _, f := range fd.Type.Params.List {
				for _, nm := range f.Names {
					if info.Defs[nm] == rootObj && rootObj != nil {
						isOperand = true
					}
				}
			}
			asksKindOf := func(e ast.Node) bool {
				if !asksKind(e) {
					return false
				}
				return !isOperand || about(e, 0)
			}
			ok2 := false
			for p := ast.Node(call); p != nil && !ok2; p = parent[p] {
				switch x := parent[p].(type) {
				case *ast.CaseClause:
					if len(x.List) == 0 {
						break // a default arm establishes no category
					}
					if sw, ok := parent[parent[x]].(*ast.SwitchStmt); ok {
						tag := ast.Node(sw.Tag)
						if id, isId := sw.Tag.(*ast.Ident); isId {
							if d := di.single(info.Uses[id]); d != nil {
								tag = d
							}
						}
						if sw.Tag != nil && (asksKindOf(tag) || (asksKind(tag) && about(sw.Tag, 0))) {
							ok2 = true
						}
					}
				case *ast.IfStmt:
					if p == ast.Node(x.Body) && asksKindOf(x.Cond) {
						ok2 = true
					}
				case *ast.BlockStmt:
					for _, st := range x.List {
						if st == p {
							break
						}
						if ifs, ok := st.(*ast.IfStmt); ok && asksKindOf(ifs.Cond) && len(ifs.Body.List) > 0 {
							if _, isRet := ifs.Body.List[len(ifs.Body.List)-1].(*ast.ReturnStmt); isRet {
								ok2 = true
							}
						}
					}
				}
			}
			if ok2 {
				guarded++
				return
			}
			k++
			c.Ob(rule, fmt.Sprintf("%s/%s#%d", funcKey(pk, fd), se.Sel.Name, k), call, false, "the accessor "+se.Sel.Name+"() is applied to the Value of a constant whose category nothing on the way establishes: a constant of another category panics inside reflect ("+exprString(call)+")")
		})
	}
	c.Ob(rule, short+"/guarded", nil, total >= 20, fmt.Sprintf("%d accessors applied directly to a constant's Value, %d of them under a kind or category test", total, guarded))
}

// ruleCurrentFrameDepth (N8): the debugger compares call depths of the frame that is current (Run.CurrEnv). Frames
// are recycled through a pool and freeEnv does not reset CallDepth, so a function that makes a fresh or recycled
// frame current (assigns a local frame to Run.CurrEnv and returns it) must assign that frame's CallDepth itself.
func ruleCurrentFrameDepth(c *Ctx, rule string) {
	pk := c.P.Pkg("fast")
	if pk == nil {
		c.Fatal("package fast not loaded")
		return
	}
	info := pk.TypesInfo
	n := 0
	for _, fd := range c.P.FuncsOf("fast") {
		if fd.Body == nil || fd.Type.Results == nil {
			continue
		}
		locals := map[types.Object]bool{}
		ast.Inspect(fd.Body, func(nd ast.Node) bool {
			as, ok := nd.(*ast.AssignStmt)
			if !ok || len(as.Lhs) != 1 || len(as.Rhs) != 1 || fieldOfStruct(info, as.Lhs[0], "fast", "Run") != "CurrEnv" {
				return true
			}
			if id, ok := unparen(as.Rhs[0]).(*ast.Ident); ok {
				if v, ok := info.Uses[id].(*types.Var); ok && v.Pos() > fd.Body.Pos() {
					locals[v] = true
				}
			}
			return true
		})
		for v := range locals {
			returned, assigned := false, false
			ast.Inspect(fd.Body, func(nd ast.Node) bool {
				switch x := nd.(type) {
				case *ast.ReturnStmt:
					for _, r := range x.Results {
						if id, ok := unparen(r).(*ast.Ident); ok && info.Uses[id] == v {
							returned = true
						}
					}
				case *ast.AssignStmt:
					for _, l := range x.Lhs {
						if se, ok := unparen(l).(*ast.SelectorExpr); ok && se.Sel.Name == "CallDepth" {
							if id, ok := unparen(se.X).(*ast.Ident); ok && info.Uses[id] == v {
								assigned = true
							}
						}
					}
				}
				return true
			})
			if !returned {
				continue
			}
			n++
			c.Ob(rule, funcKey(pk, fd)+"/"+v.Name(), fd, assigned, "the frame made current and returned has its CallDepth assigned here (a recycled frame keeps the depth of its previous use)")
		}
	}
	if n < 2 {
		c.Ob(rule, "fast/allocators", nil, false, fmt.Sprintf("%d functions make a new frame current, at least 2 expected (NewEnv, newEnv4Func)", n))
	}
}

// ruleReleaseIntoOwnRun (O4): a frame is returned to the pool of the Run it was taken from, which is recorded in
// the frame itself. The release functions of Env hand env.freeEnv the Run read from the receiver's own Run field,
// not from another frame of the chain (Outer, Caller, FileEnv), which may belong to another goroutine.
func ruleReleaseIntoOwnRun(c *Ctx, rule string) {
	pk := c.P.Pkg("fast")
	if pk == nil {
		c.Fatal("package fast not loaded")
		return
	}
	info := pk.TypesInfo
	n := 0
	for _, fd := range c.P.FuncsOf("fast") {
		if fd.Body == nil || fd.Recv == nil || len(fd.Recv.List) != 1 || len(fd.Recv.List[0].Names) != 1 {
			continue
		}
		recv := info.Defs[fd.Recv.List[0].Names[0]]
		var di *defIndex
		inspectCalls(fd.Body, func(call *ast.CallExpr) {
			if funcFullName(calleeOf(info, call)) != "fast.Env.freeEnv" || len(call.Args) != 1 {
				return
			}
			se, ok := unparen(call.Fun).(*ast.SelectorExpr)
			if !ok {
				return
			}
			if id, ok := unparen(se.X).(*ast.Ident); !ok || info.Uses[id] != recv {
				return
			}
			if di == nil {
				di = buildDefIndex(info, fd)
			}
			n++
			arg := unparen(call.Args[0])
			if id, ok := arg.(*ast.Ident); ok {
				if d := di.single(info.Uses[id]); d != nil {
					arg = unparen(d)
				}
			}
			good := false
			if s2, ok := arg.(*ast.SelectorExpr); ok && s2.Sel.Name == "Run" {
				if id, ok := unparen(s2.X).(*ast.Ident); ok && info.Uses[id] == recv {
					good = true
				}
			}
			c.Ob(rule, funcKey(pk, fd)+"/release", call, good, "the frame is released into the Run recorded in the frame itself ("+exprString(arg)+")")
		})
	}
	if n < 2 {
		c.Ob(rule, "fast/releases", nil, false, fmt.Sprintf("%d release functions found, at least 2 expected (FreeEnv, freeEnv4Func)", n))
	}
}

// ruleSavedEntryRestored (T1s): a declaration that remembers the previous entry of a registry map
// (`old := c.Types[name]`) and has a deferred rollback that deletes the name on failure must also put the remembered
// entry back in that rollback (`c.Types[name] = old`): deleting -- or leaving the half-built new entry -- where a
// definition existed before makes a failed redefinition destroy the earlier one.
func ruleSavedEntryRestored(c *Ctx, rule string) {
	pk := c.P.Pkg("fast")
	if pk == nil {
		c.Fatal("package fast not loaded")
		return
	}
	info := pk.TypesInfo
	n := 0
	for _, fd := range c.P.FuncsOf("fast") {
		if fd.Body == nil {
			continue
		}
		// saved entries: local := <sel>.<Field>[key] with Field a map
		type saved struct {
			obj types.Object
			m   string // printed map expression
		}
		var saves []saved
		for _, st := range fd.Body.List {
			as, ok := st.(*ast.AssignStmt)
			if !ok || as.Tok != token.DEFINE || len(as.Lhs) != 1 || len(as.Rhs) != 1 {
				continue
			}
			ix, ok := unparen(as.Rhs[0]).(*ast.IndexExpr)
			if !ok {
				continue
			}
			if _, isMap := info.TypeOf(ix.X).Underlying().(*types.Map); !isMap {
				continue
			}
			if _, isSel := unparen(ix.X).(*ast.SelectorExpr); !isSel {
				continue
			}
			if id, ok := as.Lhs[0].(*ast.Ident); ok && info.Defs[id] != nil {
				saves = append(saves, saved{info.Defs[id], exprString(ix.X)})
			}
		}
		if len(saves) == 0 {
			continue
		}
		ast.Inspect(fd.Body, func(nd ast.Node) bool {
			ds, ok := nd.(*ast.DeferStmt)
			if !ok {
				return true
			}
			lit, ok := unparen(ds.Call.Fun).(*ast.FuncLit)
			if !ok {
				return true
			}
			for _, sv := range saves {
				deletes, restores := false, false
				ast.Inspect(lit.Body, func(m ast.Node) bool {
					switch x := m.(type) {
					case *ast.CallExpr:
						if id, ok := x.Fun.(*ast.Ident); ok && id.Name == "delete" && len(x.Args) == 2 && exprString(x.Args[0]) == sv.m {
							deletes = true
						}
					case *ast.AssignStmt:
						if len(x.Lhs) == 1 && len(x.Rhs) == 1 {
							if ix, ok := unparen(x.Lhs[0]).(*ast.IndexExpr); ok && exprString(ix.X) == sv.m {
								if id, ok := unparen(x.Rhs[0]).(*ast.Ident); ok && info.Uses[id] == sv.obj {
									restores = true
								}
							}
						}
					}
					return true
				})
				if !deletes {
					continue
				}
				n++
				c.Ob(rule, funcKey(pk, fd)+"/"+sv.obj.Name(), ds, restores, "the rollback that deletes the name from "+sv.m+" also stores the remembered entry "+sv.obj.Name()+" back")
			}
			return true
		})
	}
	if n < 2 {
		c.Ob(rule, "fast/rollbacks", nil, false, fmt.Sprintf("%d rollbacks over a remembered registry entry found, at least 2 expected", n))
	}
}

// ruleReceiverAdjustmentPairs (M8): when a method is reached through embedded fields the receiver may have to be
// addressed (value found, pointer receiver) or dereferenced (pointer found, value receiver). The two cases are
// computed as a mutually exclusive pair of flags (`a := !p && q`, `d := p && !q`, or the pair returned by the
// function that computes them). Every run-time closure that applies the first adjustment under `if a` applies the
// second in its `else if d`: an arm without it calls a value-receiver method with a pointer.
func ruleReceiverAdjustmentPairs(c *Ctx, rule string) {
	pk := c.P.Pkg("fast")
	if pk == nil {
		c.Fatal("package fast not loaded")
		return
	}
	info := pk.TypesInfo
	// producers: functions whose named bool results are defined as the exclusive pair
	isPair := func(a, d ast.Expr) bool {
		ba, ok1 := unparen(a).(*ast.BinaryExpr)
		bd, ok2 := unparen(d).(*ast.BinaryExpr)
		if !ok1 || !ok2 || ba.Op != token.LAND || bd.Op != token.LAND {
			return false
		}
		neg := func(e ast.Expr) (string, bool) {
			if u, ok := unparen(e).(*ast.UnaryExpr); ok && u.Op == token.NOT {
				return exprString(u.X), true
			}
			return exprString(e), false
		}
		ax, axn := neg(ba.X)
		ay, ayn := neg(ba.Y)
		dx, dxn := neg(bd.X)
		dy, dyn := neg(bd.Y)
		return ax == dx && ay == dy && axn != dxn && ayn != dyn && axn != ayn
	}
	type pair struct{ a, d types.Object }
	producers := map[*types.Func][2]int{} // result indexes of the pair
	localPairs := map[*ast.FuncDecl][]pair{}
	for _, fd := range c.P.FuncsOf("fast") {
		if fd.Body == nil {
			continue
		}
		defs := map[types.Object]ast.Expr{}
		ast.Inspect(fd.Body, func(nd ast.Node) bool {
			if as, ok := nd.(*ast.AssignStmt); ok && len(as.Lhs) == len(as.Rhs) {
				for i, l := range as.Lhs {
					if id, ok := l.(*ast.Ident); ok && info.ObjectOf(id) != nil && isBoolType(info.ObjectOf(id).Type()) {
						if _, seen := defs[info.ObjectOf(id)]; !seen {
							defs[info.ObjectOf(id)] = as.Rhs[i]
						}
					}
				}
			}
			return true
		})
		for a, ea := range defs {
			for d, ed := range defs {
				if a != d && isPair(ea, ed) {
					if ua, ok := unparen(ea).(*ast.BinaryExpr); ok {
						if _, firstNeg := unparen(ua.X).(*ast.UnaryExpr); firstNeg {
							localPairs[fd] = append(localPairs[fd], pair{a, d})
							// named results?
							if fd.Type.Results != nil {
								idx := 0
								ia, id2 := -1, -1
								for _, f := range fd.Type.Results.List {
									for _, nm := range f.Names {
										if info.Defs[nm] == a {
											ia = idx
										}
										if info.Defs[nm] == d {
											id2 = idx
										}
										idx++
									}
								}
								if ia >= 0 && id2 >= 0 {
									if fn, ok := info.Defs[fd.Name].(*types.Func); ok {
										producers[fn] = [2]int{ia, id2}
									}
								}
							}
						}
					}
				}
			}
		}
	}
	n := 0
	for _, fd := range c.P.FuncsOf("fast") {
		if fd.Body == nil {
			continue
		}
		pairs := append([]pair{}, localPairs[fd]...)
		ast.Inspect(fd.Body, func(nd ast.Node) bool {
			as, ok := nd.(*ast.AssignStmt)
			if !ok || len(as.Rhs) != 1 {
				return true
			}
			call, ok := unparen(as.Rhs[0]).(*ast.CallExpr)
			if !ok {
				return true
			}
			if idx, ok := producers[calleeOf(info, call)]; ok && len(as.Lhs) > idx[0] && len(as.Lhs) > idx[1] {
				ia, ok1 := as.Lhs[idx[0]].(*ast.Ident)
				id2, ok2 := as.Lhs[idx[1]].(*ast.Ident)
				if ok1 && ok2 && info.ObjectOf(ia) != nil && info.ObjectOf(id2) != nil {
					pairs = append(pairs, pair{info.ObjectOf(ia), info.ObjectOf(id2)})
				}
			}
			return true
		})
		if len(pairs) == 0 {
			continue
		}
		k := 0
		ast.Inspect(fd.Body, func(nd ast.Node) bool {
			ifs, ok := nd.(*ast.IfStmt)
			if !ok {
				return true
			}
			id, ok := unparen(ifs.Cond).(*ast.Ident)
			if !ok {
				return true
			}
			for _, p := range pairs {
				if info.Uses[id] != p.a {
					continue
				}
				// only inside run-time closures
				n++
				k++
				good := false
				if e, ok := ifs.Else.(*ast.IfStmt); ok {
					if eid, ok := unparen(e.Cond).(*ast.Ident); ok && info.Uses[eid] == p.d {
						good = true
					}
				}
				c.Ob(rule, fmt.Sprintf("%s/adjust#%d", funcKey(pk, fd), k), ifs, good, "the receiver adjustment under `if "+p.a.Name()+"` is paired with `else if "+p.d.Name()+"`")
			}
			return true
		})
	}
	if n < 4 {
		c.Ob(rule, "fast/adjustments", nil, false, fmt.Sprintf("%d receiver adjustments found, at least 4 expected", n))
	}
}

// ruleBreakpointRedirect (B3r): after the debugger answered a breakpoint with anything but "continue", execution
// goes on through Run.Interrupt (the single-stepping statement). In Comp.breakpoint the redirection
// `stmt = run.Interrupt` is guarded by the debugger's answer alone (one comparison with base.SigNone).
func ruleBreakpointRedirect(c *Ctx, rule string) {
	pk := c.P.Pkg("fast")
	fd := c.P.Func("fast.Comp.breakpoint")
	if pk == nil || fd == nil || fd.Body == nil {
		c.Ob(rule, "fast.Comp.breakpoint", nil, false, "anchor function not found")
		return
	}
	info := pk.TypesInfo
	n := 0
	ast.Inspect(fd.Body, func(nd ast.Node) bool {
		ifs, ok := nd.(*ast.IfStmt)
		if !ok {
			return true
		}
		for _, st := range ifs.Body.List {
			as, ok := st.(*ast.AssignStmt)
			if !ok || len(as.Lhs) != 1 || len(as.Rhs) != 1 || fieldOfStruct(info, as.Rhs[0], "fast", "Run") != "Interrupt" {
				continue
			}
			n++
			atoms := andAtoms(ifs.Cond)
			good := false
			if len(atoms) == 1 {
				if be, ok := unparen(atoms[0]).(*ast.BinaryExpr); ok && be.Op == token.NEQ {
					for _, side := range []ast.Expr{be.X, be.Y} {
						if o := usedObj(info, side); o != nil && o.Name() == "SigNone" {
							good = true
						}
					}
				}
			}
			c.Ob(rule, fmt.Sprintf("fast.Comp.breakpoint/redirect#%d", n), ifs, good, "execution continues through Run.Interrupt whenever the debugger's answer is not SigNone (condition: "+exprString(ifs.Cond)+")")
		}
		return true
	})
	if n == 0 {
		c.Ob(rule, "fast.Comp.breakpoint/redirect", fd, false, "no redirection to Run.Interrupt found: anchor missing")
	}
}

// ruleIndexAdmission (I2): Go accepts an index of any integer type, for reading and for assigning. The compilers
// of an indexed operand (those that report "non-integer ... index") admit the index by its category -- a test
// that names Int and Uint -- and never by assignability to int, which rejects uint8, int64 ... for `a[i] = v`
// while `a[i]` is accepted.
func ruleIndexAdmission(c *Ctx, rule string) {
	pk := c.P.Pkg("fast")
	if pk == nil {
		c.Fatal("package fast not loaded")
		return
	}
	info := pk.TypesInfo
	n := 0
	for _, fd := range c.P.FuncsOf("fast") {
		if fd.Body == nil || baseName(pk.Fset, fd) != "index.go" {
			continue
		}
		// the statement that reports a non-integer index
		ast.Inspect(fd.Body, func(nd ast.Node) bool {
			ifs, ok := nd.(*ast.IfStmt)
			if !ok {
				return true
			}
			reports := func(b *ast.BlockStmt) bool {
				r := false
				inspectCalls(b, func(call *ast.CallExpr) {
					if fn := calleeOf(info, call); fn != nil && fn.Name() == "Errorf" && len(call.Args) > 0 {
						if s, ok := constString(info, call.Args[0]); ok && strings.Contains(s, "non-integer") && strings.Contains(s, "index") {
							r = true
						}
					}
				})
				return r
			}
			var cond ast.Expr
			if reports(ifs.Body) {
				cond = ifs.Cond
			} else if blk, ok := ifs.Else.(*ast.BlockStmt); ok && reports(blk) {
				cond = ifs.Cond
			}
			if cond == nil {
				return true
			}
			n++
			byCategory, byAssignability := false, false
			ast.Inspect(cond, func(m ast.Node) bool {
				switch x := m.(type) {
				case *ast.CallExpr:
					if fn := calleeOf(info, x); fn != nil {
						switch fn.Name() {
						case "AssignableTo":
							byAssignability = true
						case "IsCategory", "Category":
							byCategory = true
						}
					}
				case *ast.Ident:
					// cat := reflect.Category(k) tested as cat == r.Int || cat == r.Uint
					if d := buildDefIndex(info, fd).single(info.Uses[x]); d != nil {
						if call, ok := unparen(d).(*ast.CallExpr); ok {
							if fn := calleeOf(info, call); fn != nil && fn.Name() == "Category" {
								byCategory = true
							}
						}
					}
				}
				return true
			})
			c.Ob(rule, funcKey(pk, fd)+"/admission", ifs, byCategory && !byAssignability, fmt.Sprintf("the index is admitted by its integer category (%v), not by assignability to int (%v)", byCategory, byAssignability))
			return true
		})
	}
	if n < 3 {
		c.Ob(rule, "fast/index-admissions", nil, false, fmt.Sprintf("%d index admissions found, at least 3 expected (vectorIndex, vectorPlace, vectorPtrPlace)", n))
	}
}
