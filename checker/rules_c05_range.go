package main

// G1 — range places. The key and value a for-range statement assigns to are places chosen by user
// code (rangeVars resolves them). Go assigns them at the beginning of each iteration and never reads
// them: the loop is driven by hidden state. In the compile functions this is visible as a shape:
//   * a place returned by rangeVars is only tested (== nil, IsVar, field reads that select a storing
//     strategy) or passed as the destination of c.SetPlace(p, token.ASSIGN, ...): it is never read
//     (GetPlace), updated in place (SetPlace with another operator), handed to another function, or
//     re-bound to a variable the loop itself declares;
//   * every such assignment is emitted after the loop's exit test (a statement closure that can jump
//     to jump.Break) and after jump.Start, so that a loop that ends leaves the places as the last
//     iteration set them;
//   * a closure that stores into the variable directly does so in the branch that continues the loop,
//     the other branch being the jump to jump.Break.

import (
	"fmt"
	"go/ast"
	"go/token"
	"go/types"
)

func ruleRangePlaces(c *Ctx, rule string) {
	pk := c.P.Pkg("fast")
	if pk == nil {
		c.Fatal("package fast not loaded")
		return
	}
	info := pk.TypesInfo
	nfun := 0
	for _, f := range pk.Syntax {
		for _, d := range f.Decls {
			fd, ok := d.(*ast.FuncDecl)
			if !ok || fd.Body == nil {
				continue
			}
			places := map[types.Object]bool{}
			ast.Inspect(fd.Body, func(n ast.Node) bool {
				as, ok := n.(*ast.AssignStmt)
				if !ok || len(as.Rhs) != 1 {
					return true
				}
				call, ok := unparen(as.Rhs[0]).(*ast.CallExpr)
				if !ok {
					return true
				}
				if fn := calleeOf(info, call); fn == nil || funcFullName(fn) != "fast.Comp.rangeVars" {
					return true
				}
				for _, l := range as.Lhs {
					if id := identOf(l); id != nil && id.Name != "_" {
						if o := info.Defs[id]; o != nil {
							places[o] = true
						} else if o := info.Uses[id]; o != nil {
							places[o] = true
						}
					}
				}
				return true
			})
			if len(places) == 0 {
				continue
			}
			nfun++
			fkey := funcKey(pk, fd)
			di := buildDefIndex(info, fd)
			// the *rangeJump of this loop: the parameter or local of that type
			isJumpField := func(e ast.Expr, field string) bool {
				s, ok := unparen(e).(*ast.SelectorExpr)
				if !ok || s.Sel.Name != field {
					return false
				}
				t := info.TypeOf(s.X)
				return t != nil && (isNamedType(t, "fast", "rangeJump"))
			}
			mentionsBreak := func(n ast.Node) bool {
				found := false
				ast.Inspect(n, func(x ast.Node) bool {
					if e, ok := x.(ast.Expr); ok && isJumpField(e, "Break") {
						found = true
					}
					return !found
				})
				return found
			}
			exitAppend := func(st ast.Stmt) bool {
				es, ok := st.(*ast.ExprStmt)
				if !ok {
					return false
				}
				call, ok := es.X.(*ast.CallExpr)
				if !ok || len(call.Args) == 0 {
					return false
				}
				fn := calleeOf(info, call)
				if fn == nil || (funcFullName(fn) != "fast.Comp.append" && funcFullName(fn) != "fast.Comp.Append") {
					return false
				}
				lit, ok := unparen(call.Args[0]).(*ast.FuncLit)
				return ok && mentionsBreak(lit.Body)
			}
			var mustExit func(st ast.Stmt) bool
			mustExitList := func(l []ast.Stmt) bool {
				for _, st := range l {
					if mustExit(st) {
						return true
					}
				}
				return false
			}
			mustExit = func(st ast.Stmt) bool {
				switch x := st.(type) {
				case *ast.ExprStmt:
					return exitAppend(x)
				case *ast.BlockStmt:
					return mustExitList(x.List)
				case *ast.IfStmt:
					if x.Else == nil {
						return false
					}
					return mustExitList(x.Body.List) && mustExit(x.Else)
				}
				return false
			}
			isStartAssign := func(st ast.Stmt) bool {
				as, ok := st.(*ast.AssignStmt)
				if !ok {
					return false
				}
				for _, l := range as.Lhs {
					if isJumpField(l, "Start") {
						return true
					}
				}
				return false
			}
			// afterExitTest: walking outwards from st, an exit test is emitted on every path before it and after jump.Start
			afterExitTest := func(target ast.Node) (bool, string) {
				var stack []ast.Node
				var path []ast.Node
				ast.Inspect(fd.Body, func(n ast.Node) bool {
					if n == nil {
						stack = stack[:len(stack)-1]
						return true
					}
					stack = append(stack, n)
					if n == target {
						path = append([]ast.Node(nil), stack...)
						return false
					}
					return path == nil
				})
				for i := len(path) - 1; i > 0; i-- {
					blk, ok := path[i-1].(*ast.BlockStmt)
					if !ok {
						continue
					}
					for j := len(blk.List) - 1; j >= 0; j-- {
						if blk.List[j].Pos() >= path[i].Pos() {
							continue
						}
						if mustExit(blk.List[j]) {
							return true, "after the exit test at " + c.pos(blk.List[j])
						}
						if isStartAssign(blk.List[j]) {
							return false, "no exit test between jump.Start and the assignment"
						}
					}
				}
				return false, "no exit test before the assignment"
			}
			// uses of each place
			var stack []ast.Node
			seq := map[string]int{}
			key := func(o types.Object, what string) string {
				k := fkey + "/" + o.Name() + "/" + what
				seq[k]++
				if seq[k] > 1 {
					k += fmt.Sprintf("#%d", seq[k])
				}
				return k
			}
			ast.Inspect(fd.Body, func(n ast.Node) bool {
				if n == nil {
					stack = stack[:len(stack)-1]
					return true
				}
				stack = append(stack, n)
				id, ok := n.(*ast.Ident)
				if !ok {
					return true
				}
				o := info.Uses[id]
				if o == nil || !places[o] {
					return true
				}
				var parent ast.Node
				for i := len(stack) - 2; i >= 0; i-- {
					if _, ok := stack[i].(*ast.ParenExpr); !ok {
						parent = stack[i]
						break
					}
				}
				switch p := parent.(type) {
				case *ast.BinaryExpr:
					if (p.Op == token.EQL || p.Op == token.NEQ) && (isNilIdent(info, p.X) || isNilIdent(info, p.Y)) {
						return true
					}
					c.Ob(rule, key(o, "use"), id, false, "place of the range statement used in an expression other than a nil test")
				case *ast.SelectorExpr:
					// field read or method of the place itself: selects how to store, does not read the variable
					return true
				case *ast.AssignStmt:
					for _, l := range p.Lhs {
						if l == ast.Expr(id) {
							if len(p.Rhs) == 1 {
								if call, ok := unparen(p.Rhs[0]).(*ast.CallExpr); ok {
									if fn := calleeOf(info, call); fn != nil && funcFullName(fn) == "fast.Comp.rangeVars" {
										return true
									}
								}
							}
							c.Ob(rule, key(o, "rebound"), id, false, "the place returned by rangeVars is re-bound: the loop machinery and user code must not share a variable (the user's key would drive the loop)")
							return true
						}
					}
					c.Ob(rule, key(o, "use"), id, false, "place of the range statement copied to another variable")
				case *ast.CallExpr:
					fn := calleeOf(info, p)
					if fn != nil && funcFullName(fn) == "fast.Comp.SetPlace" && len(p.Args) == 3 && unparen(p.Args[0]) == ast.Expr(id) {
						op := objQName(usedObj(info, p.Args[1]))
						if op != "go/token.ASSIGN" {
							c.Ob(rule, key(o, "update"), p, false, "user's range variable updated in place with "+op+": the loop must be driven by hidden state, the variable is only assigned")
							return true
						}
						ok, why := afterExitTest(p)
						c.Ob(rule, key(o, "assign"), p, ok, "assignment of the range variable "+why)
						return true
					}
					name := "a function value"
					if fn != nil {
						name = funcFullName(fn)
					}
					c.Ob(rule, key(o, "use"), p, false, "place of the range statement passed to "+name+": it may only be the destination of SetPlace(p, token.ASSIGN, ...)")
				default:
					c.Ob(rule, key(o, "use"), id, false, fmt.Sprintf("place of the range statement used in %T", parent))
				}
				return true
			})
			// direct stores
			ast.Inspect(fd.Body, func(n ast.Node) bool {
				lit, ok := n.(*ast.FuncLit)
				if !ok {
					return true
				}
				var st []ast.Node
				ast.Inspect(lit.Body, func(x ast.Node) bool {
					if x == nil {
						st = st[:len(st)-1]
						return true
					}
					st = append(st, x)
					ix, ok := x.(*ast.IndexExpr)
					if !ok {
						return true
					}
					_, idx, isInts := intsAccess(info, ix)
					if !isInts {
						if _, idx2, ok := valsAccess(info, ix); ok {
							idx = idx2
						} else {
							return true
						}
					}
					r := di.nearRoot(info, idx, 0)
					if r == nil || !places[r] {
						return true
					}
					good, why := false, "the store is not inside an if whose other branch jumps to jump.Break"
					for i := len(st) - 1; i >= 0; i-- {
						ifs, ok := st[i].(*ast.IfStmt)
						if !ok {
							continue
						}
						inThen := containsNode(ifs.Body, ix)
						if inThen && ifs.Else != nil && mentionsBreak(ifs.Else) && !mentionsBreak(ifs.Body) {
							good, why = true, "stored in the branch that continues the loop"
						} else if !inThen && ifs.Else != nil && containsNode(ifs.Else, ix) && mentionsBreak(ifs.Body) && !mentionsBreak(ifs.Else) {
							good, why = true, "stored in the branch that continues the loop"
						}
						break
					}
					c.Ob(rule, key(r, "store"), ix, good, "direct store into the user's range variable: "+why)
					return true
				})
				return false
			})
		}
	}
	if nfun == 0 {
		c.Ob(rule, "fast/rangeVars", nil, false, "no function calls rangeVars: the anchor of the rule is gone")
	}
}

func isNilIdent(info *types.Info, e ast.Expr) bool {
	id := identOf(e)
	if id == nil {
		return false
	}
	_, ok := info.Uses[id].(*types.Nil)
	return ok
}
