package main

// G1 — range places. The key and value a for-range statement assigns to are places chosen by user
// code (rangeVars resolves them). Go assigns them at the beginning of each iteration and never reads
// them: the loop is driven by hidden state. In the compile functions this is visible as a shape:
//   * a place returned by rangeVars is only tested (== nil, IsVar, field reads that select a storing
//     strategy) or passed as the destination of c.SetPlace(p, token.ASSIGN, ...): it is never read
//     (GetPlace), updated in place (SetPlace with another operator), handed to another function, or
//     re-bound to a variable the loop itself declares;
//   * every such assignment is emitted after the loop's exit test (a statement closure that can jump
//     to jump.Break) and after jump.Start, so that a loop that ends leaves the places as the last
//     iteration set them;
//   * a closure that stores into the variable directly does so in the branch that continues the loop,
//     the other branch being the jump to jump.Break.

import (
	"fmt"
	"go/ast"
	"go/token"
	"go/types"
	"sort"
	"strings"
)

func ruleRangePlaces(c *Ctx, rule string) {
	pk := c.P.Pkg("fast")
	if pk == nil {
		c.Fatal("package fast not loaded")
		return
	}
	info := pk.TypesInfo
	nfun := 0
	for _, f := range pk.Syntax {
		for _, d := range f.Decls {
			fd, ok := d.(*ast.FuncDecl)
			if !ok || fd.Body == nil {
				continue
			}
			places := map[types.Object]bool{}
			ast.Inspect(fd.Body, func(n ast.Node) bool {
				as, ok := n.(*ast.AssignStmt)
				if !ok || len(as.Rhs) != 1 {
					return true
				}
				call, ok := unparen(as.Rhs[0]).(*ast.CallExpr)
				if !ok {
					return true
				}
				if fn := calleeOf(info, call); fn == nil || funcFullName(fn) != "fast.Comp.rangeVars" {
					return true
				}
				for _, l := range as.Lhs {
					if id := identOf(l); id != nil && id.Name != "_" {
						if o := info.Defs[id]; o != nil {
							places[o] = true
						} else if o := info.Uses[id]; o != nil {
							places[o] = true
						}
					}
				}
				return true
			})
			if len(places) == 0 {
				continue
			}
			nfun++
			fkey := funcKey(pk, fd)
			di := buildDefIndex(info, fd)
			// the *rangeJump of this loop: the parameter or local of that type
			isJumpField := func(e ast.Expr, field string) bool {
				s, ok := unparen(e).(*ast.SelectorExpr)
				if !ok || s.Sel.Name != field {
					return false
				}
				t := info.TypeOf(s.X)
				return t != nil && (isNamedType(t, "fast", "rangeJump"))
			}
			mentionsBreak := func(n ast.Node) bool {
				found := false
				ast.Inspect(n, func(x ast.Node) bool {
					if e, ok := x.(ast.Expr); ok && isJumpField(e, "Break") {
						found = true
					}
					return !found
				})
				return found
			}
			exitAppend := func(st ast.Stmt) bool {
				es, ok := st.(*ast.ExprStmt)
				if !ok {
					return false
				}
				call, ok := es.X.(*ast.CallExpr)
				if !ok || len(call.Args) == 0 {
					return false
				}
				fn := calleeOf(info, call)
				if fn == nil || (funcFullName(fn) != "fast.Comp.append" && funcFullName(fn) != "fast.Comp.Append") {
					return false
				}
				lit, ok := unparen(call.Args[0]).(*ast.FuncLit)
				return ok && mentionsBreak(lit.Body)
			}
			var mustExit func(st ast.Stmt) bool
			mustExitList := func(l []ast.Stmt) bool {
				for _, st := range l {
					if mustExit(st) {
						return true
					}
				}
				return false
			}
			mustExit = func(st ast.Stmt) bool {
				switch x := st.(type) {
				case *ast.ExprStmt:
					return exitAppend(x)
				case *ast.BlockStmt:
					return mustExitList(x.List)
				case *ast.IfStmt:
					if x.Else == nil {
						return false
					}
					return mustExitList(x.Body.List) && mustExit(x.Else)
				}
				return false
			}
			isStartAssign := func(st ast.Stmt) bool {
				as, ok := st.(*ast.AssignStmt)
				if !ok {
					return false
				}
				for _, l := range as.Lhs {
					if isJumpField(l, "Start") {
						return true
					}
				}
				return false
			}
			// afterExitTest: walking outwards from st, an exit test is emitted on every path before it and after jump.Start
			afterExitTest := func(target ast.Node) (bool, string) {
				var stack []ast.Node
				var path []ast.Node
				ast.Inspect(fd.Body, func(n ast.Node) bool {
					if n == nil {
						stack = stack[:len(stack)-1]
						return true
					}
					stack = append(stack, n)
					if n == target {
						path = append([]ast.Node(nil), stack...)
						return false
					}
					return path == nil
				})
				for i := len(path) - 1; i > 0; i-- {
					blk, ok := path[i-1].(*ast.BlockStmt)
					if !ok {
						continue
					}
					for j := len(blk.List) - 1; j >= 0; j-- {
						if blk.List[j].Pos() >= path[i].Pos() {
							continue
						}
						if mustExit(blk.List[j]) {
							return true, "after the exit test at " + c.pos(blk.List[j])
						}
						if isStartAssign(blk.List[j]) {
							return false, "no exit test between jump.Start and the assignment"
						}
					}
				}
				return false, "no exit test before the assignment"
			}
			// uses of each place
			var stack []ast.Node
			seq := map[string]int{}
			key := func(o types.Object, what string) string {
				k := fkey + "/" + o.Name() + "/" + what
				seq[k]++
				if seq[k] > 1 {
					k += fmt.Sprintf("#%d", seq[k])
				}
				return k
			}
			ast.Inspect(fd.Body, func(n ast.Node) bool {
				if n == nil {
					stack = stack[:len(stack)-1]
					return true
				}
				stack = append(stack, n)
				id, ok := n.(*ast.Ident)
				if !ok {
					return true
				}
				o := info.Uses[id]
				if o == nil || !places[o] {
					return true
				}
				var parent ast.Node
				for i := len(stack) - 2; i >= 0; i-- {
					if _, ok := stack[i].(*ast.ParenExpr); !ok {
						parent = stack[i]
						break
					}
				}
				switch p := parent.(type) {
				case *ast.BinaryExpr:
					if (p.Op == token.EQL || p.Op == token.NEQ) && (isNilIdent(info, p.X) || isNilIdent(info, p.Y)) {
						return true
					}
					c.Ob(rule, key(o, "use"), id, false, "place of the range statement used in an expression other than a nil test")
				case *ast.SelectorExpr:
					// field read or method of the place itself: selects how to store, does not read the variable
					return true
				case *ast.AssignStmt:
					for _, l := range p.Lhs {
						if l == ast.Expr(id) {
							if len(p.Rhs) == 1 {
								if call, ok := unparen(p.Rhs[0]).(*ast.CallExpr); ok {
									if fn := calleeOf(info, call); fn != nil && funcFullName(fn) == "fast.Comp.rangeVars" {
										return true
									}
								}
							}
							c.Ob(rule, key(o, "rebound"), id, false, "the place returned by rangeVars is re-bound: the loop machinery and user code must not share a variable (the user's key would drive the loop)")
							return true
						}
					}
					c.Ob(rule, key(o, "use"), id, false, "place of the range statement copied to another variable")
				case *ast.CallExpr:
					fn := calleeOf(info, p)
					if fn != nil && funcFullName(fn) == "fast.Comp.SetPlace" && len(p.Args) == 3 && unparen(p.Args[0]) == ast.Expr(id) {
						op := objQName(usedObj(info, p.Args[1]))
						if op != "go/token.ASSIGN" {
							c.Ob(rule, key(o, "update"), p, false, "user's range variable updated in place with "+op+": the loop must be driven by hidden state, the variable is only assigned")
							return true
						}
						ok, why := afterExitTest(p)
						c.Ob(rule, key(o, "assign"), p, ok, "assignment of the range variable "+why)
						return true
					}
					name := "a function value"
					if fn != nil {
						name = funcFullName(fn)
					}
					c.Ob(rule, key(o, "use"), p, false, "place of the range statement passed to "+name+": it may only be the destination of SetPlace(p, token.ASSIGN, ...)")
				default:
					c.Ob(rule, key(o, "use"), id, false, fmt.Sprintf("place of the range statement used in %T", parent))
				}
				return true
			})
			// direct stores
			ast.Inspect(fd.Body, func(n ast.Node) bool {
				lit, ok := n.(*ast.FuncLit)
				if !ok {
					return true
				}
				var st []ast.Node
				ast.Inspect(lit.Body, func(x ast.Node) bool {
					if x == nil {
						st = st[:len(st)-1]
						return true
					}
					st = append(st, x)
					ix, ok := x.(*ast.IndexExpr)
					if !ok {
						return true
					}
					_, idx, isInts := intsAccess(info, ix)
					if !isInts {
						if _, idx2, ok := valsAccess(info, ix); ok {
							idx = idx2
						} else {
							return true
						}
					}
					r := di.nearRoot(info, idx, 0)
					if r == nil || !places[r] {
						return true
					}
					good, why := false, "the store is not inside an if whose other branch jumps to jump.Break"
					for i := len(st) - 1; i >= 0; i-- {
						ifs, ok := st[i].(*ast.IfStmt)
						if !ok {
							continue
						}
						inThen := containsNode(ifs.Body, ix)
						if inThen && ifs.Else != nil && mentionsBreak(ifs.Else) && !mentionsBreak(ifs.Body) {
							good, why = true, "stored in the branch that continues the loop"
						} else if !inThen && ifs.Else != nil && containsNode(ifs.Else, ix) && mentionsBreak(ifs.Body) && !mentionsBreak(ifs.Else) {
							good, why = true, "stored in the branch that continues the loop"
						}
						break
					}
					c.Ob(rule, key(r, "store"), ix, good, "direct store into the user's range variable: "+why)
					return true
				})
				return false
			})
		}
	}
	if nfun == 0 {
		c.Ob(rule, "fast/rangeVars", nil, false, "no function calls rangeVars: the anchor of the rule is gone")
	}
}

func isNilIdent(info *types.Info, e ast.Expr) bool {
	id := identOf(e)
	if id == nil {
		return false
	}
	_, ok := info.Uses[id].(*types.Nil)
	return ok
}

// S2 — the closed-channel flag of select. reflect.Select reports whether a received value was sent (recvOK):
// the received value itself is a valid zero value when the channel is closed, so the flag is the only
// source for `v, ok := <-ch` in a select case. Decided: the third result of Select is bound and stored in a
// slot of its own by the statement that runs the select; every boolean expression selectCase compiles for
// the second variable of a receive reads that slot (through the parameter the slot's bind is passed in),
// not the slot of the received value.
func ruleSelectRecvOK(c *Ctx, rule string) {
	pk := c.P.Pkg("fast")
	info := pk.TypesInfo
	fd := c.P.Func("fast.Comp.Select")
	fc := c.P.Func("fast.Comp.selectCase")
	if fd == nil || fc == nil || fd.Body == nil || fc.Body == nil {
		c.Ob(rule, "fast.Comp.Select", nil, false, "anchor functions Select / selectCase not found")
		return
	}
	di := buildDefIndex(info, fd)
	var okObj types.Object
	var selCall *ast.CallExpr
	ast.Inspect(fd.Body, func(n ast.Node) bool {
		as, ok := n.(*ast.AssignStmt)
		if !ok || len(as.Rhs) != 1 || len(as.Lhs) != 3 {
			return true
		}
		call, ok := unparen(as.Rhs[0]).(*ast.CallExpr)
		if !ok {
			return true
		}
		if fn := calleeOf(info, call); fn == nil || fn.Name() != "Select" || fn.Pkg() == nil || (fn.Pkg().Name() != "xreflect" && fn.Pkg().Name() != "reflect") {
			return true
		}
		selCall = call
		if id := identOf(as.Lhs[2]); id != nil && id.Name != "_" {
			okObj = info.Defs[id]
			if okObj == nil {
				okObj = info.Uses[id]
			}
		}
		return true
	})
	if selCall == nil {
		c.Ob(rule, "fast.Comp.Select/call", fd, false, "no call of reflect-level Select found: anchor missing")
		return
	}
	c.Ob(rule, "fast.Comp.Select/recvOK-bound", selCall, okObj != nil, "the third result of Select (false: the value is the zero value of a closed channel) is not discarded")
	if okObj == nil {
		return
	}
	// slots written under the control of recvOK
	okBinds := map[types.Object]bool{}
	mentions := func(n ast.Node) bool {
		f := false
		ast.Inspect(n, func(x ast.Node) bool {
			if id, ok := x.(*ast.Ident); ok && info.Uses[id] == okObj {
				f = true
			}
			return !f
		})
		return f
	}
	var stack []ast.Node
	ast.Inspect(fd.Body, func(n ast.Node) bool {
		if n == nil {
			stack = stack[:len(stack)-1]
			return true
		}
		stack = append(stack, n)
		as, ok := n.(*ast.AssignStmt)
		if !ok || len(as.Lhs) != 1 || len(as.Rhs) != 1 {
			return true
		}
		ix, ok := unparen(as.Lhs[0]).(*ast.IndexExpr)
		if !ok {
			return true
		}
		_, idx, isVals := valsAccess(info, ix)
		if !isVals {
			return true
		}
		dep := mentions(as.Rhs[0])
		for _, a := range stack {
			if ifs, ok := a.(*ast.IfStmt); ok && mentions(ifs.Cond) {
				dep = true
			}
		}
		if dep {
			if r := di.nearRoot(info, idx, 0); r != nil {
				okBinds[r] = true
			}
		}
		return true
	})
	c.Ob(rule, "fast.Comp.Select/recvOK-stored", selCall, len(okBinds) > 0, "recvOK is stored (directly or by a test on it) in a slot of the frame")
	// parameters of selectCase that receive such a bind
	okParams := map[types.Object]bool{}
	ncall := 0
	inspectCalls(fd.Body, func(call *ast.CallExpr) {
		if funcFullName(calleeOf(info, call)) != "fast.Comp.selectCase" {
			return
		}
		ncall++
		k := 0
		for _, f := range fc.Type.Params.List {
			for _, nm := range f.Names {
				if k < len(call.Args) {
					if id := identOf(call.Args[k]); id != nil && okBinds[info.Uses[id]] {
						okParams[info.Defs[nm]] = true
					}
				}
				k++
			}
		}
	})
	c.Ob(rule, "fast.Comp.Select/recvOK-passed", fd, ncall > 0 && len(okParams) > 0, "the bind of the recvOK slot is passed to selectCase")
	// every boolean expression compiled by selectCase reads only that slot
	dic := buildDefIndex(info, fc)
	n := 0
	inspectCalls(fc.Body, func(call *ast.CallExpr) {
		if funcFullName(calleeOf(info, call)) != "fast.Comp.exprBool" || len(call.Args) != 1 {
			return
		}
		lit, ok := unparen(call.Args[0]).(*ast.FuncLit)
		if !ok {
			return
		}
		n++
		good, reads := true, 0
		ast.Inspect(lit.Body, func(x ast.Node) bool {
			ix, ok := x.(*ast.IndexExpr)
			if !ok {
				return true
			}
			_, idx, isVals := valsAccess(info, ix)
			if !isVals {
				if _, idx2, isInts := intsAccess(info, ix); isInts {
					idx = idx2
				} else {
					return true
				}
			}
			reads++
			if r := dic.nearRoot(info, idx, 0); r == nil || !okParams[r] {
				good = false
			}
			return true
		})
		key := fmt.Sprintf("fast.Comp.selectCase/ok-expr#%d", n)
		c.Ob(rule, key, lit, good && reads > 0, "the boolean compiled for the second variable of a receive reads the recvOK slot, not the slot of the received value (a value received from a closed channel is valid)")
	})
	if n == 0 {
		c.Ob(rule, "fast.Comp.selectCase/ok-expr", fc, false, "no boolean expression for the second variable of a receive found: anchor missing")
	}
}

// J5 — labels. LoopInfo.HasLabel decides whether a labelled break / continue targets a statement by binary
// search. Decided: (a) a membership test built on sort.Search* holds only under `slice[i] == key`
// (the search returns an insertion point, not a match); (b) every slice stored into LoopInfo.ThisLabels was
// sorted by sort.Strings earlier in the same function.
func ruleLabelMembership(c *Ctx, rule string) {
	pk := c.P.Pkg("fast")
	info := pk.TypesInfo
	nsearch, nlit := 0, 0
	for _, fd := range c.P.FuncsOf("fast") {
		if fd.Body == nil {
			continue
		}
		fkey := funcKey(pk, fd)
		// (a)
		ast.Inspect(fd.Body, func(n ast.Node) bool {
			as, ok := n.(*ast.AssignStmt)
			if !ok || len(as.Lhs) != 1 || len(as.Rhs) != 1 {
				return true
			}
			call, ok := unparen(as.Rhs[0]).(*ast.CallExpr)
			if !ok || len(call.Args) != 2 {
				return true
			}
			fn := calleeOf(info, call)
			if fn == nil || fn.Pkg() == nil || fn.Pkg().Path() != "sort" || !strings.HasPrefix(fn.Name(), "Search") || fn.Name() == "Search" {
				return true
			}
			id := identOf(as.Lhs[0])
			if id == nil {
				return true
			}
			io := info.Defs[id]
			if io == nil {
				io = info.Uses[id]
			}
			nsearch++
			slice, key := exprString(call.Args[0]), exprString(call.Args[1])
			uses := func(e ast.Node) bool {
				f := false
				ast.Inspect(e, func(x ast.Node) bool {
					if i, ok := x.(*ast.Ident); ok && info.Uses[i] == io {
						f = true
					}
					return !f
				})
				return f
			}
			judge := func(e ast.Expr, at ast.Node) {
				if t, ok := info.TypeOf(e).Underlying().(*types.Basic); !ok || t.Info()&types.IsBoolean == 0 || !uses(e) {
					return
				}
				good := true
				for _, d := range orAtoms(e) {
					if !uses(d) {
						continue
					}
					has := false
					for _, a := range andAtoms(d) {
						b, ok := unparen(a).(*ast.BinaryExpr)
						if !ok || b.Op != token.EQL {
							continue
						}
						for _, p := range [][2]ast.Expr{{b.X, b.Y}, {b.Y, b.X}} {
							if ix, ok := unparen(p[0]).(*ast.IndexExpr); ok && exprString(ix.X) == slice && identOf(ix.Index) != nil && info.Uses[identOf(ix.Index)] == io && exprString(p[1]) == key {
								has = true
							}
						}
					}
					if !has {
						good = false
					}
				}
				c.Ob(rule, fkey+"/membership", at, good, fmt.Sprintf("a test on the result of %s holds only where %s[%s] == %s", fn.Name(), slice, id.Name, key))
			}
			ast.Inspect(fd.Body, func(x ast.Node) bool {
				switch y := x.(type) {
				case *ast.ReturnStmt:
					for _, r := range y.Results {
						judge(r, y)
					}
				case *ast.IfStmt:
					judge(y.Cond, y)
				}
				return true
			})
			return true
		})
		// (b)
		ast.Inspect(fd.Body, func(n ast.Node) bool {
			cl, ok := n.(*ast.CompositeLit)
			if !ok || !isNamedType(info.TypeOf(cl), "fast", "LoopInfo") {
				return true
			}
			for _, el := range cl.Elts {
				kv, ok := el.(*ast.KeyValueExpr)
				if !ok || identOf(kv.Key) == nil || identOf(kv.Key).Name != "ThisLabels" {
					continue
				}
				nlit++
				vo := usedObj(info, kv.Value)
				sorted := false
				var sortPos token.Pos
				inspectCalls(fd.Body, func(call *ast.CallExpr) {
					fn := calleeOf(info, call)
					if fn != nil && fn.Pkg() != nil && fn.Pkg().Path() == "sort" && fn.Name() == "Strings" && len(call.Args) == 1 && call.Pos() < cl.Pos() && vo != nil && usedObj(info, call.Args[0]) == vo {
						sorted = true
						sortPos = call.Pos()
					}
				})
				// no write to the slice between the sort and the literal
				if sorted {
					ast.Inspect(fd.Body, func(m ast.Node) bool {
						if as, ok := m.(*ast.AssignStmt); ok && as.Pos() > sortPos && as.Pos() < cl.Pos() {
							for _, l := range as.Lhs {
								if usedObj(info, l) == vo {
									sorted = false
								}
								if ix, ok := unparen(l).(*ast.IndexExpr); ok && usedObj(info, ix.X) == vo {
									sorted = false
								}
							}
						}
						return true
					})
				}
				c.Ob(rule, fkey+"/labels-sorted", kv, sorted, "the labels stored in LoopInfo.ThisLabels were sorted with sort.Strings before (HasLabel searches them by bisection)")
			}
			return true
		})
	}
	if nsearch == 0 {
		c.Ob(rule, "fast.LoopInfo.HasLabel", nil, false, "no sort.Search* membership test found: anchor missing")
	}
	if nlit == 0 {
		c.Ob(rule, "fast/LoopInfo.ThisLabels", nil, false, "no LoopInfo literal with ThisLabels found: anchor missing")
	}
}

// S3 — every clause of a select leaves the statement: the function that compiles a clause (selectDefault,
// selectCase: the functions returning a selectEntry that compile the clause body) emits, after the body and
// on every path to its return, the jump to the select's own Break target in the current frame.
func ruleSelectClauseExit(c *Ctx, rule string) {
	pk := c.P.Pkg("fast")
	info := pk.TypesInfo
	n := 0
	for _, fd := range c.P.FuncsOf("fast") {
		if fd.Body == nil || fd.Type.Results == nil || len(fd.Type.Results.List) != 1 || !isNamedType(info.TypeOf(fd.Type.Results.List[0].Type), "fast", "selectEntry") {
			continue
		}
		// compiles a clause body?
		var bodyPos token.Pos
		inspectCalls(fd.Body, func(call *ast.CallExpr) {
			if funcFullName(calleeOf(info, call)) == "fast.Comp.List" {
				if call.Pos() > bodyPos {
					bodyPos = call.Pos()
				}
			}
		})
		if bodyPos == 0 {
			continue
		}
		n++
		// last statements of the function body: ... c.jumpOut(0, c.Loop.Break); return
		good, why := false, "no jumpOut(0, c.Loop.Break) at the top level of the function after the clause body"
		for _, st := range fd.Body.List {
			es, ok := st.(*ast.ExprStmt)
			if !ok || st.Pos() < bodyPos {
				continue
			}
			call, ok := es.X.(*ast.CallExpr)
			if !ok || funcFullName(calleeOf(info, call)) != "fast.Comp.jumpOut" || len(call.Args) != 2 {
				continue
			}
			zero := false
			if tv, ok := info.Types[call.Args[0]]; ok && tv.Value != nil && tv.Value.String() == "0" {
				zero = true
			}
			_, isBreak := fieldSel(info, call.Args[1], "Break")
			if zero && isBreak {
				good, why = true, ""
			} else {
				why = "the jump after the clause body is not jumpOut(0, <Loop>.Break)"
			}
		}
		// no return between the body and the jump
		c.Ob(rule, funcKey(pk, fd), fd, good, "after the body of a select clause the compiled code jumps to the end of the select in the same frame"+sep(why))
	}
	if n < 2 {
		c.Ob(rule, "fast/selectEntry", nil, false, fmt.Sprintf("%d functions compile a select clause, expected the default and the communication clause compilers", n))
	}
}

// G2 — ranging over a string advances by the width of the first rune of what is left: in every statement
// closure of rangeString that updates the hidden offset, the amount added is the size returned by
// utf8.DecodeRuneInString applied to s[offset:] (the string from the current offset to its end), and a
// rune handed to user code is the first result of the same call.
func ruleRangeStringDecode(c *Ctx, rule string) {
	pk := c.P.Pkg("fast")
	info := pk.TypesInfo
	fd := c.P.Func("fast.Comp.rangeString")
	if fd == nil || fd.Body == nil {
		c.Ob(rule, "fast.Comp.rangeString", nil, false, "anchor function not found")
		return
	}
	n := 0
	ast.Inspect(fd.Body, func(nd ast.Node) bool {
		lit, ok := nd.(*ast.FuncLit)
		if !ok {
			return true
		}
		// calls into unicode/utf8 in this closure
		var calls []*ast.CallExpr
		inspectCalls(lit.Body, func(call *ast.CallExpr) {
			if fn := calleeOf(info, call); fn != nil && fn.Pkg() != nil && fn.Pkg().Path() == "unicode/utf8" {
				calls = append(calls, call)
			}
		})
		if len(calls) == 0 {
			return false
		}
		n++
		key := fmt.Sprintf("fast.Comp.rangeString/decode#%d", n)
		if len(calls) != 1 {
			c.Ob(rule, key, lit, false, "more than one utf8 call in one iteration closure")
			return false
		}
		call := calls[0]
		fn := calleeOf(info, call)
		good, why := true, ""
		if fn.Name() != "DecodeRuneInString" {
			good, why = false, "the rune is decoded with utf8."+fn.Name()+", not with DecodeRuneInString (first rune of the rest of the string)"
		}
		var offObj types.Object
		if good {
			se, ok := unparen(call.Args[0]).(*ast.SliceExpr)
			if !ok || se.High != nil || se.Max != nil || se.Low == nil || identOf(se.Low) == nil {
				good, why = false, "the argument is not s[offset:]"
			} else {
				offObj = info.Uses[identOf(se.Low)]
			}
		}
		// the size (second result) is what is added to the offset
		if good {
			var sizeObj types.Object
			ast.Inspect(lit.Body, func(x ast.Node) bool {
				if as, ok := x.(*ast.AssignStmt); ok && len(as.Rhs) == 1 && unparen(as.Rhs[0]) == ast.Expr(call) && len(as.Lhs) == 2 {
					if id := identOf(as.Lhs[1]); id != nil {
						sizeObj = info.Defs[id]
						if sizeObj == nil {
							sizeObj = info.Uses[id]
						}
					}
				}
				return true
			})
			added := false
			ast.Inspect(lit.Body, func(x ast.Node) bool {
				if as, ok := x.(*ast.AssignStmt); ok && as.Tok == token.ADD_ASSIGN && len(as.Lhs) == 1 && len(as.Rhs) == 1 {
					if lo := usedObj(info, as.Lhs[0]); lo != nil && lo == offObj && sizeObj != nil && usedObj(info, as.Rhs[0]) == sizeObj {
						added = true
					}
				}
				return true
			})
			if !added {
				good, why = false, "the offset is not advanced by the size the decoder returned"
			}
		}
		c.Ob(rule, key, call, good, "the iteration decodes the first rune of s[offset:] and advances the offset by its width"+sep(why))
		return false
	})
	if n < 3 {
		c.Ob(rule, "fast.Comp.rangeString/decode", fd, false, fmt.Sprintf("%d decoding closures found, 3 confirmed by reading (no value, direct store, through a hidden variable)", n))
	}
}

// S4 — expression switch: the table used for direct dispatch and the order of clauses.
//   - caseHelper.AllConst is monotone: assigned only `false` (it starts true in the literal built by Switch);
//   - caseHelper.add records a constant in GotoMap only under `if AllConst`, and nothing else writes the
//     elements of GotoMap or ConstMap: the dispatch table holds exactly the constants written before the first
//     non-constant case expression, whose evaluation (and side effects) a direct jump would skip;
//   - switchGotoMap / switchGotoSlice build their tables from GotoMap, never from ConstMap;
//   - the jump into a default clause is emitted after every clause was compiled, to defaulti+1, and a default
//     clause reached in sequence skips its own body (header jumps to the end index assigned after the body);
//   - a case body ends with either the fall-through statement (only when its last statement is `fallthrough`
//     and it is not the last clause) or the jump to the switch's Break target in the same frame.
func ruleSwitchDispatch(c *Ctx, rule string) {
	pk := c.P.Pkg("fast")
	info := pk.TypesInfo
	// monotone flag
	w := fieldWriters(c, "fast", "caseHelper", "AllConst")
	okMono, nw := true, 0
	for k, nodes := range w {
		for _, n := range nodes {
			nw++
			switch x := n.(type) {
			case *ast.AssignStmt:
				if len(x.Rhs) != 1 || exprString(x.Rhs[0]) != "false" {
					okMono = false
				}
			case *ast.KeyValueExpr:
				if exprString(x.Value) != "true" {
					okMono = false
				}
			default:
				okMono = false
			}
			_ = k
		}
	}
	c.Ob(rule, "fast.caseHelper.AllConst/monotone", nil, okMono && nw >= 1, fmt.Sprintf("the all-case-expressions-so-far-are-constant flag is only ever cleared (%d writers)", nw))
	// positional literals of caseHelper: third element true
	nlit := 0
	for _, fd := range c.P.FuncsOf("fast") {
		if fd.Body == nil {
			continue
		}
		ast.Inspect(fd.Body, func(n ast.Node) bool {
			cl, ok := n.(*ast.CompositeLit)
			if !ok || !isNamedType(info.TypeOf(cl), "fast", "caseHelper") {
				return true
			}
			nlit++
			good := false
			if len(cl.Elts) == 3 {
				if _, isKV := cl.Elts[0].(*ast.KeyValueExpr); !isKV {
					good = exprString(cl.Elts[2]) == "true"
				}
			}
			for _, el := range cl.Elts {
				if kv, ok := el.(*ast.KeyValueExpr); ok && identOf(kv.Key) != nil && identOf(kv.Key).Name == "AllConst" {
					good = exprString(kv.Value) == "true"
				}
			}
			c.Ob(rule, funcKey(pk, fd)+"/caseHelper-literal", cl, good, "a switch starts with AllConst == true and empty maps")
			return true
		})
	}
	if nlit == 0 {
		c.Ob(rule, "fast.caseHelper/literal", nil, false, "no caseHelper literal found: anchor missing")
	}
	// add: GotoMap written under AllConst only
	add := c.P.Func("fast.caseHelper.add")
	okAdd := false
	if add != nil && add.Body != nil {
		var stack []ast.Node
		okAdd = true
		found := false
		ast.Inspect(add.Body, func(n ast.Node) bool {
			if n == nil {
				stack = stack[:len(stack)-1]
				return true
			}
			stack = append(stack, n)
			as, ok := n.(*ast.AssignStmt)
			if !ok {
				return true
			}
			for _, l := range as.Lhs {
				ix, ok := unparen(l).(*ast.IndexExpr)
				if !ok {
					continue
				}
				if _, isG := fieldSel(info, ix.X, "GotoMap"); !isG {
					continue
				}
				found = true
				guarded := false
				for _, a := range stack {
					if ifs, ok := a.(*ast.IfStmt); ok && containsNode(ifs.Body, as) {
						for _, at := range andAtoms(ifs.Cond) {
							if _, isF := fieldSel(info, at, "AllConst"); isF {
								guarded = true
							}
						}
					}
				}
				if !guarded {
					okAdd = false
				}
			}
			return true
		})
		okAdd = okAdd && found
	}
	c.Ob(rule, "fast.caseHelper.add/initial-constant-segment", add, okAdd, "a constant enters the direct-dispatch table only while every earlier case expression was a constant")
	// owners of the maps
	for _, field := range []string{"GotoMap", "ConstMap"} {
		ws := fieldWriters(c, "fast", "caseHelper", field)
		var bad []string
		for k := range ws {
			if strings.HasSuffix(k, "#elem") && k != "fast.caseHelper.add#elem" {
				bad = append(bad, k)
			}
			if !strings.Contains(k, "#") {
				bad = append(bad, k)
			}
		}
		sort.Strings(bad)
		c.Ob(rule, "fast.caseHelper."+field+"/owner", nil, len(bad) == 0, fmt.Sprintf("only caseHelper.add stores into %s (other writers: %v)", field, bad))
	}
	// table builders read GotoMap only
	for _, fk := range []string{"fast.Comp.switchGotoMap", "fast.Comp.switchGotoSlice"} {
		fd := c.P.Func(fk)
		if fd == nil || fd.Body == nil {
			c.Ob(rule, fk, nil, false, "anchor function not found")
			continue
		}
		readsGoto, readsConst := false, false
		ast.Inspect(fd.Body, func(n ast.Node) bool {
			if e, ok := n.(ast.Expr); ok {
				if _, is := fieldSel(info, e, "GotoMap"); is {
					readsGoto = true
				}
				if _, is := fieldSel(info, e, "ConstMap"); is {
					readsConst = true
				}
			}
			return true
		})
		c.Ob(rule, fk+"/source", fd, readsGoto && !readsConst, "the dispatch table is built from GotoMap (the initial constant segment), never from ConstMap (all constants)")
	}
	// default last, header
	sw := c.P.Func("fast.Comp.Switch")
	if sw == nil || sw.Body == nil {
		c.Ob(rule, "fast.Comp.Switch", nil, false, "anchor function not found")
		return
	}
	var loopEnd, jumpPos token.Pos
	ast.Inspect(sw.Body, func(nd ast.Node) bool {
		switch x := nd.(type) {
		case *ast.RangeStmt:
			calls := false
			inspectCalls(x.Body, func(call *ast.CallExpr) {
				if fn := calleeOf(info, call); fn != nil && fn.Name() == "switchCase" {
					calls = true
				}
			})
			if calls {
				loopEnd = x.End()
			}
		case *ast.IfStmt:
			if b, ok := unparen(x.Cond).(*ast.BinaryExpr); ok && b.Op == token.GEQ && identOf(b.X) != nil {
				if v, isC := constInt(info, b.Y); isC && v == 0 {
					jumps := false
					ast.Inspect(x.Body, func(m ast.Node) bool {
						if as, ok := m.(*ast.AssignStmt); ok && len(as.Rhs) == 1 {
							if be, ok := unparen(as.Rhs[0]).(*ast.BinaryExpr); ok && be.Op == token.ADD && identOf(be.X) != nil && info.Uses[identOf(be.X)] == info.Uses[identOf(b.X)] {
								if v, isC := constInt(info, be.Y); isC && v == 1 {
									jumps = true
								}
							}
						}
						return true
					})
					if jumps && loopEnd != token.NoPos && x.Pos() > loopEnd {
						jumpPos = x.Pos()
					}
				}
			}
		}
		return true
	})
	c.Ob(rule, "fast.Comp.Switch/default-last", sw, jumpPos != token.NoPos, "the jump into the default clause (past its header) is emitted after every clause was compiled, wherever default is written")
	sd := c.P.Func("fast.Comp.switchDefault")
	okHdr := false
	if sd != nil && sd.Body != nil {
		var endVar types.Object
		var endPos token.Pos
		ast.Inspect(sd.Body, func(nd ast.Node) bool {
			if as, ok := nd.(*ast.AssignStmt); ok && len(as.Lhs) == 1 && len(as.Rhs) == 1 && identOf(as.Lhs[0]) != nil && strings.HasSuffix(exprString(as.Rhs[0]), ".Code.Len()") {
				endVar = info.Uses[identOf(as.Lhs[0])]
				endPos = as.Pos()
			}
			return true
		})
		var bodyPos token.Pos
		inspectCalls(sd.Body, func(call *ast.CallExpr) {
			if fn := calleeOf(info, call); fn != nil && fn.Name() == "switchCaseBody" {
				bodyPos = call.Pos()
			}
		})
		ast.Inspect(sd.Body, func(nd ast.Node) bool {
			if lit, ok := nd.(*ast.FuncLit); ok && endVar != nil && lit.Pos() < bodyPos && bodyPos < endPos {
				// ip := iend is the only assignment to ip, and env.IP = ip
				var ipObj types.Object
				nAssign := 0
				ast.Inspect(lit.Body, func(m ast.Node) bool {
					if as, ok := m.(*ast.AssignStmt); ok && len(as.Lhs) == 1 && len(as.Rhs) == 1 && identOf(as.Lhs[0]) != nil {
						if identOf(as.Rhs[0]) != nil && info.Uses[identOf(as.Rhs[0])] == endVar && as.Tok == token.DEFINE {
							ipObj = info.Defs[identOf(as.Lhs[0])]
						}
					}
					return true
				})
				setsIP := false
				ast.Inspect(lit.Body, func(m ast.Node) bool {
					if as, ok := m.(*ast.AssignStmt); ok && len(as.Lhs) == 1 && len(as.Rhs) == 1 {
						if id := identOf(as.Lhs[0]); id != nil && ipObj != nil && (info.Defs[id] == ipObj || info.Uses[id] == ipObj) {
							nAssign++
						}
						if _, isIP := fieldSel(info, as.Lhs[0], "IP"); isIP && ipObj != nil && usedObj(info, as.Rhs[0]) == ipObj {
							setsIP = true
						}
					}
					return true
				})
				if ipObj != nil && nAssign == 1 && setsIP {
					okHdr = true
				}
			}
			return true
		})
	}
	c.Ob(rule, "fast.Comp.switchDefault/header", sd, okHdr, "a default clause reached in sequence is skipped: its header, emitted before the body, jumps to the index assigned after the body")
	// clause header: exactly one statement slot before the body, and fallthrough skips exactly that slot
	slots := -1
	for _, fk := range []string{"fast.Comp.switchCase", "fast.Comp.switchDefault"} {
		fd := c.P.Func(fk)
		if fd == nil || fd.Body == nil {
			c.Ob(rule, fk+"/header-slot", nil, false, "anchor function not found")
			continue
		}
		top, nested := 0, 0
		var bodyPos token.Pos
		inspectCalls(fd.Body, func(call *ast.CallExpr) {
			if fn := calleeOf(info, call); fn != nil && fn.Name() == "switchCaseBody" {
				bodyPos = call.Pos()
			}
		})
		isAppend := func(call *ast.CallExpr) bool {
			n := funcFullName(calleeOf(info, call))
			return n == "fast.Comp.Append" || n == "fast.Comp.append"
		}
		for _, st := range fd.Body.List {
			if es, ok := st.(*ast.ExprStmt); ok && st.Pos() < bodyPos {
				if call, ok := es.X.(*ast.CallExpr); ok && isAppend(call) {
					top++
					continue
				}
			}
			if st.Pos() < bodyPos {
				ast.Inspect(st, func(n ast.Node) bool {
					if _, isLit := n.(*ast.FuncLit); isLit {
						return false
					}
					if call, ok := n.(*ast.CallExpr); ok && isAppend(call) {
						nested++
					}
					return true
				})
			}
		}
		good := bodyPos != token.NoPos && top == 1 && nested == 0
		if good {
			if slots == -1 || slots == 1 {
				slots = 1
			}
		} else {
			slots = -2
		}
		c.Ob(rule, fk+"/header-slot", fd, good, fmt.Sprintf("the clause header occupies exactly one statement slot before the body on every path (%d unconditional, %d conditional appends)", top, nested))
	}
	ft := c.P.Func("fast.stmtFallthrough")
	okFT := false
	if ft != nil && ft.Body != nil && slots == 1 {
		ast.Inspect(ft.Body, func(n ast.Node) bool {
			if as, ok := n.(*ast.AssignStmt); ok && as.Tok == token.ADD_ASSIGN && len(as.Lhs) == 1 && len(as.Rhs) == 1 {
				if _, isIP := fieldSel(info, as.Lhs[0], "IP"); isIP {
					if v, isC := constInt(info, as.Rhs[0]); isC && int(v) == 1+slots {
						okFT = true
					}
				}
			}
			return true
		})
	}
	c.Ob(rule, "fast.stmtFallthrough/stride", ft, okFT, "fallthrough advances past itself and past the one-slot header of the next clause, into that clause's body")
	// case body end
	cb := c.P.Func("fast.Comp.switchCaseBody")
	okEnd := false
	if cb != nil && cb.Body != nil {
		for _, st := range cb.Body.List {
			ifs, ok := st.(*ast.IfStmt)
			if !ok || ifs.Else == nil || identOf(ifs.Cond) == nil {
				continue
			}
			ft, brk := false, false
			inspectCalls(ifs.Body, func(call *ast.CallExpr) {
				for _, a := range call.Args {
					if o := usedObj(info, a); o != nil && o.Name() == "stmtFallthrough" {
						ft = true
					}
				}
			})
			inspectCalls(ifs.Else, func(call *ast.CallExpr) {
				if funcFullName(calleeOf(info, call)) == "fast.Comp.jumpOut" && len(call.Args) == 2 {
					if tv, ok := info.Types[call.Args[0]]; ok && tv.Value != nil && tv.Value.String() == "0" {
						if _, isB := fieldSel(info, call.Args[1], "Break"); isB {
							brk = true
						}
					}
				}
			})
			// the flag is the result of isFallthrough(last statement)
			flagOK := false
			if d := buildDefIndex(info, cb).defs[info.Uses[identOf(ifs.Cond)]]; len(d) > 0 {
				for _, e := range d {
					if e == nil {
						continue
					}
					if call, ok := unparen(e).(*ast.CallExpr); ok {
						if fn := calleeOf(info, call); fn != nil && fn.Name() == "isFallthrough" {
							flagOK = true
						}
					}
				}
			}
			if ft && brk && flagOK {
				okEnd = true
			}
		}
	}
	c.Ob(rule, "fast.Comp.switchCaseBody/end", cb, okEnd, "a case body ends with the fall-through statement exactly when its last statement is `fallthrough`, otherwise with the jump to the switch's Break target in the same frame")
}
