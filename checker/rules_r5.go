package main

import (
	"fmt"
	"go/ast"
	"go/token"
	"go/types"
	"sort"
	"strings"
)

// ruleNilableSetter (P5): assigning to the blank identifier has no setter. The compilers of an assignment
// target (Assign.init -> varSetValue / placeSetValue) return a nil function for `_`; the multi-assignment
// closures store through the fields that hold that result. A call through such a field is accepted when
// the function that makes it tests the field against nil, or when every call of that function sits under a
// condition that does (directly, or through a method of Assign whose body is such a test). This is the
// "contradicting beliefs" rule: assignMulti believes the setter may be nil, a sibling that calls it
// unconditionally believes it cannot.
func ruleNilableSetter(c *Ctx, rule string) {
	pk := c.P.Pkg("fast")
	if pk == nil {
		c.Fatal("package fast not loaded")
		return
	}
	info := pk.TypesInfo
	tn, _ := pk.Types.Scope().Lookup("Assign").(*types.TypeName)
	if tn == nil {
		c.Ob(rule, "fast.Assign", nil, false, "anchor type not found")
		return
	}
	st, _ := tn.Type().Underlying().(*types.Struct)
	if st == nil {
		c.Ob(rule, "fast.Assign", nil, false, "anchor type is not a struct")
		return
	}
	fields := map[*types.Var]bool{}
	for i := 0; i < st.NumFields(); i++ {
		if _, ok := st.Field(i).Type().Underlying().(*types.Signature); ok {
			fields[st.Field(i)] = true
		}
	}
	fieldOf := func(e ast.Expr) *types.Var {
		se, ok := unparen(e).(*ast.SelectorExpr)
		if !ok {
			return nil
		}
		v, _ := info.Uses[se.Sel].(*types.Var)
		if v != nil && fields[v] {
			return v
		}
		return nil
	}
	decls := map[*types.Func]*ast.FuncDecl{}
	for _, fd := range c.P.FuncsOf("fast") {
		if fn, ok := info.Defs[fd.Name].(*types.Func); ok {
			decls[fn] = fd
		}
	}
	// returnsNil: the producer has a `return nil` that does not follow an error call in its block
	returnsNil := func(fd *ast.FuncDecl) bool {
		found := false
		var walk func(list []ast.Stmt)
		visit := func(n ast.Node) bool {
			switch b := n.(type) {
			case *ast.FuncLit:
				return false
			case *ast.BlockStmt:
				walk(b.List)
			case *ast.CaseClause:
				walk(b.Body)
			}
			return true
		}
		walk = func(list []ast.Stmt) {
			for i, s := range list {
				r, ok := s.(*ast.ReturnStmt)
				if !ok || len(r.Results) != 1 {
					continue
				}
				if id, ok := unparen(r.Results[0]).(*ast.Ident); !ok || id.Name != "nil" {
					continue
				}
				afterError := false
				if i > 0 {
					if es, ok := list[i-1].(*ast.ExprStmt); ok {
						if call, ok := es.X.(*ast.CallExpr); ok {
							if fn := calleeOf(info, call); fn != nil && (fn.Name() == "Errorf" || fn.Name() == "Error") {
								afterError = true
							}
						}
					}
				}
				if !afterError {
					found = true
				}
			}
		}
		ast.Inspect(fd.Body, visit)
		return found
	}
	// nilable fields: assigned from a producer that may return nil
	nilable := map[*types.Var]string{}
	for _, fd := range c.P.FuncsOf("fast") {
		if fd.Body == nil {
			continue
		}
		ast.Inspect(fd.Body, func(n ast.Node) bool {
			as, ok := n.(*ast.AssignStmt)
			if !ok || len(as.Lhs) != len(as.Rhs) {
				return true
			}
			for i, l := range as.Lhs {
				f := fieldOf(l)
				if f == nil {
					continue
				}
				call, ok := unparen(as.Rhs[i]).(*ast.CallExpr)
				if !ok {
					continue
				}
				if fn := calleeOf(info, call); fn != nil && decls[fn] != nil && decls[fn].Body != nil && returnsNil(decls[fn]) {
					nilable[f] = funcFullName(fn)
				}
			}
			return true
		})
	}
	if len(nilable) == 0 {
		c.Ob(rule, "fast.Assign/producers", nil, true, "no setter field of Assign is filled by a function that returns nil: nothing to guard")
		return
	}
	// testsNil: the node contains a comparison of the field with nil
	testsNil := func(n ast.Node, f *types.Var) bool {
		found := false
		ast.Inspect(n, func(m ast.Node) bool {
			be, ok := m.(*ast.BinaryExpr)
			if !ok || (be.Op != token.EQL && be.Op != token.NEQ) {
				return true
			}
			for _, pair := range [][2]ast.Expr{{be.X, be.Y}, {be.Y, be.X}} {
				if fieldOf(pair[0]) == f {
					if id, ok := unparen(pair[1]).(*ast.Ident); ok && id.Name == "nil" {
						found = true
					}
				}
			}
			return true
		})
		return found
	}
	condTests := func(cond ast.Expr, f *types.Var) bool {
		if testsNil(cond, f) {
			return true
		}
		ok := false
		inspectCalls(cond, func(call *ast.CallExpr) {
			if fn := calleeOf(info, call); fn != nil && decls[fn] != nil && decls[fn].Body != nil && testsNil(decls[fn].Body, f) {
				ok = true
			}
		})
		return ok
	}
	// call sites of every function of the package, with the conditions they sit under
	type site struct {
		fd    *ast.FuncDecl
		conds []ast.Expr
	}
	callers := map[*types.Func][]site{}
	for _, fd := range c.P.FuncsOf("fast") {
		if fd.Body == nil {
			continue
		}
		var stack []ast.Node
		ast.Inspect(fd.Body, func(n ast.Node) bool {
			if n == nil {
				stack = stack[:len(stack)-1]
				return true
			}
			stack = append(stack, n)
			call, ok := n.(*ast.CallExpr)
			if !ok {
				return true
			}
			fn := calleeOf(info, call)
			if fn == nil || decls[fn] == nil {
				return true
			}
			var conds []ast.Expr
			for i := 0; i+1 < len(stack); i++ {
				if ifs, ok := stack[i].(*ast.IfStmt); ok && stack[i+1] == ast.Node(ifs.Body) {
					conds = append(conds, ifs.Cond)
				}
			}
			callers[fn] = append(callers[fn], site{fd, conds})
			return true
		})
	}
	n := 0
	for _, fd := range c.P.FuncsOf("fast") {
		if fd.Body == nil {
			continue
		}
		self, _ := info.Defs[fd.Name].(*types.Func)
		// locals built from the fields: setvars := [2]func(...){assign[0].setvar, assign[1].setvar}
		localOf := map[types.Object]*types.Var{}
		ast.Inspect(fd.Body, func(nd ast.Node) bool {
			as, ok := nd.(*ast.AssignStmt)
			if !ok || len(as.Lhs) != len(as.Rhs) {
				return true
			}
			for i, l := range as.Lhs {
				id, ok := l.(*ast.Ident)
				if !ok {
					continue
				}
				obj := info.ObjectOf(id)
				if obj == nil {
					continue
				}
				if f := fieldOf(as.Rhs[i]); f != nil {
					localOf[obj] = f
				} else if cl, ok := unparen(as.Rhs[i]).(*ast.CompositeLit); ok {
					for _, el := range cl.Elts {
						if f := fieldOf(el); f != nil {
							localOf[obj] = f
						}
					}
				}
			}
			return true
		})
		used := map[*types.Var]ast.Node{}
		inspectCalls(fd.Body, func(call *ast.CallExpr) {
			fun := unparen(call.Fun)
			if f := fieldOf(fun); f != nil {
				if _, seen := used[f]; !seen {
					used[f] = call
				}
				return
			}
			if ix, ok := fun.(*ast.IndexExpr); ok {
				fun = unparen(ix.X)
			}
			if id, ok := fun.(*ast.Ident); ok {
				if f := localOf[info.ObjectOf(id)]; f != nil {
					if _, seen := used[f]; !seen {
						used[f] = call
					}
				}
			}
		})
		var fs []*types.Var
		for f := range used {
			if nilable[f] != "" {
				fs = append(fs, f)
			}
		}
		sort.Slice(fs, func(i, j int) bool { return fs[i].Name() < fs[j].Name() })
		for _, f := range fs {
			n++
			key := fmt.Sprintf("%s/%s", funcKey(pk, fd), f.Name())
			if testsNil(fd.Body, f) {
				c.Ob(rule, key, used[f], true, "the function tests Assign."+f.Name()+" against nil ("+nilable[f]+" returns nil for the blank identifier)")
				continue
			}
			sites := callers[self]
			good := len(sites) > 0
			bad := ""
			for _, s := range sites {
				under := false
				for _, cond := range s.conds {
					for _, a := range andAtoms(cond) {
						if condTests(a, f) {
							under = true
						}
					}
				}
				if !under {
					good = false
					bad = funcKey(pk, s.fd)
				}
			}
			detail := "every call of the function is under a nil test of Assign." + f.Name()
			if !good {
				if bad == "" {
					detail = "Assign." + f.Name() + " is called without a nil test and the function has no caller that makes one; " + nilable[f] + " returns nil for the blank identifier"
				} else {
					detail = "Assign." + f.Name() + " is called without a nil test, and " + bad + " calls the function without one; " + nilable[f] + " returns nil for the blank identifier"
				}
			}
			c.Ob(rule, key, used[f], good, detail)
		}
	}
	if n < 2 {
		c.Ob(rule, "fast.Assign/callers", nil, false, fmt.Sprintf("%d functions call a nil-able setter of Assign, at least 2 expected", n))
	}
}

// ruleConditionalInit (Y8): a local of interface or pointer type that is declared without a value and
// assigned only inside if-bodies may still be nil afterwards. A method call or field selection on it is
// accepted when it is protected: inside an if-body whose condition has the conjunct `x != nil` (or is the
// condition under which x was assigned), in the right operand of `x == nil || ...` / `x != nil && ...`,
// or after a statement `if x == nil { return | continue | break | panic }` of an enclosing block.
func ruleConditionalInit(c *Ctx, rule, pkgShort string, files []string) {
	pk := c.P.Pkg(pkgShort)
	if pk == nil {
		c.Fatal("package %s not loaded", pkgShort)
		return
	}
	info := pk.TypesInfo
	want := map[string]bool{}
	for _, f := range files {
		want[f] = true
	}
	n := 0
	for _, fd := range c.P.FuncsOf(pkgShort) {
		if fd.Body == nil || (len(want) > 0 && !want[baseName(pk.Fset, fd)]) {
			continue
		}
		parent := map[ast.Node]ast.Node{}
		var stack []ast.Node
		ast.Inspect(fd.Body, func(nd ast.Node) bool {
			if nd == nil {
				stack = stack[:len(stack)-1]
				return true
			}
			if len(stack) > 0 {
				parent[nd] = stack[len(stack)-1]
			}
			stack = append(stack, nd)
			return true
		})
		// candidates: var x T without value
		cands := map[types.Object]*ast.ValueSpec{}
		ast.Inspect(fd.Body, func(nd ast.Node) bool {
			ds, ok := nd.(*ast.DeclStmt)
			if !ok {
				return true
			}
			gd, ok := ds.Decl.(*ast.GenDecl)
			if !ok || gd.Tok != token.VAR {
				return true
			}
			for _, sp := range gd.Specs {
				vs := sp.(*ast.ValueSpec)
				if len(vs.Values) != 0 {
					continue
				}
				for _, id := range vs.Names {
					obj := info.Defs[id]
					if obj == nil {
						continue
					}
					switch obj.Type().Underlying().(type) {
					case *types.Interface, *types.Pointer:
						cands[obj] = vs
					}
				}
			}
			return true
		})
		if len(cands) == 0 {
			continue
		}
		k := 0
		isNilCmp := func(e ast.Expr, obj types.Object, op token.Token) bool {
			be, ok := unparen(e).(*ast.BinaryExpr)
			if !ok || be.Op != op {
				return false
			}
			for _, pair := range [][2]ast.Expr{{be.X, be.Y}, {be.Y, be.X}} {
				id, ok := unparen(pair[0]).(*ast.Ident)
				if !ok || info.Uses[id] != obj {
					continue
				}
				if nl, ok := unparen(pair[1]).(*ast.Ident); ok && nl.Name == "nil" {
					return true
				}
			}
			return false
		}
		// assignments: where, and under which conditions
		type asg struct {
			node  ast.Node
			conds []string
			top   bool // in the block of the declaration, unconditionally
		}
		assigns := map[types.Object][]asg{}
		escaped := map[types.Object]bool{}
		ast.Inspect(fd.Body, func(nd ast.Node) bool {
			switch x := nd.(type) {
			case *ast.AssignStmt:
				for _, l := range x.Lhs {
					id, ok := unparen(l).(*ast.Ident)
					if !ok {
						continue
					}
					obj := info.Uses[id]
					if obj == nil || cands[obj] == nil {
						continue
					}
					a := asg{node: x, top: true}
					for p := ast.Node(x); p != nil; p = parent[p] {
						switch q := parent[p].(type) {
						case *ast.IfStmt:
							a.top = false
							if p == ast.Node(q.Body) {
								a.conds = append(a.conds, exprString(q.Cond))
							}
						case *ast.CaseClause, *ast.CommClause, *ast.ForStmt, *ast.RangeStmt, *ast.FuncLit:
							if containsNode(parent[p], cands[obj]) {
								continue
							}
							a.top = false
						}
					}
					assigns[obj] = append(assigns[obj], a)
				}
			case *ast.UnaryExpr:
				if x.Op == token.AND {
					if id, ok := unparen(x.X).(*ast.Ident); ok && cands[info.Uses[id]] != nil {
						escaped[info.Uses[id]] = true
					}
				}
			}
			return true
		})
		terminates := func(b *ast.BlockStmt) bool {
			if len(b.List) == 0 {
				return false
			}
			switch l := b.List[len(b.List)-1].(type) {
			case *ast.ReturnStmt:
				return true
			case *ast.BranchStmt:
				return l.Tok == token.CONTINUE || l.Tok == token.BREAK || l.Tok == token.GOTO
			case *ast.ExprStmt:
				if call, ok := l.X.(*ast.CallExpr); ok {
					if id, ok := call.Fun.(*ast.Ident); ok && id.Name == "panic" {
						return true
					}
					if fn := calleeOf(info, call); fn != nil && (fn.Name() == "Errorf" || fn.Name() == "Error") {
						return true
					}
				}
			}
			return false
		}
		ast.Inspect(fd.Body, func(nd ast.Node) bool {
			se, ok := nd.(*ast.SelectorExpr)
			if !ok {
				return true
			}
			id, ok := unparen(se.X).(*ast.Ident)
			if !ok {
				return true
			}
			obj := info.Uses[id]
			if obj == nil || cands[obj] == nil || escaped[obj] {
				return true
			}
			as := assigns[obj]
			if len(as) == 0 {
				return true
			}
			// only the exact idiom: one assignment, a direct statement of the body of an if without else,
			// which is itself a statement of the block that declares the variable
			if len(as) != 1 || as[0].top {
				return true
			}
			if blk, ok := parent[as[0].node].(*ast.BlockStmt); !ok {
				return true
			} else if ifs, ok := parent[blk].(*ast.IfStmt); !ok || ifs.Else != nil || ifs.Body != blk {
				return true
			} else if outer, ok := parent[ifs].(*ast.BlockStmt); !ok {
				return true
			} else {
				same := false
				for _, st := range outer.List {
					if ds, ok := st.(*ast.DeclStmt); ok && containsNode(ds, cands[obj]) {
						same = true
					}
				}
				if !same {
					return true
				}
			}
			// correlated tests: a condition on the way to the use that mentions the variable, an operand of
			// the condition under which it was assigned, or another variable assigned in the same branch
			corr := map[types.Object]bool{obj: true}
			if blk, ok := parent[as[0].node].(*ast.BlockStmt); ok {
				if ifs, ok := parent[blk].(*ast.IfStmt); ok {
					ast.Inspect(ifs.Cond, func(m ast.Node) bool {
						if id, ok := m.(*ast.Ident); ok {
							if v, ok := info.Uses[id].(*types.Var); ok && !v.IsField() {
								corr[v] = true
							}
						}
						return true
					})
					for _, st := range blk.List {
						if a2, ok := st.(*ast.AssignStmt); ok {
							for _, l := range a2.Lhs {
								if id, ok := l.(*ast.Ident); ok && info.ObjectOf(id) != nil {
									corr[info.ObjectOf(id)] = true
								}
							}
						}
					}
				}
			}
			mentions := func(e ast.Node) bool {
				if e == nil {
					return false
				}
				found := false
				ast.Inspect(e, func(m ast.Node) bool {
					if id, ok := m.(*ast.Ident); ok && corr[info.Uses[id]] {
						found = true
					}
					return true
				})
				return found
			}
			protected := ""
			for p := ast.Node(se); p != nil && protected == ""; p = parent[p] {
				switch x := parent[p].(type) {
				case *ast.IfStmt:
					if (p == ast.Node(x.Body) || p == x.Else) && mentions(x.Cond) {
						protected = "under a test correlated with its assignment (" + exprString(x.Cond) + ")"
					}
				case *ast.BinaryExpr:
					if p == ast.Node(x.Y) && (x.Op == token.LOR || x.Op == token.LAND) && mentions(x.X) {
						protected = "right of a test correlated with its assignment (" + exprString(x.X) + ")"
					}
				case *ast.BlockStmt:
					for _, st := range x.List {
						if st == p {
							break
						}
						if ifs, ok := st.(*ast.IfStmt); ok && terminates(ifs.Body) && mentions(ifs.Cond) {
							protected = "after an early exit correlated with its assignment (if " + exprString(ifs.Cond) + ")"
						}
					}
				}
			}
			for p := ast.Node(se); p != nil && protected == ""; p = parent[p] {
				q := parent[p]
				switch x := q.(type) {
				case *ast.IfStmt:
					if p == ast.Node(x.Body) {
						for _, a := range andAtoms(x.Cond) {
							if isNilCmp(a, obj, token.NEQ) {
								protected = "under if " + exprString(a)
							}
						}
						cs := exprString(x.Cond)
						for _, a := range as {
							for _, cnd := range a.conds {
								if cnd == cs && containsNode(x.Body, a.node) {
									protected = "in the branch that assigns it"
								}
							}
						}
					} else if x.Else != nil && p == ast.Node(x.Else) {
						for _, a := range orAtoms(x.Cond) {
							if isNilCmp(a, obj, token.EQL) {
								protected = "in the else branch of " + exprString(a)
							}
						}
					}
				case *ast.BinaryExpr:
					if p == ast.Node(x.Y) {
						if x.Op == token.LOR {
							for _, a := range orAtoms(x.X) {
								if isNilCmp(a, obj, token.EQL) {
									protected = "right of " + exprString(a) + " ||"
								}
							}
						} else if x.Op == token.LAND {
							for _, a := range andAtoms(x.X) {
								if isNilCmp(a, obj, token.NEQ) {
									protected = "right of " + exprString(a) + " &&"
								}
							}
						}
					}
				case *ast.BlockStmt:
					for _, st := range x.List {
						if st == p {
							break
						}
						if ifs, ok := st.(*ast.IfStmt); ok && ifs.Init == nil && terminates(ifs.Body) {
							for _, a := range orAtoms(ifs.Cond) {
								if isNilCmp(a, obj, token.EQL) {
									protected = "after if " + exprString(a) + " { leave }"
								}
							}
						}
					}
				}
			}
			n++
			k++
			key := fmt.Sprintf("%s/%s.%s#%d", funcKey(pk, fd), id.Name, se.Sel.Name, k)
			if protected != "" {
				c.Ob(rule, key, se, true, id.Name+" is assigned only under a condition; this use is "+protected)
			} else {
				c.Ob(rule, key, se, false, id.Name+" is declared without a value and assigned only under a condition, so it may be nil here; no test of it against nil protects "+exprString(se))
			}
			return true
		})
	}
	c.Extra(rule+"_uses_examined", n)
}

// ruleArrayLengthFolded (B4): len and cap of an array or of a pointer to array are the array length, also for a nil
// pointer. A builtin compiler that dereferences a pointer-to-array argument (a call of Comp.Deref on its argument)
// must not hand the dereferenced value to reflect at run time: under a test of the dereferenced type's kind against
// Array it replaces the run-time function by one that ignores its argument.
func ruleArrayLengthFolded(c *Ctx, rule string) {
	pk := c.P.Pkg("fast")
	if pk == nil {
		c.Fatal("package fast not loaded")
		return
	}
	info := pk.TypesInfo
	n := 0
	for _, fd := range c.P.FuncsOf("fast") {
		if fd.Body == nil || baseName(pk.Fset, fd) != "builtin.go" {
			continue
		}
		derefs := false
		inspectCalls(fd.Body, func(call *ast.CallExpr) {
			if fn := calleeOf(info, call); fn != nil && funcFullName(fn) == "fast.Comp.Deref" {
				derefs = true
			}
		})
		if !derefs {
			continue
		}
		n++
		di := buildDefIndex(info, fd)
		isArrayTest := func(e ast.Expr) bool {
			if id, ok := unparen(e).(*ast.Ident); ok {
				if d := di.single(info.Uses[id]); d != nil {
					e = d
				}
			}
			found := false
			ast.Inspect(e, func(m ast.Node) bool {
				be, ok := m.(*ast.BinaryExpr)
				if !ok || be.Op != token.EQL {
					return true
				}
				for _, side := range []ast.Expr{be.X, be.Y} {
					if o := usedObj(info, side); o != nil && o.Name() == "Array" {
						if _, isConst := o.(*types.Const); isConst {
							found = true
						}
					}
				}
				return true
			})
			return found
		}
		folded := false
		var at ast.Node
		ast.Inspect(fd.Body, func(m ast.Node) bool {
			ifs, ok := m.(*ast.IfStmt)
			if !ok || !isArrayTest(ifs.Cond) {
				return true
			}
			for _, st := range ifs.Body.List {
				as, ok := st.(*ast.AssignStmt)
				if !ok || len(as.Lhs) != 1 || len(as.Rhs) != 1 {
					continue
				}
				se, ok := as.Lhs[0].(*ast.SelectorExpr)
				if !ok || se.Sel.Name != "Value" {
					continue
				}
				lit, ok := as.Rhs[0].(*ast.FuncLit)
				if !ok {
					continue
				}
				ignores := true
				for _, p := range lit.Type.Params.List {
					for _, nm := range p.Names {
						if nm.Name == "_" {
							continue
						}
						obj := info.Defs[nm]
						ast.Inspect(lit.Body, func(u ast.Node) bool {
							if id, ok := u.(*ast.Ident); ok && info.Uses[id] == obj {
								ignores = false
							}
							return true
						})
					}
				}
				if ignores {
					folded = true
					at = as
				}
			}
			return true
		})
		// the type remembered before the dereference is stale afterwards: `tin := arg.Type; ...; arg = c.Deref(arg)`
		// must be followed, in the same block, by `tin = arg.Type`
		ast.Inspect(fd.Body, func(m ast.Node) bool {
			blk, ok := m.(*ast.BlockStmt)
			var list []ast.Stmt
			if ok {
				list = blk.List
			} else if cc, ok := m.(*ast.CaseClause); ok {
				list = cc.Body
			} else {
				return true
			}
			for i, st := range list {
				as, ok := st.(*ast.AssignStmt)
				if !ok || as.Tok != token.ASSIGN || len(as.Lhs) != 1 || len(as.Rhs) != 1 {
					continue
				}
				call, ok := unparen(as.Rhs[0]).(*ast.CallExpr)
				if !ok || funcFullName(calleeOf(info, call)) != "fast.Comp.Deref" || len(call.Args) != 1 {
					continue
				}
				lid, ok1 := as.Lhs[0].(*ast.Ident)
				aid, ok2 := unparen(call.Args[0]).(*ast.Ident)
				if !ok1 || !ok2 || info.Uses[lid] == nil || info.Uses[lid] != info.Uses[aid] {
					continue
				}
				argObj := info.Uses[lid]
				// locals whose first definition is arg.Type
				isTypeOfArg := func(e ast.Expr) bool {
					se, ok := unparen(e).(*ast.SelectorExpr)
					if !ok || se.Sel.Name != "Type" {
						return false
					}
					id, ok := unparen(se.X).(*ast.Ident)
					return ok && info.Uses[id] == argObj
				}
				for obj, defs := range di.defs {
					derived := false
					for _, d := range defs {
						if d != nil && isTypeOfArg(d) {
							derived = true
						}
					}
					if !derived || obj.Pos() > as.Pos() {
						continue
					}
					refreshed := false
					for _, later := range list[i+1:] {
						if a2, ok := later.(*ast.AssignStmt); ok && len(a2.Lhs) == 1 && len(a2.Rhs) == 1 {
							if id, ok := a2.Lhs[0].(*ast.Ident); ok && info.Uses[id] == obj && isTypeOfArg(a2.Rhs[0]) {
								refreshed = true
							}
						}
					}
					c.Ob(rule, funcKey(pk, fd)+"/"+obj.Name()+"-refreshed", as, refreshed, "after "+exprString(as.Lhs[0])+" is replaced by its dereference, "+obj.Name()+" (its type) is read again: the array test below looks at the element type, not at the pointer type")
				}
			}
			return true
		})
		key := funcKey(pk, fd) + "/array-folded"
		if folded {
			c.Ob(rule, key, at, true, "for an array the run-time function ignores its argument: a nil pointer to array is never dereferenced")
		} else {
			c.Ob(rule, key, fd, false, "the argument is dereferenced when it is a pointer to array, and the dereferenced value reaches reflect at run time: a nil pointer to array panics where Go yields the array length")
		}
	}
	if n < 2 {
		c.Ob(rule, "fast/builtin.go/deref", nil, false, fmt.Sprintf("%d builtin compilers dereference a pointer-to-array argument, at least 2 expected (len, cap)", n))
	}
}

// ruleDistinctPickedElements (Z2): a composite literal that picks its elements out of one slice by constant
// indices (`[...]func(*Env) bool{cmpfuns[0], cmpfuns[1]}`, the fixed-size copies the specialised closures
// capture) picks each index once: a repeated index means one operand is evaluated twice and another never.
func ruleDistinctPickedElements(c *Ctx, rule string, shorts ...string) {
	total := 0
	for _, short := range shorts {
		pk := c.P.Pkg(short)
		if pk == nil {
			continue
		}
		info := pk.TypesInfo
		for _, fd := range c.P.FuncsOf(short) {
			if fd.Body == nil {
				continue
			}
			n := 0
			ast.Inspect(fd.Body, func(nd ast.Node) bool {
				cl, ok := nd.(*ast.CompositeLit)
				if !ok || len(cl.Elts) < 2 {
					return true
				}
				switch info.TypeOf(cl).Underlying().(type) {
				case *types.Array, *types.Slice:
				default:
					return true
				}
				base := ""
				seen := map[int64]bool{}
				dup := int64(-1)
				for _, el := range cl.Elts {
					e := el
					// an element may also be the call of a picked closure: argv := []xr.Value{argfuns[0](env), argfuns[1](env)}
					if call, ok := unparen(e).(*ast.CallExpr); ok {
						if _, isIx := unparen(call.Fun).(*ast.IndexExpr); isIx {
							e = call.Fun
							el = call.Fun
						}
					}
					for {
						if se, ok := unparen(e).(*ast.SelectorExpr); ok {
							e = se.X
							continue
						}
						break
					}
					ix, ok := unparen(e).(*ast.IndexExpr)
					if !ok {
						return true
					}
					k, isConst := constInt(info, ix.Index)
					if !isConst {
						return true
					}
					if _, isSig := info.TypeOf(el).Underlying().(*types.Signature); !isSig {
						return true // only picked closures: values may legitimately repeat
					}
					b := exprString(ix.X) + "|" + exprString(el)[len(exprString(e)):]
					if base == "" {
						base = b
					} else if base != b {
						return true
					}
					if seen[k] {
						dup = k
					}
					seen[k] = true
				}
				total++
				n++
				c.Ob(rule, fmt.Sprintf("%s/pick#%d", funcKey(pk, fd), n), cl, dup < 0, fmt.Sprintf("the literal picks %d closures out of one slice by constant index, each index once (repeated: %d)", len(cl.Elts), dup))
				return true
			})
		}
	}
	c.Ob(rule, "all", nil, total >= 10, fmt.Sprintf("%d literals that pick closures by constant index examined", total))
}

// ruleEllipsisCallSlice (E5): a call f(a, b, xs...) hands xs to the callee as its variadic slice. reflect does that
// only in CallSlice; Call would wrap xs into a one-element slice (or panic on the type). In every branch taken under
// the test of Call.Ellipsis -- the closures written there and the bodies of the functions called there -- the
// function value is invoked through CallSlice (callslicexr) and never through Call (callxr); in the opposite branch
// of the same test no CallSlice appears.
func ruleEllipsisCallSlice(c *Ctx, rule string) {
	pk := c.P.Pkg("fast")
	if pk == nil {
		c.Fatal("package fast not loaded")
		return
	}
	info := pk.TypesInfo
	decls := map[*types.Func]*ast.FuncDecl{}
	for _, fd := range c.P.FuncsOf("fast") {
		if fn, ok := info.Defs[fd.Name].(*types.Func); ok {
			decls[fn] = fd
		}
	}
	// classify a call: "slice", "plain" or ""
	classify := func(call *ast.CallExpr) string {
		fn := calleeOf(info, call)
		if fn == nil {
			return ""
		}
		switch funcFullName(fn) {
		case "fast.callslicexr":
			return "slice"
		case "fast.callxr":
			return "plain"
		}
		if sig, ok := fn.Type().(*types.Signature); ok && sig.Recv() != nil {
			rt := sig.Recv().Type().String()
			if strings.HasSuffix(rt, "reflect.Value") || strings.HasSuffix(rt, "xreflect.Value") {
				switch fn.Name() {
				case "CallSlice":
					return "slice"
				case "Call":
					return "plain"
				}
			}
		}
		return ""
	}
	var count func(n ast.Node, depth int, visited map[*ast.FuncDecl]bool) (slice, plain int, firstPlain, firstSlice ast.Node)
	count = func(n ast.Node, depth int, visited map[*ast.FuncDecl]bool) (slice, plain int, firstPlain, firstSlice ast.Node) {
		inspectCalls(n, func(call *ast.CallExpr) {
			switch classify(call) {
			case "slice":
				slice++
				if firstSlice == nil {
					firstSlice = call
				}
			case "plain":
				plain++
				if firstPlain == nil {
					firstPlain = call
				}
			default:
				if depth > 0 {
					if fn := calleeOf(info, call); fn != nil && decls[fn] != nil && decls[fn].Body != nil && !visited[decls[fn]] &&
						(strings.Contains(fn.Name(), "ellipsis") || strings.Contains(fn.Name(), "variadic") || strings.HasPrefix(fn.Name(), "call")) {
						visited[decls[fn]] = true
						s, p, fp, fs := count(decls[fn].Body, depth-1, visited)
						slice += s
						plain += p
						if firstPlain == nil {
							firstPlain = fp
						}
						if firstSlice == nil {
							firstSlice = fs
						}
					}
				}
			}
		})
		return
	}
	n := 0
	for _, fd := range c.P.FuncsOf("fast") {
		if fd.Body == nil {
			continue
		}
		k := 0
		ast.Inspect(fd.Body, func(nd ast.Node) bool {
			ifs, ok := nd.(*ast.IfStmt)
			if !ok {
				return true
			}
			se, ok := unparen(ifs.Cond).(*ast.SelectorExpr)
			if !ok || fieldOfStruct(info, se, "fast", "Call") != "Ellipsis" {
				return true
			}
			s, p, fp, _ := count(ifs.Body, 1, map[*ast.FuncDecl]bool{})
			if s == 0 && p == 0 {
				return true // the branch does not invoke a function value through reflect (builtin append)
			}
			n++
			k++
			key := fmt.Sprintf("%s/ellipsis#%d", funcKey(pk, fd), k)
			var at ast.Node = ifs
			if fp != nil {
				at = fp
			}
			c.Ob(rule, key+"/then", at, s > 0 && p == 0, fmt.Sprintf("under Call.Ellipsis the function value is invoked through CallSlice only (%d CallSlice, %d Call)", s, p))
			// the opposite branch: the else block when it is a plain block (an else-if chain tests something else)
			if blk, ok := ifs.Else.(*ast.BlockStmt); ok {
				s2, _, _, fs := count(blk, 0, map[*ast.FuncDecl]bool{})
				var at2 ast.Node = blk
				if fs != nil {
					at2 = fs
				}
				c.Ob(rule, key+"/else", at2, s2 == 0, fmt.Sprintf("without an ellipsis the closures written in the branch never use CallSlice (%d)", s2))
			}
			return true
		})
	}
	// statements that obtain a Call themselves (go, defer) and invoke the function value directly, outside the
	// call_* dispatch, must look at Call.Ellipsis too and have a CallSlice for it
	for _, fd := range c.P.FuncsOf("fast") {
		if fd.Body == nil {
			continue
		}
		obtains := false
		inspectCalls(fd.Body, func(call *ast.CallExpr) {
			if funcFullName(calleeOf(info, call)) == "fast.Comp.prepareCall" {
				obtains = true
			}
		})
		if !obtains {
			continue
		}
		s, p, fp, _ := count(fd.Body, 0, map[*ast.FuncDecl]bool{})
		if s == 0 && p == 0 {
			continue // leaves the invocation to the call_* dispatch
		}
		reads := false
		ast.Inspect(fd.Body, func(m ast.Node) bool {
			if se, ok := m.(*ast.SelectorExpr); ok && fieldOfStruct(info, se, "fast", "Call") == "Ellipsis" {
				reads = true
			}
			return true
		})
		n++
		var at ast.Node = fd
		if fp != nil {
			at = fp
		}
		c.Ob(rule, funcKey(pk, fd)+"/direct", at, reads && s > 0 && p > 0, fmt.Sprintf("the statement invokes the function value itself: it reads Call.Ellipsis (%v) and has both a CallSlice (%d) and a Call (%d)", reads, s, p))
	}
	if n < 4 {
		c.Ob(rule, "fast/ellipsis-tests", nil, false, fmt.Sprintf("%d tests of Call.Ellipsis found, at least 4 expected", n))
	}
}

// ruleCacheRefreshGuard (V3): a run-time closure that memoises the Go function extracted from a slot value
// (`cachedfun = funv.Interface().(func() string)`, a variable captured from the compiler's scope) must notice when
// the slot holds another value: a function redefined later is stored in the same slot. The memo is written only in
// the body of an `if` whose condition compares, with !=, the value just read with a captured reflect value, and the
// same body records the value just read in that captured variable.
func ruleCacheRefreshGuard(c *Ctx, rule string) {
	pk := c.P.Pkg("fast")
	if pk == nil {
		c.Fatal("package fast not loaded")
		return
	}
	info := pk.TypesInfo
	isXV := func(e ast.Expr) bool {
		t := info.TypeOf(e)
		return t != nil && isNamedType(t, "xreflect", "Value") && !isPtr(t)
	}
	total := 0
	for _, fd := range c.P.FuncsOf("fast") {
		if fd.Body == nil {
			continue
		}
		fkey := funcKey(pk, fd)
		n, bad := 0, 0
		var firstBad ast.Node
		why := ""
		ast.Inspect(fd.Body, func(nd ast.Node) bool {
			lit, ok := nd.(*ast.FuncLit)
			if !ok || !isSigWithEnv(info.TypeOf(lit)) {
				return true
			}
			parent := map[ast.Node]ast.Node{}
			var stack []ast.Node
			ast.Inspect(lit.Body, func(m ast.Node) bool {
				if m == nil {
					stack = stack[:len(stack)-1]
					return true
				}
				if len(stack) > 0 {
					parent[m] = stack[len(stack)-1]
				}
				stack = append(stack, m)
				return true
			})
			captured := func(e ast.Expr) types.Object {
				id, ok := unparen(e).(*ast.Ident)
				if !ok {
					return nil
				}
				o := info.Uses[id]
				if o == nil || (o.Pos() >= lit.Pos() && o.Pos() < lit.End()) {
					return nil
				}
				if _, isVar := o.(*types.Var); !isVar {
					return nil
				}
				return o
			}
			ast.Inspect(lit.Body, func(m ast.Node) bool {
				as, ok := m.(*ast.AssignStmt)
				if !ok || as.Tok != token.ASSIGN || len(as.Lhs) != 1 || len(as.Rhs) != 1 || captured(as.Lhs[0]) == nil {
					return true
				}
				ta, ok := unparen(as.Rhs[0]).(*ast.TypeAssertExpr)
				if !ok {
					return true
				}
				call, ok := unparen(ta.X).(*ast.CallExpr)
				if !ok {
					return true
				}
				se, ok := unparen(call.Fun).(*ast.SelectorExpr)
				if !ok || se.Sel.Name != "Interface" || !isXV(se.X) {
					return true
				}
				src, ok := unparen(se.X).(*ast.Ident)
				if !ok {
					return true
				}
				n++
				total++
				srcObj := info.Uses[src]
				good := false
				reason := "the memo is refreshed outside any test of the slot's current value"
				var blk *ast.BlockStmt
				var ifs *ast.IfStmt
				for p := ast.Node(as); p != nil; p = parent[p] {
					if b, ok := parent[p].(*ast.BlockStmt); ok {
						if i, ok := parent[b].(*ast.IfStmt); ok && i.Body == b {
							blk, ifs = b, i
							break
						}
					}
				}
				if ifs != nil {
					reason = "the condition `" + exprString(ifs.Cond) + "` does not compare the value just read (" + src.Name + ") with a remembered one"
					var key types.Object
					for _, a := range orAtoms(ifs.Cond) {
						be, ok := unparen(a).(*ast.BinaryExpr)
						if !ok || be.Op != token.NEQ || !isXV(be.X) || !isXV(be.Y) {
							continue
						}
						for _, pr := range [][2]ast.Expr{{be.X, be.Y}, {be.Y, be.X}} {
							if id, ok := unparen(pr[0]).(*ast.Ident); ok && info.Uses[id] == srcObj {
								if o := captured(pr[1]); o != nil {
									key = o
								}
							}
						}
					}
					if key != nil {
						reason = "the branch does not record " + src.Name + " in " + key.Name()
						for _, st := range blk.List {
							if a2, ok := st.(*ast.AssignStmt); ok && len(a2.Lhs) == 1 && len(a2.Rhs) == 1 && captured(a2.Lhs[0]) == key {
								if id, ok := unparen(a2.Rhs[0]).(*ast.Ident); ok && info.Uses[id] == srcObj {
									good = true
								}
							}
						}
					}
				}
				if !good {
					bad++
					if firstBad == nil {
						firstBad = as
						why = reason
					}
				}
				return true
			})
			return true
		})
		if n == 0 {
			continue
		}
		if bad == 0 {
			c.Ob(rule, fkey, fd, true, fmt.Sprintf("%d memoised callees: each is refreshed under `remembered != current` and records the current value", n))
		} else {
			c.Ob(rule, fkey, firstBad, false, fmt.Sprintf("%d of %d memoised callees are not refreshed when the slot changes: %s", bad, n, why))
		}
	}
	if total < 100 {
		c.Ob(rule, "fast/memoised-callees", nil, false, fmt.Sprintf("%d memoised callees found, at least 100 expected", total))
	}
}

// ruleBindReuseSlots (NB2): a redeclared name keeps the slot index of the old binding only when the old binding
// has at least as many slots as the new one. In Env.Ints a complex128 takes two slots and everything else one, so
// reuse must be excluded when the new type is complex128 and the old one is not. The conditions on the way to
// `index = bind.Desc.Index()` in CompBinds.NewBind are evaluated as a boolean formula over the two facts
// "old kind is Complex128" and "new kind is Complex128" (any other sub-condition is left free): with old = no,
// new = yes the formula must be false for every value of the free sub-conditions.
func ruleBindReuseSlots(c *Ctx, rule string) {
	const fkey = "fast.CompBinds.NewBind"
	pk := c.P.Pkg("fast")
	fd := c.P.Func(fkey)
	if pk == nil || fd == nil || fd.Body == nil {
		c.Ob(rule, fkey, nil, false, "anchor function not found")
		return
	}
	info := pk.TypesInfo
	var newT types.Object
	for _, f := range fd.Type.Params.List {
		for _, nm := range f.Names {
			if o := info.Defs[nm]; o != nil && isNamedType(o.Type(), "xreflect", "Type") {
				newT = o
			}
		}
	}
	if newT == nil {
		c.Ob(rule, fkey, fd, false, "no parameter of type xreflect.Type: cannot tell the new binding's type")
		return
	}
	parent := map[ast.Node]ast.Node{}
	var stack []ast.Node
	ast.Inspect(fd.Body, func(m ast.Node) bool {
		if m == nil {
			stack = stack[:len(stack)-1]
			return true
		}
		if len(stack) > 0 {
			parent[m] = stack[len(stack)-1]
		}
		stack = append(stack, m)
		return true
	})
	// atom classification
	atom := func(e ast.Expr) (name string, negated bool) {
		be, ok := unparen(e).(*ast.BinaryExpr)
		if !ok || (be.Op != token.EQL && be.Op != token.NEQ) {
			return "", false
		}
		for _, pr := range [][2]ast.Expr{{be.X, be.Y}, {be.Y, be.X}} {
			o := usedObj(info, pr[1])
			if _, isConst := o.(*types.Const); !isConst || o.Name() != "Complex128" {
				continue
			}
			call, ok := unparen(pr[0]).(*ast.CallExpr)
			if !ok {
				continue
			}
			se, ok := unparen(call.Fun).(*ast.SelectorExpr)
			if !ok || se.Sel.Name != "Kind" {
				continue
			}
			if id, ok := unparen(se.X).(*ast.Ident); ok && info.Uses[id] == newT {
				return "new", be.Op == token.NEQ
			}
			if s2, ok := unparen(se.X).(*ast.SelectorExpr); ok && s2.Sel.Name == "Type" && isNamedType(info.TypeOf(s2.X), "fast", "Bind") {
				return "old", be.Op == token.NEQ
			}
		}
		return "", false
	}
	var free []string
	freeIdx := map[string]int{}
	var eval func(e ast.Expr, old, nw bool, mask int) bool
	eval = func(e ast.Expr, old, nw bool, mask int) bool {
		e = unparen(e)
		switch x := e.(type) {
		case *ast.UnaryExpr:
			if x.Op == token.NOT {
				return !eval(x.X, old, nw, mask)
			}
		case *ast.BinaryExpr:
			switch x.Op {
			case token.LAND:
				return eval(x.X, old, nw, mask) && eval(x.Y, old, nw, mask)
			case token.LOR:
				return eval(x.X, old, nw, mask) || eval(x.Y, old, nw, mask)
			}
			if name, neg := atom(x); name != "" {
				v := old
				if name == "new" {
					v = nw
				}
				return v != neg
			}
		}
		k := exprString(e)
		i, ok := freeIdx[k]
		if !ok {
			i = len(free)
			freeIdx[k] = i
			free = append(free, k)
		}
		return mask&(1<<uint(i)) != 0
	}
	n := 0
	ast.Inspect(fd.Body, func(m ast.Node) bool {
		as, ok := m.(*ast.AssignStmt)
		if !ok || len(as.Lhs) != 1 || len(as.Rhs) != 1 {
			return true
		}
		call, ok := unparen(as.Rhs[0]).(*ast.CallExpr)
		if !ok {
			return true
		}
		se, ok := unparen(call.Fun).(*ast.SelectorExpr)
		if !ok || se.Sel.Name != "Index" {
			return true
		}
		s2, ok := unparen(se.X).(*ast.SelectorExpr)
		if !ok || s2.Sel.Name != "Desc" || !isNamedType(info.TypeOf(s2.X), "fast", "Bind") {
			return true
		}
		n++
		// conditions on the way
		type cnd struct {
			e   ast.Expr
			neg bool
		}
		var conds []cnd
		for p := ast.Node(as); p != nil; p = parent[p] {
			if ifs, ok := parent[p].(*ast.IfStmt); ok {
				if p == ast.Node(ifs.Body) {
					conds = append(conds, cnd{ifs.Cond, false})
				} else if p == ifs.Else {
					conds = append(conds, cnd{ifs.Cond, true})
				}
			}
		}
		free = nil
		freeIdx = map[string]int{}
		// first pass registers the free atoms
		for _, cd := range conds {
			eval(cd.e, false, true, 0)
		}
		ok2 := len(free) <= 10
		reach := false
		if ok2 {
			for mask := 0; mask < 1<<uint(len(free)); mask++ {
				all := true
				for _, cd := range conds {
					if eval(cd.e, false, true, mask) == cd.neg {
						all = false
					}
				}
				if all {
					reach = true
				}
			}
		}
		mentions := false
		for _, cd := range conds {
			ast.Inspect(cd.e, func(x ast.Node) bool {
				if e, ok := x.(ast.Expr); ok {
					if nm, _ := atom(e); nm != "" {
						mentions = true
					}
				}
				return true
			})
		}
		detail := "the old slot index is reused only when the old binding has at least as many slots: unreachable for old kind != Complex128, new kind == Complex128"
		good := ok2 && !reach && mentions
		if !good {
			detail = "the old slot index is reused although the new binding may need two slots (complex128) where the old one has one: the conditions on the way do not exclude old kind != Complex128 with new kind == Complex128"
		}
		c.Ob(rule, fmt.Sprintf("%s/reuse#%d", fkey, n), as, good, detail)
		return true
	})
	if n == 0 {
		c.Ob(rule, fkey+"/reuse", fd, true, "no binding index is reused on redeclaration: nothing to check")
	}
}

// ruleElementSteps (D5): the compile-time type and the run-time value of an indexed operand descend in step. A
// function that computes its result type as obj.Type.Elem()...Elem() (k steps: pointer -> array -> element is two)
// and captures objfun := obj.AsX1() must, in every run-time closure that evaluates objfun(env), descend k steps from
// that value (Elem, Index, MapIndex) before it returns or stores: one step fewer indexes the pointer itself.
func ruleElementSteps(c *Ctx, rule string, files []string) {
	pk := c.P.Pkg("fast")
	if pk == nil {
		c.Fatal("package fast not loaded")
		return
	}
	info := pk.TypesInfo
	want := map[string]bool{}
	for _, f := range files {
		want[f] = true
	}
	isStep := map[string]bool{"Elem": true, "Index": true, "MapIndex": true}
	total := 0
	for _, fd := range c.P.FuncsOf("fast") {
		if fd.Body == nil || !want[baseName(pk.Fset, fd)] {
			continue
		}
		// k: t := obj.Type.Elem()...Elem() at the top level of the function
		var objObj types.Object
		k := 0
		var funObj types.Object
		for _, st := range fd.Body.List {
			as, ok := st.(*ast.AssignStmt)
			if !ok || as.Tok != token.DEFINE || len(as.Lhs) != 1 || len(as.Rhs) != 1 {
				continue
			}
			e := unparen(as.Rhs[0])
			steps := 0
			for {
				call, ok := e.(*ast.CallExpr)
				if !ok || len(call.Args) != 0 {
					break
				}
				se, ok := unparen(call.Fun).(*ast.SelectorExpr)
				if !ok || se.Sel.Name != "Elem" {
					break
				}
				steps++
				e = unparen(se.X)
			}
			if steps > 0 {
				if se, ok := e.(*ast.SelectorExpr); ok && se.Sel.Name == "Type" {
					if id, ok := unparen(se.X).(*ast.Ident); ok && isNamedType(info.TypeOf(id), "fast", "Expr") {
						if _, isParam := info.Uses[id].(*types.Var); isParam && k == 0 {
							objObj, k = info.Uses[id], steps
						}
					}
				}
				continue
			}
			if call, ok := e.(*ast.CallExpr); ok && len(call.Args) == 0 {
				if se, ok := unparen(call.Fun).(*ast.SelectorExpr); ok && se.Sel.Name == "AsX1" {
					if id, ok := unparen(se.X).(*ast.Ident); ok && objObj != nil && info.Uses[id] == objObj {
						if lid, ok := as.Lhs[0].(*ast.Ident); ok {
							funObj = info.Defs[lid]
						}
					}
				}
			}
		}
		if k == 0 || funObj == nil {
			continue
		}
		n := 0
		ast.Inspect(fd.Body, func(nd ast.Node) bool {
			lit, ok := nd.(*ast.FuncLit)
			if !ok || !isSigWithEnv(info.TypeOf(lit)) {
				return true
			}
			// the call objfun(env) in this closure
			var root *ast.CallExpr
			inspectCalls(lit.Body, func(call *ast.CallExpr) {
				if id, ok := unparen(call.Fun).(*ast.Ident); ok && info.Uses[id] == funObj && root == nil {
					root = call
				}
			})
			if root == nil {
				return true
			}
			// follow the value: method chain on the call, then through locals defined from it
			parent := map[ast.Node]ast.Node{}
			var stack []ast.Node
			ast.Inspect(lit.Body, func(m ast.Node) bool {
				if m == nil {
					stack = stack[:len(stack)-1]
					return true
				}
				if len(stack) > 0 {
					parent[m] = stack[len(stack)-1]
				}
				stack = append(stack, m)
				return true
			})
			var chainUp func(e ast.Node) (int, ast.Node)
			chainUp = func(e ast.Node) (int, ast.Node) {
				steps := 0
				cur := e
				for {
					p := parent[cur]
					if pe, ok := p.(*ast.ParenExpr); ok {
						cur = pe
						continue
					}
					se, ok := p.(*ast.SelectorExpr)
					if !ok || se.X != cur {
						return steps, cur
					}
					call, ok := parent[se].(*ast.CallExpr)
					if !ok || call.Fun != ast.Expr(se) {
						return steps, cur
					}
					if isStep[se.Sel.Name] {
						steps++
					}
					cur = call
				}
			}
			best := -1
			var visit func(e ast.Node, acc int, depth int)
			visit = func(e ast.Node, acc int, depth int) {
				s, top := chainUp(e)
				acc += s
				if acc > best {
					best = acc
				}
				if depth > 4 {
					return
				}
				// top is the whole value expression: is it the definition of a local?
				if as, ok := parent[top].(*ast.AssignStmt); ok && len(as.Lhs) == 1 && len(as.Rhs) == 1 && as.Rhs[0] == top {
					if id, ok := as.Lhs[0].(*ast.Ident); ok {
						obj := info.ObjectOf(id)
						ast.Inspect(lit.Body, func(u ast.Node) bool {
							if uid, ok := u.(*ast.Ident); ok && info.Uses[uid] == obj && obj != nil {
								visit(uid, acc, depth+1)
							}
							return true
						})
					}
				}
			}
			visit(root, 0, 0)
			n++
			total++
			c.Ob(rule, fmt.Sprintf("%s/closure#%d", funcKey(pk, fd), n), lit, best == k, fmt.Sprintf("the result type descends %d steps from the operand's type; the closure descends %d steps from the operand's value", k, best))
			return true
		})
	}
	if total < 8 {
		c.Ob(rule, "fast/element-steps", nil, false, fmt.Sprintf("%d closures examined, at least 8 expected", total))
	}
}

// ruleDeadBranchTruncate (TR1): when the condition of an `if` or `for` is a constant, the code of the branch that can
// never run is compiled (for its errors) and then dropped with Code.Truncate(L). What is dropped is everything
// compiled since `L = c.Code.Len()`. Under the guard "condition is constant false" (`fun == nil && !flag`) that
// stretch must compile the body and not the else branch; under "constant true" (`fun == nil && flag`) it must
// compile the else branch and not the body.
func ruleDeadBranchTruncate(c *Ctx, rule string) {
	pk := c.P.Pkg("fast")
	if pk == nil {
		c.Fatal("package fast not loaded")
		return
	}
	info := pk.TypesInfo
	n := 0
	for _, fd := range c.P.FuncsOf("fast") {
		if fd.Body == nil {
			continue
		}
		var di *defIndex
		var nodeParam types.Object
		for _, f := range fd.Type.Params.List {
			for _, nm := range f.Names {
				if o := info.Defs[nm]; o != nil && strings.HasPrefix(o.Type().String(), "*go/ast.") {
					nodeParam = o
				}
			}
		}
		k := 0
		ast.Inspect(fd.Body, func(nd ast.Node) bool {
			ifs, ok := nd.(*ast.IfStmt)
			if !ok {
				return true
			}
			var trunc *ast.CallExpr
			for _, st := range ifs.Body.List {
				if es, ok := st.(*ast.ExprStmt); ok {
					if call, ok := es.X.(*ast.CallExpr); ok && funcFullName(calleeOf(info, call)) == "fast.Code.Truncate" && len(call.Args) == 1 {
						trunc = call
					}
				}
			}
			if trunc == nil {
				return true
			}
			n++
			k++
			key := fmt.Sprintf("%s/truncate#%d", funcKey(pk, fd), k)
			if nodeParam == nil {
				c.Ob(rule, key, trunc, false, "the function has no syntax-node parameter: cannot tell which branch is compiled")
				return true
			}
			// guard polarity: a conjunct that is a bool identifier (constant true) or its negation (constant false)
			polarity := ""
			for _, a := range andAtoms(ifs.Cond) {
				a = unparen(a)
				if u, ok := a.(*ast.UnaryExpr); ok && u.Op == token.NOT {
					if id, ok := unparen(u.X).(*ast.Ident); ok && isBoolType(info.TypeOf(id)) {
						polarity = "false"
					}
				} else if id, ok := a.(*ast.Ident); ok && isBoolType(info.TypeOf(id)) {
					polarity = "true"
				}
			}
			if polarity == "" {
				c.Ob(rule, key, trunc, false, "the guard `"+exprString(ifs.Cond)+"` does not say whether the condition is constant true or constant false")
				return true
			}
			label := exprString(trunc.Args[0])
			// the recording of the label
			var rec *ast.AssignStmt
			ast.Inspect(fd.Body, func(m ast.Node) bool {
				as, ok := m.(*ast.AssignStmt)
				if !ok || len(as.Lhs) != 1 || len(as.Rhs) != 1 || as.Pos() > trunc.Pos() || exprString(as.Lhs[0]) != label {
					return true
				}
				if call, ok := unparen(as.Rhs[0]).(*ast.CallExpr); ok && funcFullName(calleeOf(info, call)) == "fast.Code.Len" {
					rec = as
				}
				return true
			})
			if rec == nil {
				c.Ob(rule, key, trunc, false, "no `"+label+" = c.Code.Len()` precedes the truncation")
				return true
			}
			if di == nil {
				di = buildDefIndex(info, fd)
			}
			compiled := map[string]bool{}
			inspectCalls(fd.Body, func(call *ast.CallExpr) {
				if call.Pos() < rec.End() || call.Pos() > trunc.Pos() {
					return
				}
				switch funcFullName(calleeOf(info, call)) {
				case "fast.Comp.Block", "fast.Comp.Stmt":
				default:
					return
				}
				for _, arg := range call.Args {
					ast.Inspect(arg, func(x ast.Node) bool {
						switch e := x.(type) {
						case *ast.SelectorExpr:
							if id, ok := unparen(e.X).(*ast.Ident); ok && info.Uses[id] == nodeParam {
								compiled[e.Sel.Name] = true
							}
						case *ast.Ident:
							if d := di.single(info.Uses[e]); d != nil {
								if se, ok := unparen(d).(*ast.SelectorExpr); ok {
									if id, ok := unparen(se.X).(*ast.Ident); ok && info.Uses[id] == nodeParam {
										compiled[se.Sel.Name] = true
									}
								}
							}
						}
						return true
					})
				}
			})
			var names []string
			for f := range compiled {
				names = append(names, f)
			}
			sort.Strings(names)
			good := false
			if polarity == "false" {
				good = compiled["Body"] && !compiled["Else"]
			} else {
				good = compiled["Else"] && !compiled["Body"]
			}
			c.Ob(rule, key, trunc, good, fmt.Sprintf("guard says the condition is constant %s; the stretch dropped by Truncate(%s) compiles %v", polarity, label, names))
			return true
		})
	}
	if n < 3 {
		c.Ob(rule, "fast/truncations", nil, false, fmt.Sprintf("%d dead-branch truncations found, at least 3 expected", n))
	}
}

func isBoolType(t types.Type) bool {
	b, ok := t.Underlying().(*types.Basic)
	return ok && b.Info()&types.IsBoolean != 0
}

// ruleSendValueConversion (S5): the value of a send statement is converted to the channel's element type the way
// an assignment would: a constant (an untyped constant, or nil) takes the element type with ConstTo, anything else
// must be assignable. Every function that compiles the Value of an *ast.SendStmt -- the send statement and the send
// case of select -- tests Const() on the compiled expression and calls ConstTo on it.
func ruleSendValueConversion(c *Ctx, rule string) {
	pk := c.P.Pkg("fast")
	if pk == nil {
		c.Fatal("package fast not loaded")
		return
	}
	info := pk.TypesInfo
	n := 0
	for _, fd := range c.P.FuncsOf("fast") {
		if fd.Body == nil {
			continue
		}
		ast.Inspect(fd.Body, func(nd ast.Node) bool {
			as, ok := nd.(*ast.AssignStmt)
			if !ok || len(as.Lhs) != 1 || len(as.Rhs) != 1 {
				return true
			}
			call, ok := unparen(as.Rhs[0]).(*ast.CallExpr)
			if !ok || len(call.Args) == 0 {
				return true
			}
			fn := calleeOf(info, call)
			if fn == nil || !isNamedType(fn.Type().(*types.Signature).Results().At(0).Type(), "fast", "Expr") {
				return true
			}
			se, ok := unparen(call.Args[0]).(*ast.SelectorExpr)
			if !ok || se.Sel.Name != "Value" {
				return true
			}
			if t := info.TypeOf(se.X); t == nil || t.String() != "*go/ast.SendStmt" {
				return true
			}
			id, ok := as.Lhs[0].(*ast.Ident)
			if !ok {
				return true
			}
			obj := info.ObjectOf(id)
			n++
			hasConst, hasConstTo := false, false
			inspectCalls(fd.Body, func(c2 *ast.CallExpr) {
				s2, ok := unparen(c2.Fun).(*ast.SelectorExpr)
				if !ok {
					return
				}
				rid, ok := unparen(s2.X).(*ast.Ident)
				if !ok || info.Uses[rid] != obj {
					return
				}
				switch s2.Sel.Name {
				case "Const":
					hasConst = true
				case "ConstTo":
					hasConstTo = true
				}
			})
			c.Ob(rule, funcKey(pk, fd)+"/"+id.Name, as, hasConst && hasConstTo, fmt.Sprintf("the compiled value of the send is tested with Const() (%v) and a constant is given the element type with ConstTo (%v)", hasConst, hasConstTo))
			return true
		})
	}
	if n < 2 {
		c.Ob(rule, "fast/send-values", nil, false, fmt.Sprintf("%d functions compile the value of a send statement, at least 2 expected (send statement, select case)", n))
	}
}

// ruleConstantNilValue (N7): reflect.ValueOf(nil) is the invalid Value. A Value built from a constant's value
// (`v := xr.ValueOf(expr.Value)`) that is later handed to reflect as an argument (Send, Set, SetMapIndex, Append...)
// must have been tested with IsValid in the same function: the constant may be nil.
func ruleConstantNilValue(c *Ctx, rule string, files []string) {
	pk := c.P.Pkg("fast")
	if pk == nil {
		c.Fatal("package fast not loaded")
		return
	}
	info := pk.TypesInfo
	want := map[string]bool{}
	for _, f := range files {
		want[f] = true
	}
	n := 0
	for _, fd := range c.P.FuncsOf("fast") {
		if fd.Body == nil || (len(want) > 0 && !want[baseName(pk.Fset, fd)]) {
			continue
		}
		ast.Inspect(fd.Body, func(nd ast.Node) bool {
			as, ok := nd.(*ast.AssignStmt)
			if !ok || as.Tok != token.DEFINE || len(as.Lhs) != 1 || len(as.Rhs) != 1 {
				return true
			}
			call, ok := unparen(as.Rhs[0]).(*ast.CallExpr)
			if !ok || len(call.Args) != 1 || funcFullName(calleeOf(info, call)) != "xreflect.ValueOf" {
				return true
			}
			se, ok := unparen(call.Args[0]).(*ast.SelectorExpr)
			if !ok || se.Sel.Name != "Value" || !isNamedType(info.TypeOf(se.X), "fast", "Expr") {
				return true
			}
			id, ok := as.Lhs[0].(*ast.Ident)
			if !ok {
				return true
			}
			obj := info.Defs[id]
			asArg, tested := false, false
			var where ast.Node
			inspectCalls(fd.Body, func(c2 *ast.CallExpr) {
				if s2, ok := unparen(c2.Fun).(*ast.SelectorExpr); ok {
					if rid, ok := unparen(s2.X).(*ast.Ident); ok && info.Uses[rid] == obj && s2.Sel.Name == "IsValid" {
						tested = true
					}
					if !isNamedType(info.TypeOf(s2.X), "xreflect", "Value") && !isNamedType(info.TypeOf(s2.X), "reflect", "Value") {
						return
					}
				} else {
					return
				}
				for _, a := range c2.Args {
					if aid, ok := unparen(a).(*ast.Ident); ok && info.Uses[aid] == obj {
						asArg = true
						if where == nil {
							where = c2
						}
					}
				}
			})
			if !asArg {
				return true
			}
			n++
			c.Ob(rule, funcKey(pk, fd)+"/"+id.Name, where, tested, "the Value of a constant is handed to reflect as an argument: the function tests it with IsValid (a constant nil gives the invalid Value)")
			return true
		})
	}
	c.Extra(rule+"_sites", n)
	if n < 1 {
		c.Ob(rule, "fast/constant-values", nil, false, "no constant Value handed to reflect found, at least 1 expected (Comp.Send)")
	}
}

// ruleRealImagUntypedKind (K7): for an untyped constant argument real() and imag() yield an untyped *floating-point*
// constant (spec, "Manipulating complex numbers"), whatever representation go/constant chose for the component. The
// compiler of that case builds its result with untyped.MakeLit: the kind argument must be the constant untyped.Float,
// not a kind computed from the value (constant.Real(2+3i) is represented as an integer, so real(2+3i)/4 became 0).
func ruleRealImagUntypedKind(c *Ctx, rule string) {
	pk := c.P.Pkg("fast")
	if pk == nil {
		c.Fatal("package fast not loaded")
		return
	}
	info := pk.TypesInfo
	n := 0
	for _, fd := range c.P.FuncsOf("fast") {
		if fd.Body == nil {
			continue
		}
		usesRealImag := false
		inspectCalls(fd.Body, func(call *ast.CallExpr) {
			switch funcFullName(calleeOf(info, call)) {
			case "go/constant.Real", "go/constant.Imag":
				usesRealImag = true
			}
		})
		if !usesRealImag {
			continue
		}
		inspectCalls(fd.Body, func(call *ast.CallExpr) {
			if funcFullName(calleeOf(info, call)) != "base/untyped.MakeLit" || len(call.Args) < 2 {
				return
			}
			n++
			o := usedObj(info, call.Args[0])
			_, isConst := o.(*types.Const)
			good := isConst && o.Name() == "Float"
			c.Ob(rule, fmt.Sprintf("%s/MakeLit#%d", funcKey(pk, fd), n), call, good, "real()/imag() of an untyped constant is built with the constant kind untyped.Float (kind argument: "+exprString(call.Args[0])+")")
		})
	}
	if n < 1 {
		c.Ob(rule, "fast/real-imag-untyped", nil, false, "no function builds an untyped literal from constant.Real / constant.Imag: anchor missing")
	}
}
