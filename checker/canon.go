package main

// Canonical terms of closures (E1 "abstraction"). Sound normalisations only:
//  - conversions between basic types of the same category are dropped (they cannot
//    be removed or retargeted without a compile error, see DESIGN §3 E1);
//  - the label's Go type prints as τ, the accessor of its category as κ;
//  - *(*T)(unsafe.Pointer(&E.Ints[i])) and E.Ints[i] print as INTS[T](E,i);
//  - variables bound inside the closure are α-renamed in order of first binding;
//  - captured variables with a single definition print as that definition (so the
//    provenance of x / y operands is part of the term), others by name.

import (
	"bytes"
	"fmt"
	"go/ast"
	"go/printer"
	"go/token"
	"go/types"
	"regexp"
	"strings"
)

type canonizer struct {
	info  *types.Info
	fset  *token.FileSet
	di    *defIndex
	tau   types.Type
	lit   *ast.FuncLit
	alpha map[types.Object]string
	depth int
	// stack of objects being expanded (cycle guard)
	expanding map[types.Object]bool
}

func newCanonizer(info *types.Info, fset *token.FileSet, di *defIndex, tau types.Type, lit *ast.FuncLit) *canonizer {
	return &canonizer{info: info, fset: fset, di: di, tau: tau, lit: lit, alpha: map[types.Object]string{}, expanding: map[types.Object]bool{}}
}

var getAccessors = map[string]string{"Bool": "Bool", "Int": "Int", "Uint": "Uint", "Float": "Float", "Complex": "Complex", "String": "String"}
var setAccessors = map[string]string{"SetBool": "Bool", "SetInt": "Int", "SetUint": "Uint", "SetFloat": "Float", "SetComplex": "Complex", "SetString": "String"}

func isReflectValue(t types.Type) bool {
	if t == nil {
		return false
	}
	t = types.Unalias(t)
	n, ok := t.(*types.Named)
	return ok && n.Obj().Name() == "Value" && n.Obj().Pkg() != nil && (n.Obj().Pkg().Path() == "reflect" || n.Obj().Pkg().Path() == modPath+"/xreflect")
}

func (c *canonizer) typ(t types.Type) string {
	if t == nil {
		return "?"
	}
	if b, ok := t.(*types.Basic); ok && basicCategory(b) != "" && b.Info()&types.IsUntyped == 0 {
		return "⟦" + b.Name() + "⟧"
	}
	switch x := t.(type) {
	case *types.Chan:
		d := "chan "
		if x.Dir() == types.SendOnly {
			d = "chan<- "
		} else if x.Dir() == types.RecvOnly {
			d = "<-chan "
		}
		return d + c.typ(x.Elem())
	case *types.Map:
		return "map[" + c.typ(x.Key()) + "]" + c.typ(x.Elem())
	case *types.Array:
		return fmt.Sprintf("[%d]%s", x.Len(), c.typ(x.Elem()))
	case *types.Pointer:
		return "*" + c.typ(x.Elem())
	case *types.Slice:
		return "[]" + c.typ(x.Elem())
	case *types.Signature:
		var ps, rs []string
		for i := 0; i < x.Params().Len(); i++ {
			ps = append(ps, c.typ(x.Params().At(i).Type()))
		}
		for i := 0; i < x.Results().Len(); i++ {
			rs = append(rs, c.typ(x.Results().At(i).Type()))
		}
		v := ""
		if x.Variadic() {
			v = "..."
		}
		return "func(" + strings.Join(ps, ",") + v + ")(" + strings.Join(rs, ",") + ")"
	}
	return types.TypeString(t, func(p *types.Package) string { return shortPkg(p.Path()) })
}

func (c *canonizer) typeExpr(e ast.Expr) (string, bool) {
	tv, ok := c.info.Types[e]
	if ok && tv.IsType() {
		return c.typ(tv.Type), true
	}
	return "", false
}

func (c *canonizer) exprs(es []ast.Expr) string {
	var ss []string
	for _, e := range es {
		ss = append(ss, c.expr(e))
	}
	return strings.Join(ss, ", ")
}

// intsAccess recognises E.Ints[i]; returns E, i.
func intsAccess(info *types.Info, e ast.Expr) (ast.Expr, ast.Expr, bool) {
	ix, ok := unparen(e).(*ast.IndexExpr)
	if !ok {
		return nil, nil, false
	}
	sel, ok := unparen(ix.X).(*ast.SelectorExpr)
	if !ok || sel.Sel.Name != "Ints" {
		return nil, nil, false
	}
	if !isEnvPtr(info.TypeOf(sel.X)) {
		return nil, nil, false
	}
	return sel.X, ix.Index, true
}

func valsAccess(info *types.Info, e ast.Expr) (ast.Expr, ast.Expr, bool) {
	ix, ok := unparen(e).(*ast.IndexExpr)
	if !ok {
		return nil, nil, false
	}
	sel, ok := unparen(ix.X).(*ast.SelectorExpr)
	if !ok || sel.Sel.Name != "Vals" {
		return nil, nil, false
	}
	if !isEnvPtr(info.TypeOf(sel.X)) {
		return nil, nil, false
	}
	return sel.X, ix.Index, true
}

// unsafeIntsPtr recognises (*T)(unsafe.Pointer(&E.Ints[i])); returns T, E, i.
func unsafeIntsPtr(info *types.Info, e ast.Expr) (types.Type, ast.Expr, ast.Expr, bool) {
	call, ok := unparen(e).(*ast.CallExpr)
	if !ok || len(call.Args) != 1 {
		return nil, nil, nil, false
	}
	tv, ok := info.Types[call.Fun]
	if !ok || !tv.IsType() {
		return nil, nil, nil, false
	}
	pt, ok := tv.Type.(*types.Pointer)
	if !ok {
		return nil, nil, nil, false
	}
	inner, ok := unparen(call.Args[0]).(*ast.CallExpr)
	if !ok || len(inner.Args) != 1 {
		return nil, nil, nil, false
	}
	itv, ok := info.Types[inner.Fun]
	if !ok || !itv.IsType() {
		return nil, nil, nil, false
	}
	if b, ok := itv.Type.(*types.Basic); !ok || b.Kind() != types.UnsafePointer {
		return nil, nil, nil, false
	}
	u, ok := unparen(inner.Args[0]).(*ast.UnaryExpr)
	if !ok || u.Op != token.AND {
		return nil, nil, nil, false
	}
	E, i, ok := intsAccess(info, u.X)
	if !ok {
		return nil, nil, nil, false
	}
	return pt.Elem(), E, i, true
}

func (c *canonizer) ident(id *ast.Ident) string {
	o := c.info.Uses[id]
	if o == nil {
		o = c.info.Defs[id]
	}
	if o == nil {
		return id.Name
	}
	switch x := o.(type) {
	case *types.TypeName:
		return c.typ(x.Type())
	case *types.PkgName:
		return shortPkg(x.Imported().Path())
	case *types.Nil, *types.Builtin:
		return id.Name
	case *types.Const:
		if o.Pkg() != nil && o.Parent() == o.Pkg().Scope() {
			return objQName(o)
		}
	case *types.Func:
		return objQName(o)
	}
	if o.Pkg() != nil && o.Parent() == o.Pkg().Scope() {
		return objQName(o)
	}
	// local variable
	if c.lit != nil && o.Pos() >= c.lit.Pos() && o.Pos() < c.lit.End() {
		if a, ok := c.alpha[o]; ok {
			return a
		}
		a := fmt.Sprintf("$%d", len(c.alpha)+1)
		c.alpha[o] = a
		return a
	}
	// captured or function-level variable
	if c.di != nil && c.depth < 8 && !c.expanding[o] {
		if d := c.di.single(o); d != nil {
			c.expanding[o] = true
			c.depth++
			s := "‹" + c.expr(d) + "›"
			c.depth--
			delete(c.expanding, o)
			return s
		}
	}
	return o.Name()
}

func (c *canonizer) expr(e ast.Expr) string {
	switch x := e.(type) {
	case nil:
		return ""
	case *ast.ParenExpr:
		return c.expr(x.X)
	case *ast.Ident:
		return c.ident(x)
	case *ast.BasicLit:
		return x.Value
	case *ast.StarExpr:
		if t, E, i, ok := unsafeIntsPtr(c.info, x.X); ok {
			return "INTS[" + c.typ(t) + "](" + c.expr(E) + ", " + c.expr(i) + ")"
		}
		if s, ok := c.typeExpr(x); ok {
			return s
		}
		return "*" + c.expr(x.X)
	case *ast.UnaryExpr:
		if x.Op == token.AND {
			if E, i, ok := intsAccess(c.info, x.X); ok {
				return "PINTS[" + c.typ(types.Typ[types.Uint64]) + "](" + c.expr(E) + ", " + c.expr(i) + ")"
			}
		}
		return x.Op.String() + c.expr(x.X)
	case *ast.BinaryExpr:
		return "(" + c.expr(x.X) + " " + x.Op.String() + " " + c.expr(x.Y) + ")"
	case *ast.IndexExpr:
		if E, i, ok := intsAccess(c.info, x); ok {
			return "INTS[" + c.typ(types.Typ[types.Uint64]) + "](" + c.expr(E) + ", " + c.expr(i) + ")"
		}
		return c.expr(x.X) + "[" + c.expr(x.Index) + "]"
	case *ast.SliceExpr:
		s := c.expr(x.X) + "[" + c.expr(x.Low) + ":" + c.expr(x.High)
		if x.Slice3 {
			s += ":" + c.expr(x.Max)
		}
		return s + "]"
	case *ast.SelectorExpr:
		if _, ok := c.info.Uses[identOf(x.X)].(*types.PkgName); ok {
			return c.ident(x.Sel)
		}
		return c.expr(x.X) + "." + x.Sel.Name
	case *ast.TypeAssertExpr:
		if x.Type == nil {
			return c.expr(x.X) + ".(type)"
		}
		return c.expr(x.X) + ".(" + c.typ(c.info.TypeOf(x.Type)) + ")"
	case *ast.CallExpr:
		// conversion?
		if tv, ok := c.info.Types[x.Fun]; ok && tv.IsType() && len(x.Args) == 1 {
			if t, E, i, ok := unsafeIntsPtr(c.info, x); ok {
				return "PINTS[" + c.typ(t) + "](" + c.expr(E) + ", " + c.expr(i) + ")"
			}
			from := c.info.TypeOf(x.Args[0])
			if from != nil {
				cf, ct := basicCategory(from), basicCategory(tv.Type)
				if cf != "" && cf == ct {
					if _, isBasic := tv.Type.(*types.Basic); isBasic {
						if _, isBasic2 := from.(*types.Basic); isBasic2 {
							return c.expr(x.Args[0]) // same-category conversion dropped
						}
					}
				}
			}
			return c.typ(tv.Type) + "(" + c.expr(x.Args[0]) + ")"
		}
		// helpers that read a map element tolerating a missing key: mapIndexInt(m, k) is m.MapIndex(k).Int() with
		// zero for an absent key; rendered as that accessor so that the category of the read stays visible
		if fn := calleeOf(c.info, x); fn != nil && fn.Pkg() != nil && fn.Pkg().Name() == "fast" && len(x.Args) == 2 {
			switch fn.Name() {
			case "mapIndexInt":
				return c.expr(x.Args[0]) + ".MapIndex(" + c.expr(x.Args[1]) + ").⟪Int⟫()"
			case "mapIndexUint":
				return c.expr(x.Args[0]) + ".MapIndex(" + c.expr(x.Args[1]) + ").⟪Uint⟫()"
			}
		}
		// reflect accessor of the label's category
		if sel, ok := unparen(x.Fun).(*ast.SelectorExpr); ok && isReflectValue(c.info.TypeOf(sel.X)) {
			cat := basicCategory(c.tau)
			_ = cat
			if g, ok := getAccessors[sel.Sel.Name]; ok && len(x.Args) == 0 {
				return c.expr(sel.X) + ".⟪" + g + "⟫()"
			}
			if g, ok := setAccessors[sel.Sel.Name]; ok && len(x.Args) == 1 {
				return c.expr(sel.X) + ".Set⟪" + g + "⟫(" + c.expr(x.Args[0]) + ")"
			}
		}
		s := c.expr(x.Fun) + "(" + c.exprs(x.Args)
		if x.Ellipsis.IsValid() {
			s += "..."
		}
		return s + ")"
	case *ast.FuncLit:
		return "func" + c.sig(x.Type) + c.block(x.Body)
	case *ast.CompositeLit:
		t := ""
		if x.Type != nil {
			t = c.typ(c.info.TypeOf(x.Type))
		}
		return t + "{" + c.exprs(x.Elts) + "}"
	case *ast.KeyValueExpr:
		k := c.expr(x.Key)
		if id, ok := x.Key.(*ast.Ident); ok {
			if _, isField := c.info.Uses[id].(*types.Var); isField && c.info.Uses[id].(*types.Var).IsField() {
				k = id.Name
			}
		}
		return k + ": " + c.expr(x.Value)
	case *ast.ArrayType, *ast.MapType, *ast.ChanType, *ast.FuncType, *ast.InterfaceType, *ast.StructType, *ast.Ellipsis:
		if s, ok := c.typeExpr(x); ok {
			return s
		}
	}
	var b bytes.Buffer
	printer.Fprint(&b, c.fset, e)
	return strings.Join(strings.Fields(b.String()), " ")
}

func (c *canonizer) sig(ft *ast.FuncType) string {
	var ps, rs []string
	if ft.Params != nil {
		for _, f := range ft.Params.List {
			t := c.typ(c.info.TypeOf(f.Type))
			if len(f.Names) == 0 {
				ps = append(ps, t)
			}
			for _, n := range f.Names {
				ps = append(ps, c.ident(n)+" "+t)
			}
		}
	}
	if ft.Results != nil {
		for _, f := range ft.Results.List {
			t := c.typ(c.info.TypeOf(f.Type))
			if len(f.Names) == 0 {
				rs = append(rs, t)
			}
			for _, n := range f.Names {
				rs = append(rs, c.ident(n)+" "+t)
			}
		}
	}
	return "(" + strings.Join(ps, ", ") + ")(" + strings.Join(rs, ", ") + ")"
}

func (c *canonizer) block(b *ast.BlockStmt) string {
	if b == nil {
		return "{}"
	}
	var ss []string
	for _, s := range b.List {
		ss = append(ss, c.stmt(s))
	}
	return "{ " + strings.Join(ss, "; ") + " }"
}

func (c *canonizer) stmt(s ast.Stmt) string {
	switch x := s.(type) {
	case nil:
		return ""
	case *ast.BlockStmt:
		return c.block(x)
	case *ast.ExprStmt:
		return c.expr(x.X)
	case *ast.AssignStmt:
		// evaluate rhs first so that `x := x.(T)` style shadowing resolves the old x
		r := c.exprs(x.Rhs)
		return c.exprs(x.Lhs) + " " + x.Tok.String() + " " + r
	case *ast.IncDecStmt:
		return c.expr(x.X) + x.Tok.String()
	case *ast.ReturnStmt:
		return "return " + c.exprs(x.Results)
	case *ast.IfStmt:
		s := "if "
		if x.Init != nil {
			s += c.stmt(x.Init) + "; "
		}
		s += c.expr(x.Cond) + " " + c.block(x.Body)
		if x.Else != nil {
			s += " else " + c.stmt(x.Else)
		}
		return s
	case *ast.ForStmt:
		return "for " + c.stmt(x.Init) + "; " + c.expr(x.Cond) + "; " + c.stmt(x.Post) + " " + c.block(x.Body)
	case *ast.RangeStmt:
		xs := c.expr(x.X)
		return "for " + c.expr(x.Key) + ", " + c.expr(x.Value) + " " + x.Tok.String() + " range " + xs + " " + c.block(x.Body)
	case *ast.DeclStmt:
		gd, ok := x.Decl.(*ast.GenDecl)
		if ok && gd.Tok == token.VAR {
			var ss []string
			for _, sp := range gd.Specs {
				vs := sp.(*ast.ValueSpec)
				vals := c.exprs(vs.Values)
				var ns []string
				for _, n := range vs.Names {
					ns = append(ns, c.ident(n))
				}
				t := ""
				if vs.Type != nil {
					t = " " + c.typ(c.info.TypeOf(vs.Type))
				}
				ss = append(ss, "var "+strings.Join(ns, ", ")+t+" = "+vals)
			}
			return strings.Join(ss, "; ")
		}
	case *ast.SwitchStmt:
		s := "switch "
		if x.Init != nil {
			s += c.stmt(x.Init) + "; "
		}
		s += c.expr(x.Tag) + " {"
		for _, cc := range x.Body.List {
			cl := cc.(*ast.CaseClause)
			if cl.List == nil {
				s += " default:"
			} else {
				s += " case " + c.exprs(cl.List) + ":"
			}
			for _, b := range cl.Body {
				s += " " + c.stmt(b) + ";"
			}
		}
		return s + " }"
	case *ast.TypeSwitchStmt:
		s := "switch "
		if x.Init != nil {
			s += c.stmt(x.Init) + "; "
		}
		s += c.stmt(x.Assign) + " {"
		for _, cc := range x.Body.List {
			cl := cc.(*ast.CaseClause)
			if cl.List == nil {
				s += " default:"
			} else {
				var ts []string
				for _, e := range cl.List {
					if t, ok := c.typeExpr(e); ok {
						ts = append(ts, t)
					} else {
						ts = append(ts, c.expr(e))
					}
				}
				s += " case " + strings.Join(ts, ", ") + ":"
			}
			for _, b := range cl.Body {
				s += " " + c.stmt(b) + ";"
			}
		}
		return s + " }"
	case *ast.BranchStmt:
		if x.Label != nil {
			return x.Tok.String() + " " + x.Label.Name
		}
		return x.Tok.String()
	case *ast.DeferStmt:
		return "defer " + c.expr(x.Call)
	case *ast.GoStmt:
		return "go " + c.expr(x.Call)
	case *ast.SendStmt:
		return c.expr(x.Chan) + " <- " + c.expr(x.Value)
	case *ast.LabeledStmt:
		return x.Label.Name + ": " + c.stmt(x.Stmt)
	case *ast.EmptyStmt:
		return ""
	case *ast.SelectStmt:
		s := "select {"
		for _, cc := range x.Body.List {
			cl := cc.(*ast.CommClause)
			if cl.Comm == nil {
				s += " default:"
			} else {
				s += " case " + c.stmt(cl.Comm) + ":"
			}
			for _, b := range cl.Body {
				s += " " + c.stmt(b) + ";"
			}
		}
		return s + " }"
	}
	var b bytes.Buffer
	printer.Fprint(&b, c.fset, s)
	return strings.Join(strings.Fields(b.String()), " ")
}

// canonMember returns the canonical term of a member closure.
func canonMember(fset *token.FileSet, m *Member, di *defIndex) string {
	c := newCanonizer(m.Pk.TypesInfo, fset, di, m.Tau, m.Lit)
	return "func" + c.sig(m.Lit.Type) + c.block(m.Lit.Body)
}

// termsMatch compares two canonical terms of arms labelled ta and tb: type tokens
// ⟦a⟧/⟦b⟧ match when equal or when they are the labels' own types (anti-unification:
// a column is either constant or the label's type); accessor tokens likewise.
func termsMatch(a, b string, ta, tb types.Type) bool { return termsMatch2(a, b, ta, nil, tb, nil) }

// termsMatch2 allows a second (outer) label per member: a column may be constant, the
// inner label's type, or the outer label's type.
func termsMatch2(a, b string, ta, oa, tb, ob types.Type) bool {
	ona, onb, oca, ocb := "", "", "", ""
	if t, ok := oa.(*types.Basic); ok {
		ona, oca = t.Name(), basicCategory(t)
	}
	if t, ok := ob.(*types.Basic); ok {
		onb, ocb = t.Name(), basicCategory(t)
	}
	na, nb := "", ""
	ca, cb := "", ""
	if t, ok := ta.(*types.Basic); ok {
		na, ca = t.Name(), basicCategory(t)
	}
	if t, ok := tb.(*types.Basic); ok {
		nb, cb = t.Name(), basicCategory(t)
	}
	for {
		i := strings.IndexAny(a, "⟦⟪")
		j := strings.IndexAny(b, "⟦⟪")
		if i < 0 || j < 0 {
			return a == b
		}
		if a[:i] != b[:j] {
			return false
		}
		open := "⟦"
		cl := "⟧"
		if strings.HasPrefix(a[i:], "⟪") {
			open, cl = "⟪", "⟫"
		}
		if !strings.HasPrefix(b[j:], open) {
			return false
		}
		a, b = a[i+len(open):], b[j+len(open):]
		ea, eb := strings.Index(a, cl), strings.Index(b, cl)
		wa, wb := a[:ea], b[:eb]
		a, b = a[ea+len(cl):], b[eb+len(cl):]
		if wa == wb {
			continue
		}
		if open == "⟦" && wa == na && wb == nb {
			continue
		}
		if open == "⟦" && ona != "" && wa == ona && wb == onb {
			continue
		}
		if open == "⟪" && oca != "" && wa == oca && wb == ocb {
			continue
		}
		// the component type of a complex label (float32 for complex64, float64 for complex128)
		if open == "⟦" && componentOf(na) != "" && wa == componentOf(na) && wb == componentOf(nb) {
			continue
		}
		if open == "⟪" && wa == ca && wb == cb {
			continue
		}
		return false
	}
}

// showTerm renders a canonical term for messages: the label's type as τ, its accessor as κ.
func showTerm(a string, ta types.Type) string {
	if t, ok := ta.(*types.Basic); ok {
		a = strings.ReplaceAll(a, "⟦"+t.Name()+"⟧", "τ")
		a = strings.ReplaceAll(a, "⟪"+basicCategory(t)+"⟫", "κ")
	}
	a = strings.NewReplacer("⟦", "", "⟧", "", "⟪", "", "⟫", "").Replace(a)
	return a
}

func componentOf(name string) string {
	switch name {
	case "complex64":
		return "float32"
	case "complex128":
		return "float64"
	}
	return ""
}

// normalizeStorage abstracts the storage class of a slot in a canonical term so that a
// kind that is never unboxed (string) can be compared with the unboxed kinds:
//
//	INTS[T](E, i)                                  -> SLOT(E, i)
//	E.Vals[i].⟪Acc⟫()                               -> SLOT(E, i)
//	{ $n := NewR(TypeOfX).Elem(); $n.Set⟪Acc⟫(v); E.Vals[i] = $n }  -> SLOT(E, i) = v
//
// and renumbers the α-names afterwards. Used only for the lone-member comparison.
func normalizeStorage(s string) string {
	// boxed store
	reBox := regexp.MustCompile(`\{ (\$\d+) := xreflect\.NewR\(base\.TypeOf\w+\)\.Elem\(\); (\$\d+)\.Set⟪\w+⟫\(`)
	for {
		loc := reBox.FindStringSubmatchIndex(s)
		if loc == nil {
			break
		}
		v := s[loc[2]:loc[3]]
		if s[loc[4]:loc[5]] != v {
			break
		}
		// value expression up to the matching ')'
		i := loc[1]
		depth := 1
		j := i
		for ; j < len(s) && depth > 0; j++ {
			switch s[j] {
			case '(':
				depth++
			case ')':
				depth--
			}
		}
		val := s[i : j-1]
		rest := s[j:]
		// "; E.Vals[idx] = $n }"
		if !strings.HasPrefix(rest, "; ") {
			break
		}
		rest = rest[2:]
		k := strings.Index(rest, ".Vals[")
		if k < 0 {
			break
		}
		E := rest[:k]
		idxStart := k + len(".Vals[")
		d2 := 1
		m := idxStart
		for ; m < len(rest) && d2 > 0; m++ {
			switch rest[m] {
			case '[':
				d2++
			case ']':
				d2--
			}
		}
		idx := rest[idxStart : m-1]
		tail := rest[m:]
		suffix := " = " + v + " }"
		if !strings.HasPrefix(tail, suffix) || strings.ContainsAny(E, ";{}") {
			break
		}
		s = s[:loc[0]] + "SLOT(" + E + ", " + idx + ") = " + val + tail[len(suffix):]
	}
	// unboxed access
	reInts := regexp.MustCompile(`P?INTS\[⟦\w+⟧\]\(`)
	s = reInts.ReplaceAllString(s, "SLOT(")
	// boxed read: E.Vals[idx].⟪Acc⟫()
	for {
		k := strings.Index(s, ".Vals[")
		if k < 0 {
			break
		}
		// E: identifier-ish chars backwards
		b := k
		for b > 0 && (isIdentByte(s[b-1]) || s[b-1] == '.' || s[b-1] == '$') {
			b--
		}
		E := s[b:k]
		idxStart := k + len(".Vals[")
		d := 1
		m := idxStart
		for ; m < len(s) && d > 0; m++ {
			switch s[m] {
			case '[':
				d++
			case ']':
				d--
			}
		}
		idx := s[idxStart : m-1]
		tail := s[m:]
		reAcc := regexp.MustCompile(`^\.⟪\w+⟫\(\)`)
		if loc := reAcc.FindStringIndex(tail); loc != nil {
			s = s[:b] + "SLOT(" + E + ", " + idx + ")" + tail[loc[1]:]
		} else {
			// some other use of Vals: keep, but protect from rescanning
			s = s[:k] + ".VALS[" + s[idxStart:]
		}
	}
	s = strings.ReplaceAll(s, ".VALS[", ".Vals[")
	// renumber α-names
	reVar := regexp.MustCompile(`\$\d+`)
	names := map[string]string{}
	s = reVar.ReplaceAllStringFunc(s, func(v string) string {
		if n, ok := names[v]; ok {
			return n
		}
		n := fmt.Sprintf("$%d", len(names)+1)
		names[v] = n
		return n
	})
	return s
}
