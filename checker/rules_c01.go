package main

import (
	"go/ast"
	"go/token"
	"go/types"
)

// ruleNegativeShift: in Expr.AsUint64 every closure that converts a signed value to
// uint64 panics first when the value is negative; constAsUint64 accepts a signed
// constant only when it is >= 0.
func ruleNegativeShift(c *Ctx) {
	pk := c.P.Pkg("fast")
	info := pk.TypesInfo
	fd := c.P.Func("fast.Expr.AsUint64")
	if fd == nil {
		c.Ob("G1-negshift", "fast.Expr.AsUint64", nil, false, "anchor function not found")
		return
	}
	fam := families(c, "fast")
	n := 0
	for _, m := range fam.members {
		if m.FD != fd {
			continue
		}
		// conversions uint64(v) with v signed
		var convs []*ast.CallExpr
		ast.Inspect(m.Lit.Body, func(nd ast.Node) bool {
			if call, ok := nd.(*ast.CallExpr); ok && len(call.Args) == 1 {
				if tv, ok := info.Types[call.Fun]; ok && tv.IsType() && basicCategory(tv.Type) == "Uint" {
					if at := info.TypeOf(call.Args[0]); at != nil && basicCategory(at) == "Int" {
						convs = append(convs, call)
					}
				}
			}
			return true
		})
		for _, cv := range convs {
			n++
			v := identOf(cv.Args[0])
			ok := false
			if v != nil {
				vobj := info.Uses[v]
				// a preceding `if v < 0 { panic(...) }` in the closure body
				for _, st := range m.Lit.Body.List {
					if st.End() > cv.Pos() {
						break
					}
					ifs, isIf := st.(*ast.IfStmt)
					if !isIf || ifs.Else != nil {
						continue
					}
					b, isB := unparen(ifs.Cond).(*ast.BinaryExpr)
					if !isB || b.Op != token.LSS || identOf(b.X) == nil || info.Uses[identOf(b.X)] != vobj {
						continue
					}
					if z, isC := constInt(info, b.Y); !isC || z != 0 {
						continue
					}
					if len(ifs.Body.List) == 1 {
						if es, isE := ifs.Body.List[0].(*ast.ExprStmt); isE {
							if call, isCall := es.X.(*ast.CallExpr); isCall {
								if id := identOf(call.Fun); id != nil {
									if _, isBuiltin := info.Uses[id].(*types.Builtin); isBuiltin && id.Name == "panic" {
										ok = true
									}
								}
							}
						}
					}
				}
			}
			c.Ob("G1-negshift", m.Key(), cv, ok, "signed shift count converted to uint64 only after `if i < 0 { panic(negativeShiftAmount) }`")
		}
	}
	c.Floor("G1-negshift", 5)
	// constAsUint64
	cf := c.P.Func("fast.constAsUint64")
	if cf == nil {
		c.Ob("G1-negshift-const", "fast.constAsUint64", nil, false, "anchor function not found")
		return
	}
	okc := false
	ast.Inspect(cf.Body, func(nd ast.Node) bool {
		ifs, ok := nd.(*ast.IfStmt)
		if !ok {
			return true
		}
		b, isB := unparen(ifs.Cond).(*ast.BinaryExpr)
		if !isB || b.Op != token.GEQ {
			return true
		}
		if z, isC := constInt(info, b.Y); !isC || z != 0 {
			return true
		}
		if at := info.TypeOf(b.X); at == nil || basicCategory(at) != "Int" {
			return true
		}
		// body returns uint64(i), true
		for _, st := range ifs.Body.List {
			if r, ok := st.(*ast.ReturnStmt); ok && len(r.Results) == 2 {
				if id := identOf(r.Results[1]); id != nil && id.Name == "true" {
					okc = true
				}
			}
		}
		return true
	})
	// and no other `return uint64(signed), true`
	bad := false
	ast.Inspect(cf.Body, func(nd ast.Node) bool {
		r, ok := nd.(*ast.ReturnStmt)
		if !ok || len(r.Results) != 2 {
			return true
		}
		if id := identOf(r.Results[1]); id == nil || id.Name != "true" {
			return true
		}
		if call, ok := unparen(r.Results[0]).(*ast.CallExpr); ok && len(call.Args) == 1 {
			if at := info.TypeOf(call.Args[0]); at != nil && basicCategory(at) == "Int" {
				// must be inside the guarded if
				guarded := false
				ast.Inspect(cf.Body, func(n2 ast.Node) bool {
					if ifs, ok := n2.(*ast.IfStmt); ok && containsNode(ifs.Body, r) {
						if b, isB := unparen(ifs.Cond).(*ast.BinaryExpr); isB && b.Op == token.GEQ {
							guarded = true
						}
					}
					return true
				})
				if !guarded {
					bad = true
				}
			}
		}
		return true
	})
	c.Ob("G1-negshift-const", "fast.constAsUint64", cf, okc && !bad, "a signed constant shift count is accepted only under i >= 0")
}

// ruleBinaryDispatchComplete: BinaryExpr1 has an arm for each of Go's 19 binary
// operators and folds constants iff both operands are constant.
func ruleBinaryDispatchComplete(c *Ctx) {
	pk := c.P.Pkg("fast")
	info := pk.TypesInfo
	fd := c.P.Func("fast.Comp.BinaryExpr1")
	if fd == nil {
		c.Ob("D1-binary-tokens", "fast.Comp.BinaryExpr1", nil, false, "anchor function not found")
		return
	}
	want := []string{"ADD", "SUB", "MUL", "QUO", "REM", "AND", "OR", "XOR", "SHL", "SHR", "AND_NOT", "LAND", "LOR", "EQL", "LSS", "GTR", "NEQ", "LEQ", "GEQ"}
	have := map[string]bool{}
	for _, a := range dispatchArms(pk) {
		if a.fd == fd {
			for _, t := range a.tokens {
				have[t] = true
			}
		}
	}
	for _, t := range want {
		c.Ob("D1-binary-tokens", "fast.Comp.BinaryExpr1/"+t, fd, have[t], "binary operator "+t+" has a dispatch arm")
	}
	// EvalConst is called under `if bothConst` where bothConst := x.Const() && y.Const()
	ok := false
	di := buildDefIndex(info, fd)
	ast.Inspect(fd.Body, func(n ast.Node) bool {
		ifs, isIf := n.(*ast.IfStmt)
		if !isIf {
			return true
		}
		hasEval := false
		inspectCalls(ifs.Body, func(call *ast.CallExpr) {
			if funcFullName(calleeOf(info, call)) == "fast.Expr.EvalConst" {
				hasEval = true
			}
		})
		if !hasEval {
			return true
		}
		cond := unparen(ifs.Cond)
		if id := identOf(cond); id != nil {
			if d := di.single(info.Uses[id]); d != nil {
				cond = unparen(d)
			}
		}
		if b, isB := cond.(*ast.BinaryExpr); isB && b.Op == token.LAND {
			l, lok := unparen(b.X).(*ast.CallExpr)
			r, rok := unparen(b.Y).(*ast.CallExpr)
			if lok && rok && funcFullName(calleeOf(info, l)) == "fast.Expr.Const" && funcFullName(calleeOf(info, r)) == "fast.Expr.Const" {
				lr := di.rootOf(info, l.Fun, 0)
				rr := di.rootOf(info, r.Fun, 0)
				if lr != nil && rr != nil && lr != rr {
					ok = true
				}
			}
		}
		return true
	})
	c.Ob("D1-constant-folding", "fast.Comp.BinaryExpr1", fd, ok, "EvalConst is applied exactly when x.Const() && y.Const() of the two distinct operands")
}
