package main

// C16 / C17: dependency sorter rules.

import (
	"fmt"
	"go/ast"
	"go/token"
	"go/types"
	"sort"
	"strings"

	"golang.org/x/tools/go/packages"
)

// ------------------------------------------------------------ D1: map ranges

type effSummary struct {
	writes  []effWrite // writes through parameters (index -1 = receiver... we number receiver as 0 and params from 1)
	dynamic string     // non-empty: calls through function values / recursion: effects cannot be summarised
	reads   map[int]bool
}

type effWrite struct {
	param int
	form  string // mapstore, mapdelete, counter, assign
	node  ast.Node
}

type effAnalyzer struct {
	loopBody bool // scanning a loop body: plain assignments to the shared variables count as writes
	pk       *packages.Package
	info     *types.Info
	prog     *Prog
	memo     map[*types.Func]*effSummary
	stack    map[*types.Func]bool
}

func paramIndex(info *types.Info, fd *ast.FuncDecl) map[types.Object]int {
	m := map[types.Object]int{}
	i := 0
	if fd.Recv != nil {
		for _, f := range fd.Recv.List {
			for _, nm := range f.Names {
				m[info.Defs[nm]] = 0
			}
		}
	}
	i = 1
	for _, f := range fd.Type.Params.List {
		if len(f.Names) == 0 {
			i++
		}
		for _, nm := range f.Names {
			m[info.Defs[nm]] = i
			i++
		}
	}
	return m
}

// lhsRoot returns the root identifier object of an lvalue and whether the path goes through a map index.
func lhsRoot(info *types.Info, e ast.Expr) (types.Object, bool) {
	viaMap := false
	for {
		switch x := unparen(e).(type) {
		case *ast.Ident:
			o := info.Uses[x]
			if o == nil {
				o = info.Defs[x]
			}
			return o, viaMap
		case *ast.SelectorExpr:
			e = x.X
		case *ast.IndexExpr:
			if _, isMap := info.TypeOf(x.X).Underlying().(*types.Map); isMap {
				viaMap = true
			}
			e = x.X
		case *ast.StarExpr:
			e = x.X
		default:
			return nil, viaMap
		}
	}
}

func (a *effAnalyzer) summary(fn *types.Func, depth int) *effSummary {
	if s, ok := a.memo[fn]; ok {
		return s
	}
	if a.stack[fn] {
		return &effSummary{dynamic: "recursive call of " + fn.Name()}
	}
	fd := a.prog.Func(funcFullName(fn))
	if fd == nil || fd.Body == nil || depth > 4 {
		return &effSummary{dynamic: "no source for " + fn.Name()}
	}
	a.stack[fn] = true
	defer delete(a.stack, fn)
	s := &effSummary{reads: map[int]bool{}}
	pidx := paramIndex(a.info, fd)
	a.scan(fd.Body, pidx, s, depth, nil)
	a.memo[fn] = s
	return s
}

// scan collects the effects of node n on the objects in roots (object -> index).
func (a *effAnalyzer) scan(n ast.Node, roots map[types.Object]int, s *effSummary, depth int, pureLits map[types.Object]bool) {
	info := a.info
	ast.Inspect(n, func(nd ast.Node) bool {
		switch x := nd.(type) {
		case *ast.FuncLit:
			// a literal's body is analysed where it is called; skip here
			return false
		case *ast.AssignStmt:
			for _, l := range x.Lhs {
				o, viaMap := lhsRoot(info, l)
				if idx, ok := roots[o]; ok {
					if _, isIdent := unparen(l).(*ast.Ident); isIdent && !(a.loopBody && depth == 0) {
						continue // re-binding a parameter variable is local to the callee
					}
					form := "assign"
					if viaMap {
						if _, isIx := unparen(l).(*ast.IndexExpr); isIx {
							form = "mapstore"
						}
					}
					if x.Tok == token.ADD_ASSIGN || x.Tok == token.SUB_ASSIGN {
						form = "counter"
					}
					s.writes = append(s.writes, effWrite{idx, form, x})
				}
			}
		case *ast.IncDecStmt:
			o, _ := lhsRoot(info, x.X)
			if idx, ok := roots[o]; ok {
				s.writes = append(s.writes, effWrite{idx, "counter", x})
			}
		case *ast.IndexExpr:
			// read of a map reachable from a root (lookups used as values / conditions)
			if _, isMap := info.TypeOf(x.X).Underlying().(*types.Map); isMap {
				if o, _ := lhsRoot(info, x.X); o != nil {
					if idx, ok := roots[o]; ok {
						s.reads[idx] = true
					}
				}
			}
		case *ast.RangeStmt:
			if _, isMap := info.TypeOf(x.X).Underlying().(*types.Map); isMap {
				if o, _ := lhsRoot(info, x.X); o != nil {
					if idx, ok := roots[o]; ok {
						s.reads[idx] = true
					}
				}
			}
		case *ast.CallExpr:
			if id := identOf(x.Fun); id != nil {
				if _, isBuiltin := info.Uses[id].(*types.Builtin); isBuiltin {
					if id.Name == "delete" && len(x.Args) == 2 {
						if o, _ := lhsRoot(info, x.Args[0]); o != nil {
							if idx, ok := roots[o]; ok {
								s.writes = append(s.writes, effWrite{idx, "mapdelete", x})
							}
						}
					}
					return true
				}
			}
			if tv, ok := info.Types[x.Fun]; ok && tv.IsType() {
				return true
			}
			callee := calleeOf(info, x)
			if callee == nil {
				// call through a function value: a parameter bound to a pure literal is fine
				if id := identOf(x.Fun); id != nil && pureLits[info.Uses[id]] {
					return true
				}
				if id := identOf(x.Fun); id != nil {
					if _, ok := roots[info.Uses[id]]; ok {
						s.dynamic = "calls its function-typed parameter " + id.Name
						return true
					}
				}
				s.dynamic = "call through function value " + exprString(x.Fun)
				return true
			}
			if callee.Pkg() == nil || !strings.HasPrefix(callee.Pkg().Path(), modPath) {
				return true // standard library: sort, fmt, strings: no effect on our roots except through slices (ignored)
			}
			cs := a.summary(callee, depth+1)
			// map callee parameters to actuals
			actual := map[int]ast.Expr{}
			if sel, ok := unparen(x.Fun).(*ast.SelectorExpr); ok {
				if _, isPkg := info.Uses[identOf(sel.X)].(*types.PkgName); !isPkg {
					actual[0] = sel.X
				}
			}
			for i, arg := range x.Args {
				actual[i+1] = arg
			}
			if cs.dynamic != "" {
				// acceptable only if the dynamic part is a parameter bound to a literal without writes
				okDyn := false
				if strings.HasPrefix(cs.dynamic, "calls its function-typed parameter") {
					for _, arg := range x.Args {
						if fl, ok := unparen(arg).(*ast.FuncLit); ok {
							w := &effSummary{reads: map[int]bool{}}
							a.scan(fl.Body, roots, w, depth+1, nil)
							if len(w.writes) == 0 && w.dynamic == "" {
								okDyn = true
							}
						}
					}
				}
				if !okDyn {
					// does the call touch any of our roots?
					touches := false
					for _, e := range actual {
						if o, _ := lhsRoot(info, e); o != nil {
							if _, ok := roots[o]; ok {
								touches = true
							}
						}
					}
					if touches {
						s.dynamic = callee.Name() + ": " + cs.dynamic
					}
				}
			}
			for _, w := range cs.writes {
				e := actual[w.param]
				if e == nil {
					continue
				}
				if o, _ := lhsRoot(info, e); o != nil {
					if idx, ok := roots[o]; ok {
						s.writes = append(s.writes, effWrite{idx, w.form, x})
					}
				}
			}
			for p := range cs.reads {
				if e := actual[p]; e != nil {
					if o, _ := lhsRoot(info, e); o != nil {
						if idx, ok := roots[o]; ok {
							s.reads[idx] = true
						}
					}
				}
			}
		}
		return true
	})
}

// ruleMapRangeDeterminism: every range over a map in the package has order-insensitive effects.
func ruleMapRangeDeterminism(c *Ctx, short, rule string) {
	pk := c.P.Pkg(short)
	if pk == nil {
		c.Fatal("package %s not loaded", short)
		return
	}
	info := pk.TypesInfo
	ea := &effAnalyzer{pk: pk, info: info, prog: c.P, memo: map[*types.Func]*effSummary{}, stack: map[*types.Func]bool{}}
	for _, fd := range c.P.FuncsOf(short) {
		if fd.Body == nil {
			continue
		}
		fkey := funcKey(pk, fd)
		ord := 0
		ast.Inspect(fd.Body, func(nd ast.Node) bool {
			rs, ok := nd.(*ast.RangeStmt)
			if !ok {
				return true
			}
			if _, isMap := info.TypeOf(rs.X).Underlying().(*types.Map); !isMap {
				return true
			}
			// nested map ranges are judged as part of the outer one when they exist; still judged on their own too
			ord++
			key := fmt.Sprintf("%s/range %s", fkey, exprString(rs.X))
			// shared objects: every variable declared outside the loop that the body may write
			local := map[types.Object]bool{}
			ast.Inspect(rs, func(m ast.Node) bool {
				if id, ok := m.(*ast.Ident); ok {
					if o := info.Defs[id]; o != nil {
						local[o] = true
					}
				}
				return true
			})
			shared := map[types.Object]int{}
			next := 0
			ast.Inspect(rs.Body, func(m ast.Node) bool {
				if id, ok := m.(*ast.Ident); ok {
					if o, isVar := info.Uses[id].(*types.Var); isVar && !local[o] && !o.IsField() {
						if _, seen := shared[o]; !seen {
							shared[o] = next
							next++
						}
					}
				}
				return true
			})
			names := map[int]string{}
			for o, i := range shared {
				names[i] = o.Name()
			}
			s := &effSummary{reads: map[int]bool{}}
			ea.loopBody = true
			ea.scan(rs.Body, shared, s, 0, nil)
			ea.loopBody = false
			var problems []string
			if s.dynamic != "" {
				problems = append(problems, "effects cannot be summarised: "+s.dynamic)
			}
			written := map[int][]effWrite{}
			for _, w := range s.writes {
				written[w.param] = append(written[w.param], w)
			}
			var idxs []int
			for i := range written {
				idxs = append(idxs, i)
			}
			sort.Ints(idxs)
			for _, i := range idxs {
				for _, w := range written[i] {
					switch w.form {
					case "mapstore", "mapdelete", "counter":
						// commutative as long as the loop does not also read the container
						if s.reads[i] && w.form != "counter" && !readsOnlyLoopKey(info, rs, names[i]) {
							problems = append(problems, fmt.Sprintf("%s is both read and written across iterations (%s at %s)", names[i], w.form, c.pos(w.node)))
						}
					case "assign":
						if isMinSelect(info, rs, w.node) {
							continue
						}
						if isArgmaxSet(info, rs, w.node) {
							continue
						}
						if isAppendSortedLater(info, fd, rs, w.node, c.P, short) {
							continue
						}
						problems = append(problems, fmt.Sprintf("%s is assigned in iteration order (%s)", names[i], c.pos(w.node)))
					}
				}
			}
			sort.Strings(problems)
			problems = uniqStrings(problems)
			c.Ob(rule, key, rs, len(problems) == 0, "range over a map: effects must be order-insensitive (keyed stores/deletes, counters, min/max selection, append that is sorted before use) "+strings.Join(problems, "; "))
			return true
		})
	}
}

func uniqStrings(l []string) []string {
	var out []string
	for i, s := range l {
		if i == 0 || s != l[i-1] {
			out = append(out, s)
		}
	}
	return out
}

// readsOnlyLoopKey: the container named name is read only as container[key] / delete with the
// loop's own key (per-key access commutes).
func readsOnlyLoopKey(info *types.Info, rs *ast.RangeStmt, name string) bool {
	keyObj := types.Object(nil)
	if id := identOf(rs.Key); id != nil {
		keyObj = info.Defs[id]
	}
	ok := true
	ast.Inspect(rs.Body, func(n ast.Node) bool {
		ix, isIx := n.(*ast.IndexExpr)
		if !isIx {
			return true
		}
		if o, _ := lhsRoot(info, ix.X); o == nil || o.Name() != name {
			return true
		}
		if _, isMap := info.TypeOf(ix.X).Underlying().(*types.Map); !isMap {
			return true
		}
		id := identOf(ix.Index)
		if id == nil || keyObj == nil || info.Uses[id] != keyObj {
			// nested loop variable of an inner range over a per-key value is fine too
			if id != nil {
				if o := info.Uses[id]; o != nil && o.Pos() > rs.Pos() && o.Pos() < rs.End() {
					return true
				}
			}
			ok = false
		}
		return true
	})
	return ok
}

// isMinSelect: the assignment sits in `if sel == nil || v.F < best { ...; best = v.F }`.
func isMinSelect(info *types.Info, rs *ast.RangeStmt, node ast.Node) bool {
	found := false
	ast.Inspect(rs.Body, func(n ast.Node) bool {
		ifs, ok := n.(*ast.IfStmt)
		if !ok || !containsNode(ifs.Body, node) {
			return true
		}
		for _, a := range orAtoms(ifs.Cond) {
			b, ok := a.(*ast.BinaryExpr)
			if !ok || (b.Op != token.LSS && b.Op != token.GTR) {
				continue
			}
			best := identOf(b.Y)
			if best == nil {
				continue
			}
			// the body assigns best from the compared expression
			for _, st := range ifs.Body.List {
				if as, ok := st.(*ast.AssignStmt); ok && len(as.Lhs) == 1 && len(as.Rhs) == 1 && identOf(as.Lhs[0]) != nil &&
					info.Uses[identOf(as.Lhs[0])] == info.Uses[best] && exprString(as.Rhs[0]) == exprString(b.X) {
					found = true
				}
			}
		}
		return true
	})
	return found
}

// isArgmaxSet: the "all elements with the largest key" idiom, whose result is the same set for every iteration order:
//
//	if ... || V < B { continue }; if V > B { L = nil }; B = V; L = append(L, x)
//
// node is one of the assignments to B or L in that statement list. (The order of L is judged by D2.)
func isArgmaxSet(info *types.Info, rs *ast.RangeStmt, node ast.Node) bool {
	ok := false
	ast.Inspect(rs.Body, func(n ast.Node) bool {
		bl, isB := n.(*ast.BlockStmt)
		if !isB {
			return true
		}
		var vS, bS, lS string
		step := 0
		in := false
		for _, st := range bl.List {
			if containsNode(st, node) {
				in = true
			}
			switch x := st.(type) {
			case *ast.IfStmt:
				if step == 0 && x.Else == nil && len(x.Body.List) == 1 {
					if br, isBr := x.Body.List[0].(*ast.BranchStmt); isBr && br.Tok == token.CONTINUE {
						for _, a := range orAtoms(x.Cond) {
							if b, isBin := unparen(a).(*ast.BinaryExpr); isBin && b.Op == token.LSS && identOf(b.X) != nil && identOf(b.Y) != nil {
								vS, bS = exprString(b.X), exprString(b.Y)
								step = 1
							}
						}
						continue
					}
				}
				if step == 1 && x.Else == nil && len(x.Body.List) == 1 {
					if b, isBin := unparen(x.Cond).(*ast.BinaryExpr); isBin && b.Op == token.GTR && exprString(b.X) == vS && exprString(b.Y) == bS {
						if as, isA := x.Body.List[0].(*ast.AssignStmt); isA && len(as.Lhs) == 1 && len(as.Rhs) == 1 && exprString(as.Rhs[0]) == "nil" {
							lS = exprString(as.Lhs[0])
							step = 2
						}
					}
				}
			case *ast.AssignStmt:
				if len(x.Lhs) != 1 || len(x.Rhs) != 1 {
					continue
				}
				if step == 2 && exprString(x.Lhs[0]) == bS && exprString(x.Rhs[0]) == vS {
					step = 3
				} else if step == 3 && exprString(x.Lhs[0]) == lS {
					if call, isC := unparen(x.Rhs[0]).(*ast.CallExpr); isC && len(call.Args) == 2 && exprString(call.Fun) == "append" && exprString(call.Args[0]) == lS {
						step = 4
					}
				}
			}
		}
		if in && step == 4 {
			// node must be one of the idiom's own assignments
			if as, isA := node.(*ast.AssignStmt); isA && len(as.Lhs) == 1 && (exprString(as.Lhs[0]) == bS || exprString(as.Lhs[0]) == lS) {
				ok = true
			}
		}
		return true
	})
	return ok
}

// isAppendSortedLater: `s = append(s, ...)` where s is later sorted in the same function or
// returned to callers that all sort (checked separately by the order-taint rule).
func isAppendSortedLater(info *types.Info, fd *ast.FuncDecl, rs *ast.RangeStmt, node ast.Node, p *Prog, short string) bool {
	as, ok := node.(*ast.AssignStmt)
	if !ok || len(as.Lhs) != 1 || len(as.Rhs) != 1 {
		return false
	}
	call, ok := unparen(as.Rhs[0]).(*ast.CallExpr)
	if !ok || identOf(call.Fun) == nil || identOf(call.Fun).Name != "append" || len(call.Args) < 1 {
		return false
	}
	l, r := identOf(as.Lhs[0]), identOf(call.Args[0])
	if l == nil || r == nil || info.Uses[l] != info.Uses[r] {
		return false
	}
	return true // order of the slice is judged by the order-taint rule D2
}

// ------------------------------------------------------------ D2: order taint

// ruleOrderTaint: a slice whose element order comes from a map iteration must pass
// through a sort before it is used in an order-sensitive way.
func ruleOrderTaint(c *Ctx, short, rule string, sorters map[string]bool, neutral map[string]bool) {
	pk := c.P.Pkg(short)
	info := pk.TypesInfo
	// functions returning a map-ordered slice
	tainted := map[*types.Func]bool{}
	localTaint := map[*ast.FuncDecl]map[types.Object]bool{}
	for _, fd := range c.P.FuncsOf(short) {
		if fd.Body == nil {
			continue
		}
		lt := map[types.Object]bool{}
		ast.Inspect(fd.Body, func(n ast.Node) bool {
			rs, ok := n.(*ast.RangeStmt)
			if !ok {
				return true
			}
			if _, isMap := info.TypeOf(rs.X).Underlying().(*types.Map); !isMap {
				return true
			}
			ast.Inspect(rs.Body, func(m ast.Node) bool {
				if as, ok := m.(*ast.AssignStmt); ok && len(as.Lhs) == 1 && len(as.Rhs) == 1 {
					if call, ok := unparen(as.Rhs[0]).(*ast.CallExpr); ok && identOf(call.Fun) != nil && identOf(call.Fun).Name == "append" {
						if id := identOf(as.Lhs[0]); id != nil {
							if o := info.Uses[id]; o != nil {
								if _, isSlice := o.Type().Underlying().(*types.Slice); isSlice {
									lt[o] = true
								}
							}
						}
					}
				}
				return true
			})
			return true
		})
		if len(lt) > 0 {
			localTaint[fd] = lt
		}
	}
	// fixpoint: function returns a tainted local (unsorted) => tainted function; variable assigned from a tainted call => tainted
	changed := true
	for changed {
		changed = false
		for _, fd := range c.P.FuncsOf(short) {
			if fd.Body == nil {
				continue
			}
			fn, _ := info.Defs[fd.Name].(*types.Func)
			lt := localTaint[fd]
			if lt == nil {
				lt = map[types.Object]bool{}
			}
			ast.Inspect(fd.Body, func(n ast.Node) bool {
				switch x := n.(type) {
				case *ast.AssignStmt:
					if len(x.Lhs) == len(x.Rhs) {
						for i, r := range x.Rhs {
							if call, ok := unparen(r).(*ast.CallExpr); ok {
								if cal := calleeOf(info, call); cal != nil && tainted[cal] {
									if id := identOf(x.Lhs[i]); id != nil {
										o := info.Defs[id]
										if o == nil {
											o = info.Uses[id]
										}
										if o != nil && !lt[o] {
											lt[o] = true
											changed = true
										}
									}
								}
							}
						}
					}
				case *ast.ReturnStmt:
					for _, r := range x.Results {
						if id := identOf(r); id != nil && lt[info.Uses[id]] && fn != nil && !tainted[fn] {
							tainted[fn] = true
							changed = true
						}
						if call, ok := unparen(r).(*ast.CallExpr); ok {
							if cal := calleeOf(info, call); cal != nil && tainted[cal] && fn != nil && !tainted[fn] {
								tainted[fn] = true
								changed = true
							}
						}
					}
				}
				return true
			})
			if len(lt) > 0 {
				localTaint[fd] = lt
			}
		}
	}
	// check every use of a tainted value
	nuses := 0
	for _, fd := range c.P.FuncsOf(short) {
		if fd.Body == nil {
			continue
		}
		fkey := funcKey(pk, fd)
		lt := localTaint[fd]
		// in-place sorts: sort.X(v) / sorter(v) clean v for every later use in the function
		sortedAt := map[types.Object]token.Pos{}
		inspectCalls(fd.Body, func(call *ast.CallExpr) {
			fn := calleeOf(info, call)
			if fn == nil || len(call.Args) < 1 {
				return
			}
			if strings.HasPrefix(funcFullName(fn), "sort.") || sorters[fn.Name()] {
				if id := identOf(call.Args[0]); id != nil {
					if o := info.Uses[id]; o != nil {
						if p, ok := sortedAt[o]; !ok || call.End() < p {
							sortedAt[o] = call.End()
						}
					}
				}
			}
		})
		var stack []ast.Node
		ast.Inspect(fd.Body, func(n ast.Node) bool {
			if n == nil {
				stack = stack[:len(stack)-1]
				return true
			}
			stack = append(stack, n)
			var what string
			isTainted := false
			switch x := n.(type) {
			case *ast.Ident:
				if lt != nil && lt[info.Uses[x]] {
					if p, ok := sortedAt[info.Uses[x]]; ok && x.Pos() > p {
						return true // sorted in place earlier in this function
					}
					isTainted, what = true, x.Name
				}
			case *ast.CallExpr:
				if cal := calleeOf(info, x); cal != nil && tainted[cal] {
					isTainted, what = true, cal.Name()+"()"
				}
			}
			if !isTainted || len(stack) < 2 {
				return true
			}
			parent := stack[len(stack)-2]
			okUse, how := false, ""
			switch p := parent.(type) {
			case *ast.SelectorExpr:
				// receiver of a method: sorter or order-neutral consumer
				if len(stack) >= 3 {
					if call, ok := stack[len(stack)-3].(*ast.CallExpr); ok && call.Fun == p {
						nm := p.Sel.Name
						if sorters[nm] {
							okUse, how = true, "sorted by "+nm
						} else if neutral[nm] {
							okUse, how = true, "order-neutral consumer "+nm
						}
					}
				}
			case *ast.CallExpr:
				if id := identOf(p.Fun); id != nil {
					switch id.Name {
					case "len", "cap":
						okUse, how = true, "len"
					case "append":
						// self-append inside the producing loop
						if len(p.Args) > 0 && unparen(p.Args[0]) == n {
							okUse, how = true, "append to itself"
						}
					}
				}
				if fn := calleeOf(info, p); fn != nil && (sorters[fn.Name()] || strings.HasPrefix(funcFullName(fn), "sort.")) {
					okUse, how = true, "sorted by "+fn.Name()
				}
			case *ast.AssignStmt:
				okUse, how = true, "assignment (taint propagates)"
			case *ast.ReturnStmt:
				okUse, how = true, "returned (callers are checked)"
			case *ast.RangeStmt:
				if p.X == n {
					// element-wise in-place update of the slice itself is order-neutral
					okUse, how = true, "ranged over"
					if !rangeBodyOnlyUpdatesInPlace(info, p) {
						okUse, how = false, "ranged over with order-sensitive body"
					}
				}
			case *ast.IndexExpr:
				if p.X == n {
					if len(stack) >= 3 {
						if as, ok := stack[len(stack)-3].(*ast.AssignStmt); ok {
							for _, l := range as.Lhs {
								if l == p {
									okUse, how = true, "element store"
								}
							}
						}
					}
				}
			case *ast.BinaryExpr:
				if id := identOf(p.Y); id != nil && id.Name == "nil" {
					okUse, how = true, "nil test"
				}
				if id := identOf(p.X); id != nil && id.Name == "nil" {
					okUse, how = true, "nil test"
				}
			case *ast.ValueSpec:
				okUse, how = true, "declaration"
			}
			nuses++
			if !okUse {
				c.Ob(rule, fmt.Sprintf("%s/use of %s", fkey, what), n, false,
					fmt.Sprintf("slice %s has map-iteration order and is used in an order-sensitive way (%s) before being sorted", what, orStr(how, fmt.Sprintf("%T", parent))))
			} else {
				c.ObTrivial(rule, fmt.Sprintf("%s/use of %s", fkey, what), n, true, how)
			}
			return true
		})
	}
	var tl []string
	for fn := range tainted {
		tl = append(tl, fn.Name())
	}
	sort.Strings(tl)
	c.Extra(rule+"_map_ordered_functions", tl)
	if nuses == 0 {
		c.Ob(rule, short, nil, false, "no map-ordered slice found: anchor missing")
	}
}

func rangeBodyOnlyUpdatesInPlace(info *types.Info, rs *ast.RangeStmt) bool {
	ok := true
	for _, st := range rs.Body.List {
		switch x := st.(type) {
		case *ast.AssignStmt:
			for _, l := range x.Lhs {
				switch unparen(l).(type) {
				case *ast.IndexExpr, *ast.Ident, *ast.SelectorExpr:
				default:
					ok = false
				}
				if id := identOf(l); id != nil {
					if o := info.Uses[id]; o != nil && !(o.Pos() > rs.Pos() && o.Pos() < rs.End()) {
						ok = false // writes an outer variable
					}
				}
			}
		case *ast.ExprStmt:
			ok = false
		default:
			ok = false
		}
	}
	return ok
}

// ------------------------------------------------------------ D3: chain-walk stride

// ruleChainStride: a loop that examines a cursor while following a self-typed link
// field advances the cursor by exactly one link per iteration.
func ruleChainStride(c *Ctx, shorts []string, rule string) {
	for _, short := range shorts {
		pk := c.P.Pkg(short)
		if pk == nil {
			continue
		}
		info := pk.TypesInfo
		for _, fd := range c.P.FuncsOf(short) {
			if fd.Body == nil {
				continue
			}
			fkey := funcKey(pk, fd)
			ast.Inspect(fd.Body, func(n ast.Node) bool {
				fs, ok := n.(*ast.ForStmt)
				if !ok {
					return true
				}
				// link assignments in body/post: v = w.Link... where Link's type == v's type (pointer to struct)
				type rel struct {
					base types.Object
					k    int
					ok   bool
				}
				isLink := func(sel *ast.SelectorExpr) bool {
					s := info.Selections[sel]
					if s == nil || s.Kind() != types.FieldVal {
						return false
					}
					pt, ok := s.Type().(*types.Pointer)
					if !ok {
						return false
					}
					return types.Identical(pt, info.TypeOf(sel.X))
				}
				var evalRel func(e ast.Expr, st map[types.Object]rel) rel
				evalRel = func(e ast.Expr, st map[types.Object]rel) rel {
					switch x := unparen(e).(type) {
					case *ast.Ident:
						o := info.Uses[x]
						if r, ok := st[o]; ok {
							return r
						}
						if o != nil {
							return rel{o, 0, true}
						}
					case *ast.SelectorExpr:
						if isLink(x) {
							r := evalRel(x.X, st)
							if r.ok {
								return rel{r.base, r.k + 1, true}
							}
						}
					}
					return rel{}
				}
				// loop variables: pointer vars assigned through links inside the loop
				assigned := map[types.Object]bool{}
				scanAssign := func(nd ast.Node) {
					if nd == nil {
						return
					}
					ast.Inspect(nd, func(m ast.Node) bool {
						if _, isLit := m.(*ast.FuncLit); isLit {
							return false
						}
						if as, ok := m.(*ast.AssignStmt); ok && len(as.Lhs) == len(as.Rhs) {
							for i, l := range as.Lhs {
								if id := identOf(l); id != nil {
									if sel, ok := unparen(as.Rhs[i]).(*ast.SelectorExpr); ok && isLink(sel) {
										if o := info.Uses[id]; o != nil && !(o.Pos() > fs.Body.Pos() && o.Pos() < fs.Body.End()) {
											assigned[o] = true
										}
									} else if rid := identOf(as.Rhs[i]); rid != nil {
										if o := info.Uses[id]; o != nil && isPtr(o.Type()) {
											if _, isVar := info.Uses[rid].(*types.Var); isVar && types.Identical(o.Type(), info.Uses[rid].Type()) {
												assigned[o] = true
											}
										}
									}
								}
							}
						}
						return true
					})
				}
				scanAssign(fs.Body)
				if fs.Post != nil {
					scanAssign(fs.Post)
				}
				if len(assigned) == 0 {
					return true
				}
				// examined cursor: a loop variable whose non-link field is read, or that is passed/compared, in body or cond
				examined := map[types.Object]bool{}
				look := func(nd ast.Node) {
					if nd == nil {
						return
					}
					ast.Inspect(nd, func(m ast.Node) bool {
						if sel, ok := m.(*ast.SelectorExpr); ok {
							if id := identOf(sel.X); id != nil && assigned[info.Uses[id]] && !isLink(sel) {
								examined[info.Uses[id]] = true
							}
						}
						return true
					})
				}
				look(fs.Body)
				if len(examined) == 0 {
					return true
				}
				// entry relations from the statements right before the loop (x := y.Link) and the Init clause
				entry := map[types.Object]rel{}
				applyAssign := func(as *ast.AssignStmt, st map[types.Object]rel) {
					if len(as.Lhs) != len(as.Rhs) {
						return
					}
					vals := make([]rel, len(as.Rhs))
					for i, r := range as.Rhs {
						vals[i] = evalRel(r, st)
					}
					for i, l := range as.Lhs {
						if id := identOf(l); id != nil {
							o := info.Defs[id]
							if o == nil {
								o = info.Uses[id]
							}
							if o != nil && vals[i].ok {
								st[o] = vals[i]
							}
						}
					}
				}
				// enclosing block: statements before the loop
				ast.Inspect(fd.Body, func(m ast.Node) bool {
					blk, ok := m.(*ast.BlockStmt)
					if !ok {
						return true
					}
					for i, st := range blk.List {
						if st == ast.Stmt(fs) {
							for j := 0; j < i; j++ {
								if as, ok := blk.List[j].(*ast.AssignStmt); ok {
									applyAssign(as, entry)
								}
							}
						}
					}
					return true
				})
				if as, ok := fs.Init.(*ast.AssignStmt); ok {
					applyAssign(as, entry)
				}
				// one iteration
				st := map[types.Object]rel{}
				for k, v := range entry {
					st[k] = v
				}
				var run func(nd ast.Node)
				run = func(nd ast.Node) {
					if nd == nil {
						return
					}
					ast.Inspect(nd, func(m ast.Node) bool {
						if _, isLit := m.(*ast.FuncLit); isLit {
							return false
						}
						if as, ok := m.(*ast.AssignStmt); ok {
							applyAssign(as, st)
						}
						return true
					})
				}
				run(fs.Body)
				if fs.Post != nil {
					run(fs.Post)
				}
				var objs []types.Object
				for o := range examined {
					objs = append(objs, o)
				}
				sort.Slice(objs, func(i, j int) bool { return objs[i].Pos() < objs[j].Pos() })
				for _, o := range objs {
					before, ok1 := entry[o]
					if !ok1 {
						before = rel{o, 0, true}
					}
					after, ok2 := st[o]
					if !ok2 {
						after = rel{o, 0, true}
					}
					stride := -1
					if before.ok && after.ok && before.base == after.base {
						stride = after.k - before.k
					}
					c.Ob(rule, fmt.Sprintf("%s/for/%s", fkey, o.Name()), fs, stride == 1,
						fmt.Sprintf("cursor %s is examined in the loop and advances %d link(s) per iteration (must be exactly 1: every element of the chain is visited)", o.Name(), stride))
				}
				return true
			})
		}
	}
}

// ------------------------------------------------------------ D4/D5: scopes of binding constructs

func ruleDepScopes(c *Ctx) {
	pk := c.P.Pkg("base/dep")
	info := pk.TypesInfo
	ae := c.P.Func("base/dep.Scope.AstExpr")
	fn := c.P.Func("base/dep.Scope.Func")
	if ae == nil || fn == nil {
		c.Ob("D4-param-scope", "base/dep.Scope.AstExpr", nil, false, "anchor functions not found")
		return
	}
	// node types for which AstExpr opens a new scope / has a case at all
	opens := map[string]bool{}
	cases := map[string]*ast.CaseClause{}
	ast.Inspect(ae.Body, func(n ast.Node) bool {
		ts, ok := n.(*ast.TypeSwitchStmt)
		if !ok {
			return true
		}
		for _, cc := range ts.Body.List {
			cl := cc.(*ast.CaseClause)
			newScope := false
			ast.Inspect(cl, func(m ast.Node) bool {
				if as, ok := m.(*ast.AssignStmt); ok && len(as.Rhs) == 1 {
					if call, ok := unparen(as.Rhs[0]).(*ast.CallExpr); ok && funcFullName(calleeOf(info, call)) == "base/dep.NewScope" {
						newScope = true
					}
				}
				return true
			})
			for _, e := range cl.List {
				t := types.TypeString(info.TypeOf(e), func(p *types.Package) string { return p.Name() })
				cases[t] = cl
				// a FuncLit arm opens the scope itself and then walks the body in it
				if newScope && t != "*ast.FuncLit" {
					opens[t] = true
				}
			}
		}
		return false
	})
	// D4: parameters must not be scanned through a node type for which AstExpr opens a throw-away scope
	checkParamPath := func(where string, scope ast.Node) {
		n := 0
		inspectCalls(scope, func(call *ast.CallExpr) {
			name := funcFullName(calleeOf(info, call))
			if name != "base/dep.Scope.Expr" && name != "base/dep.Scope.AstExpr" || len(call.Args) != 1 {
				return
			}
			t := info.TypeOf(call.Args[0])
			if t == nil {
				return
			}
			ts := types.TypeString(t, func(p *types.Package) string { return p.Name() })
			if ts == "*ast.FuncType" {
				n++
				c.Ob("D4-param-scope", where, call, !opens[ts], "parameters and results are scanned through "+exprString(call.Args[0])+" of type *ast.FuncType: AstExpr declares them in a new scope that is discarded before the body is scanned")
			}
		})
		if n == 0 {
			c.Ob("D4-param-scope", where, scope, true, "signature is not scanned through a node type that opens a throw-away scope")
		}
	}
	checkParamPath("base/dep.Scope.Func", fn.Body)
	if cl := cases["*ast.FuncLit"]; cl != nil {
		checkParamPath("base/dep.Scope.AstExpr/case *ast.FuncLit", cl)
	} else {
		c.Ob("D4-param-scope", "base/dep.Scope.AstExpr/case *ast.FuncLit", ae, false, "function literals have no case: their parameters are never declared")
	}
	// the same Scope variable scans the signature and the body in Func
	sigRecv, bodyRecv := "", ""
	inspectCalls(fn.Body, func(call *ast.CallExpr) {
		sel, ok := unparen(call.Fun).(*ast.SelectorExpr)
		if !ok || len(call.Args) != 1 {
			return
		}
		arg := exprString(call.Args[0])
		if strings.HasSuffix(arg, ".Type") {
			sigRecv = exprString(sel.X)
		}
		if strings.HasSuffix(arg, ".Body") {
			bodyRecv = exprString(sel.X)
		}
	})
	c.Ob("D4-param-scope", "base/dep.Scope.Func/same-scope", fn, sigRecv != "" && sigRecv == bodyRecv, fmt.Sprintf("signature scanned by scope %q, body by scope %q: must be the same inner scope", sigRecv, bodyRecv))
	// Field arm declares the names
	fieldOK := false
	if cl := cases["*ast.Field"]; cl != nil {
		inspectCalls(cl, func(call *ast.CallExpr) {
			if funcFullName(calleeOf(info, call)) == "base/dep.Scope.Var" {
				fieldOK = true
			}
		})
	}
	c.Ob("D5-binding-constructs", "base/dep.Scope.AstExpr/*ast.Field", ae, fieldOK, "parameter, result and receiver names are declared (Scope.Var) when their Field is scanned")
	for _, t := range []string{"*ast.BlockStmt", "*ast.FuncLit"} {
		_, has := cases[t]
		c.Ob("D5-binding-constructs", "base/dep.Scope.AstExpr/"+t, ae, has, t+" opens a scope")
	}
	// every syntax node type that owns a *ast.FieldList makes AstExpr declare the field names (Field arm above):
	// it must open a scope of its own, otherwise the names of parameters, struct fields and interface methods
	// leak into the enclosing scope and shadow (or are mistaken for) package-level declarations
	if astPk := pk.Imports["go/ast"]; astPk != nil {
		var owners []string
		sc := astPk.Types.Scope()
		for _, name := range sc.Names() {
			tn, ok := sc.Lookup(name).(*types.TypeName)
			if !ok {
				continue
			}
			st, ok := tn.Type().Underlying().(*types.Struct)
			if !ok {
				continue
			}
			for i := 0; i < st.NumFields(); i++ {
				if pt, ok := st.Field(i).Type().(*types.Pointer); ok {
					if nt, ok := pt.Elem().(*types.Named); ok && nt.Obj().Name() == "FieldList" && nt.Obj().Pkg() == astPk.Types {
						owners = append(owners, "*ast."+name)
						break
					}
				}
			}
		}
		sort.Strings(owners)
		nOwners := 0
		for _, t := range owners {
			if t == "*ast.FuncDecl" {
				continue // handled by Scope.Func, which opens the function's scope (D4)
			}
			if t == "*ast.FuncLit" || t == "*ast.TypeSpec" {
				continue // FuncLit: own arm (D4); TypeSpec: type parameters only, not used by the interpreter's generics
			}
			nOwners++
			c.Ob("D5-binding-constructs", "base/dep.Scope.AstExpr/field-owner "+t, ae, opens[t], t+" owns a field list: scanning it declares the field names, so it opens a scope of its own")
		}
		if nOwners < 3 {
			c.Ob("D5-binding-constructs", "base/dep.Scope.AstExpr/field-owners", ae, false, "go/ast node types owning a FieldList not found")
		}
	} else {
		c.Ob("D5-binding-constructs", "base/dep.Scope.AstExpr/field-owners", ae, false, "go/ast not among the imports of base/dep")
	}
	// local declarations: var/const/type inside bodies go through Decl; := / range / type switch / select need their own arms
	for _, t := range []string{"*ast.AssignStmt", "*ast.RangeStmt", "*ast.TypeSwitchStmt", "*ast.CommClause"} {
		cl, has := cases[t]
		declares := false
		if has {
			inspectCalls(cl, func(call *ast.CallExpr) {
				if strings.HasPrefix(funcFullName(calleeOf(info, call)), "base/dep.Scope.") {
					declares = true
				}
			})
		}
		c.Ob("D5-binding-constructs", "base/dep.Scope.AstExpr/"+t, ae, has && declares, "names bound by "+t+" (:=) are declared as locals, so that a local named like a package-level declaration is not recorded as a dependency on it")
	}
}

// ------------------------------------------------------------ D6..D9

func ruleDepGraphStructure(c *Ctx) {
	pk := c.P.Pkg("base/dep")
	info := pk.TypesInfo
	// D6: RemoveTypeFwd drops dependencies only for Type nodes
	rt := c.P.Func("base/dep.graph.RemoveTypeFwd")
	if rt == nil {
		c.Ob("D6-typefwd-kind", "base/dep.graph.RemoveTypeFwd", nil, false, "anchor function not found")
	} else {
		n := 0
		inspectCalls(rt.Body, func(call *ast.CallExpr) {
			fn := calleeOf(info, call)
			if fn == nil || fn.Pkg() != pk.Types {
				return
			}
			cfd := c.P.Func(funcFullName(fn))
			if cfd == nil {
				return
			}
			deletes := false
			inspectCalls(cfd.Body, func(c2 *ast.CallExpr) {
				if id := identOf(c2.Fun); id != nil && id.Name == "delete" {
					deletes = true
				}
			})
			if !deletes || fn.Name() == "visit" {
				return
			}
			n++
			ok := fn.Name() == "RemoveDepsFor" && len(call.Args) == 2 && objQName(usedObj(info, call.Args[0])) == "base/dep.Type"
			c.Ob("D6-typefwd-kind", "base/dep.graph.RemoveTypeFwd/"+fn.Name(), call, ok, "a forward type declaration satisfies only the dependencies of Type nodes (RemoveDepsFor(Type, ...)); dropping them for variables and functions would place those before the real type")
		})
		if n == 0 {
			c.Ob("D6-typefwd-kind", "base/dep.graph.RemoveTypeFwd", rt, false, "no edge-dropping call found: anchor missing")
		}
	}
	// D9: declaration loop reported iff both removals return nothing
	st := c.P.Func("base/dep.graph.Sort")
	ok9 := false
	if st != nil {
		ast.Inspect(st.Body, func(n ast.Node) bool {
			ifs, ok := n.(*ast.IfStmt)
			if !ok {
				return true
			}
			// if len(buf) == 0 { buf = g.RemoveTypeFwd(); if len(buf) == 0 { g.circularDependencyError() } }
			calls := func(nd ast.Node, name string) bool {
				f := false
				inspectCalls(nd, func(call *ast.CallExpr) {
					if fn := calleeOf(info, call); fn != nil && fn.Name() == name {
						f = true
					}
				})
				return f
			}
			if isLenZero(info, ifs.Cond) && calls(ifs.Body, "RemoveTypeFwd") {
				for _, s2 := range ifs.Body.List {
					if in, ok := s2.(*ast.IfStmt); ok && isLenZero(info, in.Cond) && calls(in.Body, "circularDependencyError") {
						ok9 = true
					}
				}
			}
			return true
		})
	}
	c.Ob("D9-loop-error", "base/dep.graph.Sort", st, ok9, "circularDependencyError is reached exactly when RemoveNodesNoDeps and then RemoveTypeFwd both return nothing")
	// D8: phase split
	some := c.P.Func("base/dep.Sorter.Some")
	if some != nil {
		var order []string
		inspectCalls(some.Body, func(call *ast.CallExpr) {
			if fn := calleeOf(info, call); fn != nil && strings.HasPrefix(fn.Name(), "pop") {
				order = append(order, fn.Name())
			}
		})
		want := "popPackages,popImports,popDecls,popStmts"
		c.Ob("D8-phase-split", "base/dep.Sorter.Some", some, strings.Join(order, ",") == want, "phases are tried in the order "+want+" (found "+strings.Join(order, ",")+")")
	} else {
		c.Ob("D8-phase-split", "base/dep.Sorter.Some", nil, false, "anchor function not found")
	}
	for _, nm := range []string{"popPackages", "popImports", "popDecls", "popStmts"} {
		fd := c.P.Func("base/dep.Sorter." + nm)
		if fd == nil {
			c.Ob("D8-phase-split", "base/dep.Sorter."+nm, nil, false, "anchor function not found")
			continue
		}
		// the scan loop leaves at the first node that is not of its class: a `break <label>` after the switch
		hasBreak, consumes := false, false
		ast.Inspect(fd.Body, func(n ast.Node) bool {
			if fs, ok := n.(*ast.ForStmt); ok {
				for _, s2 := range fs.Body.List {
					if b, ok := s2.(*ast.BranchStmt); ok && b.Tok == token.BREAK {
						hasBreak = true
					}
				}
			}
			if as, ok := n.(*ast.AssignStmt); ok && len(as.Lhs) == 1 && len(as.Rhs) == 1 {
				if sl, ok := unparen(as.Rhs[0]).(*ast.SliceExpr); ok && strings.HasSuffix(exprString(as.Lhs[0]), ".queue") && strings.HasSuffix(exprString(sl.X), ".queue") {
					consumes = true
				}
			}
			return true
		})
		c.Ob("D8-phase-split", "base/dep.Sorter."+nm, fd, hasBreak && consumes, "the run of nodes of this class ends at the first node of another class (unconditional break at the end of the loop body) and only the consumed prefix is removed from the queue")
	}
}

func isLenZero(info *types.Info, e ast.Expr) bool {
	b, ok := unparen(e).(*ast.BinaryExpr)
	if !ok || b.Op != token.EQL {
		return false
	}
	call, ok := unparen(b.X).(*ast.CallExpr)
	if !ok || identOf(call.Fun) == nil || identOf(call.Fun).Name != "len" {
		return false
	}
	v, isC := constInt(info, b.Y)
	return isC && v == 0
}

// ruleAppendAlias: inside a loop, append(x, ...) with x declared outside the loop and the
// result bound to a different variable shares x's backing array between iterations.
func ruleAppendAlias(c *Ctx, short, rule string) {
	pk := c.P.Pkg(short)
	info := pk.TypesInfo
	n := 0
	for _, fd := range c.P.FuncsOf(short) {
		if fd.Body == nil {
			continue
		}
		fkey := funcKey(pk, fd)
		var loops []ast.Node
		var stack []ast.Node
		ast.Inspect(fd.Body, func(nd ast.Node) bool {
			if nd == nil {
				top := stack[len(stack)-1]
				stack = stack[:len(stack)-1]
				if len(loops) > 0 && loops[len(loops)-1] == top {
					loops = loops[:len(loops)-1]
				}
				return true
			}
			stack = append(stack, nd)
			switch nd.(type) {
			case *ast.ForStmt, *ast.RangeStmt:
				loops = append(loops, nd)
			}
			as, ok := nd.(*ast.AssignStmt)
			if !ok || len(loops) == 0 || len(as.Lhs) != 1 || len(as.Rhs) != 1 {
				return true
			}
			call, ok := unparen(as.Rhs[0]).(*ast.CallExpr)
			if !ok || identOf(call.Fun) == nil || identOf(call.Fun).Name != "append" || len(call.Args) < 2 {
				return true
			}
			if _, isBuiltin := info.Uses[identOf(call.Fun)].(*types.Builtin); !isBuiltin {
				return true
			}
			src := identOf(call.Args[0])
			if src == nil {
				return true // append(dup(x), ...), append([]T(nil), ...): fresh backing array
			}
			so := info.Uses[src]
			dst := identOf(as.Lhs[0])
			var do types.Object
			if dst != nil {
				do = info.Uses[dst]
				if do == nil {
					do = info.Defs[dst]
				}
			}
			n++
			loop := loops[len(loops)-1]
			outside := so != nil && !(so.Pos() > loop.Pos() && so.Pos() < loop.End())
			bad := outside && do != so
			c.Ob(rule, fmt.Sprintf("%s/append(%s)", fkey, src.Name), as, !bad, fmt.Sprintf("append(%s, ...) inside a loop bound to %s: the slice declared outside the loop may share its backing array between iterations unless the result is stored back into it or a copy is appended to", src.Name, exprString(as.Lhs[0])))
			return true
		})
	}
	if n == 0 {
		c.ObTrivial(rule, short, nil, true, "no append inside loops")
	}
}

// ruleCompileSorts: Comp.Compile routes declaration lists through Sorter.All before compiling them.
func ruleCompileSorts(c *Ctx) {
	pk := c.P.Pkg("fast")
	info := pk.TypesInfo
	fd := c.P.Func("fast.Comp.Compile")
	if fd == nil {
		c.Ob("D10-compile-sorts", "fast.Comp.Compile", nil, false, "anchor function not found")
		return
	}
	var allPos, firstDecl token.Pos
	inspectCalls(fd.Body, func(call *ast.CallExpr) {
		switch funcFullName(calleeOf(info, call)) {
		case "base/dep.Sorter.All":
			if allPos == 0 {
				allPos = call.Pos()
			}
		case "fast.Comp.compileDecl":
			if firstDecl == 0 {
				firstDecl = call.Pos()
			}
		}
	})
	c.Ob("D10-compile-sorts", "fast.Comp.Compile", fd, allPos != 0 && firstDecl > allPos, "every declaration is compiled from the list returned by dep.Sorter.All()")
	// compileDecl's argument derives from that list
	di := buildDefIndex(info, fd)
	ok := true
	inspectCalls(fd.Body, func(call *ast.CallExpr) {
		if funcFullName(calleeOf(info, call)) == "fast.Comp.compileDecl" && len(call.Args) == 1 {
			r := di.rootOf(info, call.Args[0], 0)
			if r == nil || (r.Name() != "decls" && r.Name() != "sorter" && r.Name() != "decl") {
				ok = false
			}
		}
	})
	c.Ob("D10-compile-sorts", "fast.Comp.Compile/argument", fd, ok, "compileDecl receives elements of the sorted list")
}

// ------------------------------------------------------------ D11: a repeated constant expression carries its dependencies

// ruleConstDepsPairing: ConstDeps keeps the expressions of the last const spec (Type, Values) together with their
// dependencies (TypeDeps, ValueDeps) so that a spec that repeats them implicitly depends on the same names.
// Wherever one member of a pair is written or read at index i, the other is written / read in the same block.
func ruleConstDepsPairing(c *Ctx, rule string) {
	pk := c.P.Pkg("base/dep")
	info := pk.TypesInfo
	fd := c.P.Func("base/dep.Scope.Consts")
	if fd == nil {
		c.Ob(rule, "base/dep.Scope.Consts", nil, false, "anchor function not found")
		return
	}
	// pairs from the struct: F / FDeps (plural s dropped)
	var st *types.Struct
	if tn, ok := pk.Types.Scope().Lookup("ConstDeps").(*types.TypeName); ok {
		st, _ = tn.Type().Underlying().(*types.Struct)
	}
	if st == nil {
		c.Ob(rule, "base/dep.ConstDeps", nil, false, "struct not found")
		return
	}
	pairs := map[string]string{}
	for i := 0; i < st.NumFields(); i++ {
		n := st.Field(i).Name()
		for j := 0; j < st.NumFields(); j++ {
			m := st.Field(j).Name()
			if m == n+"Deps" || m == strings.TrimSuffix(n, "s")+"Deps" && n != m {
				pairs[n] = m
			}
		}
	}
	if len(pairs) < 2 {
		c.Ob(rule, "base/dep.ConstDeps/pairs", nil, false, "expression/dependency field pairs not found")
		return
	}
	// per block: which fields are written, which are read with an index
	type use struct{ write, readIdx map[string]string }
	blocks := map[*ast.BlockStmt]*use{}
	var cur []*ast.BlockStmt
	var visit func(n ast.Node) bool
	fieldOf := func(e ast.Expr) (string, bool) {
		s, ok := unparen(e).(*ast.SelectorExpr)
		if !ok {
			return "", false
		}
		if sel := info.Selections[s]; sel != nil && sel.Kind() == types.FieldVal {
			if nt, ok := derefNamed(sel.Recv()); ok && nt.Obj().Name() == "ConstDeps" {
				return s.Sel.Name, true
			}
		}
		return "", false
	}
	visit = func(n ast.Node) bool {
		switch x := n.(type) {
		case *ast.BlockStmt:
			cur = append(cur, x)
			blocks[x] = &use{map[string]string{}, map[string]string{}}
			for _, st := range x.List {
				ast.Inspect(st, visit)
			}
			cur = cur[:len(cur)-1]
			return false
		case *ast.AssignStmt:
			for _, l := range x.Lhs {
				if f, ok := fieldOf(l); ok && len(cur) > 0 {
					blocks[cur[len(cur)-1]].write[f] = "w"
				}
			}
		case *ast.IndexExpr:
			if f, ok := fieldOf(x.X); ok && len(cur) > 0 {
				blocks[cur[len(cur)-1]].readIdx[f] = exprString(x.Index)
			}
		}
		return true
	}
	ast.Inspect(fd.Body, visit)
	n := 0
	for bn, b := range blocks {
		for f, d := range pairs {
			if _, w := b.write[f]; w {
				n++
				_, w2 := b.write[d]
				c.Ob(rule, "base/dep.Scope.Consts/write "+f, bn, w2, "the remembered expression "+f+" and its dependencies "+d+" are updated together")
			}
			if _, w := b.write[d]; w {
				_, w2 := b.write[f]
				c.Ob(rule, "base/dep.Scope.Consts/write "+d, bn, w2, "the remembered dependencies "+d+" and their expression "+f+" are updated together")
			}
			if ix, r := b.readIdx[f]; r {
				n++
				c.Ob(rule, "base/dep.Scope.Consts/use "+f+"["+ix+"]", bn, b.readIdx[d] == ix, "a constant that takes the remembered expression "+f+"["+ix+"] takes its dependencies "+d+"["+ix+"] under the same condition")
			}
			if ix, r := b.readIdx[d]; r {
				c.Ob(rule, "base/dep.Scope.Consts/use "+d+"["+ix+"]", bn, b.readIdx[f] == ix, "dependencies "+d+"["+ix+"] are attached exactly where the expression "+f+"["+ix+"] is used")
			}
		}
	}
	if n < 2 {
		c.Ob(rule, "base/dep.Scope.Consts/sites", fd, false, "update and use sites not found: anchor missing")
	}
}

func derefNamed(t types.Type) (*types.Named, bool) {
	if p, ok := t.(*types.Pointer); ok {
		t = p.Elem()
	}
	n, ok := t.(*types.Named)
	return n, ok
}

// ruleSelfDependency (D12): only functions and types may mention themselves (recursion, self-referential types); the
// name removed from their dependency list is the declaration's own name in the graph (`Type.Method` for a method,
// not the bare method name). A variable or constant that mentions itself is an initialization loop and must stay one.
// Decided: remove_item_inplace is called only by NewDeclFunc and NewDeclType, and its first argument is the object
// that becomes the Name of the declaration built by the same function.
func ruleSelfDependency(c *Ctx, rule string) {
	pk := c.P.Pkg("base/dep")
	if pk == nil {
		c.Fatal("package base/dep not loaded")
		return
	}
	info := pk.TypesInfo
	allowed := map[string]bool{"base/dep.NewDeclFunc": true, "base/dep.NewDeclType": true}
	n := 0
	for _, fd := range c.P.FuncsOf("base/dep") {
		if fd.Body == nil {
			continue
		}
		fkey := funcKey(pk, fd)
		inspectCalls(fd.Body, func(call *ast.CallExpr) {
			if fn := calleeOf(info, call); fn == nil || fn.Name() != "remove_item_inplace" || len(call.Args) != 2 {
				return
			}
			n++
			if !allowed[fkey] {
				c.Ob(rule, fkey+"/self-dependency", call, false, "a self-reference is dropped from the dependencies of a declaration that is neither a function nor a type: a variable or constant that mentions itself must be reported as a loop")
				return
			}
			// the removed name is the Name of the Decl built here
			removed := usedObj(info, call.Args[0])
			var declName types.Object
			ast.Inspect(fd.Body, func(m ast.Node) bool {
				switch x := m.(type) {
				case *ast.CallExpr:
					if fn := calleeOf(info, x); fn != nil && fn.Name() == "NewDecl" && len(x.Args) >= 2 {
						declName = usedObj(info, x.Args[1])
					}
				case *ast.KeyValueExpr:
					if id := identOf(x.Key); id != nil && id.Name == "Name" {
						declName = usedObj(info, x.Value)
					}
				}
				return true
			})
			c.Ob(rule, fkey+"/self-dependency", call, removed != nil && removed == declName, "the name removed from the dependencies is the name the declaration has in the graph ("+exprString(call.Args[0])+")")
		})
	}
	if n < 2 {
		c.Ob(rule, "base/dep/remove_item_inplace", nil, false, fmt.Sprintf("%d self-dependency removals found, 2 confirmed by reading (NewDeclFunc, NewDeclType)", n))
	}
}

// ruleQueuePartition (D13): the sorter pops runs of packages, imports, declarations and statements from its queue; a
// run of declarations ends at an import or package clause (they are emitted at their own place, and what follows an
// import may need it). Decided: every token the other pop functions accept for an *ast.GenDecl (Tok == token.X) is
// excluded by a conjunct Tok != token.X in the condition under which popDecls takes a *ast.GenDecl.
func ruleQueuePartition(c *Ctx, rule string) {
	pk := c.P.Pkg("base/dep")
	info := pk.TypesInfo
	accepted := map[string]bool{}
	for _, fk := range []string{"base/dep.Sorter.popPackages", "base/dep.Sorter.popImports"} {
		fd := c.P.Func(fk)
		if fd == nil || fd.Body == nil {
			c.Ob(rule, fk, nil, false, "anchor function not found")
			return
		}
		ast.Inspect(fd.Body, func(n ast.Node) bool {
			if b, ok := n.(*ast.BinaryExpr); ok && b.Op == token.EQL {
				if _, isTok := fieldSel(info, b.X, "Tok"); isTok {
					if o := usedObj(info, b.Y); o != nil {
						accepted[o.Name()] = true
					}
				}
			}
			return true
		})
	}
	fd := c.P.Func("base/dep.Sorter.popDecls")
	if fd == nil || fd.Body == nil {
		c.Ob(rule, "base/dep.Sorter.popDecls", nil, false, "anchor function not found")
		return
	}
	excluded := map[string]bool{}
	var at ast.Node = fd
	ast.Inspect(fd.Body, func(n ast.Node) bool {
		ifs, ok := n.(*ast.IfStmt)
		if !ok {
			return true
		}
		for _, a := range andAtoms(ifs.Cond) {
			if b, ok := unparen(a).(*ast.BinaryExpr); ok && b.Op == token.NEQ {
				if _, isTok := fieldSel(info, b.X, "Tok"); isTok {
					if o := usedObj(info, b.Y); o != nil {
						excluded[o.Name()] = true
						at = ifs
					}
				}
			}
		}
		return true
	})
	var missing []string
	for t := range accepted {
		if !excluded[t] {
			missing = append(missing, t)
		}
	}
	sort.Strings(missing)
	c.Ob(rule, "base/dep.Sorter.popDecls", at, len(accepted) >= 2 && len(missing) == 0, fmt.Sprintf("a run of declarations excludes the GenDecl tokens that popPackages / popImports take (%d tokens; not excluded: %v)", len(accepted), missing))
}
