package main

// E3 — evaluate now, call later. `defer f(a)` and `go f(a)` evaluate the function value and the arguments when
// the statement runs; the call happens later, possibly after the variables were assigned again (or, for go,
// concurrently). An expression closure of the interpreter may return a settable reflect.Value that aliases the
// variable it read, so the statement must detach every such value: in the statement closures of Comp.Defer and
// Comp.Go each value produced by calling a compiled expression (a func(*Env) xreflect.Value) is bound to a local
// that is replaced by a copy when it is settable (`if v.CanSet() { v = v.Convert(v.Type()) }`) before it is kept.

import (
	"fmt"
	"go/ast"
	"go/token"
	"go/types"
)

func isExprFunX1(t types.Type) bool {
	sig, ok := t.Underlying().(*types.Signature)
	if !ok || sig.Params().Len() != 1 || sig.Results().Len() != 1 {
		return false
	}
	return isEnvPtr(sig.Params().At(0).Type()) && isNamedType(sig.Results().At(0).Type(), "xreflect", "Value")
}

func ruleDetachedOperands(c *Ctx, rule string, funcs ...string) {
	for _, fk := range funcs {
		pk := c.P.PkgOfFunc(fk)
		fd := c.P.Func(fk)
		if fd == nil || pk == nil || fd.Body == nil {
			c.Ob(rule, fk, nil, false, "anchor function not found")
			continue
		}
		info := pk.TypesInfo
		n := 0
		ast.Inspect(fd.Body, func(nd ast.Node) bool {
			lit, ok := nd.(*ast.FuncLit)
			if !ok || !isStmtSig(info.TypeOf(lit)) {
				return true
			}
			// every block of the closure: statements `x := F(env)` / `s[i] = F(env)`
			var walk func(list []ast.Stmt)
			walk = func(list []ast.Stmt) {
				for i, st := range list {
					switch x := st.(type) {
					case *ast.AssignStmt:
						if len(x.Rhs) != 1 || len(x.Lhs) != 1 {
							continue
						}
						call, ok := unparen(x.Rhs[0]).(*ast.CallExpr)
						if !ok {
							continue
						}
						// dup(F(env)) detaches on the spot
						if fn := calleeOf(info, call); fn != nil && funcFullName(fn) == "fast.dup" && len(call.Args) == 1 {
							if inner, ok := unparen(call.Args[0]).(*ast.CallExpr); ok && isExprFunX1(typeOrInvalid(info, inner.Fun)) {
								n++
								c.Ob(rule, fmt.Sprintf("%s/operand#%d", fk, n), x, true, "the value of a compiled expression kept for the later call is detached with dup()")
								continue
							}
						}
						if !isExprFunX1(typeOrInvalid(info, call.Fun)) {
							continue
						}
						n++
						key := fmt.Sprintf("%s/operand#%d", fk, n)
						id := identOf(x.Lhs[0])
						if id == nil {
							c.Ob(rule, key, x, false, "the value of a compiled expression is stored directly: it may alias the variable it was read from until the call is made")
							continue
						}
						o := info.Defs[id]
						if o == nil {
							o = info.Uses[id]
						}
						good := false
						if i+1 < len(list) {
							if ifs, ok := list[i+1].(*ast.IfStmt); ok && ifs.Else == nil && ifs.Init == nil {
								if cc, ok := unparen(ifs.Cond).(*ast.CallExpr); ok {
									if s, ok := unparen(cc.Fun).(*ast.SelectorExpr); ok && s.Sel.Name == "CanSet" && usedObj(info, s.X) == o {
										for _, bs := range ifs.Body.List {
											if as, ok := bs.(*ast.AssignStmt); ok && as.Tok == token.ASSIGN && len(as.Lhs) == 1 && usedObj(info, as.Lhs[0]) == o && len(as.Rhs) == 1 {
												if rc, ok := unparen(as.Rhs[0]).(*ast.CallExpr); ok {
													if rs, ok := unparen(rc.Fun).(*ast.SelectorExpr); ok && rs.Sel.Name == "Convert" && usedObj(info, rs.X) == o {
														good = true
													}
												}
											}
										}
									}
								}
							}
						}
						c.Ob(rule, key, x, good, "the value of a compiled expression kept for the later call is replaced by a copy when it is settable (it would otherwise alias the variable it was read from)")
					case *ast.ForStmt:
						walk(x.Body.List)
					case *ast.RangeStmt:
						walk(x.Body.List)
					case *ast.IfStmt:
						walk(x.Body.List)
						if b, ok := x.Else.(*ast.BlockStmt); ok {
							walk(b.List)
						}
					case *ast.BlockStmt:
						walk(x.List)
					}
				}
			}
			walk(lit.Body.List)
			return false
		})
		if n < 2 {
			c.Ob(rule, fk, fd, false, fmt.Sprintf("%d operands evaluated in the statement closure, expected the function value and the arguments", n))
		}
	}
}

func typeOrInvalid(info *types.Info, e ast.Expr) types.Type {
	if t := info.TypeOf(e); t != nil {
		return t
	}
	return types.Typ[types.Invalid]
}

// R2 — return with named results is a parallel assignment. `return b, a` in `func f() (a, b int)` reads the
// results it is about to set, so every result expression must be evaluated before any result is assigned.
// Decided in Comp.Return: the loop that compiles one assignment per result (SetVar on the result binds) is reached
// only after an `if <count> > 1 && <info>.NamedResults { ...; return }` whose condition has no other conjunct,
// and the function that branch calls builds one statement that first calls every compiled expression, detaching
// each value (dup, or the CanSet/Convert idiom), and only then calls the setters.
func ruleReturnParallel(c *Ctx, rule string) {
	pk := c.P.Pkg("fast")
	info := pk.TypesInfo
	fd := c.P.Func("fast.Comp.Return")
	if fd == nil || fd.Body == nil {
		c.Ob(rule, "fast.Comp.Return", nil, false, "anchor function not found")
		return
	}
	// the sequential loop
	var loop *ast.ForStmt
	for _, st := range fd.Body.List {
		if fs, ok := st.(*ast.ForStmt); ok {
			has := false
			inspectCalls(fs.Body, func(call *ast.CallExpr) {
				if funcFullName(calleeOf(info, call)) == "fast.Comp.SetVar" {
					has = true
				}
			})
			if has {
				loop = fs
			}
		}
	}
	if loop == nil {
		// no sequential path at all: every return goes through a parallel path; nothing to guard
		c.ObTrivial(rule, "fast.Comp.Return/sequential-loop", fd, true, "no per-result sequential assignment loop in Comp.Return")
	}
	var guard *ast.IfStmt
	var callee *types.Func
	why := "no `if n > 1 && info.NamedResults { ...; return }` before the sequential loop"
	if loop != nil {
		for _, st := range fd.Body.List {
			ifs, ok := st.(*ast.IfStmt)
			if !ok || ifs.Pos() > loop.Pos() || ifs.Else != nil || !terminates(ifs.Body) {
				continue
			}
			cnt, named, other := false, false, false
			for _, a := range andAtoms(ifs.Cond) {
				a = unparen(a)
				if _, ok := fieldSel(info, a, "NamedResults"); ok {
					named = true
					continue
				}
				if b, ok := a.(*ast.BinaryExpr); ok {
					if v, isC := constInt(info, b.Y); isC && identOf(b.X) != nil && ((b.Op == token.GTR && v == 1) || (b.Op == token.GEQ && v == 2)) {
						cnt = true
						continue
					}
				}
				other = true
			}
			if named && !other {
				guard = ifs
				_ = cnt
				inspectCalls(ifs.Body, func(call *ast.CallExpr) {
					if fn := calleeOf(info, call); fn != nil && fn.Pkg() == pk.Types && !isErrorHelper(fn) {
						callee = fn
					}
				})
			} else if named && other {
				why = "the guard of the parallel path has extra conjuncts: some returns with several named results still take the sequential loop"
			}
		}
		c.Ob(rule, "fast.Comp.Return/guard", loop, guard != nil, "the per-result sequential assignment is reached only for a single result or unnamed results"+sep(map[bool]string{true: "", false: why}[guard != nil]))
	}
	if callee == nil {
		if loop != nil && guard != nil {
			c.Ob(rule, "fast.Comp.Return/parallel", guard, false, "the parallel branch calls no function of package fast")
		}
		return
	}
	pfd := c.P.Func(funcFullName(callee))
	if pfd == nil || pfd.Body == nil {
		c.Ob(rule, "fast.Comp.Return/parallel", guard, false, "body of "+callee.Name()+" not found")
		return
	}
	isSetter := func(t types.Type) bool {
		sig, ok := t.Underlying().(*types.Signature)
		return ok && sig.Params().Len() == 2 && sig.Results().Len() == 0 && isEnvPtr(sig.Params().At(0).Type()) && isNamedType(sig.Params().At(1).Type(), "xreflect", "Value")
	}
	nlit := 0
	ast.Inspect(pfd.Body, func(nd ast.Node) bool {
		lit, ok := nd.(*ast.FuncLit)
		if !ok || !isStmtSig(info.TypeOf(lit)) {
			return true
		}
		nlit++
		var lastEval, firstSet token.Pos
		detached := true
		var stack []ast.Node
		ast.Inspect(lit.Body, func(x ast.Node) bool {
			if x == nil {
				stack = stack[:len(stack)-1]
				return true
			}
			stack = append(stack, x)
			call, ok := x.(*ast.CallExpr)
			if !ok {
				return true
			}
			ft := typeOrInvalid(info, call.Fun)
			switch {
			case isExprFunX1(ft):
				if call.Pos() > lastEval {
					lastEval = call.Pos()
				}
				// directly the argument of dup(...)
				d := false
				if len(stack) >= 2 {
					if pc, ok := stack[len(stack)-2].(*ast.CallExpr); ok {
						if fn := calleeOf(info, pc); fn != nil && funcFullName(fn) == "fast.dup" {
							d = true
						}
					}
				}
				if !d && !copiedWhenSettable(info, lit.Body, call) {
					detached = false
				}
			case isSetter(ft):
				if firstSet == token.NoPos || call.Pos() < firstSet {
					firstSet = call.Pos()
				}
			}
			return true
		})
		key := "fast.Comp." + callee.Name()
		c.Ob(rule, key+"/two-phase", lit, lastEval != token.NoPos && firstSet != token.NoPos && lastEval < firstSet, "every result expression is evaluated before the first result is set")
		c.Ob(rule, key+"/detached", lit, detached && lastEval != token.NoPos, "each evaluated value is detached (dup) from the variable it was read from before any result is set")
		return false
	})
	if nlit == 0 {
		c.Ob(rule, "fast.Comp."+callee.Name(), pfd, false, "no statement closure found in the parallel return compiler")
	}
	// dup itself: copies when settable
	dfd := c.P.Func("fast.dup")
	okDup := false
	if dfd != nil && dfd.Body != nil {
		ast.Inspect(dfd.Body, func(x ast.Node) bool {
			if ifs, ok := x.(*ast.IfStmt); ok {
				if cc, ok := unparen(ifs.Cond).(*ast.CallExpr); ok {
					if s, ok := unparen(cc.Fun).(*ast.SelectorExpr); ok && s.Sel.Name == "CanSet" {
						inspectCalls(ifs.Body, func(call *ast.CallExpr) {
							if rs, ok := unparen(call.Fun).(*ast.SelectorExpr); ok && rs.Sel.Name == "Convert" {
								okDup = true
							}
						})
					}
				}
			}
			return true
		})
	}
	c.Ob(rule, "fast.dup", dfd, okDup, "dup replaces a settable value by a copy")
}
