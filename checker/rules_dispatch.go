package main

// A5: token dispatch tables and the operator anchor.

import (
	"fmt"
	"go/ast"
	"go/token"
	"go/types"
	"sort"
	"strings"

	"golang.org/x/tools/go/packages"
)

type dispatchArm struct {
	sw      *ast.SwitchStmt
	fd      *ast.FuncDecl
	fkey    string
	tokens  []string // names of go/token constants
	targets []*types.Func
	calls   []*ast.CallExpr
	clause  *ast.CaseClause
}

func isTokenType(t types.Type) bool {
	if t != nil {
		t = types.Unalias(t)
	}
	return t != nil && isNamedType(t, "", "Token") == false && func() bool {
		n, ok := t.(*types.Named)
		return ok && n.Obj().Name() == "Token" && n.Obj().Pkg() != nil && n.Obj().Pkg().Path() == "go/token"
	}()
}

func plainToken(name string) string { return strings.TrimSuffix(name, "_ASSIGN") }

var tokenByName = func() map[string]token.Token {
	m := map[string]token.Token{}
	for t := token.Token(0); t < token.TILDE+1; t++ {
		m[t.String()] = t
	}
	return m
}()

// goTokenOfName maps a go/token constant name (ADD, SHL_ASSIGN...) to the token.
var constNameToToken = map[string]token.Token{
	"ADD": token.ADD, "SUB": token.SUB, "MUL": token.MUL, "QUO": token.QUO, "REM": token.REM, "AND": token.AND, "OR": token.OR, "XOR": token.XOR,
	"SHL": token.SHL, "SHR": token.SHR, "AND_NOT": token.AND_NOT, "LAND": token.LAND, "LOR": token.LOR, "EQL": token.EQL, "LSS": token.LSS,
	"GTR": token.GTR, "NEQ": token.NEQ, "LEQ": token.LEQ, "GEQ": token.GEQ, "NOT": token.NOT, "ARROW": token.ARROW, "ASSIGN": token.ASSIGN,
	"INC": token.INC, "DEC": token.DEC, "DEFINE": token.DEFINE,
}

// dispatchArms finds every arm of every switch over a go/token.Token tag in the package.
func dispatchArms(pk *packages.Package) []dispatchArm {
	info := pk.TypesInfo
	var out []dispatchArm
	for _, f := range pk.Syntax {
		for _, d := range f.Decls {
			fd, ok := d.(*ast.FuncDecl)
			if !ok || fd.Body == nil {
				continue
			}
			for _, sw := range findSwitches(fd.Body, func(tag ast.Expr) bool { return isTokenType(info.TypeOf(tag)) }) {
				for _, cc := range sw.Body.List {
					cl := cc.(*ast.CaseClause)
					if cl.List == nil {
						continue
					}
					arm := dispatchArm{sw: sw, fd: fd, fkey: funcKey(pk, fd), clause: cl}
					for _, e := range cl.List {
						o := usedObj(info, e)
						if o == nil {
							continue
						}
						arm.tokens = append(arm.tokens, o.Name())
					}
					// targets: calls to functions of this package in the arm, not nested in further switches on tokens
					for _, s := range cl.Body {
						ast.Inspect(s, func(n ast.Node) bool {
							if _, ok := n.(*ast.FuncLit); ok {
								return false
							}
							if call, ok := n.(*ast.CallExpr); ok {
								if fn := calleeOf(info, call); fn != nil && fn.Pkg() == pk.Types {
									arm.targets = append(arm.targets, fn)
									arm.calls = append(arm.calls, call)
								}
							}
							return true
						})
					}
					out = append(out, arm)
				}
			}
		}
	}
	return out
}

// isErrorHelper: functions that never produce code (report an error).
func isErrorHelper(fn *types.Func) bool {
	n := fn.Name()
	return strings.Contains(n, "Errorf") || strings.HasPrefix(n, "invalid") || strings.HasPrefix(n, "unimplemented") || strings.HasPrefix(n, "bad") || n == "Warnf" || n == "Debugf"
}

// ruleDispatchTables: (a) injective (b) complete (c) operator anchor.
func ruleDispatchTables(c *Ctx, short string, swFuncs []string, rulePrefix string) map[*types.Func]string {
	pk := c.P.Pkg(short)
	info := pk.TypesInfo
	arms := dispatchArms(pk)
	want := map[string]bool{}
	for _, f := range swFuncs {
		want[f] = true
	}
	opOf := map[*types.Func]string{} // compile function -> plain operator token name
	dispatched := map[*types.Func]bool{}
	bySwitch := map[*ast.SwitchStmt][]dispatchArm{}
	var sws []*ast.SwitchStmt
	for _, a := range arms {
		for _, t := range a.targets {
			dispatched[t] = true
		}
		if !want[a.fkey] {
			continue
		}
		if bySwitch[a.sw] == nil {
			sws = append(sws, a.sw)
		}
		bySwitch[a.sw] = append(bySwitch[a.sw], a)
	}
	found := map[string]bool{}
	for si, sw := range sws {
		as := bySwitch[sw]
		fkey := as[0].fkey
		found[fkey] = true
		swKey := fmt.Sprintf("%s/switch%d", fkey, si+1)
		owner := map[*types.Func]dispatchArm{}
		for _, a := range as {
			// plain operator of the arm
			plain := map[string]bool{}
			for _, t := range a.tokens {
				plain[plainToken(t)] = true
			}
			var compile []*types.Func
			for _, t := range a.targets {
				if !isErrorHelper(t) && returnsCode(t) {
					compile = append(compile, t)
				}
			}
			armKey := swKey + "/" + strings.Join(a.tokens, ",")
			for _, t := range compile {
				if prev, ok := owner[t]; ok && prev.clause != a.clause {
					c.Ob(rulePrefix+"-injective", armKey+"->"+t.Name(), a.clause, false,
						fmt.Sprintf("operators %s and %s are both compiled by %s: one of them computes the wrong operation", strings.Join(prev.tokens, ","), strings.Join(a.tokens, ","), t.Name()))
					continue
				}
				owner[t] = a
				c.Ob(rulePrefix+"-injective", armKey+"->"+t.Name(), a.clause, true, "only arm dispatching to "+t.Name())
				if len(plain) == 1 {
					for p := range plain {
						if old, ok := opOf[t]; ok && old != p {
							c.Ob(rulePrefix+"-injective", armKey+"->"+t.Name()+"/cross-switch", a.clause, false, "compiled for "+old+" elsewhere and for "+p+" here")
						}
						opOf[t] = p
					}
				}
			}
		}
	}
	for _, f := range swFuncs {
		if !found[f] {
			c.Ob(rulePrefix+"-anchor", f, nil, false, "no switch over token.Token found in this function")
		}
	}
	// (b) completeness: methods with the signature of a dispatched target that nobody references
	sigs := map[string]*types.Func{}
	for t := range opOf {
		sigs[types.TypeString(t.Type(), nil)] = t
	}
	referenced := map[*types.Func]bool{}
	for _, f := range pk.Syntax {
		ast.Inspect(f, func(n ast.Node) bool {
			if id, ok := n.(*ast.Ident); ok {
				if fn, ok := info.Uses[id].(*types.Func); ok {
					referenced[fn] = true
				}
			}
			return true
		})
	}
	var names []string
	byName := map[string]*types.Func{}
	for _, f := range pk.Syntax {
		for _, d := range f.Decls {
			fd, ok := d.(*ast.FuncDecl)
			if !ok || fd.Recv == nil {
				continue
			}
			fn, _ := info.Defs[fd.Name].(*types.Func)
			if fn == nil {
				continue
			}
			if _, ok := sigs[types.TypeString(fn.Type(), nil)]; !ok {
				continue
			}
			names = append(names, fn.Name())
			byName[fn.Name()] = fn
		}
	}
	sort.Strings(names)
	for _, n := range names {
		fn := byName[n]
		key := short + ".Comp." + n
		if isErrorHelper(fn) {
			continue
		}
		if dispatched[fn] || referenced[fn] {
			c.ObTrivial(rulePrefix+"-complete", key, nil, true, "compile specialisation is reachable from a dispatch arm or a caller")
		} else {
			c.Ob(rulePrefix+"-complete", key, c.P.Func(key), false, "compile specialisation with the signature of a dispatched family is never dispatched nor called: the operator it implements is not wired")
		}
	}
	return opOf
}

func returnsCode(fn *types.Func) bool {
	sig := fn.Type().(*types.Signature)
	if sig.Results().Len() != 1 {
		return false
	}
	t := sig.Results().At(0).Type()
	return isNamedType(t, "fast", "Expr") || isNamedType(t, "fast", "Stmt") || isNamedType(t, "fast", "I") || strings.HasSuffix(t.String(), "fast.Stmt") || strings.HasSuffix(t.String(), "fast.Expr")
}

// principalOps collects the arithmetic / comparison operators a closure applies,
// excluding loop headers, ++/--, and index arithmetic.
func principalOps(lit *ast.FuncLit) map[string][]ast.Node {
	ops := map[string][]ast.Node{}
	var walk func(n ast.Node)
	walk = func(n ast.Node) {
		ast.Inspect(n, func(n ast.Node) bool {
			switch x := n.(type) {
			case *ast.ForStmt:
				walk(x.Body)
				return false
			case *ast.IncDecStmt:
				return false
			case *ast.IndexExpr:
				walk(x.X)
				return false
			case *ast.SliceExpr:
				walk(x.X)
				return false
			case *ast.BinaryExpr:
				if (x.Op == token.EQL || x.Op == token.NEQ) && strings.HasSuffix(exprString(x.X), ".Type()") {
					return true // comparison of reflect types (`if v.Type() != rt { v = convert(v, rt) }`), not an operation on the operands
				}
				ops[x.Op.String()] = append(ops[x.Op.String()], x)
			case *ast.AssignStmt:
				if x.Tok != token.ASSIGN && x.Tok != token.DEFINE {
					p := strings.TrimSuffix(x.Tok.String(), "=")
					ops[p] = append(ops[p], x)
				}
			case *ast.UnaryExpr:
				if _, isLit := unparen(x.X).(*ast.BasicLit); isLit {
					return true // a signed constant, not an operation on an operand
				}
				if x.Op == token.SUB || x.Op == token.XOR || x.Op == token.NOT {
					ops["unary"+x.Op.String()] = append(ops["unary"+x.Op.String()], x)
				}
			}
			return true
		})
	}
	walk(lit.Body)
	return ops
}

// ruleOperatorAnchor: every closure directly inside a compile function dispatched for
// operator op applies exactly that Go operator (and no other arithmetic operator).
func ruleOperatorAnchor(c *Ctx, short string, opOf map[*types.Func]string, rule, ruleOrder string, allowExtra map[string][]string) {
	fdta := families(c, short)
	byFunc := map[*ast.FuncDecl][]*Member{}
	for _, m := range fdta.members {
		byFunc[m.FD] = append(byFunc[m.FD], m)
	}
	pk := c.P.Pkg(short)
	var fns []*types.Func
	for fn := range opOf {
		fns = append(fns, fn)
	}
	sort.Slice(fns, func(i, j int) bool { return fns[i].Name() < fns[j].Name() })
	for _, fn := range fns {
		opName := opOf[fn]
		tok, ok := constNameToToken[opName]
		if !ok {
			continue
		}
		fd := c.P.Func(funcFullName(fn))
		if fd == nil {
			continue
		}
		_ = pk
		if tok == token.ASSIGN || tok == token.LAND || tok == token.LOR || tok == token.ARROW {
			continue
		}
		for _, m := range byFunc[fd] {
			ops := principalOps(m.Lit)
			okAll := true
			var seen []string
			for o := range ops {
				seen = append(seen, o)
			}
			sort.Strings(seen)
			has := false
			for _, o := range seen {
				if o == tok.String() || o == "unary"+tok.String() {
					has = true
					continue
				}
				allowed := false
				for _, a := range allowExtra[opName] {
					if a == o {
						allowed = true
					}
				}
				if !allowed {
					okAll = false
				}
			}
			if len(seen) == 0 {
				c.ObTrivial(rule+"-noop", m.Key(), m.Lit, true, "closure applies no arithmetic operator (delegates or stores)")
				continue
			}
			c.Ob(rule, m.Key(), m.Lit, okAll && has, fmt.Sprintf("compiled for token %s (%s): closure applies %v", opName, tok, seen))
			// A6: operand provenance. The right operand derives from the function's last
			// parameter (ye / val / fun / init), the left operand does not.
			if !(okAll && has) || ruleOrder == "" {
				continue
			}
			params := fd.Type.Params.List
			if len(params) < 2 {
				continue
			}
			info := m.Pk.TypesInfo
			lastP := info.Defs[params[len(params)-1].Names[len(params[len(params)-1].Names)-1]]
			di := fdta.di[m.FD]
			for _, n := range ops[tok.String()] {
				var L, R ast.Expr
				switch x := n.(type) {
				case *ast.BinaryExpr:
					L, R = x.X, x.Y
				case *ast.AssignStmt:
					if len(x.Lhs) == 1 && len(x.Rhs) == 1 {
						L, R = x.Lhs[0], x.Rhs[0]
					}
				}
				if L == nil {
					continue
				}
				lr, rr := exprRoots(info, di, L), exprRoots(info, di, R)
				okOrder := rr[lastP] && !lr[lastP]
				c.Ob(ruleOrder, m.Key(), n, okOrder, fmt.Sprintf("left operand %s derives from %v, right operand %s from %v; the right operand must come from parameter %s and the left must not",
					exprString(L), rootNames(lr), exprString(R), rootNames(rr), lastP.Name()))
			}
		}
	}
}

// exprRoots returns the leaf objects (function parameters, package objects, closure
// parameters) every identifier of e derives from, expanding single definitions fully.
func exprRoots(info *types.Info, di *defIndex, e ast.Expr) map[types.Object]bool {
	out := map[types.Object]bool{}
	seen := map[types.Object]bool{}
	var walk func(e ast.Expr, depth int)
	walk = func(e ast.Expr, depth int) {
		if e == nil || depth > 10 {
			return
		}
		ast.Inspect(e, func(n ast.Node) bool {
			switch x := n.(type) {
			case *ast.FuncLit:
				return false
			case *ast.SelectorExpr:
				if _, isPkg := info.Uses[identOf(x.X)].(*types.PkgName); isPkg {
					return false
				}
				walk(x.X, depth)
				return false
			case *ast.Ident:
				o := info.Uses[x]
				if o == nil {
					o = info.Defs[x]
				}
				if o == nil {
					return true
				}
				if _, isVar := o.(*types.Var); !isVar {
					return true
				}
				if seen[o] {
					return true
				}
				seen[o] = true
				if d := di.singleNonConst(o); d != nil {
					walk(d, depth+1)
				} else {
					out[o] = true
				}
			}
			return true
		})
	}
	walk(e, 0)
	return out
}

func rootNames(m map[types.Object]bool) []string {
	var l []string
	for o := range m {
		if _, ok := o.(*types.Var); ok {
			l = append(l, o.Name())
		}
	}
	sort.Strings(l)
	return l
}
