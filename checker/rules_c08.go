package main

// C08: composite data types and builtins.

import (
	"fmt"
	"go/ast"
	"go/token"
	"go/types"
	"sort"
	"strings"
)

var c08Files = []string{"index.go", "slice.go", "compositelit.go", "builtin.go", "address.go", "selector.go", "literal.go"}

var provCache = map[*Prog]map[string]*provEngine{}

func provFor(c *Ctx, short string, indexTokens bool) *provEngine {
	key := fmt.Sprintf("%s/%v", short, indexTokens)
	if provCache[c.P] == nil {
		provCache[c.P] = map[string]*provEngine{}
	}
	if p := provCache[c.P][key]; p != nil {
		return p
	}
	p := newProvEngine(c.P.Pkg(short))
	p.indexTokens = indexTokens
	provCache[c.P][key] = p
	return p
}

// slot rank for the evaluation-order rule: Go evaluates the operands of an index or slice
// expression in lexical order.
var slotRank = map[string]int{"X": 0, "Index": 1, "Low": 1, "High": 2, "Max": 3}

func isStringType(t types.Type) bool {
	b, ok := t.Underlying().(*types.Basic)
	return ok && b.Info()&types.IsString != 0
}

// ruleIndexSlots: in every closure of index.go / slice.go, each element access or slicing
// primitive receives the container from node.X and each index slot from the field of the
// syntax node that Go puts in that slot; absent slots are absent (or defaulted) only under the
// guard that the source omitted them; operand closures run in lexical order.
func ruleIndexSlots(c *Ctx, rule, ruleOrder string) {
	fd := families(c, "fast")
	pe := provFor(c, "fast", false)
	info := c.P.Pkg("fast").TypesInfo
	for _, m := range inFiles(c, fd.members, "index.go", "slice.go") {
		m := m
		nodeType := "IndexExpr"
		if baseName(c.P.Fset, m.Lit) == "slice.go" {
			nodeType = "SliceExpr"
		}
		provM := func(e ast.Expr) map[string]bool { return provOf(pe.Prov(m.FD, e), nodeType) }
		check := func(what string, n ast.Node, e ast.Expr, want string) {
			if e == nil {
				return
			}
			pv := provM(e)
			c.Ob(rule, m.Key()+"/"+what, n, provIs(pv, want), fmt.Sprintf("%s of the run-time access derives from %s; expected exactly the %s operand of the source expression", what, provString(pv), want))
		}
		// guard: the path contains `V == nil ?then` with prov(V) = {field}
		omitted := func(field string) bool {
			for _, pe2 := range m.Path {
				ifs, ok := pe2.Node.(*ast.IfStmt)
				if !ok || !strings.HasSuffix(pe2.Label, "?then") {
					continue
				}
				b, ok := unparen(ifs.Cond).(*ast.BinaryExpr)
				if !ok || b.Op != token.EQL || exprString(b.Y) != "nil" {
					continue
				}
				if provIs(provM(b.X), field) {
					return true
				}
			}
			return false
		}
		slot := func(what string, n ast.Node, e ast.Expr, field string, recv ast.Expr) {
			if e == nil {
				c.Ob(rule, m.Key()+"/"+what, n, omitted(field), "slot "+what+" is left to its default only when the source expression omits "+field)
				return
			}
			// default forms: recv.Len() for an omitted upper bound; a constant for an omitted lower bound
			if call, ok := unparen(e).(*ast.CallExpr); ok && field == "High" {
				if s, ok := unparen(call.Fun).(*ast.SelectorExpr); ok && s.Sel.Name == "Len" && len(call.Args) == 0 && recv != nil && exprString(s.X) == exprString(recv) {
					c.Ob(rule, m.Key()+"/"+what, n, omitted(field), "upper bound defaults to the length of the sliced operand only when the source omits it")
					return
				}
			}
			pv := provM(e)
			if len(pv) == 0 && field == "Low" {
				// lo = exprValue(int, 0) when omitted: the constant must be 0
				ok := false
				if v, isC := constIntDeep(info, pe, m.FD, e); isC && v == 0 {
					ok = true
				}
				c.Ob(rule, m.Key()+"/"+what, n, ok, "an omitted lower bound defaults to the constant 0")
				return
			}
			if field == "Low" && pv["Low"] && len(pv) == 1 {
				c.Ob(rule, m.Key()+"/"+what, n, true, "lower bound from node.Low")
				return
			}
			check(what, n, e, field)
		}
		ast.Inspect(m.Lit.Body, func(n ast.Node) bool {
			switch x := n.(type) {
			case *ast.CallExpr:
				s, ok := unparen(x.Fun).(*ast.SelectorExpr)
				if !ok || !isReflectValue(info.TypeOf(s.X)) {
					return true
				}
				switch s.Sel.Name {
				case "Index", "MapIndex":
					if len(x.Args) == 1 {
						check(s.Sel.Name+".recv", x, s.X, "X")
						check(s.Sel.Name+".arg", x, x.Args[0], "Index")
					}
				case "Slice":
					if len(x.Args) == 2 {
						check("Slice.recv", x, s.X, "X")
						slot("Slice.lo", x, x.Args[0], "Low", s.X)
						slot("Slice.hi", x, x.Args[1], "High", s.X)
					}
				case "Slice3":
					if len(x.Args) == 3 {
						check("Slice3.recv", x, s.X, "X")
						slot("Slice3.lo", x, x.Args[0], "Low", s.X)
						slot("Slice3.hi", x, x.Args[1], "High", s.X)
						slot("Slice3.max", x, x.Args[2], "Max", s.X)
					}
				}
			case *ast.IndexExpr:
				if t := info.TypeOf(x.X); t != nil && isStringType(t) {
					check("str[i].str", x, x.X, "X")
					check("str[i].idx", x, x.Index, "Index")
				}
			case *ast.SliceExpr:
				if t := info.TypeOf(x.X); t != nil && isStringType(t) {
					check("str[:].str", x, x.X, "X")
					slot("str[:].lo", x, x.Low, "Low", nil)
					slot("str[:].hi", x, x.High, "High", nil)
				}
			}
			return true
		})
		// evaluation order of the operand closures
		type ev struct {
			pos  token.Pos
			rank int
			tok  string
		}
		var evs []ev
		inspectCalls(m.Lit.Body, func(call *ast.CallExpr) {
			id := identOf(call.Fun)
			if id == nil {
				return
			}
			v, ok := info.Uses[id].(*types.Var)
			if !ok || v.Pos() > m.Lit.Pos() && v.Pos() < m.Lit.End() {
				return
			}
			if sig, ok := v.Type().Underlying().(*types.Signature); !ok || sig.Params().Len() != 1 || !isEnvPtr(sig.Params().At(0).Type()) {
				return
			}
			pv := provM(id)
			if len(pv) != 1 {
				return
			}
			for t := range pv {
				if r, ok := slotRank[t]; ok {
					evs = append(evs, ev{call.Pos(), r, t})
				}
			}
		})
		if len(evs) > 1 {
			sort.Slice(evs, func(i, j int) bool { return evs[i].pos < evs[j].pos })
			ok := true
			var seq []string
			for i, e := range evs {
				seq = append(seq, e.tok)
				if i > 0 && e.rank < evs[i-1].rank {
					ok = false
				}
			}
			c.Ob(ruleOrder, m.Key(), m.Lit, ok, "operand closures run in the lexical order of the source expression: "+strings.Join(seq, " ≺ "))
		}
	}
	// an omitted lower bound is replaced by the constant 0: `if lo == nil { lo = c.exprValue(int, 0) }`
	for _, fdl := range c.P.FuncsOf("fast") {
		if baseName(c.P.Fset, fdl) != "slice.go" {
			continue
		}
		fdl := fdl
		ast.Inspect(fdl.Body, func(n ast.Node) bool {
			ifs, ok := n.(*ast.IfStmt)
			if !ok {
				return true
			}
			b, ok := unparen(ifs.Cond).(*ast.BinaryExpr)
			if !ok || b.Op != token.EQL || exprString(b.Y) != "nil" {
				return true
			}
			pv := provOf(pe.Prov(fdl, b.X), "SliceExpr")
			for _, st := range ifs.Body.List {
				as, ok := st.(*ast.AssignStmt)
				if !ok || len(as.Lhs) != 1 || len(as.Rhs) != 1 || exprString(as.Lhs[0]) != exprString(b.X) {
					continue
				}
				call, ok := unparen(as.Rhs[0]).(*ast.CallExpr)
				if !ok {
					continue
				}
				if fn := calleeOf(info, call); fn != nil && fn.Name() == "exprValue" && len(call.Args) == 2 {
					v, isC := constInt(info, call.Args[1])
					c.Ob(rule, funcKey(c.P.Pkg("fast"), fdl)+"/default-"+exprString(b.X), as, provIs(pv, "Low") && isC && v == 0, "only an omitted lower bound gets a default, and it is the constant 0")
				}
			}
			return true
		})
	}
	// places: the container and key closures stored in a Place
	pk := c.P.Pkg("fast")
	for _, f := range pk.Syntax {
		if bn := baseName(c.P.Fset, f); bn != "index.go" {
			continue
		}
		for _, d := range f.Decls {
			fdl, ok := d.(*ast.FuncDecl)
			if !ok || fdl.Body == nil {
				continue
			}
			ast.Inspect(fdl.Body, func(n ast.Node) bool {
				cl, ok := n.(*ast.CompositeLit)
				if !ok || !isNamedType(info.TypeOf(cl), "fast", "Place") {
					return true
				}
				for _, el := range cl.Elts {
					kv, ok := el.(*ast.KeyValueExpr)
					if !ok {
						continue
					}
					want := ""
					switch exprString(kv.Key) {
					case "MapKey":
						want = "Index"
					case "Fun":
						if _, isLit := unparen(kv.Value).(*ast.FuncLit); !isLit && identOf(kv.Value) == nil {
							want = "X"
						}
					}
					if want != "" {
						pv := provOf(pe.Prov(fdl, kv.Value), "IndexExpr")
						c.Ob(rule, funcKey(pk, fdl)+"/Place."+exprString(kv.Key), kv, provIs(pv, want), fmt.Sprintf("Place.%s derives from %s; expected the %s operand", exprString(kv.Key), provString(pv), want))
					}
				}
				return true
			})
		}
	}
}

// constIntDeep: the integer constant a compile-time expression was built from, following
// single definitions and c.exprValue(type, K).
func constIntDeep(info *types.Info, pe *provEngine, fd *ast.FuncDecl, e ast.Expr) (int64, bool) {
	for depth := 0; depth < 6; depth++ {
		e = unparen(e)
		if v, ok := constInt(info, e); ok {
			return v, true
		}
		switch x := e.(type) {
		case *ast.Ident:
			o := info.Uses[x]
			if o == nil {
				return 0, false
			}
			// all definitions except "parameter" must agree; take the non-parameter ones
			var cands []ast.Expr
			for _, d := range pe.di(fd).defs[o] {
				if d != nil {
					cands = append(cands, d)
				}
			}
			if len(cands) != 1 {
				return 0, false
			}
			e = cands[0]
		case *ast.CallExpr:
			if fn := calleeOf(info, x); fn != nil && fn.Name() == "exprValue" && len(x.Args) == 2 {
				e = x.Args[1]
				continue
			}
			// lo.Value.(int) / WithFun() of such an expression
			if s, ok := unparen(x.Fun).(*ast.SelectorExpr); ok {
				e = s.X
				continue
			}
			return 0, false
		case *ast.TypeAssertExpr:
			e = x.X
		case *ast.SelectorExpr:
			e = x.X
		default:
			return 0, false
		}
	}
	return 0, false
}

// ---------------------------------------------------------------- builtins

type builtinDecl struct {
	name     string
	compile  *types.Func
	min, max string
	node     ast.Node
}

func builtinTable(c *Ctx) []builtinDecl {
	fd := c.P.Func("fast.Interp.addBuiltins")
	if fd == nil {
		return nil
	}
	info := c.P.Pkg("fast").TypesInfo
	var out []builtinDecl
	inspectCalls(fd.Body, func(call *ast.CallExpr) {
		fn := calleeOf(info, call)
		if fn == nil || fn.Name() != "DeclBuiltin" || len(call.Args) != 2 {
			return
		}
		name, ok := constString(info, call.Args[0])
		cl, ok2 := unparen(call.Args[1]).(*ast.CompositeLit)
		if !ok || !ok2 || len(cl.Elts) != 3 {
			return
		}
		f, _ := usedObj(info, cl.Elts[0]).(*types.Func)
		out = append(out, builtinDecl{name, f, exprString(cl.Elts[1]), exprString(cl.Elts[2]), call})
	})
	return out
}

// values flowing into Lit.Value in a compile function
func builtinValues(info *types.Info, fd *ast.FuncDecl) []ast.Expr {
	var vals []ast.Expr
	di := buildDefIndex(info, fd)
	var add func(e ast.Expr, depth int)
	add = func(e ast.Expr, depth int) {
		e = unparen(e)
		if depth > 4 {
			return
		}
		switch x := e.(type) {
		case *ast.Ident:
			if v, ok := info.Uses[x].(*types.Var); ok && !v.IsField() && v.Parent() != v.Pkg().Scope() {
				for _, d := range di.defs[v] {
					if d != nil {
						add(d, depth+1)
					}
				}
				return
			}
		case *ast.IndexExpr:
			// funMakes[nargs]: every element stored into the array
			if id := identOf(x.X); id != nil {
				o := info.Uses[id]
				ast.Inspect(fd.Body, func(n ast.Node) bool {
					if as, ok := n.(*ast.AssignStmt); ok && len(as.Lhs) == 1 && len(as.Rhs) == 1 {
						if ix, ok := unparen(as.Lhs[0]).(*ast.IndexExpr); ok && identOf(ix.X) != nil && info.Uses[identOf(ix.X)] == o {
							add(as.Rhs[0], depth+1)
						}
					}
					return true
				})
				return
			}
		}
		if t := info.TypeOf(e); t != nil {
			if _, isSig := t.Underlying().(*types.Signature); isSig {
				if _, isCall := e.(*ast.CallExpr); !isCall {
					vals = append(vals, e)
				}
			}
		}
	}
	ast.Inspect(fd.Body, func(n ast.Node) bool {
		switch x := n.(type) {
		case *ast.CompositeLit:
			if isNamedType(info.TypeOf(x), "fast", "Lit") {
				for _, el := range x.Elts {
					if kv, ok := el.(*ast.KeyValueExpr); ok && exprString(kv.Key) == "Value" {
						add(kv.Value, 0)
					}
				}
			}
		case *ast.AssignStmt:
			for i, l := range x.Lhs {
				if s, ok := unparen(l).(*ast.SelectorExpr); ok && s.Sel.Name == "Value" && i < len(x.Rhs) {
					if t := info.TypeOf(s.X); t != nil && isPtr(t) && isNamedType(t, "fast", "Expr") {
						add(x.Rhs[i], 0)
					}
				}
			}
		}
		return true
	})
	return vals
}

// primitivesOf: the run-time primitives a builtin value performs: for a function of xreflect/reflect its
// name; for a helper of package fast the calls in its body (one level); for a literal the same.
func primitivesOf(c *Ctx, info *types.Info, e ast.Expr) map[string]bool {
	out := map[string]bool{}
	var body ast.Node
	switch x := unparen(e).(type) {
	case *ast.FuncLit:
		body = x.Body
	default:
		fn, _ := usedObj(info, e).(*types.Func)
		if fn == nil {
			out["?"+exprString(e)] = true
			return out
		}
		if fn.Pkg() == nil || !strings.HasSuffix(fn.Pkg().Path(), "/fast") {
			out[fn.Name()] = true
			return out
		}
		if fd := c.P.Func("fast." + fn.Name()); fd != nil {
			body = fd.Body
		} else {
			out["?"+fn.Name()] = true
			return out
		}
	}
	n := 0
	inspectCalls(body, func(call *ast.CallExpr) {
		if id := identOf(call.Fun); id != nil {
			if b, ok := info.Uses[id].(*types.Builtin); ok {
				out["builtin "+b.Name()] = true
				n++
				return
			}
		}
		if fn := calleeOf(info, call); fn != nil {
			if fn.Name() == "ReflectValue" {
				return // unwrapping of xreflect.Value
			}
			out[fn.Name()] = true
			n++
		}
	})
	if n == 0 {
		out["closure-const"] = true
	}
	return out
}

// Go spec: the run-time primitive(s) each builtin of C08 must perform (reflect names), and its arity.
var builtinSpec = map[string]struct {
	min, max string
	required []string
	allowed  []string
}{
	"append": {"1", "base.MaxUint16", []string{"Append"}, nil},
	"cap":    {"1", "1", []string{"Cap"}, []string{"closure-const"}}, // the capacity of an array is its length (spec: Length and capacity)
	"copy":   {"2", "2", []string{"Copy", "builtin copy"}, nil},
	"delete": {"2", "2", []string{"SetMapIndex"}, nil},
	"len":    {"1", "1", []string{"Len", "builtin len"}, []string{"closure-const"}},
	"make":   {"1", "3", []string{"MakeChan", "MakeMap", "MakeMapWithSize", "MakeSlice"}, nil},
	"new":    {"1", "1", []string{"New"}, nil},
}

func ruleBuiltins(c *Ctx, rule string) {
	pk := c.P.Pkg("fast")
	info := pk.TypesInfo
	tbl := builtinTable(c)
	seen := map[string]bool{}
	var allVals []ast.Expr
	compileSeen := map[*types.Func]bool{}
	for _, b := range tbl {
		if b.compile != nil && !compileSeen[b.compile] {
			compileSeen[b.compile] = true
			if fd := c.P.Func("fast." + b.compile.Name()); fd != nil {
				allVals = append(allVals, builtinValues(info, fd)...)
			}
		}
		spec, ok := builtinSpec[b.name]
		if !ok {
			continue
		}
		seen[b.name] = true
		c.Ob(rule+"-arity", b.name, b.node, b.min == spec.min && b.max == spec.max, fmt.Sprintf("builtin %s accepts %s..%s arguments (Go: %s..%s)", b.name, b.min, b.max, spec.min, spec.max))
		if b.compile == nil {
			c.Ob(rule+"-primitive", b.name, b.node, false, "compile function not resolved")
			continue
		}
		fd := c.P.Func("fast." + b.compile.Name())
		if fd == nil {
			c.Ob(rule+"-primitive", b.name, b.node, false, "compile function "+b.compile.Name()+" not found")
			continue
		}
		vals := builtinValues(info, fd)
		prims := map[string]bool{}
		for _, v := range vals {
			for p := range primitivesOf(c, info, v) {
				prims[p] = true
			}
		}
		okP := true
		var miss, extra []string
		for _, r := range spec.required {
			if !prims[r] {
				okP = false
				miss = append(miss, r)
			}
		}
		al := map[string]bool{}
		for _, a := range append(append([]string{}, spec.required...), spec.allowed...) {
			al[a] = true
		}
		for p := range prims {
			if !al[p] {
				okP = false
				extra = append(extra, p)
			}
		}
		sort.Strings(extra)
		c.Ob(rule+"-primitive", b.name, fd, okP, fmt.Sprintf("builtin %s is compiled to the run-time primitives %s (missing %v, unexpected %v)", b.name, provString(prims), miss, extra))
		// signature agreement between the declared interpreted type and the Go value
		ruleBuiltinSignature(c, rule+"-signature", b.name, fd)
		// argument provenance: Call.Args[k] derives from node.Args[k]
		ruleBuiltinArgs(c, rule+"-args", b.name, fd)
	}
	var names []string
	for n := range builtinSpec {
		names = append(names, n)
	}
	sort.Strings(names)
	for _, n := range names {
		if !seen[n] {
			c.Ob(rule+"-arity", n, nil, false, "builtin not declared in addBuiltins: anchor missing")
		}
	}
	// helper wrappers pass their parameters to the primitive in order
	for _, h := range []string{"callCap", "callCopy", "callDelete", "callLenValue", "callLenString", "copyStringToBytes", "makeChan1", "makeSlice2", "callClose"} {
		fd := c.P.Func("fast." + h)
		if fd == nil {
			continue
		}
		var prim *ast.CallExpr
		inspectCalls(fd.Body, func(call *ast.CallExpr) {
			if fn := calleeOf(info, call); fn != nil && fn.Name() == "ReflectValue" {
				return
			}
			if prim == nil || call.Pos() < prim.Pos() {
				prim = call
			}
		})
		if prim == nil {
			continue
		}
		var slots []ast.Expr
		if s, ok := unparen(prim.Fun).(*ast.SelectorExpr); ok {
			if _, isPkg := info.Uses[identOf(s.X)].(*types.PkgName); !isPkg {
				slots = append(slots, s.X)
			}
		}
		slots = append(slots, prim.Args...)
		var seq []string
		last, okO := -1, true
		used := map[int]bool{}
		for _, sl := range slots {
			e := unparen(sl)
			for {
				if call, ok := e.(*ast.CallExpr); ok && len(call.Args) == 0 {
					if s, ok := unparen(call.Fun).(*ast.SelectorExpr); ok {
						e = unparen(s.X)
						continue
					}
				}
				break
			}
			id := identOf(e)
			if id == nil {
				seq = append(seq, exprString(sl))
				continue
			}
			pi := paramIdxOf(info, fd, info.Uses[id])
			seq = append(seq, fmt.Sprintf("p%d", pi))
			if pi < last {
				okO = false
			}
			if pi >= 0 {
				last = pi
				used[pi] = true
			}
		}
		np := 0
		for _, f := range fd.Type.Params.List {
			np += len(f.Names)
		}
		c.Ob(rule+"-wrapper", "fast."+h, fd, okO && len(used) == np, fmt.Sprintf("wrapper passes every parameter to the primitive, in order: %s(%s)", exprString(prim.Fun), strings.Join(seq, ", ")))
		if h == "callDelete" {
			okZ := false
			if len(prim.Args) == 2 {
				if cl, ok := unparen(prim.Args[1]).(*ast.CompositeLit); ok && len(cl.Elts) == 0 && isReflectValue(info.TypeOf(cl)) {
					okZ = true
				}
			}
			c.Ob(rule+"-wrapper", "fast.callDelete/zero", fd, okZ, "delete(m,k) is SetMapIndex(k, zero Value)")
		}
		if h == "makeChan1" {
			okZ := false
			if len(prim.Args) == 2 {
				if v, isC := constInt(info, prim.Args[1]); isC && v == 0 {
					okZ = true
				}
			}
			c.Ob(rule+"-wrapper", "fast.makeChan1/unbuffered", fd, okZ, "make(chan T) is MakeChan(T, 0)")
		}
	}
	// functions declared with DeclEnvFunc are dispatched by call_builtin too
	if ab := c.P.Func("fast.Interp.addBuiltins"); ab != nil {
		ast.Inspect(ab.Body, func(n ast.Node) bool {
			if cl, ok := n.(*ast.CompositeLit); ok && isNamedType(info.TypeOf(cl), "fast", "Function") && len(cl.Elts) > 0 {
				allVals = append(allVals, cl.Elts[0])
			}
			return true
		})
	}
	// call_builtin: arms vs. values
	cb := c.P.Func("fast.Comp.call_builtin")
	if cb == nil {
		c.Ob(rule+"-arms", "fast.Comp.call_builtin", nil, false, "anchor function not found")
		return
	}
	var tsw *ast.TypeSwitchStmt
	ast.Inspect(cb.Body, func(n ast.Node) bool {
		if t, ok := n.(*ast.TypeSwitchStmt); ok && tsw == nil {
			tsw = t
		}
		return true
	})
	if tsw == nil {
		c.Ob(rule+"-arms", "fast.Comp.call_builtin", cb, false, "type switch not found")
		return
	}
	type arm struct {
		t  types.Type
		cl *ast.CaseClause
	}
	var arms []arm
	for _, cc := range tsw.Body.List {
		cl := cc.(*ast.CaseClause)
		for _, e := range cl.List {
			if t := info.TypeOf(e); t != nil {
				arms = append(arms, arm{t, cl})
			}
		}
	}
	// every value in every compile function of the table
	inhabited := map[int]bool{}
	for _, v := range allVals {
		t := info.TypeOf(v)
		if t == nil {
			continue
		}
		hit := false
		for i, a := range arms {
			if types.Identical(t, a.t) {
				inhabited[i] = true
				hit = true
			}
		}
		c.Ob(rule+"-arms", "value "+exprString(v)+" <"+types.TypeString(t, shortQual)+">", v, hit, "every function value a builtin is compiled to has an arm in call_builtin")
	}
	for i, a := range arms {
		if _, isSig := a.t.Underlying().(*types.Signature); !isSig {
			continue
		}
		c.Ob(rule+"-arms", "arm <"+types.TypeString(a.t, shortQual)+">", a.cl, inhabited[i], "every arm of call_builtin is reached by some builtin value (an unreachable arm means a value has the wrong Go signature)")
	}
	// arms: argument k of the call derives from argument closure k, evaluated in order
	pe := provFor(c, "fast", true)
	for _, a := range arms {
		if _, isSig := a.t.Underlying().(*types.Signature); !isSig {
			continue
		}
		armKey := "arm <" + types.TypeString(a.t, shortQual) + ">"
		n := 0
		for _, st := range a.cl.Body {
			ast.Inspect(st, func(nd ast.Node) bool {
				lit, ok := nd.(*ast.FuncLit)
				if !ok {
					return true
				}
				n++
				inspectCalls(lit.Body, func(call *ast.CallExpr) {
					isFun := false
					if id := identOf(call.Fun); id != nil && info.Implicits[a.cl] != nil && info.Uses[id] == info.Implicits[a.cl] {
						isFun = true
					}
					fn := calleeOf(info, call)
					isPrim := fn != nil && fn.Pkg() != nil && strings.HasSuffix(fn.Pkg().Path(), "/xreflect") && (fn.Name() == "Append" || fn.Name() == "New")
					var slots []ast.Expr
					if s, ok := unparen(call.Fun).(*ast.SelectorExpr); ok && fn != nil && fn.Name() == "Close" && isReflectValue(info.TypeOf(s.X)) {
						slots = append(slots, s.X)
						isPrim = true
					}
					if !isFun && !isPrim {
						return
					}
					slots = append(slots, call.Args...)
					for i, sl := range slots {
						pv := pe.Prov(cb, sl)
						want := fmt.Sprintf("#%d", i)
						ok := provIs(pv, want)
						if !ok && i == len(slots)-1 && call.Ellipsis != token.NoPos {
							ok = provIs(pv, want+":")
							if !ok && len(pv) == 0 && i == 0 {
								// fun(args...) with args[i] = argfun_i(env) filled by `for i, argfun := range argfuns`
								ok = filledInRangeOrder(info, lit, sl)
							}
						}
						c.Ob(rule+"-arm-slots", fmt.Sprintf("%s/lit%d/%s/arg%d", armKey, n, exprString(call.Fun), i), call, ok, fmt.Sprintf("argument %d of the builtin derives from %s; expected argument closure %s", i, provString(pv), want))
					}
				})
				return false
			})
		}
	}
}

func shortQual(p *types.Package) string { return p.Name() }

// ruleBuiltinSignature: t := FuncOf(INS, OUTS, variadic) vs. the Go signature of the Lit values.
func ruleBuiltinSignature(c *Ctx, rule, name string, fd *ast.FuncDecl) {
	info := c.P.Pkg("fast").TypesInfo
	di := buildDefIndex(info, fd)
	var fo *ast.CallExpr
	inspectCalls(fd.Body, func(call *ast.CallExpr) {
		if fn := calleeOf(info, call); fn != nil && fn.Name() == "FuncOf" && len(call.Args) == 3 {
			fo = call
		}
	})
	if fo == nil {
		c.Ob(rule, name, fd, false, "FuncOf call not found")
		return
	}
	lenOf := func(e ast.Expr) int {
		for depth := 0; depth < 4; depth++ {
			e = unparen(e)
			switch x := e.(type) {
			case *ast.CompositeLit:
				return len(x.Elts)
			case *ast.Ident:
				o := info.Uses[x]
				if v, ok := o.(*types.Var); ok && v.Parent() == v.Pkg().Scope() {
					// package-level var: find initialiser
					for _, f := range c.P.Pkg("fast").Syntax {
						for _, d := range f.Decls {
							gd, ok := d.(*ast.GenDecl)
							if !ok {
								continue
							}
							for _, sp := range gd.Specs {
								if vs, ok := sp.(*ast.ValueSpec); ok {
									for i, nm := range vs.Names {
										if info.Defs[nm] == o && i < len(vs.Values) {
											if cl, ok := unparen(vs.Values[i]).(*ast.CompositeLit); ok {
												return len(cl.Elts)
											}
										}
									}
								}
							}
						}
					}
					return -1
				}
				d := di.single(o)
				if d == nil {
					return -1
				}
				e = d
			default:
				return -1
			}
		}
		return -1
	}
	nin, nout := lenOf(fo.Args[0]), lenOf(fo.Args[1])
	variadic := exprString(fo.Args[2]) == "true"
	for _, v := range builtinValues(info, fd) {
		sig, ok := info.TypeOf(v).Underlying().(*types.Signature)
		if !ok {
			continue
		}
		okS := sig.Results().Len() == nout && sig.Variadic() == variadic
		detail := fmt.Sprintf("value %s has %d parameters, %d results, variadic=%v; the declared interpreted type has %d parameters, %d results, variadic=%v", exprString(v), sig.Params().Len(), sig.Results().Len(), sig.Variadic(), nin, nout, variadic)
		if nin >= 0 {
			okS = okS && sig.Params().Len() == nin
		}
		c.Ob(rule, name+"/"+exprString(v), v, okS && nout >= 0, detail)
	}
	// funMakes[K] = g: g takes K parameters (K = number of call arguments)
	ast.Inspect(fd.Body, func(n ast.Node) bool {
		as, ok := n.(*ast.AssignStmt)
		if !ok || len(as.Lhs) != 1 || len(as.Rhs) != 1 {
			return true
		}
		ix, ok := unparen(as.Lhs[0]).(*ast.IndexExpr)
		if !ok {
			return true
		}
		k, isC := constInt(info, ix.Index)
		sig, isSig := info.TypeOf(as.Rhs[0]).Underlying().(*types.Signature)
		if _, isFn := usedObj(info, as.Rhs[0]).(*types.Func); isC && isSig && isFn {
			c.Ob(rule, fmt.Sprintf("%s/%s[%d]=%s", name, exprString(ix.X), k, exprString(as.Rhs[0])), as, sig.Params().Len() == int(k), fmt.Sprintf("the alternative selected for %d call arguments takes %d parameters", k, sig.Params().Len()))
		}
		return true
	})
}

// ruleBuiltinArgs: element k of Call.Args derives from node.Args[k].
func ruleBuiltinArgs(c *Ctx, rule, name string, fd *ast.FuncDecl) {
	info := c.P.Pkg("fast").TypesInfo
	pe := provFor(c, "fast", false)
	n := 0
	checkElt := func(k string, e ast.Expr, at ast.Node) {
		pv := provOf(pe.Prov(fd, e), "CallExpr")
		n++
		c.Ob(rule, fmt.Sprintf("%s/arg[%s]", name, k), at, provIs(pv, "Args["+k+"]"), fmt.Sprintf("argument %s of the compiled call derives from %s; expected node.Args[%s]", k, provString(pv), k))
	}
	ast.Inspect(fd.Body, func(nd ast.Node) bool {
		switch x := nd.(type) {
		case *ast.CompositeLit:
			// []*Expr{a, b}
			if sl, ok := info.TypeOf(x).Underlying().(*types.Slice); ok {
				if pt, ok := sl.Elem().(*types.Pointer); ok && isNamedType(pt, "fast", "Expr") {
					for i, el := range x.Elts {
						checkElt(fmt.Sprint(i), el, el)
					}
				}
			}
		case *ast.AssignStmt:
			// args[K] = e
			if len(x.Lhs) == 1 && len(x.Rhs) == 1 {
				if ix, ok := unparen(x.Lhs[0]).(*ast.IndexExpr); ok {
					if sl, ok := info.TypeOf(ix.X).Underlying().(*types.Slice); ok {
						if pt, ok := sl.Elem().(*types.Pointer); ok && isNamedType(pt, "fast", "Expr") {
							checkElt(exprString(ix.Index), x.Rhs[0], x)
						}
					}
				}
			}
		case *ast.CallExpr:
			if fn := calleeOf(info, x); fn != nil && fn.Name() == "newCall1" && len(x.Args) >= 2 {
				checkElt("0", x.Args[1], x)
			}
		}
		return true
	})
	c.Ob(rule, name+"/found", fd, n > 0, "the compile function builds its argument list from node.Args")
}

func c08Rules(c *Ctx) {
	ruleUniformity(c, "fast", c08Files, "U-uniform")
	ruleUniformity2D(c, "fast", c08Files, "U-uniform-2d")
	ruleDepth(c, "fast", c08Files, "A3-depth", "A4-storage")
	ruleIndexSlots(c, "P1-index-slots", "P2-operand-order")
	ruleBuiltins(c, "B1-builtin")
	ruleAbsentMapKey(c, "M1-absent-key", nil)
	ruleAppendEllipsis(c, "B2-append-ellipsis")
	ruleMakeSliceBounds(c, "B3-makeslice-bounds")
	ruleNoSharedRuntimeStorage(c, "H1-no-shared-storage")
	c.Floor("U-uniform", 250)
	c.Floor("P1-index-slots", 100)
	c.Floor("P2-operand-order", 45)
	c.Floor("B1-builtin-arm-slots", 20)
	ruleArrayLengthFolded(c, "B4-array-length-folded")
	ruleElementSteps(c, "D5-element-steps", c08Files)
	ruleConstantNilValue(c, "N7-constant-nil-value", c08Files)
	ruleIndexAdmission(c, "I2-index-admission")
}

func init() {
	register(&PropDef{
		ID:    "C08",
		Title: "Composite data types and builtins behave as in Go",
		Explanation: "Decided, for every closure the fast interpreter can produce for an index, slice or map-index expression and for the builtins append, cap, copy, delete, len, make, new (enumerated from source): " +
			"P1 slot provenance: the container given to reflect's Index/MapIndex/Slice/Slice3 (or to native string indexing/slicing) derives from the X operand of the source expression and each index slot from exactly the operand Go puts in that slot (Index; Low, High, Max in that order), " +
			"a slot is defaulted only under the guard that the source omits it (upper bound = length of the sliced operand, lower bound = constant 0), Place.Fun/MapKey of a map element derive from X/Index; " +
			"P2 operand closures run in the lexical order of the source expression; " +
			"B1 builtin table: arity of each builtin equals the Go spec, each is compiled to the reflect primitive that implements it (Append, Cap, Copy/copy, SetMapIndex with zero Value, Len/len, MakeChan/MakeMap/MakeMapWithSize/MakeSlice, New), " +
			"the Go signature of every builtin value agrees in parameter count, result count and variadicity with the interpreted type it is declared with, wrappers pass their parameters to the primitive in order, " +
			"argument k of the compiled call derives from node.Args[k], every builtin value has an arm in call_builtin and every arm is inhabited, and every arm passes argument closure k in slot k; " +
			"U/U-2d sibling uniformity, A2 reflect accessor category, A3/A4 frame depth and storage of the kind-specialised families in index.go, slice.go, compositelit.go, builtin.go, address.go, selector.go, literal.go. " +
			"B2 append(s, t...) hands both evaluated slices, in order, to reflect.AppendSlice (block copy: s and t may overlap) and never expands t into element views (found F42: `append(s[:1], s[0:3]...)` gave [1 1 1 1]); " +
			"B3 xreflect.MakeSlice, which allocates cap elements and reslices, rejects len > cap itself (found F43: make([]int, 3, 2) returned a slice of length 2); " +
			"B4 len and cap of a pointer to array never dereference it at run time: the compiler that dereferences the argument type folds the result to the array length (found F53: cap(p) for a nil *[3]int panicked); " +
			"B4 also: after the argument is replaced by its dereference the remembered type is read again; D5 a place compiler whose result type descends k Elem() steps from the operand type descends k steps (Elem, Index, MapIndex) from the operand value in every run-time closure (p[i] with p a pointer to array: Elem then Index); " +
			"N7 the Value of a constant (which may be nil, hence invalid) handed to reflect as an argument is tested with IsValid (found F56: m[nil] crashed); " +
			"I2 every compiler of an indexed operand admits the index by its integer category, not by assignability to int (found F59: a[u] = 5 with u uint8 was rejected while a[u] was accepted); " +
			"M1 a missing map key: the Value returned by reflect's MapIndex is never used through an accessor without an IsValid test, in any function of package fast (found F40: `m[k] /= 4` and `m[k] <<= 2` on a missing key panicked); " +
			"The oracle for bounds and nil panics is reflect's own checks (trusted to equal Go's), reached because element access goes through the reflect primitive with the right operands. " +
			"Not decided: aliasing and append growth, value semantics of arrays, composite literal construction, struct field selection, which panics reflect raises.",
		Assumptions: []string{"reflect.Value Index/MapIndex/Slice/Slice3/Append/Copy/SetMapIndex/MakeSlice/MakeMap/MakeChan/New implement the Go operation of the same name including its panics", "builtin arity and primitive table in the checker source (Go spec: Appending and copying slices, Length and capacity, Making slices maps and channels, Allocation, Deletion of map elements)", "go/types, go/packages at x/tools v0.29.0"},
		Rules:       []func(*Ctx){c08Rules, func(c *Ctx) { ruleAccessorFiles(c, "fast", c08Files, "A2-accessor") }},
		Technique:   "AST/type-resolved custom analysis: syntax-field provenance of operands (interprocedural, flow-insensitive), table agreement of builtins against the Go spec, type-switch arm inhabitation, sibling uniformity of specialisation families",
		Mutants: []Mutant{
			{Name: "slice3-hi-max-swapped", File: "fast/slice.go", Old: "return obj.Slice3(lo, hi, max)", New: "return obj.Slice3(lo, max, hi)", Nth: 1, Canary: true},
			{Name: "open-slice-extends-to-cap", File: "fast/slice.go", Old: "return obj.Slice(lo, obj.Len())", New: "return obj.Slice(lo, obj.Cap())", Nth: 1},
			{Name: "copy-args-swapped", File: "fast/builtin.go", Old: "return r.Copy(dst.ReflectValue(), src.ReflectValue())", New: "return r.Copy(src.ReflectValue(), dst.ReflectValue())"},
			{Name: "copy-loses-result", File: "fast/builtin.go", Old: "func callCopy(dst xr.Value, src xr.Value) int {\n\treturn r.Copy(dst.ReflectValue(), src.ReflectValue())", New: "func callCopy(dst xr.Value, src xr.Value) {\n\tr.Copy(dst.ReflectValue(), src.ReflectValue())", Canary: true},
			{Name: "slice3-max-evaluated-before-hi", File: "fast/slice.go", Old: "\t\t\t\thi := hifun(env)\n\t\t\t\tmax := maxfun(env)\n\t\t\t\treturn obj.Slice3(lo, hi, max)", New: "\t\t\t\tmax := maxfun(env)\n\t\t\t\thi := hifun(env)\n\t\t\t\treturn obj.Slice3(lo, hi, max)", Nth: 2},
			{Name: "omitted-low-defaults-to-one", File: "fast/slice.go", Old: "lo = c.exprValue(c.TypeOfInt(), 0)", New: "lo = c.exprValue(c.TypeOfInt(), 1)", Nth: 1},
			{Name: "string-index-evaluated-first", File: "fast/index.go", Old: "\t\t\tstr := objfun(env)\n\t\t\ti := idxfun(env)\n\t\t\treturn str[i]", New: "\t\t\ti := idxfun(env)\n\t\t\tstr := objfun(env)\n\t\t\treturn str[i]"},
			{Name: "map-shift-reads-missing-key", File: "fast/place_shifts.go", Old: "result := mapIndexInt(lhs, key)", New: "result := lhs.MapIndex(key).Int()", Nth: 3},
			{Name: "append-ellipsis-element-by-element", File: "fast/builtin.go", Old: "\t\t\t\t\treturn xr.AppendSlice(arg0, arg1)", New: "\t\t\t\t\treturn xr.Append(arg0, unwrapSlice(arg1)...)"},
			{Name: "makeslice-len-above-cap-accepted", File: "xreflect/wrap.go", Old: "\tif len > cap {\n\t\t// the slice is allocated below with length == capacity: check what reflect.MakeSlice would\n\t\tpanic(\"reflect.MakeSlice: len > cap\")\n\t}\n", New: ""},
			{Name: "ptr-place-address-skips-deref", File: "fast/index.go", Old: "\t\t\tobjv := objfun(env).Elem()\n\t\t\ti := idxfun(env)\n\t\t\treturn objv.Index(i).Addr()", New: "\t\t\tobjv := objfun(env)\n\t\t\ti := idxfun(env)\n\t\t\treturn objv.Index(i).Addr()"},
			{Name: "len-of-array-pointer-keeps-pointer-type", File: "fast/builtin.go", Old: "\t\t\t// len() on pointer to array\n\t\t\targ = c.Deref(arg)\n\t\t\ttin = arg.Type\n", New: "\t\t\t// len() on pointer to array\n\t\t\targ = c.Deref(arg)\n"},
			{Name: "place-index-admitted-by-assignability", File: "fast/index.go", Old: "} else if idx.Type == nil || !reflect.IsCategory(idx.Type.Kind(), r.Int, r.Uint) {", New: "} else if idx.Type == nil || !idx.Type.AssignableTo(c.TypeOfInt()) {", Nth: 1},
			{Name: "nil-key-constant-reaches-mapindex", File: "fast/index.go", Old: "\t\tkey := xr.ValueOf(idx.Value)\n\t\tif !key.IsValid() {\n\t\t\t// the constant nil: it was converted to tkey above\n\t\t\tkey = xr.Zero(tkey)\n\t\t}\n", New: "\t\tkey := xr.ValueOf(idx.Value)\n", Nth: 2},
			{Name: "cap-of-array-pointer-dereferences", File: "fast/builtin.go", Old: "\tisarray := tin.Kind() == r.Array\n\tif isarray {\n\t\tn := tin.Len()\n\t\tfun.Value = func(_ xr.Value) int {\n\t\t\treturn n\n\t\t}\n\t\targ = exprLit(Lit{Type: tin, Value: xr.Zero(tin).Interface()}, nil)\n\t}\n\treturn newCall1(fun, arg, isarray || arg.Const(), tout)\n}\n\n// --- close() ---", New: "\treturn newCall1(fun, arg, arg.Const(), tout)\n}\n\n// --- close() ---"},
			{Name: "delete-args-swapped", File: "fast/builtin.go", Old: "Args: []*Expr{emap, ekey}", New: "Args: []*Expr{ekey, emap}"},
			{Name: "delete-stores-key", File: "fast/builtin.go", Old: "vmap.SetMapIndex(vkey, xr.Value{})", New: "vmap.SetMapIndex(vkey, vkey)"},
			{Name: "map-place-key-from-object", File: "fast/index.go", Old: "MapKey: idx.AsX1()", New: "MapKey: obj.AsX1()"},
			{Name: "make-slice-two-args-to-chan", File: "fast/builtin.go", Old: "funMakes[2] = makeSlice2", New: "funMakes[3] = makeSlice2"},
			{Name: "cap-accepts-two-args", File: "fast/builtin.go", Old: "Builtin{compileCap, 1, 1}", New: "Builtin{compileCap, 1, 2}"},
			{Name: "ptr-index-skips-deref", File: "fast/index.go", Old: "deref := exprFun(t.Elem(), func(env *Env) xr.Value { return objfun(env).Elem() })\n\t\t\tret = c.vectorIndex(node, deref, idx)", New: "deref := exprFun(t.Elem(), func(env *Env) xr.Value { return objfun(env).Elem() })\n\t\t\tret = c.vectorIndex(node, idx, deref)"},
		},
	})
}

// filledInRangeOrder: the slice variable e is filled only by `e[k] = ...` inside `for k, _ := range ...`.
func filledInRangeOrder(info *types.Info, lit *ast.FuncLit, e ast.Expr) bool {
	id := identOf(e)
	if id == nil {
		return false
	}
	o := info.Uses[id]
	found, ok := false, true
	ast.Inspect(lit.Body, func(n ast.Node) bool {
		rs, isR := n.(*ast.RangeStmt)
		if !isR {
			if as, isA := n.(*ast.AssignStmt); isA {
				for _, l := range as.Lhs {
					if ix, isIx := unparen(l).(*ast.IndexExpr); isIx && identOf(ix.X) != nil && info.Uses[identOf(ix.X)] == o {
						ok = false // store outside a range loop
					}
				}
			}
			return true
		}
		key := identOf(rs.Key)
		ast.Inspect(rs.Body, func(m ast.Node) bool {
			if as, isA := m.(*ast.AssignStmt); isA {
				for _, l := range as.Lhs {
					if ix, isIx := unparen(l).(*ast.IndexExpr); isIx && identOf(ix.X) != nil && info.Uses[identOf(ix.X)] == o {
						if kid := identOf(ix.Index); kid != nil && key != nil && info.Uses[kid] == info.Defs[key] {
							found = true
						} else {
							ok = false
						}
					}
				}
			}
			return true
		})
		return false
	})
	return found && ok
}
