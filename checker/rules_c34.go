package main

// C34: contract methods on basic types agree with Go operators.

import (
	"fmt"
	"go/ast"
	"go/token"
	"go/types"
	"sort"
	"strings"
)

var ctiMethodOps = map[string][]string{
	"Equal": {"=="}, "Less": {"<"}, "Add": {"+"}, "Sub": {"-"}, "Mul": {"*"}, "Quo": {"/"}, "Rem": {"%"},
	"And": {"&"}, "Or": {"|"}, "Xor": {"^"}, "AndNot": {"&^"}, "Lsh": {"<<"}, "Rsh": {">>"},
	"Neg": {"unary-"}, "Cmp": {"<", ">"},
}

var kindFlags = map[string][]string{
	"Bool": {"IsBoolean"},
	"Int":  {"IsInteger", "IsNumeric", "IsOrdered"}, "Int8": {"IsInteger", "IsNumeric", "IsOrdered"}, "Int16": {"IsInteger", "IsNumeric", "IsOrdered"}, "Int32": {"IsInteger", "IsNumeric", "IsOrdered"}, "Int64": {"IsInteger", "IsNumeric", "IsOrdered"},
	"Uint": {"IsInteger", "IsUnsigned", "IsNumeric", "IsOrdered"}, "Uint8": {"IsInteger", "IsUnsigned", "IsNumeric", "IsOrdered"}, "Uint16": {"IsInteger", "IsUnsigned", "IsNumeric", "IsOrdered"}, "Uint32": {"IsInteger", "IsUnsigned", "IsNumeric", "IsOrdered"}, "Uint64": {"IsInteger", "IsUnsigned", "IsNumeric", "IsOrdered"}, "Uintptr": {"IsInteger", "IsUnsigned", "IsNumeric", "IsOrdered"},
	"Float32": {"IsFloat", "IsNumeric", "IsOrdered"}, "Float64": {"IsFloat", "IsNumeric", "IsOrdered"},
	"Complex64": {"IsComplex", "IsNumeric"}, "Complex128": {"IsComplex", "IsNumeric"},
	"String": {"IsString", "IsOrdered"},
}

// declaredBasicMethods evaluates the if / else-if chains of makeBasicMethods for a set of info flags.
func declaredBasicMethods(c *Ctx, flags []string) ([]string, bool) {
	pk := c.P.Pkg("go/types")
	fd := c.P.Func("go/types.makeBasicMethods")
	if pk == nil || fd == nil {
		return nil, false
	}
	info := pk.TypesInfo
	has := map[string]bool{}
	for _, f := range flags {
		has[f] = true
	}
	var names []string
	condFlag := func(e ast.Expr) string {
		// info&FLAG != 0
		b, ok := unparen(e).(*ast.BinaryExpr)
		if !ok || b.Op != token.NEQ {
			return ""
		}
		a, ok := unparen(b.X).(*ast.BinaryExpr)
		if !ok || a.Op != token.AND {
			return ""
		}
		if o := usedObj(info, a.Y); o != nil {
			return o.Name()
		}
		return ""
	}
	collect := func(body *ast.BlockStmt) {
		inspectCalls(body, func(call *ast.CallExpr) {
			if fn := calleeOf(info, call); fn != nil && fn.Name() == "newFunc" && len(call.Args) == 2 {
				if s, ok := constString(info, call.Args[0]); ok {
					names = append(names, s)
				}
			}
		})
	}
	okAll := true
	var evalIf func(ifs *ast.IfStmt)
	evalIf = func(ifs *ast.IfStmt) {
		fl := condFlag(ifs.Cond)
		if fl == "" {
			// the guard `!V2_CTI() || info&IsUntyped != 0` returns early: not a method arm
			return
		}
		if has[fl] {
			collect(ifs.Body)
			return
		}
		switch e := ifs.Else.(type) {
		case *ast.IfStmt:
			evalIf(e)
		case *ast.BlockStmt:
			collect(e)
		}
	}
	for _, st := range fd.Body.List {
		if ifs, ok := st.(*ast.IfStmt); ok {
			evalIf(ifs)
		}
	}
	sort.Strings(names)
	return names, okAll
}

func ruleContractMethods(c *Ctx) {
	fam := families(c, "xreflect")
	pk := c.P.Pkg("xreflect")
	info := pk.TypesInfo
	implemented := map[string]map[string]bool{}
	for _, m := range fam.members {
		if m.FKey != "xreflect.Universe.addBasicTypeMethodsCTI" || len(m.Kinds) != 1 {
			continue
		}
		name := ""
		for _, e := range m.Path {
			if e.Kind == "sw" && strings.Contains(e.Label, "Name=") {
				name = strings.Trim(e.Label[strings.Index(e.Label, "=")+1:], `"`)
			}
		}
		if name == "" {
			continue
		}
		kind := m.Kinds[0]
		if implemented[kind] == nil {
			implemented[kind] = map[string]bool{}
		}
		implemented[kind][name] = true
		key := fmt.Sprintf("xreflect.cti/%s.%s", kind, name)
		tau := m.Tau
		// parameters
		var params []*types.Var
		sig := info.TypeOf(m.Lit).(*types.Signature)
		for i := 0; i < sig.Params().Len(); i++ {
			params = append(params, sig.Params().At(i))
		}
		var pobjs []types.Object
		for _, f := range m.Lit.Type.Params.List {
			for _, nm := range f.Names {
				pobjs = append(pobjs, info.Defs[nm])
			}
		}
		// G4 types
		typesOK := tau != nil
		for i, p := range params {
			if (name == "Lsh" || name == "Rsh") && i == len(params)-1 {
				if b, ok := p.Type().(*types.Basic); !ok || b.Kind() != types.Uint8 {
					typesOK = false
				}
				continue
			}
			if tau == nil || !types.Identical(p.Type(), tau) {
				typesOK = false
			}
		}
		wantRes := tau
		switch name {
		case "Equal", "Less":
			wantRes = types.Typ[types.Bool]
		case "Cmp", "Len":
			wantRes = types.Typ[types.Int]
		case "Index":
			wantRes = types.Typ[types.Uint8]
		case "Real", "Imag":
			if kind == "Complex64" {
				wantRes = types.Typ[types.Float32]
			} else {
				wantRes = types.Typ[types.Float64]
			}
		}
		if name == "Index" || name == "Slice" || name == "Len" {
			// string container methods: index parameters are int
			typesOK = tau != nil && len(params) >= 1 && types.Identical(params[0].Type(), tau)
		}
		if sig.Results().Len() != 1 || wantRes == nil || !types.Identical(sig.Results().At(0).Type(), wantRes) {
			typesOK = false
		}
		c.Ob("G4-method-types", key, m.Lit, typesOK, fmt.Sprintf("operands have the kind's type %v and the result is %v", tau, wantRes))
		// G2 operator
		ops := principalOps(m.Lit)
		var seen []string
		for o := range ops {
			seen = append(seen, o)
		}
		sort.Strings(seen)
		var want []string
		switch name {
		case "Not":
			if kind == "Bool" {
				want = []string{"unary!"}
			} else {
				want = []string{"unary^"}
			}
		case "Real", "Imag", "Len", "Index", "Slice":
			want = []string{}
		default:
			want = append([]string{}, ctiMethodOps[name]...)
		}
		sort.Strings(want)
		okOp := strings.Join(seen, " ") == strings.Join(want, " ")
		if name == "Add" && kind == "String" {
			okOp = strings.Join(seen, " ") == "+"
		}
		c.Ob("G2-method-operator", key, m.Lit, okOp, fmt.Sprintf("method %s applies %v (expected %v)", name, seen, want))
		// builtins for Real/Imag/Len
		switch name {
		case "Real", "Imag", "Len":
			wantB := strings.ToLower(name)
			found := false
			inspectCalls(m.Lit.Body, func(call *ast.CallExpr) {
				if id := identOf(call.Fun); id != nil && id.Name == wantB {
					if _, isB := info.Uses[id].(*types.Builtin); isB {
						found = true
					}
				}
			})
			c.Ob("G2-method-operator", key+"/builtin", m.Lit, found, "method "+name+" applies the builtin "+wantB)
		}
		// G3 operand order
		if okOp && len(want) > 0 && !strings.HasPrefix(want[0], "unary") {
			// operands are the last two parameters, in order
			if len(pobjs) >= 2 {
				a, b := pobjs[len(pobjs)-2], pobjs[len(pobjs)-1]
				okOrd := true
				for _, o := range want {
					for _, n := range ops[o] {
						be, isB := n.(*ast.BinaryExpr)
						if !isB {
							okOrd = false
							continue
						}
						if identOf(be.X) == nil || identOf(be.Y) == nil || info.Uses[identOf(be.X)] != a || info.Uses[identOf(be.Y)] != b {
							okOrd = false
						}
					}
				}
				c.Ob("G3-operand-order", key, m.Lit, okOrd, fmt.Sprintf("the operator is applied as %s op %s (left operand first, receiver placeholder unused)", a.Name(), b.Name()))
			}
		} else if okOp && len(want) > 0 {
			if len(pobjs) >= 1 {
				a := pobjs[len(pobjs)-1]
				okOrd := true
				for _, n := range ops[want[0]] {
					if u, isU := n.(*ast.UnaryExpr); !isU || identOf(u.X) == nil || info.Uses[identOf(u.X)] != a {
						okOrd = false
					}
				}
				c.Ob("G3-operand-order", key, m.Lit, okOrd, "the unary operator is applied to the operand parameter "+a.Name())
			}
		}
		// Cmp shape: if a < b return -1; if a > b return 1; return 0
		if name == "Cmp" && okOp {
			c.Ob("G2-cmp-shape", key, m.Lit, cmpShape(info, m.Lit), "Cmp returns -1 when a < b, 1 when a > b, 0 otherwise")
		}
	}
	// G5 completeness per kind
	var kinds []string
	for k := range kindFlags {
		kinds = append(kinds, k)
	}
	sort.Strings(kinds)
	for _, k := range kinds {
		decl, ok := declaredBasicMethods(c, kindFlags[k])
		if !ok || len(decl) == 0 {
			c.Ob("G5-method-set", "xreflect.cti/"+k, nil, false, "declared method table (go/types makeBasicMethods) not recognised")
			continue
		}
		var impl []string
		for n := range implemented[k] {
			impl = append(impl, n)
		}
		sort.Strings(impl)
		c.Ob("G5-method-set", "xreflect.cti/"+k, nil, strings.Join(decl, ",") == strings.Join(impl, ","), fmt.Sprintf("methods declared for the kind %v = methods given a body %v", decl, impl))
	}
}

func cmpShape(info *types.Info, lit *ast.FuncLit) bool {
	l := lit.Body.List
	if len(l) != 3 {
		return false
	}
	retConst := func(s ast.Stmt, v int64) bool {
		r, ok := s.(*ast.ReturnStmt)
		if !ok || len(r.Results) != 1 {
			return false
		}
		c, ok := constInt(info, r.Results[0])
		return ok && c == v
	}
	chk := func(s ast.Stmt, op token.Token, v int64) bool {
		ifs, ok := s.(*ast.IfStmt)
		if !ok || ifs.Else != nil || len(ifs.Body.List) != 1 {
			return false
		}
		b, ok := unparen(ifs.Cond).(*ast.BinaryExpr)
		return ok && b.Op == op && retConst(ifs.Body.List[0], v)
	}
	return chk(l[0], token.LSS, -1) && chk(l[1], token.GTR, 1) && retConst(l[2], 0)
}

// ruleCtiArity: a container method registered with n operands (receiver included) is
// implemented by a function that uses each of v[0] .. v[n-1] and nothing beyond.
func ruleCtiArity(c *Ctx, rule string) {
	pk := c.P.Pkg("xreflect")
	info := pk.TypesInfo
	fd := c.P.Func("xreflect.Universe.addTypeMethodsCTI")
	if fd == nil {
		c.Ob(rule, "xreflect.Universe.addTypeMethodsCTI", nil, false, "anchor function not found")
		return
	}
	di := buildDefIndex(info, fd)
	arity := func(e ast.Expr) int {
		e = unparen(e)
		if id := identOf(e); id != nil {
			if d := di.single(info.Uses[id]); d != nil {
				e = unparen(d)
			}
		}
		if cl, ok := e.(*ast.CompositeLit); ok {
			return len(cl.Elts)
		}
		return -1
	}
	n := 0
	ast.Inspect(fd.Body, func(nd ast.Node) bool {
		cl, ok := nd.(*ast.CaseClause)
		if !ok || len(cl.List) != 1 {
			return true
		}
		name, isStr := constString(info, cl.List[0])
		if !isStr {
			return true
		}
		inspectCalls(cl, func(call *ast.CallExpr) {
			if funcFullName(calleeOf(info, call)) != "reflect.MakeFunc" || len(call.Args) != 2 {
				return
			}
			ft, ok := unparen(call.Args[0]).(*ast.CallExpr)
			if !ok || funcFullName(calleeOf(info, ft)) != "reflect.FuncOf" || len(ft.Args) != 3 {
				return
			}
			ar := arity(ft.Args[0])
			impl := calleeOrFuncValue(info, call.Args[1])
			if ar < 0 || impl == nil {
				return
			}
			ifd := c.P.Func(funcFullName(impl))
			if ifd == nil || len(ifd.Type.Params.List) != 1 || len(ifd.Type.Params.List[0].Names) != 1 {
				return
			}
			n++
			vobj := info.Defs[ifd.Type.Params.List[0].Names[0]]
			used := map[int64]bool{}
			whole := false
			ast.Inspect(ifd.Body, func(m ast.Node) bool {
				switch x := m.(type) {
				case *ast.IndexExpr:
					if identOf(x.X) != nil && info.Uses[identOf(x.X)] == vobj {
						if v, ok := constInt(info, x.Index); ok {
							used[v] = true
						} else {
							whole = true
						}
					}
				case *ast.SliceExpr, *ast.RangeStmt:
					whole = true // v[1:], range v: all operands are forwarded
				case *ast.CallExpr:
					for _, a := range x.Args {
						if identOf(a) != nil && info.Uses[identOf(a)] == vobj {
							whole = true
						}
					}
				}
				return true
			})
			okA := true
			var missing []int
			if !whole {
				for i := 0; i < ar; i++ {
					if !used[int64(i)] {
						okA = false
						missing = append(missing, i)
					}
				}
			}
			for i := range used {
				if int(i) >= ar {
					okA = false
				}
			}
			c.Ob(rule, "xreflect.cti/"+name+"->"+impl.Name(), cl, okA, fmt.Sprintf("method %s is registered with %d operands (receiver included); %s uses operands %v (unused: %v)", name, ar, impl.Name(), sortedInt64(used), missing))
		})
		return true
	})
	if n < 10 {
		c.Ob(rule, "xreflect.Universe.addTypeMethodsCTI", fd, false, "fewer than 10 container method registrations recognised: anchor missing")
	}
}

func calleeOrFuncValue(info *types.Info, e ast.Expr) *types.Func {
	switch x := unparen(e).(type) {
	case *ast.Ident:
		fn, _ := info.Uses[x].(*types.Func)
		return fn
	case *ast.SelectorExpr:
		fn, _ := info.Uses[x.Sel].(*types.Func)
		return fn
	}
	return nil
}

func sortedInt64(m map[int64]bool) []int64 {
	var l []int64
	for k := range m {
		l = append(l, k)
	}
	sort.Slice(l, func(i, j int) bool { return l[i] < l[j] })
	return l
}
