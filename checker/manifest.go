package main

import (
	"fmt"
	"path/filepath"
	"sort"
)

// notApplicable lists properties this checker does not claim, with the reason.
// A property that gets a registered PropDef is dropped from this list automatically.
var notApplicable = map[string]string{
	"C09": "method-set, embedding and assertion outcomes are algorithms over run-time type graphs; no structural necessary condition short of re-implementing them is visible in the shape of the code, so static analysis decides nothing the property states",
	"C24": "equivalence of two recursive-descent parsers on all inputs is not visible in the shape of either; the fork carries unguarded patches, so there is no isolation clause to check statically",
}

var allProps = []string{"C01", "C02", "C03", "C04", "C05", "C06", "C07", "C08", "C09", "C10", "C11", "C12", "C13", "C14", "C15", "C16", "C17", "C18", "C19", "C20",
	"C21", "C22", "C23", "C24", "C25", "C26", "C27", "C28", "C29", "C30", "C31", "C32", "C33", "C34", "C35", "C36", "C37", "C38", "C39"}

func writeManifest() error {
	var checks []map[string]interface{}
	var na []map[string]string
	var served []string
	for _, id := range allProps {
		def := registry[id]
		if def == nil {
			reason := notApplicable[id]
			if reason == "" {
				reason = "no static rule for this property has been built yet (design in DESIGN.md §4); not claimed"
			}
			na = append(na, map[string]string{"property_id": id, "reason": reason})
			continue
		}
		served = append(served, id)
		tech := def.Technique
		if tech == "" {
			tech = "static analysis: repository-specific rules over the type-checked AST / CFG (go/packages, go/types, go/cfg)"
		}
		checks = append(checks, map[string]interface{}{
			"property_id":         id,
			"quick_cmd":           fmt.Sprintf("./check.sh %s quick", id),
			"thorough_cmd":        fmt.Sprintf("./check.sh %s thorough", id),
			"evidence_file":       filepath.Join("/verif/evidence", id+".json"),
			"replay_cmd_template": fmt.Sprintf("./check.sh %s thorough  # re-analyses /repo; {path} lists rule, construct, position of each violation", id),
			"engine":              "gmcheck",
			"level_claimed": map[string]string{
				"category":   "other",
				"text":       "static analysis of structural necessary conditions, exhaustive over the source constructs named by each rule (not over run-time values): " + def.Explanation,
				"design_ref": "DESIGN.md §4 " + id,
			},
			"level_note": "trusted: " + joinOr(def.Assumptions, "go/types, go/packages, go/cfg at x/tools v0.29.0; Go operator semantics on basic types"),
			"technique":  tech,
		})
	}
	sort.Strings(served)
	m := map[string]interface{}{
		"version":   1,
		"setup_cmd": "cd /verif/checker && GOFLAGS=-mod=mod GOPROXY=off GOSUMDB=off GOTOOLCHAIN=local GOWORK=off go build -o /verif/bin/gmcheck .",
		"hooks": map[string]interface{}{
			"guard":            "verif",
			"enable":           "no hooks: the checker reads source only; nothing in /repo is guarded by the tag",
			"baseline_off_cmd": "cd /repo && GOFLAGS=-mod=mod go test -vet=off -count=1 -timeout 25m ./...",
			"source_commits":   []string{},
			"add_only":         true,
		},
		"engines": []map[string]interface{}{{
			"name": "gmcheck", "path": "/verif/checker", "serves_properties": served,
			"kind_free_text": "Go program (go/packages + go/types + go/cfg, x/tools v0.29.0): repository-specific static rules; obligations keyed by rule+construct; known_findings.json / exceptions.json; in-memory overlay mutation self-test",
		}},
		"checks":         checks,
		"not_applicable": na,
		"notes":          "All checks are static: they parse and type-check /repo's working tree on every run and execute nothing from it. Exit 2 (no VIOLATION line) means the checker could not analyse the tree.",
	}
	return writeJSON(filepath.Join(verifDir, "MANIFEST.json"), m)
}

func joinOr(s []string, def string) string {
	if len(s) == 0 {
		return def
	}
	out := ""
	for i, x := range s {
		if i > 0 {
			out += "; "
		}
		out += x
	}
	return out
}
