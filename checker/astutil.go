package main

import (
	"go/ast"
	"go/constant"
	"go/token"
	"go/types"
	"strings"

	"golang.org/x/tools/go/packages"
)

// calleeOf resolves the called function or method through type information.
func calleeOf(info *types.Info, call *ast.CallExpr) *types.Func {
	switch f := unparen(call.Fun).(type) {
	case *ast.Ident:
		fn, _ := info.Uses[f].(*types.Func)
		return fn
	case *ast.SelectorExpr:
		fn, _ := info.Uses[f.Sel].(*types.Func)
		return fn
	case *ast.IndexExpr:
		if id, ok := unparen(f.X).(*ast.Ident); ok {
			fn, _ := info.Uses[id].(*types.Func)
			return fn
		}
	}
	return nil
}

// funcFullName is pkgpath.Recv.Name or pkgpath.Name with the module prefix shortened.
func funcFullName(fn *types.Func) string {
	if fn == nil {
		return ""
	}
	pk := ""
	if fn.Pkg() != nil {
		pk = shortPkg(fn.Pkg().Path())
	}
	sig, _ := fn.Type().(*types.Signature)
	if sig != nil && sig.Recv() != nil {
		t := sig.Recv().Type()
		if p, ok := t.(*types.Pointer); ok {
			t = p.Elem()
		}
		if n, ok := t.(*types.Named); ok {
			return pk + "." + n.Obj().Name() + "." + fn.Name()
		}
		if a, ok := t.(*types.Alias); ok {
			return pk + "." + a.Obj().Name() + "." + fn.Name()
		}
		return pk + ".?." + fn.Name()
	}
	return pk + "." + fn.Name()
}

// isCallTo reports whether call resolves to the function named full (e.g. "fast.Comp.Errorf", "strings.IndexByte").
func isCallTo(info *types.Info, call *ast.CallExpr, full ...string) bool {
	n := funcFullName(calleeOf(info, call))
	for _, f := range full {
		if n == f {
			return true
		}
	}
	return false
}

func constString(info *types.Info, e ast.Expr) (string, bool) {
	tv, ok := info.Types[e]
	if !ok || tv.Value == nil || tv.Value.Kind() != constant.String {
		return "", false
	}
	return constant.StringVal(tv.Value), true
}

func constInt(info *types.Info, e ast.Expr) (int64, bool) {
	tv, ok := info.Types[e]
	if !ok || tv.Value == nil || tv.Value.Kind() != constant.Int {
		return 0, false
	}
	return constant.Int64Val(tv.Value)
}

// objName returns pkg.Name of a used constant/var/func identifier or selector.
func usedObj(info *types.Info, e ast.Expr) types.Object {
	switch x := unparen(e).(type) {
	case *ast.Ident:
		if o := info.Uses[x]; o != nil {
			return o
		}
		return info.Defs[x]
	case *ast.SelectorExpr:
		return info.Uses[x.Sel]
	}
	return nil
}

func objQName(o types.Object) string {
	if o == nil {
		return ""
	}
	if o.Pkg() == nil {
		return o.Name()
	}
	return shortPkg(o.Pkg().Path()) + "." + o.Name()
}

// switchOn finds the first switch statement in body whose tag satisfies pred.
func findSwitches(body ast.Node, pred func(tag ast.Expr) bool) []*ast.SwitchStmt {
	var out []*ast.SwitchStmt
	ast.Inspect(body, func(n ast.Node) bool {
		if s, ok := n.(*ast.SwitchStmt); ok && s.Tag != nil && pred(s.Tag) {
			out = append(out, s)
		}
		return true
	})
	return out
}

func inspectCalls(n ast.Node, f func(*ast.CallExpr)) {
	ast.Inspect(n, func(n ast.Node) bool {
		if c, ok := n.(*ast.CallExpr); ok {
			f(c)
		}
		return true
	})
}

// containsNode reports whether outer contains inner (by position).
func containsNode(outer, inner ast.Node) bool {
	return outer != nil && inner != nil && outer.Pos() <= inner.Pos() && inner.End() <= outer.End()
}

func fileOf(pk *packages.Package, n ast.Node) *ast.File {
	for _, f := range pk.Syntax {
		if f.Pos() <= n.Pos() && n.End() <= f.End() {
			return f
		}
	}
	return nil
}

func baseName(fset *token.FileSet, n ast.Node) string {
	f := fset.Position(n.Pos()).Filename
	if i := strings.LastIndexByte(f, '/'); i >= 0 {
		f = f[i+1:]
	}
	return f
}

// isNamedType reports whether t (or *t) is the named type pkgShort.name.
func isNamedType(t types.Type, pkgShort, name string) bool {
	if p, ok := t.(*types.Pointer); ok {
		t = p.Elem()
	}
	var obj *types.TypeName
	switch n := t.(type) {
	case *types.Named:
		obj = n.Obj()
	case *types.Alias:
		obj = n.Obj()
	}
	if obj == nil || obj.Name() != name {
		return false
	}
	if obj.Pkg() == nil {
		return pkgShort == ""
	}
	return shortPkg(obj.Pkg().Path()) == pkgShort
}
