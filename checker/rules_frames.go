package main

// C06 / C14 / C33: frame recycling rules — mark-before-escape, new/free pairing,
// interior-pointer marking, field ownership.

import (
	"fmt"
	"go/ast"
	"go/token"
	"go/types"
	"sort"
	"strings"
)

// enclosingFuncKey builds pkg.Func keys for nodes: map from FuncLit/any node to its FuncDecl.
type fnIndex struct {
	decls []*ast.FuncDecl
}

func (p *Prog) funcDeclsOf(short string) []*ast.FuncDecl { return p.FuncsOf(short) }

// ruleMarkBeforeEscape: a function literal that captures an *Env variable bound by an
// enclosing function literal and is not invoked on the spot must be preceded, in the
// enclosing literal, by thatEnv.MarkUsedByClosure().
func ruleMarkBeforeEscape(c *Ctx, short, rule string) {
	pk := c.P.Pkg(short)
	info := pk.TypesInfo
	for _, fd := range c.P.FuncsOf(short) {
		if fd.Body == nil {
			continue
		}
		fkey := funcKey(pk, fd)
		ord := 0
		var stack []ast.Node
		ast.Inspect(fd.Body, func(n ast.Node) bool {
			if n == nil {
				stack = stack[:len(stack)-1]
				return true
			}
			stack = append(stack, n)
			inner, ok := n.(*ast.FuncLit)
			if !ok {
				return true
			}
			// enclosing literals
			var outers []*ast.FuncLit
			for _, s := range stack[:len(stack)-1] {
				if fl, ok := s.(*ast.FuncLit); ok {
					outers = append(outers, fl)
				}
			}
			if len(outers) == 0 {
				return true
			}
			// immediately invoked?
			if len(stack) >= 2 {
				if call, ok := stack[len(stack)-2].(*ast.CallExpr); ok && unparen(call.Fun) == inner {
					return true
				}
			}
			// captured *Env variables bound by an enclosing literal
			captured := map[types.Object]*ast.FuncLit{}
			ast.Inspect(inner.Body, func(m ast.Node) bool {
				id, ok := m.(*ast.Ident)
				if !ok {
					return true
				}
				o, ok := info.Uses[id].(*types.Var)
				if !ok || !isEnvPtr(o.Type()) || o.IsField() {
					return true
				}
				if o.Pos() >= inner.Pos() && o.Pos() < inner.End() {
					return true // bound inside
				}
				for i := len(outers) - 1; i >= 0; i-- {
					if o.Pos() >= outers[i].Pos() && o.Pos() < outers[i].End() {
						captured[o] = outers[i]
						break
					}
				}
				return true
			})
			var objs []types.Object
			for o := range captured {
				objs = append(objs, o)
			}
			sort.Slice(objs, func(i, j int) bool { return objs[i].Pos() < objs[j].Pos() })
			for _, o := range objs {
				outer := captured[o]
				ord++
				marked := false
				// a call o.MarkUsedByClosure() before inner, inside outer, in a block that encloses inner
				ast.Inspect(outer.Body, func(m ast.Node) bool {
					if fl, ok := m.(*ast.FuncLit); ok && fl != outer && !containsNode(fl, inner) {
						return false
					}
					blk, ok := m.(*ast.BlockStmt)
					if !ok || !containsNode(blk, inner) {
						return true
					}
					for _, st := range blk.List {
						if st.Pos() >= inner.Pos() {
							break
						}
						if es, ok := st.(*ast.ExprStmt); ok {
							if call, ok := es.X.(*ast.CallExpr); ok && funcFullName(calleeOf(info, call)) == short+".Env.MarkUsedByClosure" {
								if sel, ok := unparen(call.Fun).(*ast.SelectorExpr); ok && identOf(sel.X) != nil && info.Uses[identOf(sel.X)] == o {
									marked = true
								}
							}
						}
					}
					return true
				})
				// the frame may also be one the literal created itself (newEnv4Func): it is the callee's frame, freed explicitly
				c.Ob(rule, fmt.Sprintf("%s/escaping-closure%d", fkey, ord), inner, marked,
					fmt.Sprintf("closure capturing %s escapes (%s); %s.MarkUsedByClosure() must precede it", o.Name(), escapeHow(stack), o.Name()))
			}
			return true
		})
	}
}

func escapeHow(stack []ast.Node) string {
	if len(stack) < 2 {
		return "unknown"
	}
	switch p := stack[len(stack)-2].(type) {
	case *ast.CallExpr:
		return "passed to " + exprString(p.Fun)
	case *ast.ReturnStmt:
		return "returned"
	case *ast.AssignStmt:
		return "stored"
	case *ast.CompositeLit, *ast.KeyValueExpr:
		return "stored in a composite"
	case *ast.GoStmt:
		return "go statement"
	case *ast.DeferStmt:
		return "defer statement"
	}
	return fmt.Sprintf("%T", stack[len(stack)-2])
}

// ruleNewFreePairing: a literal that obtains a frame with newEnv4Func releases it with
// freeEnv4Func in the same block, with no return in between, and does not touch the
// frame's slots after releasing it.
func ruleNewFreePairing(c *Ctx, short, rule string) {
	pk := c.P.Pkg(short)
	info := pk.TypesInfo
	for _, fd := range c.P.FuncsOf(short) {
		if fd.Body == nil {
			continue
		}
		fkey := funcKey(pk, fd)
		ord := 0
		ast.Inspect(fd.Body, func(n ast.Node) bool {
			blk, ok := n.(*ast.BlockStmt)
			if !ok {
				return true
			}
			for i, st := range blk.List {
				as, ok := st.(*ast.AssignStmt)
				if !ok || len(as.Lhs) != 1 || len(as.Rhs) != 1 {
					continue
				}
				call, ok := unparen(as.Rhs[0]).(*ast.CallExpr)
				if !ok || funcFullName(calleeOf(info, call)) != short+".newEnv4Func" {
					continue
				}
				id := identOf(as.Lhs[0])
				if id == nil {
					continue
				}
				o := info.Defs[id]
				if o == nil {
					o = info.Uses[id]
				}
				ord++
				key := fmt.Sprintf("%s/frame%d", fkey, ord)
				freeIdx := -1
				deferred := false
				for j := i + 1; j < len(blk.List); j++ {
					var fc *ast.CallExpr
					switch x := blk.List[j].(type) {
					case *ast.ExprStmt:
						fc, _ = x.X.(*ast.CallExpr)
					case *ast.DeferStmt:
						fc = x.Call
						if fc != nil && funcFullName(calleeOf(info, fc)) == short+".Env.freeEnv4Func" {
							deferred = true
						}
					}
					if fc != nil && funcFullName(calleeOf(info, fc)) == short+".Env.freeEnv4Func" {
						if sel, ok := unparen(fc.Fun).(*ast.SelectorExpr); ok && identOf(sel.X) != nil && info.Uses[identOf(sel.X)] == o {
							freeIdx = j
							break
						}
					}
				}
				if freeIdx < 0 {
					c.Ob(rule, key, st, false, "frame obtained with newEnv4Func is never released with freeEnv4Func in the same block (CallDepth / CurrEnv / pool drift)")
					continue
				}
				msg := ""
				if !deferred {
					for j := i + 1; j < freeIdx; j++ {
						ast.Inspect(blk.List[j], func(m ast.Node) bool {
							if _, ok := m.(*ast.FuncLit); ok {
								return false
							}
							if _, ok := m.(*ast.ReturnStmt); ok {
								msg = "a return between newEnv4Func and freeEnv4Func leaks the frame"
							}
							return true
						})
					}
					for j := freeIdx + 1; j < len(blk.List); j++ {
						ast.Inspect(blk.List[j], func(m ast.Node) bool {
							if ix, ok := m.(*ast.IndexExpr); ok {
								if E, _, ok := intsAccess(info, ix); ok && identOf(E) != nil && info.Uses[identOf(E)] == o {
									msg = "frame slot read after the frame was released"
								}
								if E, _, ok := valsAccess(info, ix); ok && identOf(E) != nil && info.Uses[identOf(E)] == o {
									msg = "frame slot read after the frame was released"
								}
							}
							return true
						})
					}
				}
				c.Ob(rule, key, st, msg == "", "newEnv4Func … freeEnv4Func on the same frame, no early return, no slot access after release "+msg)
			}
			return true
		})
	}
}

// ruleInteriorPointers: &E.Ints[i] that escapes its expression needs E.IntAddressTaken = true before it.
func ruleInteriorPointers(c *Ctx, short, rule string) {
	pk := c.P.Pkg(short)
	info := pk.TypesInfo
	total, deref, localDeref := 0, 0, 0
	for _, fd := range c.P.FuncsOf(short) {
		if fd.Body == nil {
			continue
		}
		fkey := funcKey(pk, fd)
		ord := 0
		var stack []ast.Node
		ast.Inspect(fd.Body, func(n ast.Node) bool {
			if n == nil {
				stack = stack[:len(stack)-1]
				return true
			}
			stack = append(stack, n)
			u, ok := n.(*ast.UnaryExpr)
			if !ok || u.Op != token.AND {
				return true
			}
			E, _, ok := intsAccess(info, u.X)
			if !ok {
				return true
			}
			total++
			// climb: conversions unsafe.Pointer(...) and (*T)(...) and parens
			i := len(stack) - 2
			var top ast.Node = u
			for i >= 0 {
				switch p := stack[i].(type) {
				case *ast.ParenExpr:
					top = p
					i--
					continue
				case *ast.CallExpr:
					if tv, ok := info.Types[p.Fun]; ok && tv.IsType() && len(p.Args) == 1 {
						top = p
						i--
						continue
					}
				}
				break
			}
			if i >= 0 {
				if st, ok := stack[i].(*ast.StarExpr); ok && unparen(st.X) == unparen(top.(ast.Expr)) {
					deref++
					return true
				}
				// bound to a local that is only dereferenced
				if as, ok := stack[i].(*ast.AssignStmt); ok && len(as.Lhs) == 1 && len(as.Rhs) == 1 && identOf(as.Lhs[0]) != nil {
					v := info.Defs[identOf(as.Lhs[0])]
					if v == nil {
						v = info.Uses[identOf(as.Lhs[0])]
					}
					if v != nil && onlyDereferenced(info, fd, v, identOf(as.Lhs[0])) {
						localDeref++
						return true
					}
				}
			}
			// escaping: need E.IntAddressTaken = true earlier in the innermost enclosing literal / function
			ord++
			eobj := types.Object(nil)
			if id := identOf(E); id != nil {
				eobj = info.Uses[id]
			}
			var scope ast.Node = fd.Body
			for j := len(stack) - 1; j >= 0; j-- {
				if fl, ok := stack[j].(*ast.FuncLit); ok {
					scope = fl.Body
					break
				}
			}
			marked := false
			// a mark made by an enclosing function body before the literal was created also
			// dominates every execution of the literal
			scopes := []ast.Node{scope}
			if scope != ast.Node(fd.Body) {
				scopes = append(scopes, fd.Body)
			}
			for _, scope := range scopes {
				ast.Inspect(scope, func(m ast.Node) bool {
					if fl, isLit := m.(*ast.FuncLit); isLit && !containsNode(fl, u) {
						return false
					}
					as, ok := m.(*ast.AssignStmt)
					if !ok || as.Pos() >= u.Pos() || len(as.Lhs) != 1 || len(as.Rhs) != 1 {
						return true
					}
					sel, ok := unparen(as.Lhs[0]).(*ast.SelectorExpr)
					if !ok || sel.Sel.Name != "IntAddressTaken" {
						return true
					}
					if id := identOf(as.Rhs[0]); id == nil || id.Name != "true" {
						return true
					}
					if eobj != nil && identOf(sel.X) != nil && info.Uses[identOf(sel.X)] == eobj {
						// the environment variable must not be re-bound between the mark and the address
						rebound := false
						ast.Inspect(scope, func(k ast.Node) bool {
							if a2, ok := k.(*ast.AssignStmt); ok && a2.Pos() > as.Pos() && a2.Pos() < u.Pos() {
								for _, l := range a2.Lhs {
									if id := identOf(l); id != nil && info.Uses[id] == eobj {
										rebound = true
									}
								}
							}
							return true
						})
						if !rebound {
							marked = true
						}
					} else if eobj == nil && exprString(sel.X) == exprString(E) {
						marked = true
					}
					return true
				})
			}
			c.Ob(rule, fmt.Sprintf("%s/escaping-slot-pointer%d", fkey, ord), u, marked,
				fmt.Sprintf("pointer %s leaves the expression; %s.IntAddressTaken = true must be set on the same frame before it (else the slot array may be recycled or reallocated under the pointer)", exprString(u), exprString(E)))
			return true
		})
	}
	c.Extra(rule+"_census", map[string]int{"address_of_ints_slot": total, "dereferenced_on_the_spot": deref, "local_only_dereferenced": localDeref})
}

// onlyDereferenced: every use of v (other than its definition) is the operand of a unary *.
func onlyDereferenced(info *types.Info, fd *ast.FuncDecl, v types.Object, def *ast.Ident) bool {
	ok := true
	var stack []ast.Node
	ast.Inspect(fd.Body, func(n ast.Node) bool {
		if n == nil {
			stack = stack[:len(stack)-1]
			return true
		}
		stack = append(stack, n)
		id, isId := n.(*ast.Ident)
		if !isId || id == def || info.Uses[id] != v {
			return true
		}
		if len(stack) >= 2 {
			if st, isStar := stack[len(stack)-2].(*ast.StarExpr); isStar && st.X == id {
				return true
			}
		}
		ok = false
		return true
	})
	return ok
}

// fieldWriters finds every function of the loaded program that assigns field `field`
// of struct type pkgShort.typeName (assignment, ++/--, op=, address-of, composite literal key).
func fieldWriters(c *Ctx, pkgShort, typeName, field string) map[string][]ast.Node {
	out := map[string][]ast.Node{}
	for _, pk := range c.P.All {
		info := pk.TypesInfo
		isField := func(e ast.Expr) bool {
			sel, ok := unparen(e).(*ast.SelectorExpr)
			if !ok || sel.Sel.Name != field {
				return false
			}
			s := info.Selections[sel]
			if s == nil || s.Kind() != types.FieldVal {
				return false
			}
			fv, ok := s.Obj().(*types.Var)
			if !ok {
				return false
			}
			return fieldBelongsTo(fv, pkgShort, typeName)
		}
		for _, f := range pk.Syntax {
			for _, d := range f.Decls {
				fd, ok := d.(*ast.FuncDecl)
				if !ok || fd.Body == nil {
					continue
				}
				key := funcKey(pk, fd)
				ast.Inspect(fd.Body, func(n ast.Node) bool {
					switch x := n.(type) {
					case *ast.AssignStmt:
						for _, l := range x.Lhs {
							if isField(l) {
								out[key] = append(out[key], x)
							}
							// slices of the field: F[i] = ... counts as a write into the field's storage
							if ix, ok := unparen(l).(*ast.IndexExpr); ok && isField(ix.X) {
								out[key+"#elem"] = append(out[key+"#elem"], x)
							}
						}
					case *ast.IncDecStmt:
						if isField(x.X) {
							out[key] = append(out[key], x)
						}
					case *ast.UnaryExpr:
						if x.Op == token.AND && isField(x.X) {
							out[key+"#addr"] = append(out[key+"#addr"], x)
						}
					case *ast.CompositeLit:
						t := info.TypeOf(x)
						if t != nil && isNamedType(t, pkgShort, typeName) {
							for _, el := range x.Elts {
								if kv, ok := el.(*ast.KeyValueExpr); ok {
									if id := identOf(kv.Key); id != nil && id.Name == field {
										out[key+"#lit"] = append(out[key+"#lit"], kv)
									}
								}
							}
						}
					}
					return true
				})
			}
		}
	}
	return out
}

func fieldBelongsTo(fv *types.Var, pkgShort, typeName string) bool {
	if fv.Pkg() == nil || shortPkg(fv.Pkg().Path()) != pkgShort {
		return false
	}
	tn, ok := fv.Pkg().Scope().Lookup(typeName).(*types.TypeName)
	if !ok {
		return false
	}
	st, ok := tn.Type().Underlying().(*types.Struct)
	if !ok {
		return false
	}
	for i := 0; i < st.NumFields(); i++ {
		if st.Field(i) == fv {
			return true
		}
		// embedded structs declared in the same package (EnvBinds in Env)
		if st.Field(i).Embedded() {
			if est, ok := st.Field(i).Type().Underlying().(*types.Struct); ok {
				for j := 0; j < est.NumFields(); j++ {
					if est.Field(j) == fv {
						return true
					}
				}
			}
		}
	}
	return false
}

// ruleOwnership: field writers must be within the allowed set.
func ruleOwnership(c *Ctx, rule, pkgShort, typeName, field string, allowed []string, why string) {
	w := fieldWriters(c, pkgShort, typeName, field)
	allow := map[string]bool{}
	for _, a := range allowed {
		allow[a] = true
	}
	var keys []string
	for k := range w {
		keys = append(keys, k)
	}
	sort.Strings(keys)
	for _, k := range keys {
		c.Ob(rule, pkgShort+"."+typeName+"."+field+" written in "+k, w[k][0], allow[k] || allow[strings.SplitN(k, "#", 2)[0]+"#*"] || (strings.Contains(k, "#") && allow["*#"+strings.SplitN(k, "#", 2)[1]]),
			fmt.Sprintf("%s.%s may be written only by %v (%s)", typeName, field, allowed, why))
	}
	if len(keys) == 0 {
		c.Ob(rule, pkgShort+"."+typeName+"."+field, nil, false, "no writer of the field found: anchor missing")
	}
}

// ruleFuncBodyFrame: the body of an interpreted function always runs on a frame obtained
// from newEnv4Func (which selects the calling goroutine's record, links Caller / CallDepth
// and makes the frame current) — never on a block frame from NewEnv / newEnv.
func ruleFuncBodyFrame(c *Ctx, short, rule string) {
	pk := c.P.Pkg(short)
	info := pk.TypesInfo
	n := 0
	for _, fd := range c.P.FuncsOf(short) {
		if fd.Body == nil {
			continue
		}
		fkey := funcKey(pk, fd)
		di := buildDefIndex(info, fd)
		ord := 0
		inspectCalls(fd.Body, func(call *ast.CallExpr) {
			id := identOf(call.Fun)
			if id == nil || len(call.Args) != 1 {
				return
			}
			v, ok := info.Uses[id].(*types.Var)
			if !ok || !isSigWithEnv(v.Type()) {
				return
			}
			if chainEndsInField(info, di, id, 0) != "funcbody" {
				return
			}
			n++
			ord++
			arg := identOf(call.Args[0])
			okf := false
			how := "argument is not a variable"
			if arg != nil {
				// the innermost definition of the frame variable that precedes the call
				var def ast.Expr
				ast.Inspect(fd.Body, func(m ast.Node) bool {
					if as, ok := m.(*ast.AssignStmt); ok && as.Pos() < call.Pos() && len(as.Lhs) == 1 && len(as.Rhs) == 1 && identOf(as.Lhs[0]) != nil {
						o := info.Defs[identOf(as.Lhs[0])]
						if o == nil {
							o = info.Uses[identOf(as.Lhs[0])]
						}
						if o == info.Uses[arg] {
							def = as.Rhs[0]
						}
					}
					return true
				})
				how = "frame variable has no definition"
				if def != nil {
					how = "frame comes from " + exprString(def)
					if dc, ok := unparen(def).(*ast.CallExpr); ok && funcFullName(calleeOf(info, dc)) == short+".newEnv4Func" {
						okf = true
					}
				}
			}
			c.Ob(rule, fmt.Sprintf("%s/funcbody%d", fkey, ord), call, okf, "the function body runs on a frame from newEnv4Func ("+how+")")
		})
	}
	if n == 0 {
		c.Ob(rule, short, nil, false, "no call of a function body found: anchor missing")
	}
}
