package main

// C22: uniform syntax-tree wrapper round trip (E5 structure-preserving coverage).

import (
	"fmt"
	"go/ast"
	"go/token"
	"go/types"
	"sort"
	"strconv"
	"strings"
)

// indexArms splits a Get/Set body by the value of its index parameter.
// Returns arm bodies keyed by index, the default arm (nil if none) and ok=false when the shape is not recognised.
func indexArms(info *types.Info, fd *ast.FuncDecl, idx types.Object) (map[int][]ast.Node, []ast.Node, bool) {
	arms := map[int][]ast.Node{}
	var def []ast.Node
	isIdx := func(e ast.Expr) bool {
		id := identOf(e)
		return id != nil && info.Uses[id] == idx
	}
	var walk func(list []ast.Stmt) bool
	walk = func(list []ast.Stmt) bool {
		for _, st := range list {
			switch x := st.(type) {
			case *ast.SwitchStmt:
				if x.Tag != nil && isIdx(x.Tag) {
					for _, cc := range x.Body.List {
						cl := cc.(*ast.CaseClause)
						var nodes []ast.Node
						for _, b := range cl.Body {
							nodes = append(nodes, b)
						}
						if cl.List == nil {
							def = append(def, nodes...)
							continue
						}
						for _, e := range cl.List {
							v, ok := constInt(info, e)
							if !ok {
								return false
							}
							arms[int(v)] = append(arms[int(v)], nodes...)
						}
					}
					continue
				}
			case *ast.IfStmt:
				if b, ok := unparen(x.Cond).(*ast.BinaryExpr); ok && b.Op == token.EQL && isIdx(b.X) {
					if v, ok := constInt(info, b.Y); ok {
						for _, s2 := range x.Body.List {
							arms[int(v)] = append(arms[int(v)], s2)
						}
						switch e := x.Else.(type) {
						case nil:
						case *ast.BlockStmt:
							for _, s2 := range e.List {
								def = append(def, s2)
							}
						case *ast.IfStmt:
							if !walk([]ast.Stmt{e}) {
								return false
							}
						}
						continue
					}
				}
			}
			// statements outside the dispatch apply to every arm (prelude) — keep as common
			arms[-1] = append(arms[-1], st)
		}
		return true
	}
	ok := walk(fd.Body.List)
	return arms, def, ok
}

// fieldsTouched returns the go/ast struct fields selected through x.X in nodes, split in reads and writes.
func fieldsTouched(info *types.Info, nodes []ast.Node, recv types.Object) (reads, writes map[string]bool) {
	reads, writes = map[string]bool{}, map[string]bool{}
	isXX := func(e ast.Expr) bool {
		sel, ok := unparen(e).(*ast.SelectorExpr)
		return ok && sel.Sel.Name == "X" && identOf(sel.X) != nil && info.Uses[identOf(sel.X)] == recv
	}
	for _, n := range nodes {
		lhs := map[ast.Expr]bool{}
		ast.Inspect(n, func(m ast.Node) bool {
			if as, ok := m.(*ast.AssignStmt); ok {
				for _, l := range as.Lhs {
					lhs[unparen(l)] = true
				}
			}
			return true
		})
		ast.Inspect(n, func(m ast.Node) bool {
			sel, ok := m.(*ast.SelectorExpr)
			if !ok || !isXX(sel.X) {
				return true
			}
			if lhs[sel] {
				writes[sel.Sel.Name] = true
			} else {
				reads[sel.Sel.Name] = true
			}
			return true
		})
	}
	return
}

func isNodeType(t types.Type, nodeIface *types.Interface) bool {
	switch x := t.(type) {
	case *types.Slice:
		return isNodeType(x.Elem(), nodeIface)
	case *types.Pointer:
		if n, ok := x.Elem().(*types.Named); ok && n.Obj().Pkg() != nil && n.Obj().Pkg().Path() == "go/ast" {
			if _, isStruct := n.Underlying().(*types.Struct); isStruct {
				return types.Implements(x, nodeIface)
			}
		}
	case *types.Named:
		if x.Obj().Pkg() != nil && x.Obj().Pkg().Path() == "go/ast" && types.IsInterface(x) {
			return types.Implements(x, nodeIface) || x.Obj().Name() == "Node"
		}
	}
	return false
}

func ruleAstWrappers(c *Ctx) {
	pk := c.P.Pkg("ast2")
	if pk == nil {
		c.Fatal("package ast2 not loaded")
		return
	}
	info := pk.TypesInfo
	var astPkg *types.Package
	for _, imp := range pk.Types.Imports() {
		if imp.Path() == "go/ast" {
			astPkg = imp
		}
	}
	if astPkg == nil {
		c.Fatal("go/ast not imported by ast2")
		return
	}
	nodeIface := astPkg.Scope().Lookup("Node").Type().Underlying().(*types.Interface)
	// wrappers: struct { X *ast.N }
	type wrapper struct {
		name string
		node *types.Named
		st   *types.Struct
	}
	var ws []wrapper
	for _, name := range pk.Types.Scope().Names() {
		tn, ok := pk.Types.Scope().Lookup(name).(*types.TypeName)
		if !ok {
			continue
		}
		st, ok := tn.Type().Underlying().(*types.Struct)
		if !ok || st.NumFields() != 1 || st.Field(0).Name() != "X" {
			continue
		}
		pt, ok := st.Field(0).Type().(*types.Pointer)
		if !ok {
			continue
		}
		nn, ok := pt.Elem().(*types.Named)
		if !ok || nn.Obj().Pkg() == nil || nn.Obj().Pkg().Path() != "go/ast" {
			continue
		}
		nst, ok := nn.Underlying().(*types.Struct)
		if !ok {
			continue
		}
		ws = append(ws, wrapper{name, nn, nst})
	}
	sort.Slice(ws, func(i, j int) bool { return ws[i].name < ws[j].name })
	// ToAst cases
	toast := c.P.Func("ast2.ToAst")
	caseWrap := map[string]string{}
	if toast != nil {
		ast.Inspect(toast.Body, func(n ast.Node) bool {
			ts, ok := n.(*ast.TypeSwitchStmt)
			if !ok {
				return true
			}
			for _, cc := range ts.Body.List {
				cl := cc.(*ast.CaseClause)
				for _, e := range cl.List {
					t := info.TypeOf(e)
					if t == nil {
						continue
					}
					ast.Inspect(cl, func(m ast.Node) bool {
						if lit, ok := m.(*ast.CompositeLit); ok {
							if wt := info.TypeOf(lit); wt != nil {
								if n, ok := wt.(*types.Named); ok && n.Obj().Pkg() == pk.Types {
									caseWrap[types.TypeString(t, nil)] = n.Obj().Name()
								}
							}
						}
						return true
					})
				}
			}
			return false
		})
	}
	for _, w := range ws {
		key := "ast2." + w.name
		get, set, nw, size := c.P.Func(key+".Get"), c.P.Func(key+".Set"), c.P.Func(key+".New"), c.P.Func(key+".Size")
		if get == nil || set == nil || nw == nil || size == nil {
			c.Ob("W0-methods", key, nil, false, "wrapper lacks one of Size/Get/Set/New")
			continue
		}
		// (e) ToAst wraps *ast.N in this wrapper
		c.Ob("W5-toast", key, toast, caseWrap["*go/ast."+w.node.Obj().Name()] == w.name, "ToAst maps *ast."+w.node.Obj().Name()+" to "+w.name+" (found "+caseWrap["*go/ast."+w.node.Obj().Name()]+")")
		// identity: Node() and Interface() hand out the wrapped node itself
		for _, mn := range []string{"Node", "Interface"} {
			m := c.P.Func(key + "." + mn)
			if m == nil {
				c.Ob("W6-identity", key+"."+mn, nil, false, "wrapper has no "+mn+"() method")
				continue
			}
			good := false
			var recv types.Object
			if m.Recv != nil && len(m.Recv.List) == 1 && len(m.Recv.List[0].Names) == 1 {
				recv = info.Defs[m.Recv.List[0].Names[0]]
			}
			isWrapped := func(e ast.Expr) bool {
				sel, ok := unparen(e).(*ast.SelectorExpr)
				return ok && sel.Sel.Name == "X" && identOf(sel.X) != nil && recv != nil && info.Uses[identOf(sel.X)] == recv
			}
			if m.Body != nil && len(m.Body.List) == 1 {
				if r, ok := m.Body.List[0].(*ast.ReturnStmt); ok && len(r.Results) == 1 {
					e := unparen(r.Results[0])
					if call, ok := e.(*ast.CallExpr); ok && len(call.Args) == 2 {
						// asNode(x.X, x.X == nil) / asInterface(x.X, x.X == nil): the helper returns its first argument unless the flag is set
						if fn := calleeOf(info, call); fn != nil && (fn.Name() == "asNode" || fn.Name() == "asInterface") {
							if b, ok := unparen(call.Args[1]).(*ast.BinaryExpr); ok && b.Op == token.EQL && isWrapped(b.X) && identOf(b.Y) != nil && identOf(b.Y).Name == "nil" {
								good = isWrapped(call.Args[0])
							}
						}
					} else {
						good = isWrapped(e)
					}
				}
			}
			c.Ob("W6-identity", key+"."+mn, m, good, mn+"() returns the wrapped *ast."+w.node.Obj().Name()+" itself (nil when it is nil), not one of its children")
		}
		// Size constant
		k := -1
		listField := ""
		if n := len(size.Body.List); n >= 1 {
			if r, ok := size.Body.List[n-1].(*ast.ReturnStmt); ok && len(r.Results) == 1 {
				if v, ok := constInt(info, r.Results[0]); ok {
					k = int(v)
				} else if call, ok := unparen(r.Results[0]).(*ast.CallExpr); ok && identOf(call.Fun) != nil && identOf(call.Fun).Name == "len" && len(call.Args) == 1 {
					if sel, ok := unparen(call.Args[0]).(*ast.SelectorExpr); ok {
						listField = sel.Sel.Name
					}
				}
			}
		}
		if listField != "" {
			checkListWrapper(c, info, key, w.node, w.st, listField, get, set, nw, nodeIface)
			continue
		}
		if k < 0 {
			c.Ob("W1-size", key, size, false, "Size() is neither a constant nor the length of a list field")
			continue
		}
		recvOf := func(fd *ast.FuncDecl) types.Object {
			if fd.Recv != nil && len(fd.Recv.List) == 1 && len(fd.Recv.List[0].Names) == 1 {
				return info.Defs[fd.Recv.List[0].Names[0]]
			}
			return nil
		}
		// Get arms
		getFields := map[int]map[string]bool{}
		gidx := info.Defs[get.Type.Params.List[0].Names[0]]
		okGet := false
		if len(get.Body.List) == 1 {
			if r, ok := get.Body.List[0].(*ast.ReturnStmt); ok && len(r.Results) == 1 {
				if call, ok := unparen(r.Results[0]).(*ast.CallExpr); ok {
					if fn := calleeOf(info, call); fn != nil && strings.HasPrefix(fn.Name(), "ToAst") && len(fn.Name()) == 6 && len(call.Args) >= 2 && identOf(call.Args[0]) != nil && info.Uses[identOf(call.Args[0])] == gidx {
						n, _ := strconv.Atoi(fn.Name()[5:])
						if n == len(call.Args)-1 {
							okGet = true
							for j, a := range call.Args[1:] {
								r, _ := fieldsTouched(info, []ast.Node{a}, recvOf(get))
								getFields[j] = r
							}
						}
					}
				}
			}
		}
		if !okGet && k == 1 && len(get.Body.List) == 1 {
			if r, ok := get.Body.List[0].(*ast.ReturnStmt); ok && len(r.Results) == 1 {
				uses := false
				ast.Inspect(r, func(m ast.Node) bool {
					if id, ok := m.(*ast.Ident); ok && info.Uses[id] == gidx {
						uses = true
					}
					return true
				})
				if !uses {
					rd, _ := fieldsTouched(info, []ast.Node{r}, recvOf(get))
					if len(rd) > 0 {
						okGet = true
						getFields[0] = rd
					}
				}
			}
		}
		if !okGet {
			arms, _, ok := indexArms(info, get, gidx)
			if ok {
				okGet = true
				for j, nodes := range arms {
					if j < 0 {
						continue
					}
					r, _ := fieldsTouched(info, nodes, recvOf(get))
					getFields[j] = r
				}
			}
		}
		// Set arms
		setFields := map[int]map[string]bool{}
		sidx := info.Defs[set.Type.Params.List[0].Names[0]]
		sarms, _, okSet := indexArms(info, set, sidx)
		if okSet {
			for j, nodes := range sarms {
				if j < 0 {
					continue
				}
				_, wts := fieldsTouched(info, nodes, recvOf(set))
				setFields[j] = wts
			}
		}
		if !okGet || !okSet {
			c.Ob("W2-index", key, get, false, "Get/Set dispatch on the index is not recognised")
			continue
		}
		// (a) indexes are exactly 0..k-1
		idxOK := len(getFields) == k && len(setFields) == k
		for j := 0; j < k; j++ {
			if getFields[j] == nil || setFields[j] == nil {
				idxOK = false
			}
		}
		c.Ob("W2-index", key, get, idxOK, fmt.Sprintf("Size()=%d; Get accepts %v, Set accepts %v", k, intKeys(getFields), intKeys(setFields)))
		// badIndex bound
		badOK := true
		for _, fd := range []*ast.FuncDecl{get, set} {
			inspectCalls(fd.Body, func(call *ast.CallExpr) {
				if fn := calleeOf(info, call); fn != nil && fn.Name() == "badIndex" && len(call.Args) == 2 {
					if v, ok := constInt(info, call.Args[1]); !ok || int(v) != k {
						badOK = false
					}
				}
			})
		}
		c.Ob("W2-index", key+"/badIndex", get, badOK, "out-of-range indexes are reported against the same size")
		// (b) Get(j) and Set(j) address the same field
		covered := map[string]bool{}
		for j := 0; j < k; j++ {
			g, s := getFields[j], setFields[j]
			same := len(g) > 0
			for f := range g {
				covered[f] = true
				if !s[f] {
					same = false
				}
			}
			for f := range s {
				covered[f] = true
			}
			c.Ob("W3-get-set", fmt.Sprintf("%s/%d", key, j), set, same, fmt.Sprintf("child %d: Get reads %v, Set writes %v", j, keysOf(g), keysOf(s)))
		}
		// New() copies
		copied := map[string]bool{}
		ast.Inspect(nw.Body, func(n ast.Node) bool {
			if lit, ok := n.(*ast.CompositeLit); ok {
				if t := info.TypeOf(lit); t != nil && types.Identical(t, w.node) {
					for _, el := range lit.Elts {
						if kv, ok := el.(*ast.KeyValueExpr); ok {
							if id := identOf(kv.Key); id != nil {
								copied[id.Name] = true
							}
						}
					}
				}
			}
			return true
		})
		// (c)(d) field coverage
		for i := 0; i < w.st.NumFields(); i++ {
			f := w.st.Field(i)
			fk := key + "." + f.Name()
			if isCommentGroup(f.Type()) {
				continue // comments are not part of the tree the wrapper models
			}
			if isNodeType(f.Type(), nodeIface) {
				c.Ob("W4-field-coverage", fk, get, covered[f.Name()], "child field "+f.Name()+" ("+types.TypeString(f.Type(), func(p *types.Package) string { return p.Name() })+") is reachable through some Get/Set index")
			} else if isStructuralScalar(f.Type()) {
				c.Ob("W4-field-coverage", fk, nw, copied[f.Name()] || covered[f.Name()], "scalar field "+f.Name()+" ("+types.TypeString(f.Type(), func(p *types.Package) string { return p.Name() })+") is copied by New() or assigned by a Set arm")
			}
		}
	}
	c.Extra("wrappers", len(ws))
	// slice wrappers: Get(i) reads X[i], Set(i) writes X[i]
	for _, name := range pk.Types.Scope().Names() {
		tn, ok := pk.Types.Scope().Lookup(name).(*types.TypeName)
		if !ok {
			continue
		}
		st, ok := tn.Type().Underlying().(*types.Struct)
		if !ok || st.NumFields() != 1 || st.Field(0).Name() != "X" {
			continue
		}
		if _, isSlice := st.Field(0).Type().(*types.Slice); !isSlice {
			continue
		}
		key := "ast2." + name
		get, set, size := c.P.Func(key+".Get"), c.P.Func(key+".Set"), c.P.Func(key+".Size")
		if get == nil || set == nil || size == nil {
			continue
		}
		okG, okS, okZ := false, false, false
		ast.Inspect(get.Body, func(n ast.Node) bool {
			if ix, ok := n.(*ast.IndexExpr); ok && identOf(ix.Index) != nil && info.Uses[identOf(ix.Index)] == info.Defs[get.Type.Params.List[0].Names[0]] {
				okG = true
			}
			return true
		})
		ast.Inspect(set.Body, func(n ast.Node) bool {
			if as, ok := n.(*ast.AssignStmt); ok && len(as.Lhs) == 1 {
				if ix, ok := unparen(as.Lhs[0]).(*ast.IndexExpr); ok && identOf(ix.Index) != nil && info.Uses[identOf(ix.Index)] == info.Defs[set.Type.Params.List[0].Names[0]] {
					okS = true
				}
			}
			return true
		})
		inspectCalls(size.Body, func(call *ast.CallExpr) {
			if id := identOf(call.Fun); id != nil && id.Name == "len" {
				okZ = true
			}
		})
		c.Ob("W6-slice-wrapper", key, get, okG && okS && okZ, "Size() = len(X), Get(i) reads X[i], Set(i) writes X[i]")
	}
}

func intKeys(m map[int]map[string]bool) []int {
	var l []int
	for k := range m {
		l = append(l, k)
	}
	sort.Ints(l)
	return l
}

func keysOf(m map[string]bool) []string {
	var l []string
	for k := range m {
		l = append(l, k)
	}
	sort.Strings(l)
	return l
}

// isStructuralScalar: operator tokens, literal text, flags and enumerations — the scalar
// parts of a node that the property calls "operator, literal, tokens, flags". Positions,
// resolver objects and scopes are not structural.
func isStructuralScalar(t types.Type) bool {
	switch x := t.(type) {
	case *types.Basic:
		return true
	case *types.Named:
		if x.Obj().Pkg() != nil && x.Obj().Pkg().Path() == "go/token" && x.Obj().Name() == "Pos" {
			return false
		}
		_, isBasic := x.Underlying().(*types.Basic)
		return isBasic
	}
	return false
}

func isCommentGroup(t types.Type) bool {
	if p, ok := t.(*types.Pointer); ok {
		if n, ok := p.Elem().(*types.Named); ok && n.Obj().Name() == "CommentGroup" {
			return true
		}
	}
	if sl, ok := t.(*types.Slice); ok {
		return isCommentGroup(sl.Elem())
	}
	return false
}

// checkListWrapper: wrappers whose children are the elements of one list field of the node.
func checkListWrapper(c *Ctx, info *types.Info, key string, node *types.Named, st *types.Struct, listField string, get, set, nw *ast.FuncDecl, nodeIface *types.Interface) {
	usesListAt := func(fd *ast.FuncDecl, write bool) bool {
		idx := info.Defs[fd.Type.Params.List[0].Names[0]]
		ok := false
		ast.Inspect(fd.Body, func(n ast.Node) bool {
			check := func(e ast.Expr) {
				if ix, isIx := unparen(e).(*ast.IndexExpr); isIx && identOf(ix.Index) != nil && info.Uses[identOf(ix.Index)] == idx {
					if sel, isSel := unparen(ix.X).(*ast.SelectorExpr); isSel && sel.Sel.Name == listField {
						ok = true
					}
				}
			}
			if write {
				if as, isAs := n.(*ast.AssignStmt); isAs {
					for _, l := range as.Lhs {
						check(l)
					}
				}
			} else if e, isE := n.(ast.Expr); isE {
				check(e)
			}
			return true
		})
		return ok
	}
	c.Ob("W6-list-wrapper", key, get, usesListAt(get, false) && usesListAt(set, true), "Size() = len(X."+listField+"), Get(i) reads X."+listField+"[i], Set(i) writes X."+listField+"[i]")
	copied := map[string]bool{}
	ast.Inspect(nw.Body, func(n ast.Node) bool {
		if lit, ok := n.(*ast.CompositeLit); ok {
			if t := info.TypeOf(lit); t != nil && types.Identical(t, node) {
				for _, el := range lit.Elts {
					if kv, ok := el.(*ast.KeyValueExpr); ok {
						if id := identOf(kv.Key); id != nil {
							copied[id.Name] = true
						}
					}
				}
			}
		}
		return true
	})
	for i := 0; i < st.NumFields(); i++ {
		f := st.Field(i)
		if f.Name() == listField || isCommentGroup(f.Type()) {
			continue
		}
		fk := key + "." + f.Name()
		if isNodeType(f.Type(), nodeIface) || isStructuralScalar(f.Type()) {
			c.Ob("W4-field-coverage", fk, nw, copied[f.Name()], "field "+f.Name()+" of a list-shaped node is copied by New()")
		}
	}
}
