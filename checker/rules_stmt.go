package main

// S1 — statement protocol. A statement closure func(*Env) (Stmt, *Env) must return the
// next statement of the environment it returns, after advancing that environment's
// instruction pointer exactly once (IP++), or to an explicit target (IP = t; Code[t]),
// or hand control to the interrupt trampoline.

import (
	"fmt"
	"go/ast"
	"go/token"
	"go/types"
	"sort"
	"strings"
)

type ipState struct {
	set  bool   // an absolute `E.IP = e` happened
	incs int    // increments since the last absolute set (capped at 2)
	last string // canonical text of the last absolute target
}

type ipStates map[ipState]bool

type ipInterp struct {
	info  *types.Info
	fset  *token.FileSet
	state map[types.Object]ipStates
	cz    *canonizer
	onRet func(r *ast.ReturnStmt, st map[types.Object]ipStates)
}

func cloneIP(s map[types.Object]ipStates) map[types.Object]ipStates {
	n := map[types.Object]ipStates{}
	for k, v := range s {
		m := ipStates{}
		for a := range v {
			m[a] = true
		}
		n[k] = m
	}
	return n
}

func joinIP(a, b map[types.Object]ipStates) map[types.Object]ipStates {
	n := cloneIP(a)
	for k, v := range b {
		if n[k] == nil {
			n[k] = ipStates{}
			// variable unseen on the other path: it is in its initial state there
			n[k][ipState{}] = true
		}
		for s := range v {
			n[k][s] = true
		}
	}
	for k := range a {
		if _, ok := b[k]; !ok {
			n[k][ipState{}] = true
		}
	}
	return n
}

func (p *ipInterp) envObj(e ast.Expr) types.Object {
	id := identOf(e)
	if id == nil {
		return nil
	}
	o := p.info.Uses[id]
	if o == nil {
		o = p.info.Defs[id]
	}
	if o != nil && isEnvPtr(o.Type()) {
		return o
	}
	return nil
}

func (p *ipInterp) get(o types.Object) ipStates {
	if s, ok := p.state[o]; ok {
		return s
	}
	return ipStates{ipState{}: true}
}

// ipTarget recognises E.IP as an lvalue.
func (p *ipInterp) ipTarget(e ast.Expr) types.Object {
	sel, ok := unparen(e).(*ast.SelectorExpr)
	if !ok || sel.Sel.Name != "IP" {
		return nil
	}
	return p.envObj(sel.X)
}

func (p *ipInterp) stmts(l []ast.Stmt) {
	for _, s := range l {
		p.stmt(s)
	}
}

func (p *ipInterp) stmt(s ast.Stmt) {
	switch x := s.(type) {
	case nil:
	case *ast.BlockStmt:
		p.stmts(x.List)
	case *ast.IncDecStmt:
		if o := p.ipTarget(x.X); o != nil && x.Tok == token.INC {
			n := ipStates{}
			for st := range p.get(o) {
				st.incs++
				if st.incs > 2 {
					st.incs = 2
				}
				n[st] = true
			}
			p.state[o] = n
		} else if o := p.ipTarget(x.X); o != nil {
			p.state[o] = ipStates{ipState{incs: 2}: true} // IP-- is never legal
		}
	case *ast.AssignStmt:
		for i, l := range x.Lhs {
			if o := p.ipTarget(l); o != nil {
				if x.Tok == token.ASSIGN && len(x.Rhs) == len(x.Lhs) {
					p.state[o] = ipStates{ipState{set: true, last: p.cz.expr(x.Rhs[i])}: true}
				} else {
					p.state[o] = ipStates{ipState{incs: 2}: true}
				}
				continue
			}
			// env variable (re)bound: a different frame, nothing written to its IP yet
			if o := p.envObj(l); o != nil && (x.Tok == token.ASSIGN || x.Tok == token.DEFINE) {
				p.state[o] = ipStates{ipState{}: true}
			}
		}
	case *ast.IfStmt:
		if x.Init != nil {
			p.stmt(x.Init)
		}
		saved := p.state
		p.state = cloneIP(saved)
		p.stmts(x.Body.List)
		a := p.state
		aTerm := terminates(x.Body)
		p.state = cloneIP(saved)
		bTerm := false
		if x.Else != nil {
			p.stmt(x.Else)
			if blk, ok := x.Else.(*ast.BlockStmt); ok {
				bTerm = terminates(blk)
			}
		}
		switch {
		case aTerm && !bTerm:
			// keep else state
		case bTerm && !aTerm:
			p.state = a
		default:
			p.state = joinIP(a, p.state)
		}
	case *ast.ForStmt:
		if x.Init != nil {
			p.stmt(x.Init)
		}
		// 0 or more iterations: join of skipping and executing once; a write inside a loop counts as repeated
		saved := cloneIP(p.state)
		p.stmts(x.Body.List)
		if x.Post != nil {
			p.stmt(x.Post)
		}
		for o, sts := range p.state {
			if !sameStates(sts, saved[o]) {
				// written in the loop body: may repeat
				n := ipStates{}
				for st := range sts {
					if !st.set {
						st.incs = 2
					}
					n[st] = true
				}
				p.state[o] = n
			}
		}
		p.state = joinIP(saved, p.state)
	case *ast.RangeStmt:
		saved := cloneIP(p.state)
		p.stmts(x.Body.List)
		p.state = joinIP(saved, p.state)
	case *ast.SwitchStmt:
		if x.Init != nil {
			p.stmt(x.Init)
		}
		p.clauses(x.Body)
	case *ast.TypeSwitchStmt:
		if x.Init != nil {
			p.stmt(x.Init)
		}
		p.clauses(x.Body)
	case *ast.SelectStmt:
		p.clauses(x.Body)
	case *ast.LabeledStmt:
		p.stmt(x.Stmt)
	case *ast.ReturnStmt:
		p.onRet(x, p.state)
	}
}

func sameStates(a, b ipStates) bool {
	if b == nil {
		b = ipStates{ipState{}: true}
	}
	if len(a) != len(b) {
		return false
	}
	for k := range a {
		if !b[k] {
			return false
		}
	}
	return true
}

// terminates: the block always ends in return or panic.
func terminates(b *ast.BlockStmt) bool {
	if b == nil || len(b.List) == 0 {
		return false
	}
	switch x := b.List[len(b.List)-1].(type) {
	case *ast.ReturnStmt:
		return true
	case *ast.ExprStmt:
		if call, ok := x.X.(*ast.CallExpr); ok {
			if id := identOf(call.Fun); id != nil && id.Name == "panic" {
				return true
			}
		}
	case *ast.BlockStmt:
		return terminates(x)
	case *ast.IfStmt:
		if blk, ok := x.Else.(*ast.BlockStmt); ok {
			return terminates(x.Body) && terminates(blk)
		}
	}
	return false
}

func (p *ipInterp) clauses(body *ast.BlockStmt) {
	saved := p.state
	var joined map[types.Object]ipStates
	hasDefault := false
	for _, cc := range body.List {
		p.state = cloneIP(saved)
		var list []ast.Stmt
		switch cl := cc.(type) {
		case *ast.CaseClause:
			if cl.List == nil {
				hasDefault = true
			}
			list = cl.Body
		case *ast.CommClause:
			if cl.Comm == nil {
				hasDefault = true
			} else {
				p.stmt(cl.Comm)
			}
			list = cl.Body
		}
		p.stmts(list)
		if len(list) > 0 && terminates(&ast.BlockStmt{List: list}) {
			continue
		}
		if joined == nil {
			joined = p.state
		} else {
			joined = joinIP(joined, p.state)
		}
	}
	if !hasDefault {
		if joined == nil {
			joined = saved
		} else {
			joined = joinIP(joined, saved)
		}
	}
	if joined == nil {
		joined = saved
	}
	p.state = joined
}

// ruleStmtProtocol checks every statement closure of the package (or of the given files).
func ruleStmtProtocol(c *Ctx, short string, files []string, rule string) {
	pk := c.P.Pkg(short)
	info := pk.TypesInfo
	fileSet := map[string]bool{}
	for _, f := range files {
		fileSet[f] = true
	}
	nclos := 0
	for _, f := range pk.Syntax {
		if len(files) > 0 && !fileSet[baseName(c.P.Fset, f)] {
			continue
		}
		var fdStack []*ast.FuncDecl
		ords := map[string]int{}
		for _, d := range f.Decls {
			fd, ok := d.(*ast.FuncDecl)
			if !ok || fd.Body == nil {
				continue
			}
			fdStack = append(fdStack[:0], fd)
			fkey := funcKey(pk, fd)
			ast.Inspect(fd.Body, func(n ast.Node) bool {
				fl, ok := n.(*ast.FuncLit)
				if !ok || !isStmtSig(info.TypeOf(fl)) {
					return true
				}
				nclos++
				ords[fkey]++
				checkStmtClosure(c, info, fkey, ords[fkey], fl, rule)
				return true
			})
		}
	}
	c.Extra(rule+"_closures", nclos)
}

func checkStmtClosure(c *Ctx, info *types.Info, fkey string, ord int, fl *ast.FuncLit, rule string) {
	cz := newCanonizer(info, c.P.Fset, nil, nil, fl)
	cz.sig(fl.Type)
	p := &ipInterp{info: info, fset: c.P.Fset, state: map[types.Object]ipStates{}, cz: cz}
	// local Stmt variables: their definitions inside the closure
	localDefs := map[types.Object][]ast.Expr{}
	ast.Inspect(fl.Body, func(n ast.Node) bool {
		if as, ok := n.(*ast.AssignStmt); ok && len(as.Lhs) == len(as.Rhs) {
			for i, l := range as.Lhs {
				if id := identOf(l); id != nil {
					o := info.Defs[id]
					if o == nil {
						o = info.Uses[id]
					}
					if o != nil && isNamedType(o.Type(), "fast", "Stmt") {
						localDefs[o] = append(localDefs[o], as.Rhs[i])
					}
				}
			}
		}
		return true
	})
	nret := 0
	// key: label path is not available here (closures may sit outside families): use function + canonical ordinal
	key := fmt.Sprintf("%s/stmt%d", fkey, ord)
	var shapeOK func(a ast.Expr, E types.Object, st map[types.Object]ipStates, depth int) (bool, string)
	shapeOK = func(a ast.Expr, E types.Object, st map[types.Object]ipStates, depth int) (bool, string) {
		a = unparen(a)
		// X.Interrupt: trampoline
		if sel, ok := a.(*ast.SelectorExpr); ok && sel.Sel.Name == "Interrupt" && isNamedType(info.TypeOf(sel.X), "fast", "Run") {
			return true, "interrupt trampoline"
		}
		if id := identOf(a); id != nil {
			if id.Name == "nil" {
				return true, "nil statement (end of code)"
			}
			o := info.Uses[id]
			if defs, ok := localDefs[o]; ok && depth < 2 && len(defs) > 0 {
				for _, d := range defs {
					if ok, why := shapeOK(d, E, st, depth+1); !ok {
						return false, "local " + id.Name + " may hold " + exprString(d) + ": " + why
					}
				}
				return true, "local statement variable, every definition has an accepted shape"
			}
			return false, "returns statement variable " + id.Name + " that is not derived from the returned environment"
		}
		ix, ok := a.(*ast.IndexExpr)
		if !ok {
			return false, "unrecognised statement expression " + exprString(a)
		}
		csel, ok := unparen(ix.X).(*ast.SelectorExpr)
		if !ok || csel.Sel.Name != "Code" {
			return false, "statement is not taken from an environment's Code"
		}
		CE := p.envObj(csel.X)
		if CE == nil || CE != E {
			return false, fmt.Sprintf("statement taken from %s.Code but environment %s is returned", exprString(csel.X), E.Name())
		}
		states := st[E]
		if states == nil {
			states = ipStates{ipState{}: true}
		}
		if tgt := p.ipTarget(ix.Index); tgt != nil {
			if tgt != E {
				return false, "index uses the IP of a different environment"
			}
			for s := range states {
				good := (s.set && s.incs <= 1) || (!s.set && s.incs == 1)
				if !good {
					return false, fmt.Sprintf("on some path %s.IP is advanced %d times (absolute set: %v) before Code[IP] is returned", E.Name(), s.incs, s.set)
				}
			}
			return true, "Code[IP] after exactly one advance of IP on every path"
		}
		// an explicit target must make progress: it may not be the current IP itself
		stuck := false
		targets := []ast.Expr{ix.Index}
		if id := identOf(ix.Index); id != nil {
			o := info.Uses[id]
			ast.Inspect(fl.Body, func(n ast.Node) bool {
				if as, ok := n.(*ast.AssignStmt); ok && len(as.Lhs) == len(as.Rhs) {
					for i, l := range as.Lhs {
						if lid := identOf(l); lid != nil && (info.Uses[lid] == o || info.Defs[lid] == o) {
							targets = append(targets, as.Rhs[i])
						}
					}
				}
				return true
			})
		}
		for _, t := range targets {
			if p.ipTarget(t) == E {
				stuck = true
			}
		}
		if stuck {
			return false, "the explicit jump target may be the current IP itself: the same statement would run again"
		}
		want := cz.expr(ix.Index)
		for s := range states {
			if !(s.set && s.incs == 0 && s.last == want) {
				return false, fmt.Sprintf("returns Code[%s] but on some path %s.IP was not set to that target (set=%v incs=%d last=%s)", exprString(ix.Index), E.Name(), s.set, s.incs, s.last)
			}
		}
		return true, "Code[t] with IP = t on every path"
	}
	p.onRet = func(r *ast.ReturnStmt, st map[types.Object]ipStates) {
		nret++
		rk := fmt.Sprintf("%s/ret%d", key, nret)
		if len(r.Results) != 2 {
			c.Ob(rule, rk, r, false, "statement closure returns "+fmt.Sprint(len(r.Results))+" values")
			return
		}
		E := p.envObj(r.Results[1])
		if E == nil {
			c.Ob(rule, rk, r, false, "second result is not an environment variable: "+exprString(r.Results[1]))
			return
		}
		ok, why := shapeOK(r.Results[0], E, st, 0)
		c.Ob(rule, rk, r, ok, why)
	}
	// walk only this closure's own statements (nested closures are checked on their own)
	p.stmts(fl.Body.List)
	if nret == 0 {
		c.Ob(rule, key, fl, false, "statement closure without return")
	}
}

func sortedObjKeys(m map[string]bool) []string {
	var l []string
	for k := range m {
		l = append(l, k)
	}
	sort.Strings(l)
	return l
}

var _ = strings.Contains
