package main

// A4b — unboxed-slot guard. A closure may address E.Ints[i] for the slot of a
// variable (index derived from a *Var/*Symbol/*Bind/*Place parameter or receiver) only
// where the variable's class is known to be IntBind: under an `if class == IntBind`
// arm inside the function, or because every call site of the function is under
// such a test (case IntBind / if ... == IntBind), transitively.

import (
	"fmt"
	"go/ast"
	"go/token"
	"go/types"
	"os"
	"sort"
	"strings"
)

func mentionsIntBind(info *types.Info, e ast.Expr) bool {
	found := false
	ast.Inspect(e, func(n ast.Node) bool {
		if id, ok := n.(*ast.Ident); ok && objQName(info.Uses[id]) == "fast.IntBind" {
			found = true
		}
		return true
	})
	return found
}

// callGuardedByIntBind walks the ancestors of a call site.
func nodeGuardedByIntBind(info *types.Info, di *defIndex, fd *ast.FuncDecl, target ast.Node) bool {
	guarded := false
	var stack []ast.Node
	ast.Inspect(fd, func(n ast.Node) bool {
		if n == nil {
			stack = stack[:len(stack)-1]
			return true
		}
		stack = append(stack, n)
		if n != target {
			return true
		}
		for i := len(stack) - 2; i >= 0; i-- {
			switch x := stack[i].(type) {
			case *ast.CaseClause:
				for _, e := range x.List {
					if objQName(usedObj(info, e)) == "fast.IntBind" && len(x.List) == 1 {
						guarded = true
					}
				}
			case *ast.IfStmt:
				inThen := containsNode(x.Body, target)
				cond := unparen(x.Cond)
				if id := identOf(cond); id != nil {
					if d := di.single(info.Uses[id]); d != nil {
						cond = unparen(d)
					}
				}
				for _, a := range andAtoms(cond) {
					if b, ok := a.(*ast.BinaryExpr); ok && mentionsIntBind(info, b) {
						if (b.Op == token.EQL && inThen) || (b.Op == token.NEQ && !inThen) {
							guarded = true
						}
					}
				}
			}
		}
		return false
	})
	return guarded
}

func ruleIntsGuard(c *Ctx, short string, rule string) {
	fam := families(c, short)
	pk := c.P.Pkg(short)
	info := pk.TypesInfo
	type need struct {
		fd       *ast.FuncDecl
		fkey     string
		unguard  int
		guarded  int
		firstPos ast.Node
	}
	needs := map[*ast.FuncDecl]*need{}
	var order []*ast.FuncDecl
	for _, m := range fam.members {
		di := fam.di[m.FD]
		// parameters and receiver of the enclosing function that describe a variable
		roots := map[types.Object]bool{}
		for _, fl := range []*ast.FieldList{m.FD.Recv, m.FD.Type.Params} {
			if fl == nil {
				continue
			}
			for _, f := range fl.List {
				for _, nm := range f.Names {
					o := info.Defs[nm]
					if o == nil {
						continue
					}
					for _, tn := range []string{"Var", "Symbol", "Bind", "Place"} {
						if isNamedType(o.Type(), "fast", tn) {
							roots[o] = true
						}
					}
				}
			}
		}
		storage := ""
		for _, e := range m.Path {
			if e.Kind == "if" {
				if st := intBindsGuard(info, di, e); st != "" {
					storage = st
				}
			}
			if e.Kind == "sw" && strings.HasSuffix(e.Label, "=IntBind") {
				storage = "ints"
			}
		}
		ast.Inspect(m.Lit, func(n ast.Node) bool {
			ix, ok := n.(*ast.IndexExpr)
			if !ok {
				return true
			}
			_, idx, ok := intsAccess(info, ix)
			if !ok {
				return true
			}
			r := di.rootOf(info, idx, 0)
			if r == nil || !roots[r] {
				// a local that describes a variable chosen by user code (the result of a function that resolves
				// an expression to a place): its class is as unknown as a parameter's
				r = di.nearRoot(info, idx, 0)
				if r == nil || !userPlaceLocal(info, di, r) {
					return true
				}
			}
			nd := needs[m.FD]
			if nd == nil {
				nd = &need{fd: m.FD, fkey: m.FKey, firstPos: ix}
				needs[m.FD] = nd
				order = append(order, m.FD)
			}
			if storage == "ints" {
				nd.guarded++
			} else {
				nd.unguard++
			}
			return true
		})
	}
	// function-level early return: `if !intbinds { return ... }` before the closures
	earlyGuard := func(fd *ast.FuncDecl) bool {
		di := fam.di[fd]
		if di == nil {
			di = buildDefIndex(info, fd)
		}
		for _, st := range fd.Body.List {
			ifs, ok := st.(*ast.IfStmt)
			if !ok || !terminates(ifs.Body) {
				continue
			}
			cond := unparen(ifs.Cond)
			neg := false
			if u, ok := cond.(*ast.UnaryExpr); ok && u.Op == token.NOT {
				neg = true
				cond = unparen(u.X)
			}
			if id := identOf(cond); id != nil {
				if d := di.single(info.Uses[id]); d != nil {
					cond = unparen(d)
				}
			}
			if b, ok := cond.(*ast.BinaryExpr); ok && mentionsIntBind(info, b) {
				if (b.Op == token.NEQ && !neg) || (b.Op == token.EQL && neg) {
					return true
				}
			}
		}
		return false
	}
	// call sites per function
	type site struct {
		fd   *ast.FuncDecl
		call *ast.CallExpr
	}
	sites := map[string][]site{}
	for _, f := range pk.Syntax {
		for _, d := range f.Decls {
			fd, ok := d.(*ast.FuncDecl)
			if !ok || fd.Body == nil {
				continue
			}
			inspectCalls(fd.Body, func(call *ast.CallExpr) {
				if fn := calleeOf(info, call); fn != nil && fn.Pkg() == pk.Types {
					sites[funcFullName(fn)] = append(sites[funcFullName(fn)], site{fd, call})
				}
			})
		}
	}
	var proven func(fd *ast.FuncDecl, depth int) (bool, string)
	memo := map[*ast.FuncDecl]int{}
	proven = func(fd *ast.FuncDecl, depth int) (bool, string) {
		if v, ok := memo[fd]; ok {
			return v == 1, "memo"
		}
		if depth > 3 {
			return false, "call chain too deep"
		}
		if earlyGuard(fd) {
			memo[fd] = 1
			return true, "early return unless class == IntBind"
		}
		key := funcKey(pk, fd)
		ss := sites[key]
		if len(ss) == 0 {
			return false, "no call site found (dead or called through a function value)"
		}
		for _, s := range ss {
			di := fam.di[s.fd]
			if di == nil {
				di = buildDefIndex(info, s.fd)
			}
			if nodeGuardedByIntBind(info, di, s.fd, s.call) {
				continue
			}
			// the caller itself may be a function that is only entered for IntBind variables
			if s.fd != fd {
				memo[fd] = 0 // cycle guard
				if ok, _ := proven(s.fd, depth+1); ok && needs[s.fd] != nil {
					delete(memo, fd)
					continue
				}
				delete(memo, fd)
			}
			return false, fmt.Sprintf("call site in %s at %s is not under a class == IntBind test", funcKey(pk, s.fd), c.pos(s.call))
		}
		memo[fd] = 1
		return true, fmt.Sprintf("all %d call sites are under a class == IntBind test", len(ss))
	}
	sort.Slice(order, func(i, j int) bool { return needs[order[i]].fkey < needs[order[j]].fkey })
	for _, fd := range order {
		nd := needs[fd]
		if nd.unguard == 0 {
			c.Ob(rule, nd.fkey, nd.firstPos, true, fmt.Sprintf("%d unboxed slot accesses, all under an in-function IntBind arm", nd.guarded))
			continue
		}
		ok, why := proven(fd, 0)
		c.Ob(rule, nd.fkey, nd.firstPos, ok, fmt.Sprintf("%d unboxed slot accesses outside any in-function IntBind arm: %s", nd.unguard, why))
	}
}

// userPlaceFuncs are the functions of package fast that resolve an expression written by the user to a
// variable or place: the class of what they return is arbitrary (frozen after reading every function of
// package fast that returns *Place, *Var, *Symbol or *Bind: the others declare a new variable).
var userPlaceFuncs = map[string]bool{
	"fast.Comp.rangeVars": true, "fast.Comp.Place": true, "fast.Comp.placeOrAddress": true, "fast.Comp.LookupVar": true,
	"fast.Comp.Resolve": true, "fast.Comp.TryResolve": true, "fast.Comp.tryResolve": true, "fast.Comp.IdentPlace": true,
	"fast.Import.selectorPlace": true, "fast.Comp.IndexPlace": true, "fast.Comp.SelectorPlace": true,
}

func userPlaceLocal(info *types.Info, di *defIndex, o types.Object) bool {
	v, ok := o.(*types.Var)
	if !ok || v.IsField() {
		return false
	}
	is := false
	for _, tn := range []string{"Var", "Symbol", "Bind", "Place"} {
		if isNamedType(o.Type(), "fast", tn) {
			is = true
		}
	}
	if !is {
		return false
	}
	for _, d := range di.defs[o] {
		call, ok := unparen(d).(*ast.CallExpr)
		if !ok {
			continue
		}
		if fn := calleeOf(info, call); fn != nil {
			if os.Getenv("VERIF_EXPLORE") != "" {
				fmt.Println("EXPLORE userplace", o.Name(), funcFullName(fn))
			}
			if userPlaceFuncs[funcFullName(fn)] {
				return true
			}
		}
	}
	return false
}
